//! C06 correspondence: storage-length validation in the tensor constructors, capacity checks
//! and checked indexing of rten-tensor, observed through the public API.
//!
//!   c06 gen <seed> <n> <tier>     print input lines
//!   c06 exec                      read input lines, print `tag \t input \t coq-case`
//!
//! Input lines (fields separated by `|`, lists by `,`):
//!   c|<ctor>|<kind>|<elem>|<shape>|<strides>|<n>          constructor with storage of n elements
//!        ctor: tfd try_from_data, fd from_data, fdws from_data_with_strides,
//!              fsws from_slice_with_strides, fslm/fsli from_storage_and_layout (Vec / view)
//!        kind: nd | dyn      elem: u (u32, data[i] = i) | z (zero-sized elements, any length)
//!   e|<kind>|<elem>|<shape>|<strides>|<n>|<cap>|<axis>|<new_size>      has_capacity
//!   o|<kind>|<shape>|<strides>|<idx>                                   Layout::offset
//!   w|<kind>|<shape>|<strides>|<n>|<idx>                               weakly_checked_view()[idx]
//!   a|nd|<shape>|<strides>|<n>|<base>|<dim>|<M>                        get_array::<M>(base, dim)
//!   h|<kind>|<shape>|<cap>|<ops>|<axis>|<new_size>     history on an owned tensor made by from_data
//!        (Vec capacity cap), ops separated by `;`: `a<axis>:<k>` append k entries along axis,
//!        `t` transpose, `p<d0><d1>..` permute; then has_capacity(axis, new_size) on the reached state
//!
//! The harness never dereferences an element of a tensor whose layout its own u128 oracle does
//! not prove in bounds: for such (wrongly) accepted tensors only the acceptance is reported.
use rten_tensor::errors::FromDataError;
use rten_tensor::layout::{DynLayout, MutLayout, NdLayout, OverlapPolicy};
use rten_tensor::prelude::*;
use rten_tensor::storage::{IntoStorage, ViewData};
use rten_tensor::{NdTensor, NdTensorView, Tensor, TensorBase, TensorView};
use std::cell::RefCell;
use std::io::{BufRead, Write};
use vh_tensor::*;

// ------------------------------------------------------------------ outcomes
#[derive(Clone, Debug, PartialEq)]
enum Out {
    Accept(Vec<usize>, Vec<usize>),
    ErrTooShort,
    ErrLenMismatch,
    ErrMayOverlap,
    PanicOverflow,
    PanicAssert,
    PanicOther,
    CapYes,
    CapNo,
    OffSome(usize),
    OffNone,
    OffList(Vec<usize>),
}

impl Out {
    fn coq(&self) -> String {
        match self {
            Out::Accept(s, t) => format!("Accept {} {}", coq_list_n(s), coq_list_n(t)),
            Out::OffSome(o) => format!("OffSome {}", o),
            Out::OffList(l) => format!("OffList {}", coq_list_n(l)),
            o => format!("{:?}", o),
        }
    }
    fn tag(&self) -> &'static str {
        match self {
            Out::Accept(..) => "accept",
            Out::ErrTooShort => "tooshort",
            Out::ErrLenMismatch => "lenmismatch",
            Out::ErrMayOverlap => "mayoverlap",
            Out::PanicOverflow => "ovfpanic",
            Out::PanicAssert => "assertpanic",
            Out::PanicOther => "otherpanic",
            Out::CapYes => "capyes",
            Out::CapNo => "capno",
            Out::OffSome(_) => "some",
            Out::OffNone => "none",
            Out::OffList(_) => "list",
        }
    }
}

thread_local! { static LAST_PANIC: RefCell<String> = RefCell::new(String::new()); }

fn install_hook() {
    std::panic::set_hook(Box::new(|info| {
        let msg = if let Some(s) = info.payload().downcast_ref::<&str>() {
            s.to_string()
        } else if let Some(s) = info.payload().downcast_ref::<String>() {
            s.clone()
        } else {
            String::new()
        };
        LAST_PANIC.with(|p| *p.borrow_mut() = msg);
    }));
}

/// Run `f`; a panic becomes the outcome class of its message.
fn guarded<T>(f: impl FnOnce() -> T) -> Result<T, Out> {
    match std::panic::catch_unwind(std::panic::AssertUnwindSafe(f)) {
        Ok(v) => Ok(v),
        Err(_) => {
            let msg = LAST_PANIC.with(|p| p.borrow().clone());
            Err(if msg.contains("overflow") {
                Out::PanicOverflow
            } else if msg.contains("assertion failed") || msg.contains("does not match shape") || msg.contains("array indices invalid") {
                Out::PanicAssert
            } else {
                Out::PanicOther
            })
        }
    }
}

fn err_out(e: FromDataError) -> Out {
    match e {
        FromDataError::StorageTooShort => Out::ErrTooShort,
        FromDataError::StorageLengthMismatch => Out::ErrLenMismatch,
        FromDataError::MayOverlap => Out::ErrMayOverlap,
    }
}

fn debug_mode() -> bool {
    let r = std::panic::catch_unwind(|| {
        let x: usize = std::hint::black_box(usize::MAX);
        #[allow(arithmetic_overflow)]
        let y = x + std::hint::black_box(1usize);
        std::hint::black_box(y)
    });
    r.is_err()
}

// ------------------------------------------------------------------ elements
trait Elem: Clone + 'static {
    fn make(n: usize) -> Vec<Self>;
    fn off(&self) -> Option<usize>;
}
impl Elem for u32 {
    fn make(n: usize) -> Vec<u32> {
        (0..n as u32).collect()
    }
    fn off(&self) -> Option<usize> {
        Some(*self as usize)
    }
}
impl Elem for () {
    fn make(n: usize) -> Vec<()> {
        let mut v: Vec<()> = Vec::new();
        // Safety: zero-sized elements; a Vec<()> has capacity usize::MAX and nothing to initialise.
        unsafe { v.set_len(n) };
        v
    }
    fn off(&self) -> Option<usize> {
        None
    }
}

// ------------------------------------------------------------------ exact oracle (u128)
/// True when every valid index of (shape, strides) maps below `n` in exact arithmetic.
fn safe_layout(shape: &[usize], strides: &[usize], n: usize) -> bool {
    if shape.iter().any(|&s| s == 0) {
        return true;
    }
    let mut mo: u128 = 0;
    for (&s, &t) in shape.iter().zip(strides.iter()) {
        mo = mo.saturating_add((s as u128 - 1).saturating_mul(t as u128));
    }
    mo < n as u128
}

/// Size of the brute-force enumeration in the Coq oracle (empty dimensions still cost their siblings).
fn enum_count(shape: &[usize]) -> u128 {
    shape.iter().fold(1u128, |p, &s| p.saturating_mul(s.max(1) as u128))
}

fn index_count(shape: &[usize]) -> u128 {
    shape.iter().fold(1u128, |p, &s| p.saturating_mul(s as u128))
}

/// Index probes for an accepted tensor: all valid indices when few, corners otherwise, plus
/// invalid ones (one past the end, huge components, wrong rank for dynamic layouts).
fn probe_indices(shape: &[usize], dynamic: bool) -> Vec<Vec<usize>> {
    let mut ps: Vec<Vec<usize>> = vec![];
    let r = shape.len();
    let cnt = index_count(shape);
    if cnt > 0 && cnt <= 24 {
        for mut code in 0..cnt as usize {
            let mut idx = vec![0usize; r];
            for d in (0..r).rev() {
                idx[d] = code % shape[d];
                code /= shape[d];
            }
            ps.push(idx);
        }
    } else if cnt > 0 {
        ps.push(vec![0; r]);
        ps.push(shape.iter().map(|&s| s - 1).collect());
        for d in 0..r {
            let mut i = vec![0; r];
            i[d] = shape[d] - 1;
            ps.push(i);
        }
    }
    // invalid
    for d in 0..r {
        let mut i: Vec<usize> = shape.iter().map(|&s| s.saturating_sub(1)).collect();
        i[d] = shape[d];
        ps.push(i);
        if d == 0 || d + 1 == r {
            let mut j: Vec<usize> = shape.iter().map(|&s| s.saturating_sub(1)).collect();
            j[d] = usize::MAX;
            ps.push(j);
            let mut k = vec![0; r];
            k[d] = 1usize << 63;
            ps.push(k);
        }
    }
    if dynamic {
        if r > 0 {
            ps.push(vec![0; r - 1]);
        }
        ps.push(vec![0; r + 1]);
    }
    ps
}

// ------------------------------------------------------------------ probing accepted tensors
/// `offset()` answered with an offset that the harness' own check does not prove safe to
/// dereference (invalid index, or offset beyond the storage): report that answer as it is and
/// do not touch memory.
fn unsafe_to_deref(off: &Result<Option<usize>, Out>, idx: &[usize], shape: &[usize], n: usize) -> Option<Out> {
    if let Ok(Some(o)) = off {
        let valid = idx.len() == shape.len() && idx.iter().zip(shape.iter()).all(|(i, s)| i < s);
        if !valid || *o >= n {
            return Some(Out::OffSome(*o));
        }
    }
    None
}

fn probe_result<T: Elem>(
    off: Result<Option<usize>, Out>,
    got: Result<Option<Option<usize>>, Out>,
    indexed: Result<Option<usize>, Out>,
) -> Out {
    // off: layout-level offset(); got: get(idx).map(elem->offset); indexed: tensor[idx]
    let _ = std::marker::PhantomData::<T>;
    let o = match off {
        Ok(Some(o)) => Out::OffSome(o),
        Ok(None) => Out::OffNone,
        Err(e) => e,
    };
    // cross-checks: any inconsistency between the three access paths is reported as an
    // outcome the model can never produce for a probe
    let anomaly = Out::CapYes;
    match (&o, &got) {
        (Out::OffSome(x), Ok(Some(v))) => {
            if let Some(v) = v {
                if v != x {
                    return anomaly;
                }
            }
        }
        (Out::OffNone, Ok(None)) => {}
        (Out::PanicOverflow, Err(Out::PanicOverflow)) => {}
        _ => return anomaly,
    }
    match (&o, &indexed) {
        (Out::OffSome(x), Ok(v)) => {
            if let Some(v) = v {
                if v != x {
                    return anomaly;
                }
            }
        }
        (Out::OffNone, Err(Out::PanicOther)) => {}
        (Out::PanicOverflow, Err(Out::PanicOverflow)) => {}
        _ => return anomaly,
    }
    o
}

fn observe_nd<const N: usize, T: Elem, S: rten_tensor::Storage<Elem = T>>(
    t: &TensorBase<S, NdLayout<N>>,
    n: usize,
) -> (Out, Vec<(Vec<usize>, Out)>) {
    let shape = t.shape().to_vec();
    let strides = t.strides().to_vec();
    let mut probes = vec![];
    if safe_layout(&shape, &strides, n) {
        for idx in probe_indices(&shape, false) {
            let a: [usize; N] = idx.as_slice().try_into().unwrap();
            let off = guarded(|| t.offset(a));
            if let Some(o) = unsafe_to_deref(&off, &idx, &shape, n) {
                probes.push((idx, o));
                continue;
            }
            let got = guarded(|| t.get(a).map(|e| e.off()));
            let indexed = guarded(|| t[a].off());
            probes.push((idx, probe_result::<T>(off, got, indexed)));
        }
    }
    (Out::Accept(shape, strides), probes)
}

fn observe_dyn<T: Elem, S: rten_tensor::Storage<Elem = T>>(
    t: &TensorBase<S, DynLayout>,
    n: usize,
) -> (Out, Vec<(Vec<usize>, Out)>) {
    let shape = t.shape().to_vec();
    let strides = t.strides().to_vec();
    let mut probes = vec![];
    if safe_layout(&shape, &strides, n) {
        for idx in probe_indices(&shape, true) {
            let a: &[usize] = idx.as_slice();
            let off = guarded(|| t.offset(a));
            if let Some(o) = unsafe_to_deref(&off, &idx, &shape, n) {
                probes.push((idx.clone(), o));
                continue;
            }
            let got = guarded(|| t.get(a).map(|e| e.off()));
            let indexed = guarded(|| t[a].off());
            probes.push((idx.clone(), probe_result::<T>(off, got, indexed)));
        }
    }
    (Out::Accept(shape, strides), probes)
}

type Obs = (Out, Vec<(Vec<usize>, Out)>);

fn flatten(r: Result<Result<Obs, FromDataError>, Out>) -> Obs {
    match r {
        Ok(Ok(o)) => o,
        Ok(Err(e)) => (err_out(e), vec![]),
        Err(p) => (p, vec![]),
    }
}

fn ctor_nd<const N: usize, T: Elem>(ctor: &str, shape: &[usize], strides: &[usize], n: usize) -> Obs {
    let sh: [usize; N] = shape.try_into().unwrap();
    let st: [usize; N] = if strides.len() == N { strides.try_into().unwrap() } else { [0; N] };
    let data = T::make(n);
    match ctor {
        "tfd" => flatten(guarded(|| {
            NdTensor::<T, N>::try_from_data(sh, data).map(|t| observe_nd(&t, n))
        })),
        "fd" => flatten(guarded(|| Ok(observe_nd(&NdTensor::<T, N>::from_data(sh, data), n)))),
        "fdws" => flatten(guarded(|| {
            NdTensor::<T, N>::from_data_with_strides(sh, data, st).map(|t| observe_nd(&t, n))
        })),
        "fsws" => flatten(guarded(|| {
            NdTensorView::<T, N>::from_slice_with_strides(sh, data.as_slice(), st)
                .map(|t| observe_nd(&t, n))
        })),
        "fslm" | "fsli" => flatten(guarded(|| {
            let layout = NdLayout::<N>::from_shape_and_strides(sh, st, OverlapPolicy::AllowOverlap)?;
            if ctor == "fslm" {
                Ok(observe_nd(&TensorBase::<Vec<T>, _>::from_storage_and_layout(data, layout), n))
            } else {
                let view: ViewData<T> = data.as_slice().into_storage();
                Ok(observe_nd(&TensorBase::<ViewData<T>, _>::from_storage_and_layout(view, layout), n))
            }
        })),
        _ => panic!("unknown ctor {}", ctor),
    }
}

fn ctor_dyn<T: Elem>(ctor: &str, shape: &[usize], strides: &[usize], n: usize) -> Obs {
    let data = T::make(n);
    match ctor {
        "tfd" => flatten(guarded(|| Tensor::<T>::try_from_data(shape, data).map(|t| observe_dyn(&t, n)))),
        "fd" => flatten(guarded(|| Ok(observe_dyn(&Tensor::<T>::from_data(shape, data), n)))),
        "fdws" => flatten(guarded(|| {
            Tensor::<T>::from_data_with_strides(shape, data, strides).map(|t| observe_dyn(&t, n))
        })),
        "fsws" => flatten(guarded(|| {
            TensorView::<T>::from_slice_with_strides(shape, data.as_slice(), strides)
                .map(|t| observe_dyn(&t, n))
        })),
        "fslm" | "fsli" => flatten(guarded(|| {
            let layout = DynLayout::from_shape_and_strides(shape, strides, OverlapPolicy::AllowOverlap)?;
            if ctor == "fslm" {
                Ok(observe_dyn(&TensorBase::<Vec<T>, _>::from_storage_and_layout(data, layout), n))
            } else {
                let view: ViewData<T> = data.as_slice().into_storage();
                Ok(observe_dyn(&TensorBase::<ViewData<T>, _>::from_storage_and_layout(view, layout), n))
            }
        })),
        _ => panic!("unknown ctor {}", ctor),
    }
}

macro_rules! by_rank {
    ($rank:expr, $f:ident, $t:ty, $($arg:expr),*) => {
        match $rank {
            0 => $f::<0, $t>($($arg),*),
            1 => $f::<1, $t>($($arg),*),
            2 => $f::<2, $t>($($arg),*),
            3 => $f::<3, $t>($($arg),*),
            4 => $f::<4, $t>($($arg),*),
            5 => $f::<5, $t>($($arg),*),
            _ => panic!("static rank > 5"),
        }
    };
}

fn run_ctor(ctor: &str, kind: &str, elem: &str, shape: &[usize], strides: &[usize], n: usize) -> Obs {
    match (kind, elem) {
        ("nd", "u") => by_rank!(shape.len(), ctor_nd, u32, ctor, shape, strides, n),
        ("nd", _) => by_rank!(shape.len(), ctor_nd, (), ctor, shape, strides, n),
        (_, "u") => ctor_dyn::<u32>(ctor, shape, strides, n),
        _ => ctor_dyn::<()>(ctor, shape, strides, n),
    }
}

// ------------------------------------------------------------------ has_capacity
fn vec_with_cap<T: Elem>(n: usize, cap: usize) -> Vec<T> {
    let src = T::make(n);
    if std::mem::size_of::<T>() == 0 {
        return src;
    }
    let mut v: Vec<T> = Vec::with_capacity(cap.max(n));
    v.extend(src);
    v
}

/// Returns (observed capacity, outcome), or None when the base tensor cannot be built safely.
fn expand_nd<const N: usize, T: Elem>(shape: &[usize], strides: &[usize], n: usize, cap: usize, axis: usize, new: usize) -> Option<(usize, Out)> {
    let sh: [usize; N] = shape.try_into().unwrap();
    let st: [usize; N] = strides.try_into().unwrap();
    if !safe_layout(shape, strides, n) {
        return None;
    }
    let data = vec_with_cap::<T>(n, cap);
    let real_cap = data.capacity();
    let t = guarded(|| NdTensor::<T, N>::from_data_with_strides(sh, data, st)).ok()?.ok()?;
    if t.shape().to_vec() != shape || t.strides().to_vec() != strides {
        return None;
    }
    let out = match guarded(|| t.has_capacity(axis, new)) {
        Ok(true) => Out::CapYes,
        Ok(false) => Out::CapNo,
        Err(p) => p,
    };
    Some((real_cap, out))
}

fn expand_dyn<T: Elem>(shape: &[usize], strides: &[usize], n: usize, cap: usize, axis: usize, new: usize) -> Option<(usize, Out)> {
    if shape.len() != strides.len() || !safe_layout(shape, strides, n) {
        return None;
    }
    let data = vec_with_cap::<T>(n, cap);
    let real_cap = data.capacity();
    let t = guarded(|| Tensor::<T>::from_data_with_strides(shape, data, strides)).ok()?.ok()?;
    let out = match guarded(|| t.has_capacity(axis, new)) {
        Ok(true) => Out::CapYes,
        Ok(false) => Out::CapNo,
        Err(p) => p,
    };
    Some((real_cap, out))
}

// ------------------------------------------------------------------ pure layout offset
fn offset_nd<const N: usize, T>(shape: &[usize], strides: &[usize], idx: &[usize]) -> Out {
    let _ = std::marker::PhantomData::<T>;
    let sh: [usize; N] = shape.try_into().unwrap();
    let st: [usize; N] = strides.try_into().unwrap();
    let ix: [usize; N] = idx.try_into().unwrap();
    let layout = NdLayout::<N>::from_shape_and_strides(sh, st, OverlapPolicy::AllowOverlap).unwrap();
    match guarded(|| layout.offset(ix)) {
        Ok(Some(o)) => Out::OffSome(o),
        Ok(None) => Out::OffNone,
        Err(p) => p,
    }
}

fn offset_dyn(shape: &[usize], strides: &[usize], idx: &[usize]) -> Out {
    let layout = DynLayout::from_shape_and_strides(shape, strides, OverlapPolicy::AllowOverlap).unwrap();
    match guarded(|| layout.offset(idx)) {
        Ok(Some(o)) => Out::OffSome(o),
        Ok(None) => Out::OffNone,
        Err(p) => p,
    }
}

// ------------------------------------------------------------------ weakly checked view
fn weak_nd<const N: usize, T: Elem>(shape: &[usize], strides: &[usize], n: usize, idx: &[usize]) -> Option<Out> {
    let sh: [usize; N] = shape.try_into().unwrap();
    let st: [usize; N] = strides.try_into().unwrap();
    let ix: [usize; N] = idx.try_into().unwrap();
    if !safe_layout(shape, strides, n) {
        return None;
    }
    let data = T::make(n);
    let t = guarded(|| NdTensorView::<T, N>::from_slice_with_strides(sh, data.as_slice(), st)).ok()?.ok()?;
    let w = t.weakly_checked_view();
    Some(match guarded(|| w[ix].off()) {
        Ok(Some(o)) => Out::OffSome(o),
        Ok(None) => Out::PanicOther, // not reachable: weak probes use u32 elements
        Err(p) => p,
    })
}

fn weak_dyn<T: Elem>(shape: &[usize], strides: &[usize], n: usize, idx: &[usize]) -> Option<Out> {
    if shape.len() != strides.len() || !safe_layout(shape, strides, n) {
        return None;
    }
    let data = T::make(n);
    let t = guarded(|| TensorView::<T>::from_slice_with_strides(shape, data.as_slice(), strides)).ok()?.ok()?;
    let w = t.weakly_checked_view();
    Some(match guarded(|| w[idx].off()) {
        Ok(Some(o)) => Out::OffSome(o),
        Ok(None) => Out::PanicOther,
        Err(p) => p,
    })
}

// ------------------------------------------------------------------ get_array
fn array_nd<const N: usize, T>(shape: &[usize], strides: &[usize], n: usize, base: &[usize], dim: usize, m: usize) -> Option<Out> {
    let _ = std::marker::PhantomData::<T>;
    let sh: [usize; N] = shape.try_into().unwrap();
    let st: [usize; N] = strides.try_into().unwrap();
    let bs: [usize; N] = base.try_into().unwrap();
    if !safe_layout(shape, strides, n) || n > (1 << 16) {
        return None;
    }
    // the view covers data[..n]; the sentinel elements behind it make a small out-of-bounds
    // read harmless and visible (value u32::MAX, never a legal offset)
    let mut data: Vec<u32> = (0..n as u32).collect();
    data.extend(std::iter::repeat(u32::MAX).take(256));
    let t = guarded(|| NdTensorView::<u32, N>::from_slice_with_strides(sh, &data[..n], st)).ok()?.ok()?;
    let r = match m {
        1 => guarded(|| t.get_array::<1>(bs, dim).to_vec()),
        2 => guarded(|| t.get_array::<2>(bs, dim).to_vec()),
        3 => guarded(|| t.get_array::<3>(bs, dim).to_vec()),
        _ => guarded(|| t.get_array::<4>(bs, dim).to_vec()),
    };
    Some(match r {
        Ok(v) => Out::OffList(v.iter().map(|&x| x as usize).collect()),
        Err(p) => p,
    })
}

// ------------------------------------------------------------------ histories on owned tensors
/// Exact check that (shape, strides) fits in `cap` elements and maps distinct indices to
/// distinct offsets (brute force; only called on small index spaces).
fn layout_ok(shape: &[usize], strides: &[usize], cap: usize) -> bool {
    if !safe_layout(shape, strides, cap) {
        return false;
    }
    let cnt = index_count(shape);
    if cnt == 0 {
        return true;
    }
    if cnt > 4096 {
        return false;
    }
    let mut seen = std::collections::HashSet::new();
    for mut code in 0..cnt as usize {
        let mut off = 0usize;
        for d in (0..shape.len()).rev() {
            off += (code % shape[d]) * strides[d];
            code /= shape[d];
        }
        if !seen.insert(off) {
            return false;
        }
    }
    true
}

enum HistEnd {
    Skip,
    State { shape: Vec<usize>, strides: Vec<usize>, n: usize, axis: usize, new: usize, out: Out },
}

trait Owned: Sized {
    fn make(shape: &[usize], data: Vec<u32>) -> Self;
    fn shp(&self) -> Vec<usize>;
    fn strd(&self) -> Vec<usize>;
    fn dlen(&self) -> usize;
    fn hascap(&self, axis: usize, new: usize) -> bool;
    fn transp(&mut self);
    fn perm(&mut self, order: &[usize]);
    fn app(&mut self, axis: usize, other: &Self) -> bool;
}
impl Owned for Tensor<u32> {
    fn make(shape: &[usize], data: Vec<u32>) -> Self { Tensor::from_data(shape, data) }
    fn shp(&self) -> Vec<usize> { self.shape().to_vec() }
    fn strd(&self) -> Vec<usize> { self.strides().to_vec() }
    fn dlen(&self) -> usize { rten_tensor::Storage::len(&self.view().storage()) }
    fn hascap(&self, axis: usize, new: usize) -> bool { self.has_capacity(axis, new) }
    fn transp(&mut self) { self.transpose() }
    fn perm(&mut self, order: &[usize]) { self.permute(order) }
    fn app(&mut self, axis: usize, other: &Self) -> bool { self.append(axis, other).is_ok() }
}
impl<const N: usize> Owned for NdTensor<u32, N> {
    fn make(shape: &[usize], data: Vec<u32>) -> Self { NdTensor::from_data(shape.try_into().unwrap(), data) }
    fn shp(&self) -> Vec<usize> { self.shape().to_vec() }
    fn strd(&self) -> Vec<usize> { self.strides().to_vec() }
    fn dlen(&self) -> usize { rten_tensor::Storage::len(&self.view().storage()) }
    fn hascap(&self, axis: usize, new: usize) -> bool { self.has_capacity(axis, new) }
    fn transp(&mut self) { self.transpose() }
    fn perm(&mut self, order: &[usize]) { self.permute(order.try_into().unwrap()) }
    fn app(&mut self, axis: usize, other: &Self) -> bool { self.append(axis, other).is_ok() }
}

fn observe_state<T: Owned>(t: &T, axis: usize, new: usize) -> HistEnd {
    let out = match guarded(|| t.hascap(axis, new)) {
        Ok(true) => Out::CapYes,
        Ok(false) => Out::CapNo,
        Err(p) => p,
    };
    HistEnd::State { shape: t.shp(), strides: t.strd(), n: t.dlen(), axis, new, out }
}

fn history<T: Owned>(shape0: &[usize], cap: usize, ops: &[&str], axis: usize, new: usize) -> (usize, HistEnd) {
    let len0: usize = shape0.iter().product();
    if len0 > 4096 || cap > (1 << 16) {
        return (0, HistEnd::Skip);
    }
    let mut data: Vec<u32> = Vec::with_capacity(cap.max(len0));
    data.extend(0..len0 as u32);
    let real_cap = data.capacity();
    let Ok(mut t) = guarded(|| T::make(shape0, data)) else { return (real_cap, HistEnd::Skip) };
    for op in ops {
        if op.is_empty() {
            continue;
        }
        let shape = t.shp();
        let strides = t.strd();
        match &op[..1] {
            "t" => t.transp(),
            "p" => {
                let order: Vec<usize> = op[1..].bytes().map(|b| (b - b'0') as usize).collect();
                if order.len() != shape.len() || !(0..shape.len()).all(|d| order.iter().filter(|&&o| o == d).count() == 1) {
                    return (real_cap, HistEnd::Skip);
                }
                t.perm(&order);
            }
            "a" => {
                let (a, k) = op[1..].split_once(':').unwrap();
                let a: usize = a.parse().unwrap();
                let k: usize = k.parse().unwrap();
                if a >= shape.len() {
                    return (real_cap, HistEnd::Skip);
                }
                let target = shape[a] + k;
                match guarded(|| t.hascap(a, target)) {
                    Ok(true) => {
                        let mut ns = shape.clone();
                        ns[a] = target;
                        if !layout_ok(&ns, &strides, real_cap) {
                            // accepting this would install an unsafe layout: report it, do not append
                            return (real_cap, observe_state(&t, a, target));
                        }
                        let mut os = shape.clone();
                        os[a] = k;
                        let olen: usize = os.iter().product();
                        let other = T::make(&os, vec![7u32; olen]);
                        if guarded(|| t.app(a, &other)) != Ok(true) {
                            return (real_cap, HistEnd::Skip);
                        }
                    }
                    Ok(false) => {}
                    Err(_) => return (real_cap, observe_state(&t, a, target)),
                }
            }
            _ => return (real_cap, HistEnd::Skip),
        }
    }
    (real_cap, observe_state(&t, axis, new))
}

fn history_nd<const N: usize, T>(shape0: &[usize], cap: usize, ops: &[&str], axis: usize, new: usize) -> (usize, HistEnd) {
    let _ = std::marker::PhantomData::<T>;
    history::<NdTensor<u32, N>>(shape0, cap, ops, axis, new)
}

// ------------------------------------------------------------------ exec
fn coq_probes(ps: &[(Vec<usize>, Out)]) -> String {
    let v: Vec<String> = ps.iter().map(|(i, o)| format!("({}, {})", coq_list_n(i), o.coq())).collect();
    format!("[{}]", v.join(";"))
}

fn case_term(mode: &str, kind: &str, q: &str, out: &Out, probes: &[(Vec<usize>, Out)], small: bool) -> String {
    format!(
        "{{| c_mode := {}; c_kind := {}; c_q := {}; c_out := {}; c_probes := {}; c_small := {} |}}",
        mode,
        if kind == "nd" { "KNd" } else { "KDyn" },
        q,
        out.coq(),
        coq_probes(probes),
        small
    )
}

fn skip_line(line: &str, mode: &str) -> String {
    format!("trivial-skip\t{}\t{}", line, case_term(mode, "dyn", "QSkip", &Out::OffNone, &[], false))
}

fn exec_line(line: &str, mode: &str) -> String {
    let f: Vec<&str> = line.split('|').collect();
    match f[0] {
        "c" => {
            let (ctor, kind, elem) = (f[1], f[2], f[3]);
            let shape = parse_list(f[4]);
            let strides = parse_list(f[5]);
            let n: usize = f[6].parse().unwrap();
            let elem = if n > (1 << 16) { "z" } else { elem };
            let (out, probes) = run_ctor(ctor, kind, elem, &shape, &strides, n);
            let small = enum_count(&shape) <= 512;
            let cq = match ctor {
                "tfd" => "CTryFromData",
                "fd" => "CFromData",
                "fdws" => "CFromDataWithStrides",
                "fsws" => "CFromSliceWithStrides",
                "fslm" => "(CFromStorage true)",
                _ => "(CFromStorage false)",
            };
            let q = format!("QCtor {} {} {} {}", cq, coq_list_n(&shape), coq_list_n(&strides), n);
            let big = shape.iter().chain(strides.iter()).any(|&x| x >= (1 << 31)) || n >= (1 << 31);
            let tag = format!("{}-{}-{}{}", ctor, kind, out.tag(), if big { "-big" } else { "" });
            format!("{}\t{}\t{}", tag, line, case_term(mode, kind, &q, &out, &probes, small))
        }
        "e" => {
            let (kind, elem) = (f[1], f[2]);
            let shape = parse_list(f[3]);
            let strides = parse_list(f[4]);
            let n: usize = f[5].parse().unwrap();
            let cap: usize = f[6].parse().unwrap();
            let axis: usize = f[7].parse().unwrap();
            let new: usize = f[8].parse().unwrap();
            let r = match (kind, elem) {
                ("nd", "u") => by_rank!(shape.len(), expand_nd, u32, &shape, &strides, n, cap, axis, new),
                ("nd", _) => by_rank!(shape.len(), expand_nd, (), &shape, &strides, n, cap, axis, new),
                (_, "u") => expand_dyn::<u32>(&shape, &strides, n, cap, axis, new),
                _ => expand_dyn::<()>(&shape, &strides, n, cap, axis, new),
            };
            let Some((real_cap, out)) = r else { return skip_line(line, mode) };
            let mut new_shape = shape.clone();
            if axis < new_shape.len() {
                new_shape[axis] = new;
            }
            let small = enum_count(&new_shape) <= 512;
            let q = format!("QExpand {} {} {} {}%nat {}", coq_list_n(&shape), coq_list_n(&strides), real_cap, axis, new);
            let big = new >= (1 << 31);
            let tag = format!("exp-{}-{}{}", kind, out.tag(), if big { "-big" } else { "" });
            format!("{}\t{}\t{}", tag, line, case_term(mode, kind, &q, &out, &[], small))
        }
        "o" => {
            let kind = f[1];
            let shape = parse_list(f[2]);
            let strides = parse_list(f[3]);
            let idx = parse_list(f[4]);
            let out = if kind == "nd" {
                by_rank!(shape.len(), offset_nd, (), &shape, &strides, &idx)
            } else {
                offset_dyn(&shape, &strides, &idx)
            };
            let q = format!("QOffset {} {} {}", coq_list_n(&shape), coq_list_n(&strides), coq_list_n(&idx));
            let big = idx.iter().chain(strides.iter()).any(|&x| x >= (1 << 31));
            let tag = format!("off-{}-{}{}", kind, out.tag(), if big { "-big" } else { "" });
            format!("{}\t{}\t{}", tag, line, case_term(mode, kind, &q, &out, &[], false))
        }
        "w" => {
            let kind = f[1];
            let shape = parse_list(f[2]);
            let strides = parse_list(f[3]);
            let n: usize = f[4].parse().unwrap();
            let idx = parse_list(f[5]);
            if n > (1 << 16) {
                return skip_line(line, mode);
            }
            let r = if kind == "nd" {
                by_rank!(shape.len(), weak_nd, u32, &shape, &strides, n, &idx)
            } else {
                weak_dyn::<u32>(&shape, &strides, n, &idx)
            };
            let Some(out) = r else { return skip_line(line, mode) };
            let q = format!("QWeak {} {} {} {}", coq_list_n(&shape), coq_list_n(&strides), coq_list_n(&idx), n);
            let tag = format!("weak-{}-{}", kind, out.tag());
            format!("{}\t{}\t{}", tag, line, case_term(mode, kind, &q, &out, &[], false))
        }
        "a" => {
            let shape = parse_list(f[2]);
            let strides = parse_list(f[3]);
            let n: usize = f[4].parse().unwrap();
            let base = parse_list(f[5]);
            let dim: usize = f[6].parse().unwrap();
            let m: usize = f[7].parse::<usize>().unwrap().clamp(1, 4);
            let r = by_rank!(shape.len(), array_nd, (), &shape, &strides, n, &base, dim, m);
            let Some(out) = r else { return skip_line(line, mode) };
            let q = format!("QArray {} {} {} {} {}%nat {}%nat", coq_list_n(&shape), coq_list_n(&strides), n, coq_list_n(&base), dim, m);
            let tag = format!("arr-nd-{}", out.tag());
            format!("{}\t{}\t{}", tag, line, case_term(mode, "nd", &q, &out, &[], false))
        }
        "h" => {
            let kind = f[1];
            let shape0 = parse_list(f[2]);
            let cap: usize = f[3].parse().unwrap();
            let ops: Vec<&str> = f[4].split(';').collect();
            let axis: usize = f[5].parse().unwrap();
            let new: usize = f[6].parse().unwrap();
            let (real_cap, end) = if kind == "nd" {
                by_rank!(shape0.len(), history_nd, (), &shape0, cap, &ops, axis, new)
            } else {
                history::<Tensor<u32>>(&shape0, cap, &ops, axis, new)
            };
            let HistEnd::State { shape, strides, n, axis, new, out } = end else { return skip_line(line, mode) };
            let mut ns = shape.clone();
            if axis < ns.len() {
                ns[axis] = new;
            }
            let small = enum_count(&ns).max(enum_count(&shape)) <= 512;
            let q = format!("QHist {} {} {} {} {}%nat {}", coq_list_n(&shape), coq_list_n(&strides), n, real_cap, axis, new);
            let stale = shape.iter().zip(contiguous_strides(&shape).iter().zip(strides.iter())).any(|(&s, (c, t))| s == 1 && c != t);
            let tag = format!("hist-{}-{}{}", kind, out.tag(), if stale { "-stale" } else { "" });
            format!("{}\t{}\t{}", tag, line, case_term(mode, kind, &q, &out, &[], small))
        }
        _ => panic!("bad input line {}", line),
    }
}

// ------------------------------------------------------------------ generators
const BIG: [usize; 16] = [
    1 << 31,
    (1 << 32) - 1,
    1 << 32,
    (1 << 32) + 1,
    3037000500,
    1 << 33,
    1 << 48,
    1 << 62,
    (1 << 62) + 1,
    (1 << 63) - 1,
    1 << 63,
    (1 << 63) + 1,
    usize::MAX / 3,
    usize::MAX - 1,
    usize::MAX,
    6074001000,
];

fn contiguous_strides(shape: &[usize]) -> Vec<usize> {
    let mut st = vec![0usize; shape.len()];
    let mut p = 1usize;
    for i in (0..shape.len()).rev() {
        st[i] = p;
        p = p.wrapping_mul(shape[i]);
    }
    st
}

fn wrapped_min_len(shape: &[usize], strides: &[usize]) -> usize {
    if shape.iter().any(|&s| s == 0) {
        return 0;
    }
    let mut mo = 0usize;
    for (&s, &t) in shape.iter().zip(strides.iter()) {
        mo = mo.wrapping_add((s - 1).wrapping_mul(t));
    }
    mo.wrapping_add(1)
}

fn exact_min_len(shape: &[usize], strides: &[usize]) -> Option<usize> {
    if shape.iter().any(|&s| s == 0) {
        return Some(0);
    }
    let mut mo = 0u128;
    for (&s, &t) in shape.iter().zip(strides.iter()) {
        mo = mo.saturating_add((s as u128 - 1).saturating_mul(t as u128));
    }
    usize::try_from(mo.saturating_add(1)).ok()
}

const STRIDED: [&str; 4] = ["fdws", "fsws", "fslm", "fsli"];

fn emit_ctor(out: &mut impl Write, ctor: &str, kind: &str, shape: &[usize], strides: &[usize], n: usize) {
    if kind == "nd" && shape.len() > 5 {
        return;
    }
    let elem = if n <= 4096 { "u" } else { "z" };
    writeln!(out, "c|{}|{}|{}|{}|{}|{}", ctor, kind, elem, fmt_list(shape), fmt_list(strides), n).unwrap();
}

fn lens_around(shape: &[usize], strides: &[usize]) -> Vec<usize> {
    let mut v = vec![];
    let w = wrapped_min_len(shape, strides);
    v.push(w);
    v.push(w.wrapping_sub(1));
    v.push(w.wrapping_add(1));
    if let Some(e) = exact_min_len(shape, strides) {
        v.push(e);
        v.push(e.saturating_sub(1));
        v.push(e.saturating_add(1));
    }
    v.sort();
    v.dedup();
    v
}

fn generate(seed: u64, n: usize, tier: &str, out: &mut impl Write) {
    let thorough = tier == "thorough";
    let mut parity = 0usize;
    let mut kind_alt = |both: bool| -> Vec<&'static str> {
        if both {
            vec!["nd", "dyn"]
        } else {
            parity += 1;
            if parity % 2 == 0 { vec!["nd"] } else { vec!["dyn"] }
        }
    };
    // 1. exhaustive small scope: contiguous constructors
    let (r_max, s_max) = if thorough { (3usize, 3usize) } else { (3, 2) };
    for rank in 0..=r_max {
        let total = (s_max + 1).pow(rank as u32);
        for mut code in 0..total {
            let mut shape = vec![];
            for _ in 0..rank {
                shape.push(code % (s_max + 1));
                code /= s_max + 1;
            }
            let p: usize = shape.iter().product();
            for len in [p.saturating_sub(1), p, p + 1] {
                for kind in kind_alt(thorough) {
                    emit_ctor(out, "tfd", kind, &shape, &[], len);
                    if len != p || thorough {
                        emit_ctor(out, "fd", kind, &shape, &[], len);
                    }
                }
            }
        }
    }
    // 2. exhaustive small scope: strided constructors
    let (max_size, max_stride) = if thorough { (3usize, 5usize) } else { (2, 3) };
    for rank in 0..=2usize {
        let total = ((max_size + 1) * (max_stride + 1)).pow(rank as u32);
        for mut code in 0..total {
            let mut shape = vec![];
            let mut strides = vec![];
            for _ in 0..rank {
                shape.push(code % (max_size + 1));
                code /= max_size + 1;
                strides.push(code % (max_stride + 1));
                code /= max_stride + 1;
            }
            let m = exact_min_len(&shape, &strides).unwrap();
            for len in [m.saturating_sub(1), m, m + 1] {
                for ctor in STRIDED {
                    for kind in kind_alt(thorough) {
                        emit_ctor(out, ctor, kind, &shape, &strides, len);
                    }
                }
            }
        }
    }
    if thorough {
        for mut code in 0..(12usize.pow(3)) {
            let mut shape = vec![];
            let mut strides = vec![];
            for _ in 0..3 {
                shape.push(code % 3);
                code /= 3;
                strides.push(code % 4);
                code /= 4;
            }
            let m = exact_min_len(&shape, &strides).unwrap();
            for len in [m.saturating_sub(1), m] {
                for ctor in ["fdws", "fslm"] {
                    for kind in kind_alt(false) {
                        emit_ctor(out, ctor, kind, &shape, &strides, len);
                    }
                }
            }
        }
    }
    // 2b. three non-unit dimensions with arbitrary (non-nested) strides: the overlap check must
    //     accumulate the extents of *all* smaller-stride dimensions; storage exactly max_off+1
    let (sizes3, smax3): (&[usize], usize) = if thorough { (&[2, 3], 8) } else { (&[2], 6) };
    for &s0 in sizes3 {
        for &s1 in sizes3 {
            for &s2 in sizes3 {
                for code in 0..smax3.pow(3) {
                    let shape = vec![s0, s1, s2];
                    let strides = vec![1 + code % smax3, 1 + (code / smax3) % smax3, 1 + code / (smax3 * smax3)];
                    let m = exact_min_len(&shape, &strides).unwrap();
                    for kind in kind_alt(false) {
                        emit_ctor(out, if code % 3 == 0 { "fslm" } else { "fdws" }, kind, &shape, &strides, m);
                    }
                }
            }
        }
    }
    // 2c. has_capacity on tensors whose size-1 dimensions carry stale / non-canonical strides
    //     (is_contiguous ignores them; they become live when the dimension grows)
    for (shape, strides, n, cap) in [
        (vec![1usize, 4, 4], vec![8usize, 4, 1], 16usize, 64usize),
        (vec![1, 4], vec![1, 1], 4, 16),
        (vec![1, 2, 3], vec![1, 3, 1], 6, 40),
        (vec![2, 1, 3], vec![3, 1, 1], 6, 40),
        (vec![1, 1, 3], vec![2, 1, 1], 3, 40),
        (vec![3, 1], vec![1, 2], 3, 40),
        (vec![1, 3], vec![3, 1], 3, 40),
        (vec![1, 3], vec![2, 1], 3, 40),
    ] {
        for kind in ["nd", "dyn"] {
            for axis in 0..shape.len() {
                for new in [1usize, 2, 3] {
                    writeln!(out, "e|{}|u|{}|{}|{}|{}|{}|{}", kind, fmt_list(&shape), fmt_list(&strides), n, cap, axis, new).unwrap();
                }
            }
        }
    }
    // 2d. histories: append on one axis / transpose / permute, then grow a size-1 axis
    for kind in ["nd", "dyn"] {
        writeln!(out, "h|{}|1,2,4|64|a1:2|0|2", kind).unwrap();
        writeln!(out, "h|{}|4,1|16|t|0|2", kind).unwrap();
        writeln!(out, "h|{}|1,2,4|64|a1:2;a0:1|0|3", kind).unwrap();
        writeln!(out, "h|{}|2,1,3|64|p102;a2:1|0|2", kind).unwrap();
        writeln!(out, "h|{}|3,1|32|t;a1:2|0|2", kind).unwrap();
        writeln!(out, "h|{}|2,3|32|a0:1;t|1|5", kind).unwrap();
    }

    // 3. fixed extreme cases (always): the F4 family
    let fixed: Vec<(Vec<usize>, Vec<usize>)> = vec![
        (vec![1 << 32, 1 << 32], vec![1 << 32, 1]),
        (vec![1 << 32, 1 << 32, 1 << 32], vec![0, 1 << 32, 1]),
        (vec![0, 1 << 32, 1 << 32], vec![0, 1 << 32, 1]),
        (vec![1 << 32, 1 << 32, 0], vec![0, 0, 1]),
        (vec![1 << 32, 0, 1 << 32], vec![0, 1 << 32, 1]),
        (vec![(1 << 32) + 1, (1 << 32) - 1], vec![(1 << 32) - 1, 1]),
        (vec![(1 << 32) - 1, (1 << 32) + 1], vec![(1 << 32) + 1, 1]),
        (vec![1 << 63, 2], vec![2, 1]),
        (vec![2, 1 << 63], vec![1 << 63, 1]),
        (vec![1 << 16, 1 << 16, 1 << 16, 1 << 16], vec![1 << 48, 1 << 32, 1 << 16, 1]),
        (vec![3], vec![1 << 63]),
        (vec![5], vec![1 << 62]),
        (vec![(1 << 32) + 1], vec![1 << 32]),
        (vec![2, 2], vec![1 << 63, 1 << 63]),
        (vec![3, 2], vec![1 << 63, 1]),
        (vec![2, 3], vec![1, 1 << 63]),
        (vec![usize::MAX], vec![1]),
        (vec![usize::MAX, 2], vec![2, 1]),
        (vec![2, usize::MAX], vec![usize::MAX, 1]),
        (vec![1 << 63, 1 << 63], vec![1 << 63, 1]),
    ];
    for (shape, strides) in &fixed {
        for kind in kind_alt(thorough) {
            for len in lens_around(shape, &contiguous_strides(shape)).into_iter().chain([0usize, 1, usize::MAX]) {
                emit_ctor(out, "tfd", kind, shape, &[], len);
                emit_ctor(out, "fd", kind, shape, &[], len);
            }
            for len in lens_around(shape, strides).into_iter().chain([0usize, 1, usize::MAX]) {
                for ctor in STRIDED {
                    emit_ctor(out, ctor, kind, shape, strides, len);
                }
            }
        }
    }
    // has_capacity wrap-around family
    for (kind, elem) in [("nd", "u"), ("dyn", "u"), ("nd", "z"), ("dyn", "z")] {
        for new in [0usize, 1, 2, 3, (1 << 62) + 1, (1 << 62) + 2, 1 << 63, usize::MAX, (1 << 62), (1 << 61) + 1] {
            writeln!(out, "e|{}|{}|1,4|4,1|4|8|0|{}", kind, elem, new).unwrap();
            writeln!(out, "e|{}|{}|4,1|1,4|4|8|1|{}", kind, elem, new).unwrap();
            writeln!(out, "e|{}|{}|2,0,3|15,3,1|0|30|1|{}", kind, elem, new).unwrap();
        }
    }

    // 4. seeded random
    let mut rng = SplitMix64(seed);
    for it in 0..n {
        let class = rng.below(20);
        let rank = match rng.below(12) { 0 => 0, 1..=3 => 1, 4..=7 => 2, 8..=9 => 3, 10 => 4, _ => 5 } as usize;
        let kind = if rng.chance(1, 2) { "nd" } else { "dyn" };
        let mut shape: Vec<usize> = (0..rank).map(|_| match rng.below(12) { 0 => 0, 1 => 1, _ => 1 + rng.below(5) as usize }).collect();
        let mut strides = contiguous_strides(&shape);
        match class {
            0..=5 => {
                // layouts the library itself derives: steps, permutations, broadcast (stride 0)
                for d in 0..rank {
                    if rng.chance(1, 3) && shape[d] > 0 {
                        let step = 1 + rng.below(3) as usize;
                        let len = 1 + rng.below(shape[d] as u64) as usize;
                        shape[d] = (len + step - 1) / step;
                        strides[d] *= step;
                    }
                    if rng.chance(1, 8) {
                        strides[d] = 0;
                        if rng.chance(1, 2) { shape[d] = rng.pick(&BIG); }
                    }
                }
                for d in (1..rank).rev() {
                    let j = rng.below(d as u64 + 1) as usize;
                    shape.swap(d, j);
                    strides.swap(d, j);
                }
                for len in lens_around(&shape, &strides) {
                    let ctor = STRIDED[rng.below(4) as usize];
                    emit_ctor(out, ctor, kind, &shape, &strides, len);
                }
                if rng.chance(1, 3) {
                    let m = exact_min_len(&shape, &strides).unwrap_or(0);
                    emit_ctor(out, STRIDED[rng.below(4) as usize], kind, &shape, &strides, m + 1 + rng.below(9) as usize);
                }
            }
            6..=8 => {
                // contiguous constructors around the element count
                if rng.chance(1, 4) && rank > 0 {
                    let d = rng.below(rank as u64) as usize;
                    shape[d] = rng.pick(&BIG);
                    if rng.chance(1, 2) {
                        let e = rng.below(rank as u64) as usize;
                        shape[e] = rng.pick(&BIG);
                    }
                    if rng.chance(1, 3) {
                        let e = rng.below(rank as u64) as usize;
                        shape[e] = 0;
                    }
                }
                let st = contiguous_strides(&shape);
                for len in lens_around(&shape, &st) {
                    emit_ctor(out, if rng.chance(2, 3) { "tfd" } else { "fd" }, kind, &shape, &[], len);
                }
            }
            9 if rank >= 3 => {
                // small non-nested strides on 3+ non-unit dimensions
                for d in 0..rank {
                    shape[d] = 2 + rng.below(2) as usize;
                    strides[d] = 1 + rng.below(12) as usize;
                }
                let m = exact_min_len(&shape, &strides).unwrap();
                emit_ctor(out, if rng.chance(1, 2) { "fdws" } else { "fslm" }, kind, &shape, &strides, m);
                emit_ctor(out, "fdws", kind, &shape, &strides, m + 1);
            }
            9..=11 => {
                // extreme shapes / strides, incl. values engineered to wrap to a small length
                for d in 0..rank {
                    if rng.chance(1, 2) { strides[d] = rng.pick(&BIG); }
                    if rng.chance(1, 3) { shape[d] = rng.pick(&BIG); }
                    if rng.chance(1, 6) { strides[d] = rng.below(4) as usize; }
                }
                if rng.chance(1, 3) && rank >= 1 {
                    // (size-1)*stride = 2^64 exactly
                    let k = 1 + rng.below(62) as u32;
                    let d = rng.below(rank as u64) as usize;
                    shape[d] = (1usize << k) + 1;
                    strides[d] = 1usize << (64 - k);
                }
                if rng.chance(1, 4) { strides = contiguous_strides(&shape); }
                for len in lens_around(&shape, &strides).into_iter().chain([rng.pick(&BIG)]) {
                    let ctor = STRIDED[rng.below(4) as usize];
                    emit_ctor(out, ctor, kind, &shape, &strides, len);
                }
            }
            12 if it % 3 != 0 => {
                // random history on an owned tensor with at least one size-1 dimension
                let rank = 2 + rng.below(2) as usize;
                let mut sh: Vec<usize> = (0..rank).map(|_| 1 + rng.below(3) as usize).collect();
                let unit = rng.below(rank as u64) as usize;
                sh[unit] = 1;
                let cap = sh.iter().product::<usize>() * (2 + rng.below(4) as usize) + rng.below(4) as usize;
                let mut ops: Vec<String> = vec![];
                let mut hist_lines: Vec<String> = vec![];
                for _ in 0..1 + rng.below(4) {
                    match rng.below(4) {
                        0 => ops.push("t".to_string()),
                        1 => {
                            let mut order: Vec<usize> = (0..rank).collect();
                            for d in (1..rank).rev() {
                                let j = rng.below(d as u64 + 1) as usize;
                                order.swap(d, j);
                            }
                            ops.push(format!("p{}", order.iter().map(|d| d.to_string()).collect::<String>()));
                        }
                        _ => ops.push(format!("a{}:{}", rng.below(rank as u64), 1 + rng.below(2))),
                    }
                    // every prefix is checked, on every axis that could grow
                    let axis = rng.below(rank as u64) as usize;
                    hist_lines.push(format!("h|{}|{}|{}|{}|{}|{}", kind, fmt_list(&sh), cap, ops.join(";"), axis, 2 + rng.below(2)));
                }
                for l in hist_lines {
                    writeln!(out, "{}", l).unwrap();
                }
            }
            12 => {
                // shape / strides of different lengths (dynamic layouts re-split the vector)
                let extra = 1 + rng.below(2) as usize;
                if rng.chance(1, 2) {
                    for _ in 0..extra { strides.push(rng.below(4) as usize); }
                } else {
                    for _ in 0..extra { shape.push(1 + rng.below(3) as usize); }
                }
                for len in [0usize, 1, 2, 5, 40] {
                    emit_ctor(out, STRIDED[rng.below(4) as usize], "dyn", &shape, &strides, len);
                }
            }
            13..=15 => {
                // pure layout offsets
                for d in 0..rank {
                    if rng.chance(1, 6) { strides[d] = rng.pick(&BIG); }
                    if rng.chance(1, 8) { strides[d] = rng.below(7) as usize; }
                }
                for _ in 0..4 {
                    let mut idx: Vec<usize> = shape.iter().map(|&s| if s == 0 { 0 } else { rng.below(s as u64) as usize }).collect();
                    match rng.below(8) {
                        0 if rank > 0 => { let d = rng.below(rank as u64) as usize; idx[d] = shape[d]; }
                        1 if rank > 0 => { let d = rng.below(rank as u64) as usize; idx[d] = rng.pick(&BIG); }
                        2 if kind == "dyn" => { idx.push(0); }
                        3 if kind == "dyn" && rank > 0 => { idx.pop(); }
                        _ => {}
                    }
                    writeln!(out, "o|{}|{}|{}|{}", kind, fmt_list(&shape), fmt_list(&strides), fmt_list(&idx)).unwrap();
                }
            }
            16..=17 => {
                // has_capacity on tensors made like with_capacity + clip_dim: strides of the full shape
                if rank == 0 { continue; }
                for d in 0..rank { if shape[d] == 0 { shape[d] = 1; } }
                let full = shape.clone();
                let st = contiguous_strides(&full);
                let axis = rng.below(rank as u64) as usize;
                let cur = rng.below(full[axis] as u64 + 1) as usize;
                let mut sh = full.clone();
                sh[axis] = cur;
                let mut stp = st.clone();
                if rng.chance(1, 4) && rank >= 2 {
                    let j = rng.below(rank as u64) as usize;
                    sh.swap(0, j);
                    stp.swap(0, j);
                }
                let m = exact_min_len(&sh, &stp).unwrap();
                let cap: usize = full.iter().product::<usize>() + rng.below(3) as usize;
                let ax = if kind == "dyn" && rng.chance(1, 6) { rank + rng.below(rank as u64 + 1) as usize } else { rng.below(rank as u64) as usize };
                let elem = if rng.chance(1, 5) { "z" } else { "u" };
                for new in [cur, cur + 1, full[axis], full[axis] + 1, rng.pick(&BIG), (1usize << 62) + 1 + rng.below(3) as usize] {
                    writeln!(out, "e|{}|{}|{}|{}|{}|{}|{}|{}", kind, elem, fmt_list(&sh), fmt_list(&stp), m, cap, ax, new).unwrap();
                }
            }
            19 => {
                // get_array: M successive elements along one axis
                if rank == 0 { continue; }
                for d in 0..rank { if shape[d] == 0 { shape[d] = 3; } }
                let mut st = contiguous_strides(&shape);
                let mut sh = shape.clone();
                if rng.chance(1, 3) && rank >= 2 {
                    let j = rng.below(rank as u64) as usize;
                    sh.swap(0, j);
                    st.swap(0, j);
                }
                let mlen = exact_min_len(&sh, &st).unwrap();
                for _ in 0..4 {
                    let dim = if rng.chance(1, 10) { rank } else { rng.below(rank as u64) as usize };
                    let m = 1 + rng.below(4) as usize;
                    let mut base: Vec<usize> = sh.iter().map(|&s| rng.below(s as u64) as usize).collect();
                    if dim < rank {
                        match rng.below(6) {
                            0 => base[dim] = sh[dim].saturating_sub(m),
                            1 => base[dim] = (sh[dim] + 1).saturating_sub(m),
                            2 => base[dim] = usize::MAX - m,
                            3 => base[dim] = usize::MAX - m - 1,
                            _ => {}
                        }
                    }
                    if rng.chance(1, 10) { let e = rng.below(rank as u64) as usize; base[e] = sh[e]; }
                    writeln!(out, "a|nd|{}|{}|{}|{}|{}|{}", fmt_list(&sh), fmt_list(&st), mlen, fmt_list(&base), dim, m).unwrap();
                }
            }
            _ => {
                // weakly checked indexing: indices are not bounds-checked per dimension
                for d in 0..rank { if shape[d] == 0 { shape[d] = 2; } }
                let st = contiguous_strides(&shape);
                let m = exact_min_len(&shape, &st).unwrap();
                for _ in 0..3 {
                    let idx: Vec<usize> = shape.iter().map(|&s| match rng.below(6) { 0 => s, 1 => s + 1 + rng.below(3) as usize, 2 => rng.pick(&BIG), _ => rng.below(s as u64) as usize }).collect();
                    writeln!(out, "w|{}|{}|{}|{}|{}", kind, fmt_list(&shape), fmt_list(&st), m + rng.below(2) as usize, fmt_list(&idx)).unwrap();
                }
            }
        }
        let _ = it;
    }
}

fn main() {
    install_hook();
    let args: Vec<String> = std::env::args().collect();
    let stdout = std::io::stdout();
    let mut out = std::io::BufWriter::new(stdout.lock());
    match args.get(1).map(|s| s.as_str()) {
        Some("gen") => {
            let seed: u64 = args[2].parse().unwrap();
            let n: usize = args[3].parse().unwrap();
            generate(seed, n, &args[4], &mut out);
        }
        Some("exec") => {
            let mode = if debug_mode() { "Debug" } else { "Release" };
            for line in std::io::stdin().lock().lines() {
                let line = line.unwrap();
                if line.trim().is_empty() {
                    continue;
                }
                writeln!(out, "{}", exec_line(&line, mode)).unwrap();
            }
        }
        Some("mode") => {
            writeln!(out, "{}", if debug_mode() { "Debug" } else { "Release" }).unwrap();
        }
        _ => {
            eprintln!("usize: c06 gen <seed> <n> <tier> | c06 exec | c06 mode");
            std::process::exit(2);
        }
    }
}
