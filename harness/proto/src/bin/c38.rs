//! C38 correspondence: the ONNX protobuf decoder on arbitrary byte strings.
//!
//!   c38 gen <seed> <n> <tier>   print one hex-encoded input per line
//!   c38 exec                    read input lines, print `tag \t input \t coq-case`
//!   c38 probe <hex>             print the raw observations for one input (debugging aid)
//!   c38 worker                  (internal) job loop run in a child process
//!
//! Every observation (`ModelProto::parse_buf`, `ModelProto::parse_file`, `is_onnx_model`)
//! is made in a worker child process under `catch_unwind` and a 2 s watchdog, so that a
//! panic, a hang and a crash (stack overflow, allocation failure) become the outcomes
//! `Panic`, `Timeout` and `Abort` instead of taking the harness down.
use rten_onnx::onnx::{ModelProto, is_onnx_model};
use rten_onnx::protobuf::{ErrorKind, ProtobufError, ValueReader};
use std::io::{BufRead, Write};
use vh_proto::*;

const WATCHDOG_MS: u64 = 2000;

fn err_kind(e: &ProtobufError) -> &'static str {
    match e.kind() {
        ErrorKind::IoError(_) => "EIo",
        ErrorKind::InvalidVarint => "EInvalidVarint",
        ErrorKind::Eof => "EEof",
        ErrorKind::FieldTypeMismatch => "ETypeMismatch",
        ErrorKind::FieldLengthMismatch => "ELenMismatch",
        ErrorKind::InvalidWireType => "EInvalidWire",
        ErrorKind::FieldAlreadyConsumed => "EAlreadyConsumed",
        ErrorKind::InvalidUtf8 => "EUtf8",
        ErrorKind::FieldNotConsumed => "ENotConsumed",
        // variants added by later versions (non_exhaustive enum): recognised by their message
        k => {
            if k.to_string().contains("nested too deeply") { "EDepth" } else { "EOther" }
        }
    }
}

/// Canonical summary of a successfully decoded top-level message.
fn summary(m: &ModelProto) -> String {
    let ir = match m.ir_version {
        Some(v) => format!("(Some {})", v as u64),
        None => "None".to_string(),
    };
    format!(
        "(OOk {} {} {} {} {} {})",
        ir,
        m.graph.is_some(),
        m.opset_import.len(),
        m.metadata_props.len(),
        m.producer_name.is_some(),
        m.producer_version.is_some()
    )
}

fn outcome(r: std::thread::Result<Result<ModelProto, ProtobufError>>) -> String {
    match r {
        Ok(Ok(m)) => summary(&m),
        Ok(Err(e)) => format!("(OErr {})", err_kind(&e)),
        Err(_) => "OPanic".to_string(),
    }
}

fn scratch_dir() -> std::path::PathBuf {
    let d = match std::env::var("VERIF_SCRATCH") {
        Ok(s) => std::path::PathBuf::from(s),
        Err(_) => std::env::current_exe().unwrap().parent().unwrap().join("scratch"),
    };
    std::fs::create_dir_all(&d).unwrap();
    d
}

fn guarded<T>(f: impl FnOnce() -> T + std::panic::UnwindSafe) -> std::thread::Result<T> {
    std::panic::catch_unwind(f)
}

fn worker_job(scratch: &mut std::fs::File, line: &str) -> String {
    use std::io::{Seek, SeekFrom};
    let (kind, hexs) = line.split_once(' ').unwrap_or((line, ""));
    let bytes = unhex(hexs);
    match kind {
        "buf" => outcome(guarded(|| ModelProto::parse_buf(&bytes))),
        "file" => {
            // one scratch file, rewritten in place; the decoder gets a duplicate handle
            // positioned at the start
            scratch.set_len(0).unwrap();
            scratch.seek(SeekFrom::Start(0)).unwrap();
            scratch.write_all(&bytes).unwrap();
            scratch.seek(SeekFrom::Start(0)).unwrap();
            let dup = scratch.try_clone().unwrap();
            outcome(guarded(move || ModelProto::parse_file(dup)))
        }
        "sniff" => match guarded(|| is_onnx_model(ValueReader::from_buf(&bytes[..]))) {
            Ok(b) => format!("(SBool {})", b),
            Err(_) => "SPanic".to_string(),
        },
        _ => "bad-job".to_string(),
    }
}

/// The whole job loop runs on one thread with a fixed 8 MiB stack, so that the nesting depth at
/// which a recursive decoder overflows its stack does not depend on the caller's `ulimit -s`.
fn worker() {
    let path = scratch_dir().join(format!("c38-{}.onnx", std::process::id()));
    let mut file = std::fs::OpenOptions::new().read(true).write(true).create(true).truncate(true).open(&path).unwrap();
    // unlinked at once: nothing is left behind when the worker is killed by the watchdog
    let _ = std::fs::remove_file(&path);
    std::thread::Builder::new()
        .stack_size(8 << 20)
        .spawn(move || worker_loop(|line| worker_job(&mut file, line)))
        .unwrap()
        .join()
        .unwrap();
}

struct Obs {
    buf: String,
    file: String,
    sniff: String,
}

/// Each hang costs a full watchdog period; after `budget` of them the remaining observations
/// are reported as not run (tag `trivial-notrun`), so that a tree on which many inputs hang
/// is still reported within a bounded time.
fn observe(iso: &mut Isolated, hexs: &str, budget: &mut usize) -> Obs {
    let mut one = |kind: &str, t: &str, a: &str, nr: &str| -> String {
        if *budget == 0 {
            return nr.to_string();
        }
        match iso.run(&format!("{} {}", kind, hexs)) {
            JobResult::Done(s) => s,
            JobResult::Timeout => {
                *budget -= 1;
                t.to_string()
            }
            JobResult::Abort(_) => a.to_string(),
        }
    };
    Obs {
        buf: one("buf", "OTimeout", "OAbort", "ONotRun"),
        file: one("file", "OTimeout", "OAbort", "ONotRun"),
        sniff: one("sniff", "STimeout", "SAbort", "SNotRun"),
    }
}

fn class_of(o: &str) -> &str {
    if o.starts_with("(OOk") {
        "ok"
    } else if o.starts_with("(OErr") {
        o.trim_start_matches("(OErr ").trim_end_matches(')')
    } else {
        o
    }
}

fn exec() {
    let debug = cfg!(debug_assertions);
    let mut iso = Isolated::new(&["worker"], WATCHDOG_MS);
    let mut budget: usize = std::env::var("VERIF_TIMEOUT_BUDGET").ok().and_then(|s| s.parse().ok()).unwrap_or(12);
    let stdin = std::io::stdin();
    let out = std::io::stdout();
    for line in stdin.lock().lines() {
        let line = line.unwrap();
        let line = line.trim();
        if line.is_empty() {
            continue;
        }
        // input line: `<label>:<hex>` or bare `<hex>`
        let (label, hexs) = match line.split_once(':') {
            Some((l, h)) => (l, h),
            None => ("raw", line),
        };
        let bytes = unhex(hexs);
        let o = observe(&mut iso, hexs, &mut budget);
        let tag = if bytes.is_empty() {
            "trivial-empty".to_string()
        } else if o.buf == "ONotRun" || o.file == "ONotRun" || o.sniff == "SNotRun" {
            "trivial-notrun".to_string()
        } else {
            format!("{}-{}", label, class_of(&o.buf))
        };
        let term = format!(
            "{{| c_debug := {}; c_input := {}; c_buf := {}; c_file := {}; c_sniff := {} |}}",
            debug,
            coq_bytes(&bytes),
            o.buf,
            o.file,
            o.sniff
        );
        let mut w = out.lock();
        writeln!(w, "{}\t{}\t{}", tag, line, term).unwrap();
    }
}

fn main() {
    quiet_panics();
    let args: Vec<String> = std::env::args().collect();
    match args.get(1).map(|s| s.as_str()) {
        Some("worker") => worker(),
        Some("exec") => exec(),
        Some("probe") => {
            let mut iso = Isolated::new(&["worker"], WATCHDOG_MS);
            let o = observe(&mut iso, &args[2], &mut 100);
            println!("debug={} buf={} file={} sniff={}", cfg!(debug_assertions), o.buf, o.file, o.sniff);
        }
        Some("gen") => {
            let seed: u64 = args[2].parse().unwrap();
            let n: usize = args[3].parse().unwrap();
            let tier = args.get(4).map(|s| s.as_str()).unwrap_or("quick");
            let stdout = std::io::stdout();
            let mut w = std::io::BufWriter::new(stdout.lock());
            let skip = args.get(5).and_then(|s| s.strip_prefix("skip=")).unwrap_or("");
            vh_proto::gen38::generate(seed, n, tier, skip, &mut w);
        }
        _ => {
            eprintln!("usage: c38 gen <seed> <n> <tier> | exec | probe <hex>");
            std::process::exit(2);
        }
    }
}
