//! C38 correspondence: the ONNX protobuf decoder on arbitrary byte strings.
//!
//!   c38 gen <seed> <n> <tier>   print one hex-encoded input per line
//!   c38 exec                    read input lines, print `tag \t input \t coq-case`
//!   c38 probe <hex>             print the raw observations for one input (debugging aid)
//!   c38 worker                  (internal) job loop run in a child process
//!
//! Every observation (`ModelProto::parse_buf`, `ModelProto::parse_file`, `is_onnx_model`)
//! is made in a worker child process under `catch_unwind` and a 2 s watchdog, so that a
//! panic, a hang and a crash (stack overflow, allocation failure) become the outcomes
//! `Panic`, `Timeout` and `Abort` instead of taking the harness down.
use rten_onnx::onnx::{ModelProto, is_onnx_model};
use rten_onnx::protobuf::{ErrorKind, ProtobufError, ValueReader};
use std::io::{BufRead, Write};
use vh_proto::*;

const WATCHDOG_MS: u64 = 2000;

fn err_kind(e: &ProtobufError) -> &'static str {
    match e.kind() {
        ErrorKind::IoError(_) => "EIo",
        ErrorKind::InvalidVarint => "EInvalidVarint",
        ErrorKind::Eof => "EEof",
        ErrorKind::FieldTypeMismatch => "ETypeMismatch",
        ErrorKind::FieldLengthMismatch => "ELenMismatch",
        ErrorKind::InvalidWireType => "EInvalidWire",
        ErrorKind::FieldAlreadyConsumed => "EAlreadyConsumed",
        ErrorKind::InvalidUtf8 => "EUtf8",
        ErrorKind::FieldNotConsumed => "ENotConsumed",
        // variants added by later versions (non_exhaustive enum): recognised by their message
        k => {
            if k.to_string().contains("nested too deeply") { "EDepth" } else { "EOther" }
        }
    }
}

/// Canonical summary of a successfully decoded top-level message.
fn summary(m: &ModelProto) -> String {
    let ir = match m.ir_version {
        Some(v) => format!("(Some {})", v as u64),
        None => "None".to_string(),
    };
    format!(
        "(OOk {} {} {} {} {} {})",
        ir,
        m.graph.is_some(),
        m.opset_import.len(),
        m.metadata_props.len(),
        m.producer_name.is_some(),
        m.producer_version.is_some()
    )
}

fn outcome(r: std::thread::Result<Result<ModelProto, ProtobufError>>) -> String {
    match r {
        Ok(Ok(m)) => summary(&m),
        Ok(Err(e)) => format!("(OErr {})", err_kind(&e)),
        Err(_) => "OPanic".to_string(),
    }
}

fn scratch_dir() -> std::path::PathBuf {
    let d = match std::env::var("VERIF_SCRATCH") {
        Ok(s) => std::path::PathBuf::from(s),
        Err(_) => std::env::current_exe().unwrap().parent().unwrap().join("scratch"),
    };
    std::fs::create_dir_all(&d).unwrap();
    d
}

/// Decode in a thread with a fixed 8 MiB stack so that the nesting depth at which the
/// recursive decoder overflows its stack does not depend on the caller's `ulimit -s`.
fn on_big_stack<T: Send + 'static>(f: impl FnOnce() -> T + Send + 'static) -> std::thread::Result<T> {
    std::thread::Builder::new().stack_size(8 << 20).spawn(f).unwrap().join()
}

fn worker_job(line: &str) -> String {
    let (kind, hexs) = line.split_once(' ').unwrap_or((line, ""));
    let bytes = unhex(hexs);
    match kind {
        "buf" => outcome(on_big_stack(move || ModelProto::parse_buf(&bytes))),
        "file" => {
            let p = scratch_dir().join(format!("c38-{}.onnx", std::process::id()));
            std::fs::write(&p, &bytes).unwrap();
            let r = on_big_stack({
                let p = p.clone();
                move || ModelProto::parse_file(std::fs::File::open(&p).unwrap())
            });
            let _ = std::fs::remove_file(&p);
            outcome(r)
        }
        "sniff" => match on_big_stack(move || is_onnx_model(ValueReader::from_buf(&bytes[..]))) {
            Ok(b) => format!("(SBool {})", b),
            Err(_) => "SPanic".to_string(),
        },
        _ => "bad-job".to_string(),
    }
}

struct Obs {
    buf: String,
    file: String,
    sniff: String,
}

fn observe(iso: &mut Isolated, hexs: &str) -> Obs {
    let mut one = |kind: &str, t: &str, a: &str| -> String {
        match iso.run(&format!("{} {}", kind, hexs)) {
            JobResult::Done(s) => s,
            JobResult::Timeout => t.to_string(),
            JobResult::Abort(_) => a.to_string(),
        }
    };
    Obs {
        buf: one("buf", "OTimeout", "OAbort"),
        file: one("file", "OTimeout", "OAbort"),
        sniff: one("sniff", "STimeout", "SAbort"),
    }
}

fn class_of(o: &str) -> &str {
    if o.starts_with("(OOk") {
        "ok"
    } else if o.starts_with("(OErr") {
        o.trim_start_matches("(OErr ").trim_end_matches(')')
    } else {
        o
    }
}

fn exec() {
    let debug = cfg!(debug_assertions);
    let mut iso = Isolated::new(&["worker"], WATCHDOG_MS);
    let stdin = std::io::stdin();
    let out = std::io::stdout();
    for line in stdin.lock().lines() {
        let line = line.unwrap();
        let line = line.trim();
        if line.is_empty() {
            continue;
        }
        // input line: `<label>:<hex>` or bare `<hex>`
        let (label, hexs) = match line.split_once(':') {
            Some((l, h)) => (l, h),
            None => ("raw", line),
        };
        let bytes = unhex(hexs);
        let o = observe(&mut iso, hexs);
        let tag = if bytes.is_empty() { "trivial-empty".to_string() } else { format!("{}-{}", label, class_of(&o.buf)) };
        let term = format!(
            "{{| c_debug := {}; c_input := {}; c_buf := {}; c_file := {}; c_sniff := {} |}}",
            debug,
            coq_bytes(&bytes),
            o.buf,
            o.file,
            o.sniff
        );
        let mut w = out.lock();
        writeln!(w, "{}\t{}\t{}", tag, line, term).unwrap();
    }
}

fn main() {
    quiet_panics();
    let args: Vec<String> = std::env::args().collect();
    match args.get(1).map(|s| s.as_str()) {
        Some("worker") => worker_loop(worker_job),
        Some("exec") => exec(),
        Some("probe") => {
            let mut iso = Isolated::new(&["worker"], WATCHDOG_MS);
            let o = observe(&mut iso, &args[2]);
            println!("debug={} buf={} file={} sniff={}", cfg!(debug_assertions), o.buf, o.file, o.sniff);
        }
        Some("gen") => {
            let seed: u64 = args[2].parse().unwrap();
            let n: usize = args[3].parse().unwrap();
            let tier = args.get(4).map(|s| s.as_str()).unwrap_or("quick");
            let stdout = std::io::stdout();
            let mut w = std::io::BufWriter::new(stdout.lock());
            vh_proto::gen38::generate(seed, n, tier, &mut w);
        }
        _ => {
            eprintln!("usage: c38 gen <seed> <n> <tier> | exec | probe <hex>");
            std::process::exit(2);
        }
    }
}
