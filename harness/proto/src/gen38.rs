//! Input generators for C38 (filled in below).
use std::io::Write;
pub fn generate(_seed: u64, _n: usize, _tier: &str, _out: &mut impl Write) {}
