//! Input generators for C38: ONNX-shaped protobuf messages, field-level mutations, random bytes.
//! Every input line is `<label>:<hex>`.
use crate::*;
use std::io::Write;

// Action codes, as in checks/C38.py: 0 skip(unknown), 1 varint, 2 float(I32), 3 string, 4 bytes,
// 5 packed/unpacked varints, 6 packed f32, 7 packed f64, 100+t embedded message of type t.
// A copy of the dispatch tables of rten-onnx/src/onnx.rs used only to *shape* the inputs
// (the model's table is re-extracted from the source on every run).
const T_ATTR: usize = 0;
const T_NODE: usize = 1;
const T_TENSOR: usize = 2;
const T_TYPE: usize = 9;
const T_GRAPH: usize = 11;
const T_MODEL: usize = 12;
const SCHEMA: &[&[(u64, u64)]] = &[
    &[(1, 3), (2, 2), (4, 3), (3, 1), (6, 111), (5, 102), (7, 2), (8, 1), (9, 3), (20, 1)], // 0 AttributeProto
    &[(1, 3), (2, 3), (3, 3), (4, 3), (5, 100), (7, 3)],                                     // 1 NodeProto
    &[(1, 1), (2, 1), (4, 6), (5, 5), (7, 5), (10, 7), (8, 3), (9, 4), (13, 104), (14, 1)],   // 2 TensorProto
    &[(1, 1), (2, 3)],                                                                       // 3 Dimension
    &[(1, 3), (2, 3)],                                                                       // 4 StringStringEntryProto
    &[(1, 3), (2, 1)],                                                                       // 5 OperatorSetIdProto
    &[(1, 103)],                                                                             // 6 TensorShapeProto
    &[(1, 1), (2, 106)],                                                                     // 7 TypeProtoTensor
    &[(1, 109)],                                                                             // 8 TypeProtoSequence
    &[(1, 107), (4, 108)],                                                                   // 9 TypeProto
    &[(1, 3), (2, 109)],                                                                     // 10 ValueInfoProto
    &[(1, 101), (5, 102), (11, 110), (12, 110), (13, 110)],                                  // 11 GraphProto
    &[(1, 1), (7, 111), (8, 105), (2, 3), (3, 3), (14, 104)],                                // 12 ModelProto
];
// field-number path from ModelProto to a message of each type
const PATHS: &[&[u64]] = &[
    &[7, 1, 5],        // Attribute
    &[7, 1],           // Node
    &[7, 5],           // Tensor
    &[7, 11, 2, 1, 2, 1], // Dimension: graph.input.type.tensor_type.shape.dim
    &[14],             // StringStringEntry
    &[8],              // OperatorSetId
    &[7, 11, 2, 1, 2], // TensorShape
    &[7, 11, 2, 1],    // TypeProtoTensor
    &[7, 11, 2, 4],    // TypeProtoSequence
    &[7, 11, 2],       // TypeProto
    &[7, 11],          // ValueInfo
    &[7],              // Graph
    &[],               // Model
];

pub const EXTREME: [u64; 16] = [
    0, 1, 127, 128, (1 << 31) - 1, 1 << 31, (1 << 32) - 1, 1 << 32, 1 << 40,
    (1 << 63) - 1, 1 << 63, (1 << 63) + 1, u64::MAX - 11, u64::MAX - 10, u64::MAX - 1, u64::MAX,
];

struct B<'a> {
    rng: &'a mut SplitMix64,
    /// probability (per mille) that a length / value is replaced by a lie
    lie: u64,
}

impl<'a> B<'a> {
    fn some_varint(&mut self) -> u64 {
        match self.rng.below(6) {
            0 => self.rng.pick(&EXTREME),
            1 => self.rng.next(),
            _ => self.rng.below(300),
        }
    }

    fn enc_varint(&mut self, v: u64) -> Vec<u8> {
        if self.rng.below(1000) < self.lie {
            match self.rng.below(6) {
                // over-long / non-canonical encodings
                0 => {
                    let mut o = vec![0x80u8; 10];
                    o.push(self.rng.below(3) as u8);
                    o
                }
                1 => vec![0xff; 9 + self.rng.below(3) as usize],
                2 => {
                    let mut o = vec![0xff; 9];
                    o.push(self.rng.pick(&[0u8, 1, 2, 0x7f, 0x80, 0x81]));
                    o
                }
                3 => varint_padded(v, 1 + self.rng.below(10) as usize),
                4 => varint(self.rng.pick(&EXTREME)),
                _ => {
                    let mut o = varint(v);
                    let n = o.len();
                    o[n - 1] |= 0x80; // continuation bit with nothing after it (maybe)
                    o
                }
            }
        } else {
            varint(v)
        }
    }

    fn string(&mut self) -> Vec<u8> {
        let n = self.rng.below(6) as usize;
        let mut s: Vec<u8> = (0..n).map(|_| b'a' + self.rng.below(26) as u8).collect();
        if self.rng.chance(1, 6) {
            // multi-byte / invalid UTF-8
            let extra: &[&[u8]] = &[
                "é".as_bytes(), "€".as_bytes(), "𝄞".as_bytes(), &[0xc0, 0x80], &[0xed, 0xa0, 0x80], &[0xf4, 0x90, 0x80, 0x80],
                &[0xe0, 0x9f, 0xbf], &[0xf0, 0x8f, 0xbf, 0xbf], &[0xff], &[0xc3], &[0xe2, 0x82], &[0x80], &[0xef, 0xbf, 0xbf],
                &[0xf4, 0x8f, 0xbf, 0xbf], &[0xc2, 0x7f],
            ];
            s.extend_from_slice(self.rng.pick(extra));
        }
        s
    }

    /// a length-delimited field; the declared length may lie
    fn len_field(&mut self, number: u64, wire: u64, mut payload: Vec<u8>) -> Vec<u8> {
        let mut declared = payload.len() as u64;
        if self.rng.below(1000) < self.lie {
            match self.rng.below(8) {
                0 => declared += 1,
                1 => declared = declared.saturating_sub(1),
                2 => declared += 1 + self.rng.below(200),
                3 => declared = self.rng.pick(&EXTREME),
                4 => declared = u64::MAX - self.rng.below(64),
                5 => declared = (1u64 << 63) - 1 - self.rng.below(4),
                6 => {
                    let k = self.rng.below(payload.len() as u64 + 1) as usize;
                    payload.truncate(k);
                }
                _ => declared = self.rng.below(2 * declared + 2),
            }
        }
        let mut o = self.enc_varint((number << 3) | wire);
        o.extend(self.enc_varint(declared));
        o.extend(payload);
        o
    }

    fn field(&mut self, number: u64, code: u64, depth: usize) -> Vec<u8> {
        // wire type normally the one the decoder expects; sometimes another
        let flip = self.rng.below(1000) < self.lie;
        let mut wire_for = |dflt: u64, rng: &mut SplitMix64| if flip { rng.below(8) } else { dflt };
        match code {
            1 => {
                let w = wire_for(0, self.rng);
                self.raw_field(number, w, depth)
            }
            2 => {
                let w = wire_for(5, self.rng);
                self.raw_field(number, w, depth)
            }
            3 | 4 => {
                let w = wire_for(2, self.rng);
                if w != 2 {
                    return self.raw_field(number, w, depth);
                }
                let s = if code == 3 { self.string() } else { (0..self.rng.below(9)).map(|_| self.rng.next() as u8).collect() };
                self.len_field(number, 2, s)
            }
            5 => {
                if self.rng.chance(1, 2) {
                    let w = wire_for(0, self.rng);
                    self.raw_field(number, w, depth)
                } else {
                    let n = self.rng.below(5);
                    let mut p = vec![];
                    for _ in 0..n {
                        let v = self.some_varint();
                        p.extend(self.enc_varint(v));
                    }
                    self.len_field(number, 2, p)
                }
            }
            6 | 7 => {
                let width = if code == 6 { 4 } else { 8 };
                if self.rng.chance(1, 2) {
                    let w = wire_for(if code == 6 { 5 } else { 1 }, self.rng);
                    self.raw_field(number, w, depth)
                } else {
                    let mut n = self.rng.below(4) as usize * width;
                    if self.rng.below(1000) < self.lie {
                        n += 1 + self.rng.below(width as u64 - 1) as usize; // not a multiple of the element size
                    }
                    let p: Vec<u8> = (0..n).map(|_| self.rng.next() as u8).collect();
                    self.len_field(number, 2, p)
                }
            }
            c if c >= 100 => {
                let w = wire_for(2, self.rng);
                if w != 2 {
                    return self.raw_field(number, w, depth);
                }
                let p = self.message((c - 100) as usize, depth + 1);
                self.len_field(number, 2, p)
            }
            _ => {
                let w = self.rng.below(if flip { 8 } else { 6 });
                self.raw_field(number, w, depth)
            }
        }
    }

    /// a field with the given wire type and arbitrary content
    fn raw_field(&mut self, number: u64, wire: u64, _depth: usize) -> Vec<u8> {
        match wire {
            0 => {
                let mut o = self.enc_varint(number << 3);
                let v = self.some_varint();
                o.extend(self.enc_varint(v));
                o
            }
            1 => {
                let mut o = self.enc_varint((number << 3) | 1);
                o.extend(self.rng.next().to_le_bytes());
                o
            }
            2 => {
                let p: Vec<u8> = (0..self.rng.below(7)).map(|_| self.rng.next() as u8).collect();
                self.len_field(number, 2, p)
            }
            5 => {
                let mut o = self.enc_varint((number << 3) | 5);
                o.extend((self.rng.next() as u32).to_le_bytes());
                o
            }
            w => self.enc_varint((number << 3) | w),
        }
    }

    fn message(&mut self, ty: usize, depth: usize) -> Vec<u8> {
        let table = SCHEMA[ty];
        let nf = if depth > 6 { self.rng.below(2) } else { self.rng.below(5) };
        let mut o = vec![];
        for _ in 0..nf {
            if self.rng.chance(1, 6) {
                // unknown field number
                let number = self.rng.pick(&[0u64, 15, 16, 21, 100, 1 << 28, (1 << 61) - 1]);
                o.extend(self.field(number, 0, depth));
            } else {
                let (number, code) = self.rng.pick(table);
                o.extend(self.field(number, code, depth));
            }
        }
        o
    }
}

fn wrap_path(path: &[u64], mut inner: Vec<u8>) -> Vec<u8> {
    for &n in path.iter().rev() {
        inner = f_len(n, &inner);
    }
    inner
}

/// `cycles` rounds of GraphProto.node -> NodeProto.attribute -> AttributeProto.g, inside ModelProto.graph
pub fn deep_graph(cycles: usize, tail: &[u8]) -> Vec<u8> {
    let mut g = tail.to_vec();
    for _ in 0..cycles {
        g = f_len(1, &f_len(5, &f_len(6, &g)));
    }
    f_len(7, &g)
}

/// nesting depth `levels` below ModelProto using ValueInfo.type -> TypeProto.sequence -> elem_type cycles
pub fn deep_type(cycles: usize) -> Vec<u8> {
    let mut t = vec![];
    for _ in 0..cycles {
        t = f_len(4, &f_len(1, &t)); // TypeProto.sequence { elem_type: TypeProto }
    }
    wrap_path(&[7, 11, 2], t)
}

fn emit(out: &mut impl Write, label: &str, bytes: &[u8]) {
    writeln!(out, "{}:{}", label, hex(bytes)).unwrap();
}

pub fn small_valid() -> Vec<u8> {
    // ir_version, producer_name, graph{node{input,op_type,attribute{name,i}}, initializer{dims,data_type,raw_data,
    // int64_data packed, float_data packed}, input{name,type{tensor{elem_type,shape{dim{dim_value}}}}}}, opset_import{version}
    let attr = [f_len(1, b"k"), f_varint(3, 7), f_varint(20, 2)].concat();
    let node = [f_len(1, b"x"), f_len(4, b"Relu"), f_len(5, &attr)].concat();
    let tensor = [
        f_varint(1, 2),
        f_varint(2, 1),
        f_len(9, &[1, 2, 3, 4, 5, 6, 7, 8]),
        f_len(7, &[varint(300), varint(1)].concat()),
        f_len(4, &1.0f32.to_le_bytes()),
        f_len(8, "w€".as_bytes()),
    ]
    .concat();
    let dim = f_varint(1, 3);
    let vi = [f_len(1, b"in"), f_len(2, &f_len(1, &[f_varint(1, 1), f_len(2, &f_len(1, &dim))].concat()))].concat();
    let graph = [f_len(1, &node), f_len(5, &tensor), f_len(11, &vi), f_len(12, &vi)].concat();
    [f_varint(1, 8), f_len(2, b"vf"), f_len(7, &graph), f_len(8, &f_varint(2, 18)), f_len(14, &[f_len(1, b"a"), f_len(2, b"b")].concat())].concat()
}

pub fn generate(seed: u64, n: usize, tier: &str, skip: &str, out: &mut impl Write) {
    let thorough = tier == "thorough";
    let mut rng = SplitMix64(seed);
    emit(out, "empty", &[]);

    // ---- 1. deterministic families
    let base = small_valid();
    emit(out, "valid", &base);
    // truncation at every offset
    for k in 0..base.len() {
        emit(out, "trunc", &base[..k]);
    }
    // every length header of the base message replaced by an extreme (found by scanning for the
    // headers the writer produced: we rebuild instead -- a top-level unknown/known field with
    // each extreme length, followed by 0..3 payload bytes)
    for &number in &[2u64, 7, 8, 15] {
        for &len in EXTREME.iter().chain([2, 3, 4, 5, 10, 11, 12].iter()) {
            for tail in 0..4usize {
                let mut b = f_len_hdr(number, len);
                b.extend(std::iter::repeat_n(0x61, tail));
                emit(out, "lenhdr", &b);
                // the same, nested one level (inside ModelProto.graph with an honest outer length)
                let mut inner = f_len_hdr(if number == 7 { 1 } else { number }, len);
                inner.extend(std::iter::repeat_n(0x61, tail));
                emit(out, "lenhdr-nested", &f_len(7, &inner));
                // after some leading field, so that position + len wraps to small values
                let mut c = f_varint(1, 8);
                c.extend(f_len_hdr(number, len.wrapping_sub(tail as u64)));
                emit(out, "lenhdr-off", &c);
            }
        }
    }
    // self-referential lengths: position + len == 2^64 + k for small k
    for lead in 0..6usize {
        for k in 0..14u64 {
            let mut b = vec![];
            for _ in 0..lead {
                b.extend(f_varint(1, 1));
            }
            let pos_after = b.len() as u64 + 1 + 10;
            b.extend(f_len_hdr(15, (k as u64).wrapping_sub(pos_after)));
            emit(out, "selfref", &b);
        }
    }
    // over-long varints at the tag / value / length position
    for cont in 8..13usize {
        for last in [0u8, 1, 2, 0x7f, 0x80] {
            let mut v = vec![0x80u8; cont];
            v.push(last);
            emit(out, "longvarint-tag", &v);
            let mut b = vec![0x08];
            b.extend(&v);
            emit(out, "longvarint-val", &b);
            let mut b = vec![0x7a];
            b.extend(&v);
            b.push(0);
            emit(out, "longvarint-len", &b);
            let mut v = vec![0xffu8; cont];
            v.push(last);
            emit(out, "longvarint-ff", &v);
            // inside a packed field and an embedded message
            emit(out, "longvarint-packed", &wrap_path(&[7, 5], f_len(7, &v)));
        }
    }
    // every wire type on every field number 0..22 of every message type
    for (ty, path) in PATHS.iter().enumerate() {
        if skip.contains("dispatch") {
            break;
        }
        for number in 0..23u64 {
            for wire in 0..8u64 {
                let mut f = tag(number, wire);
                match wire {
                    0 => f.extend(varint(5)),
                    1 => f.extend(7u64.to_le_bytes()),
                    2 => {
                        // payload valid both as a string and as a message / packed block
                        f.extend(varint(2));
                        f.extend([0x08, 0x01]);
                    }
                    5 => f.extend(7u32.to_le_bytes()),
                    _ => {}
                }
                let _ = ty;
                emit(out, "dispatch", &wrap_path(path, f));
            }
        }
    }
    // packed fixed-width fields whose length is not a multiple of the element size, whole and truncated
    for (number, width) in [(4u64, 4usize), (10, 8)] {
        for n in 0..2 * width + 2 {
            for cut in 0..3usize {
                let mut payload: Vec<u8> = (0..n).map(|i| if i >= n - n % width { [0x08u8, 0x05, 0x0f][i % 3] } else { 0 }).collect();
                let f = f_len(number, &payload);
                let b = wrap_path(&[7, 5], f);
                emit(out, "packedfix", &b[..b.len() - cut.min(b.len())]);
                // top level of a TensorProto-like position is not reachable from ModelProto; also try the
                // field directly with lying outer lengths
                payload.truncate(n.saturating_sub(cut));
                let mut g = f_len_hdr(number, n as u64);
                g.extend(&payload);
                let mut t = f_len_hdr(5, g.len() as u64 + cut as u64);
                t.extend(&g);
                let mut m = f_len_hdr(7, t.len() as u64 + cut as u64);
                m.extend(&t);
                emit(out, "packedfix-lie", &m);
            }
        }
    }
    // nesting around the depth limit
    for c in [1usize, 10, 32, 33, 34, 35, 40] {
        emit(out, "deep-graph", &deep_graph(c, &[]));
        emit(out, "deep-graph", &deep_graph(c, &f_len(1, &f_len(1, b"x"))));
    }
    for c in [1usize, 20, 47, 48, 49, 50, 51, 60] {
        emit(out, "deep-type", &deep_type(c));
    }
    if thorough {
        emit(out, "deep-graph", &deep_graph(400, &[]));
        emit(out, "deep-type", &deep_type(700));
    }

    // ---- 2. random structured messages, increasingly mutated
    for i in 0..n {
        let lie = match i % 4 {
            0 => 0,
            1 => 30,
            2 => 120,
            _ => 400,
        };
        let mut b = B { rng: &mut rng, lie };
        let m = match b.rng.below(10) {
            0 => {
                let ty = b.rng.pick(&[T_ATTR, T_NODE, T_TENSOR, T_TYPE, T_GRAPH]);
                let inner = b.message(ty, PATHS[ty].len());
                wrap_path(PATHS[ty], inner)
            }
            _ => b.message(T_MODEL, 0),
        };
        let label = match lie {
            0 => "struct-valid",
            30 => "struct-mut1",
            120 => "struct-mut2",
            _ => "struct-mut3",
        };
        emit(out, label, &m);
        if i % 7 == 0 && !m.is_empty() {
            // byte-level mutation of a structured message
            let mut mm = m.clone();
            for _ in 0..1 + rng.below(3) {
                let k = rng.below(mm.len() as u64) as usize;
                match rng.below(4) {
                    0 => mm[k] ^= 1 << rng.below(8),
                    1 => mm[k] = rng.pick(&[0u8, 0x7f, 0x80, 0xff, 0x0a, 0x12, 0x3a]),
                    2 => {
                        mm.truncate(k);
                        if mm.is_empty() {
                            break;
                        }
                    }
                    _ => mm.insert(k, rng.next() as u8),
                }
            }
            emit(out, "bytemut", &mm);
        }
    }
    // ---- 3. random bytes
    for _ in 0..n / 5 {
        let len = rng.below(24) as usize;
        let b: Vec<u8> = (0..len)
            .map(|_| match rng.below(4) {
                0 => rng.pick(&[0x08u8, 0x0a, 0x12, 0x3a, 0x7a, 0x80, 0xff, 0x01, 0x00, 0x42]),
                _ => rng.next() as u8,
            })
            .collect();
        emit(out, "random", &b);
    }
}
