"""C20: the Python (rten-convert) side.

translate(repo)  -> (arms, problems): the `match dtype_name` arms of
                    converter.py::constant_node_from_onnx_initializer and the Constant-op attribute
                    branches, read with the `ast` module and turned into pyop lists (Coq Pins.v).
run(repo)        -> executes the SAME extracted code under numpy (needs python3-vt): reads
                    `I <dt> <value>` / `F64 <hex>` / `F16 <hex>` lines on stdin, prints
                    `Val <rty> <value-or-bits>` | `Rejected`.
Only the standard library is needed for translate(); `onnx`/`flatbuffers` are not installed in this
sandbox, so the converter itself cannot run -- the extracted statements are executed instead.
"""
import ast, os, sys

CONVERTER = "rten-convert/rten_convert/converter.py"
DT = {"float32": "DFloat32", "int8": "DInt8", "int32": "DInt32", "uint8": "DUInt8", "bool": "DBool",
      "int16": "DInt16", "uint16": "DUInt16", "int64": "DInt64", "float16": "DFloat16", "float64": "DFloat64",
      "uint32": "DUInt32", "uint64": "DUInt64", "bfloat16": "DBFloat16"}
ATTRS = {"value_int": "AValueInt", "value_ints": "AValueInts", "value_float": "AValueFloat", "value_floats": "AValueFloats"}


def _src(repo):
    return open(os.path.join(repo, CONVERTER)).read()


def _func(tree, name):
    for n in ast.walk(tree):
        if isinstance(n, ast.FunctionDef) and n.name == name:
            return n
    return None


def _np_type(node):
    # np.int32 / np.float32
    if isinstance(node, ast.Attribute) and isinstance(node.value, ast.Name) and node.value.id == "np":
        return node.attr
    return None


def _chain_ops(expr, base_names):
    """ops applied to a base expression by a method chain .clip(i32.min, i32.max).astype(np.T)."""
    ops = []
    while isinstance(expr, ast.Call) and isinstance(expr.func, ast.Attribute):
        meth = expr.func.attr
        if meth == "astype" and len(expr.args) == 1:
            t = _np_type(expr.args[0])
            if t == "int32":
                ops.append("PAstypeI32")
            elif t == "float32":
                ops.append("PAstypeF32")
            else:
                return None
        elif meth == "clip" and len(expr.args) == 2:
            a, b = expr.args
            ok = (isinstance(a, ast.Attribute) and a.attr == "min" and isinstance(b, ast.Attribute) and b.attr == "max"
                  and isinstance(a.value, ast.Name) and isinstance(b.value, ast.Name) and a.value.id == b.value.id == "i32")
            if not ok:
                return None
            ops.append("PClipI32")
        elif meth == "array" and isinstance(expr.func.value, ast.Name) and expr.func.value.id == "np":
            break  # np.array(x): the base
        else:
            return None
        expr = expr.func.value
    else:
        if not (isinstance(expr, ast.Name) and expr.id in base_names):
            return None
    return list(reversed(ops))


def _assigns_data(node):
    for n in ast.walk(node):
        if isinstance(n, (ast.Assign, ast.AugAssign, ast.AnnAssign)):
            tgts = n.targets if isinstance(n, ast.Assign) else [n.target]
            for t in tgts:
                for m in ast.walk(t):
                    if isinstance(m, ast.Name) and m.id == "data":
                        return True
    return False


def _body_ops(body, problems, where):
    ops = []
    i32_ok = False
    for st in body:
        if isinstance(st, ast.Pass):
            continue
        if isinstance(st, ast.Raise):
            ops.append("PRaise")
            break
        if isinstance(st, ast.Assign) and len(st.targets) == 1 and isinstance(st.targets[0], ast.Name):
            name = st.targets[0].id
            if name == "data":
                o = _chain_ops(st.value, {"data"})
                if o is None:
                    problems.append("%s: cannot translate assignment to data: %s" % (where, ast.unparse(st)))
                    return None
                if "PClipI32" in o and not i32_ok:
                    problems.append("%s: clip bounds `i32` are not np.iinfo(np.int32)" % where)
                    return None
                ops += o
                continue
            if name == "i32":
                i32_ok = ast.unparse(st.value).replace(" ", "") == "np.iinfo(np.int32)"
            continue
        if _assigns_data(st):
            problems.append("%s: statement modifies data in a way the translator does not know: %s" % (where, ast.unparse(st)[:80]))
            return None
        # warn_once(...), loops that only warn: no effect on data
    return ops


def translate(repo):
    problems, arms = [], []
    tree = ast.parse(_src(repo))
    f = _func(tree, "constant_node_from_onnx_initializer")
    match = None
    if f:
        for n in ast.walk(f):
            if isinstance(n, ast.Match) and isinstance(n.subject, ast.Name) and n.subject.id == "dtype_name":
                match = n
    if match is None:
        return [], ["constant_node_from_onnx_initializer / `match dtype_name` not found"], None, None
    seen = set()
    for case in match.cases:
        names, wildcard = [], False
        pats = case.pattern.patterns if isinstance(case.pattern, ast.MatchOr) else [case.pattern]
        for p in pats:
            if isinstance(p, ast.MatchValue) and isinstance(p.value, ast.Constant) and isinstance(p.value.value, str):
                names.append(p.value.value)
            elif isinstance(p, ast.MatchAs) and p.pattern is None:
                wildcard = True
            else:
                problems.append("unknown match pattern: " + ast.unparse(p))
        if case.guard is not None:
            problems.append("guarded case not supported: " + ast.unparse(case.guard))
        ops = _body_ops(case.body, problems, "case " + "|".join(names or ["_"]))
        if ops is None:
            continue
        if wildcard:
            names = [n for n in DT if n not in seen]
        for n in names:
            if n in seen:
                continue
            seen.add(n)
            if n not in DT:
                problems.append("dtype name %r unknown to the model" % n)
                continue
            arms.append((DT[n], ops))
    # Constant-op attributes
    g = _func(tree, "constant_node_from_onnx_constant_op")
    attr_exprs = {}
    if g is None:
        problems.append("constant_node_from_onnx_constant_op not found")
    else:
        for n in ast.walk(g):
            if isinstance(n, ast.If) and isinstance(n.test, ast.Compare) and isinstance(n.test.left, ast.NamedExpr):
                call = n.test.left.value
                var = n.test.left.target.id
                if isinstance(call, ast.Call) and call.args and isinstance(call.args[0], ast.Constant) and call.args[0].value in ATTRS:
                    aname = call.args[0].value
                    for st in n.body:
                        if isinstance(st, ast.Assign) and isinstance(st.targets[0], ast.Name) and st.targets[0].id == "data":
                            o = _chain_ops(st.value, {var})
                            if o is None:
                                problems.append("attribute %s: cannot translate %s" % (aname, ast.unparse(st)))
                            else:
                                # clip bounds: accept `i32 = np.iinfo(np.int32)` anywhere in the function
                                if "PClipI32" in o and "np.iinfo(np.int32)" not in ast.unparse(g).replace(" ", ""):
                                    problems.append("attribute %s: clip bounds are not np.iinfo(np.int32)" % aname)
                                arms.append((ATTRS[aname], o))
                                attr_exprs[ATTRS[aname]] = (var, st.value)
        for a in ATTRS.values():
            if a not in attr_exprs:
                problems.append("attribute branch for %s not found" % a)
    return arms, problems, match, (g, attr_exprs)


def pins_text(repo):
    arms, problems, _, _ = translate(repo)
    lines = ["(* GENERATED on every run by harness/convert/py_side.py from %s/%s -- do not edit *)" % (repo, CONVERTER),
             "From RV Require Import Prelude.", "From Convert Require Import ConvertBase.", "",
             "Definition py_arms : list (dt * list pyop) := ["]
    lines.append(";\n".join("  (%s, [%s])" % (d, "; ".join(o)) for d, o in arms))
    lines.append("].")
    return "\n".join(lines) + "\n", problems


def run(repo):
    import numpy as np
    arms, problems, match, (g, attr_exprs) = translate(repo)

    class ConversionError(Exception):
        pass
    env = {"np": np, "warn_once": lambda *a, **k: None, "ConversionError": ConversionError}
    fn = ast.FunctionDef(
        name="conv", args=ast.arguments(posonlyargs=[], args=[ast.arg("data"), ast.arg("op_name")], kwonlyargs=[], kw_defaults=[], defaults=[]),
        body=[ast.parse("dtype_name = data.dtype.name").body[0], match, ast.parse("return data").body[0]], decorator_list=[])
    mod = ast.Module(body=[fn], type_ignores=[])
    ast.fix_missing_locations(mod)
    exec(compile(mod, "<converter.py:match dtype_name>", "exec"), env)
    # the module-level `i32` used by attribute branches, if the fixed code defines it locally it is in the expr
    attr_fns = {}
    for a, (var, expr) in attr_exprs.items():
        src = ast.unparse(expr)
        attr_fns[a] = (var, compile("i32 = np.iinfo(np.int32)\n_result = " + src, "<converter.py:%s>" % a, "exec"))
    NP = {"DFloat32": np.float32, "DInt8": np.int8, "DInt32": np.int32, "DUInt8": np.uint8, "DBool": np.bool_,
          "DInt16": np.int16, "DUInt16": np.uint16, "DInt64": np.int64, "DFloat16": np.float16, "DFloat64": np.float64,
          "DUInt32": np.uint32, "DUInt64": np.uint64}
    RT = {"int8": "RInt8", "uint8": "RUInt8", "int32": "RInt32", "float32": "RFloat32"}

    def show(arr):
        arr = np.asarray(arr)
        t = RT.get(arr.dtype.name)
        if t is None:
            return "Rejected"
        x = arr.reshape(-1)[0]
        if t == "RFloat32":
            return "Val RFloat32 %d" % int(np.array([x], dtype=np.float32).view(np.uint32)[0])
        return "Val %s %d" % (t, int(x))
    np.seterr(all="ignore")
    for line in sys.stdin:
        p = line.split()
        if not p:
            continue
        try:
            if p[0] == "I":
                dt, v = p[1], int(p[2])
                if dt in attr_fns:
                    var, code = attr_fns[dt]
                    loc = {"np": np, var: (v if dt == "AValueInt" else [v, 7])}
                    exec(code, loc)
                    print(show(loc["_result"]))
                elif dt in NP:
                    nbytes = np.dtype(NP[dt]).itemsize
                    raw = (v % (1 << (8 * nbytes))).to_bytes(nbytes, "little") * 1 + (0).to_bytes(nbytes, "little")
                    data = np.frombuffer(raw, dtype=NP[dt]).copy()   # what numpy_helper.to_array yields for raw_data
                    print(show(env["conv"](data, "op")))
                else:
                    print("Rejected")   # bfloat16 etc.: numpy has no such dtype; to_array would not yield it
            elif p[0] in ("F64", "F16"):
                bits = int(p[1], 16)
                if p[0] == "F64":
                    data = np.frombuffer(bits.to_bytes(8, "little") * 2, dtype=np.float64).copy()
                else:
                    data = np.frombuffer(bits.to_bytes(2, "little") * 2, dtype=np.float16).copy()
                print(show(env["conv"](data, "op")))
            else:
                print("Rejected")
        except ConversionError:
            print("Rejected")
        except Exception as ex:  # anything else the converter would die with
            print("Rejected")
    sys.stdout.flush()


if __name__ == "__main__":
    if sys.argv[1] == "pins":
        t, pr = pins_text(sys.argv[2])
        sys.stdout.write(t)
        for x in pr:
            sys.stderr.write("PROBLEM: " + x + "\n")
    elif sys.argv[1] == "run":
        run(sys.argv[2])
