//! C20: the Rust ONNX path for constants.  Reads lines
//!   `I <dt> <int value>`      integer-valued constant of ONNX dtype <dt> (or attribute AValueInt/AValueInts)
//!   `F64 <hex bits>` / `F16 <hex bits>`   float constants (raw_data)
//! builds a one-node ONNX model (Identity of an initializer, or a Constant op), loads it with
//! rten::Model::load with optimisation defaults, runs it and prints the produced element type and
//! value: `Val RInt32 <v>` | `Val RFloat32 <bits>` | `Rejected` | `Panic`.
use rten::{ModelOptions, Value};
use rten_tensor::prelude::*;
use std::io::{BufRead, Write};

fn varint(mut v: u64, out: &mut Vec<u8>) {
    loop {
        let b = (v & 0x7f) as u8;
        v >>= 7;
        if v == 0 { out.push(b); break; } else { out.push(b | 0x80); }
    }
}
fn tag(field: u32, wt: u32, out: &mut Vec<u8>) { varint(((field << 3) | wt) as u64, out); }
fn f_varint(field: u32, v: u64, out: &mut Vec<u8>) { tag(field, 0, out); varint(v, out); }
fn f_bytes(field: u32, b: &[u8], out: &mut Vec<u8>) { tag(field, 2, out); varint(b.len() as u64, out); out.extend_from_slice(b); }
fn f_str(field: u32, s: &str, out: &mut Vec<u8>) { f_bytes(field, s.as_bytes(), out); }

fn onnx_dtype(dt: &str) -> Option<u64> {
    Some(match dt {
        "DFloat32" => 1, "DUInt8" => 2, "DInt8" => 3, "DUInt16" => 4, "DInt16" => 5, "DInt32" => 6,
        "DInt64" => 7, "DBool" => 9, "DFloat16" => 10, "DFloat64" => 11, "DUInt32" => 12, "DUInt64" => 13,
        "DBFloat16" => 16, _ => return None,
    })
}

/// TensorProto with raw_data (little endian) or a typed field.
fn tensor_proto(name: &str, dtype: u64, raw: Option<&[u8]>, int32_data: &[i64], int64_data: &[i64], n: usize) -> Vec<u8> {
    let mut t = vec![];
    f_varint(1, n as u64, &mut t); // dims = [n]
    f_varint(2, dtype, &mut t);
    for v in int32_data { f_varint(5, *v as u64, &mut t); }
    for v in int64_data { f_varint(7, *v as u64, &mut t); }
    f_str(8, name, &mut t);
    if let Some(r) = raw { f_bytes(9, r, &mut t); }
    t
}

fn value_info(name: &str) -> Vec<u8> { let mut v = vec![]; f_str(1, name, &mut v); v }

fn model_with_graph(graph: Vec<u8>) -> Vec<u8> {
    let mut m = vec![];
    f_varint(1, 8, &mut m); // ir_version
    let mut opset = vec![]; f_str(1, "", &mut opset); f_varint(2, 17, &mut opset);
    f_bytes(8, &opset, &mut m);
    f_bytes(7, &graph, &mut m);
    m
}

fn model_initializer(tensor: Vec<u8>) -> Vec<u8> {
    let mut node = vec![];
    f_str(1, "init", &mut node); f_str(2, "out", &mut node); f_str(3, "id", &mut node); f_str(4, "Identity", &mut node);
    let mut g = vec![];
    f_bytes(1, &node, &mut g); f_str(2, "g", &mut g); f_bytes(5, &tensor, &mut g);
    f_bytes(12, &value_info("out"), &mut g);
    model_with_graph(g)
}

fn model_constant_attr(attr_name: &str, ints: &[i64], single: bool) -> Vec<u8> {
    let mut attr = vec![];
    f_str(1, attr_name, &mut attr);
    if single { f_varint(3, ints[0] as u64, &mut attr); f_varint(20, 2, &mut attr); }
    else { for v in ints { f_varint(8, *v as u64, &mut attr); } f_varint(20, 7, &mut attr); }
    let mut node = vec![];
    f_str(2, "c", &mut node); f_str(3, "const", &mut node); f_str(4, "Constant", &mut node); f_bytes(5, &attr, &mut node);
    let mut node2 = vec![];
    f_str(1, "c", &mut node2); f_str(2, "out", &mut node2); f_str(3, "id", &mut node2); f_str(4, "Identity", &mut node2);
    let mut g = vec![];
    f_bytes(1, &node, &mut g); f_bytes(1, &node2, &mut g); f_str(2, "g", &mut g);
    f_bytes(12, &value_info("out"), &mut g);
    model_with_graph(g)
}

fn run_model(bytes: Vec<u8>, optimize: bool) -> String {
    let r = std::panic::catch_unwind(move || {
        let mut opts = ModelOptions::with_all_ops();
        opts.enable_optimization(optimize);
        let model = match opts.load(bytes) { Ok(m) => m, Err(_) => return "Rejected".to_string() };
        let out = match model.find_node("out") { Some(o) => o, None => return "Rejected".to_string() };
        let res = match model.run(vec![], &[out], None) { Ok(r) => r, Err(_) => return "Rejected".to_string() };
        match &res[0] {
            Value::Int32Tensor(t) => format!("Val RInt32 {}", t.iter().next().copied().unwrap_or(0)),
            Value::Int8Tensor(t) => format!("Val RInt8 {}", t.iter().next().copied().unwrap_or(0)),
            Value::UInt8Tensor(t) => format!("Val RUInt8 {}", t.iter().next().copied().unwrap_or(0)),
            Value::FloatTensor(t) => format!("Val RFloat32 {}", t.iter().next().map(|x| x.to_bits()).unwrap_or(0)),
            _ => "Rejected".to_string(),
        }
    });
    r.unwrap_or_else(|_| "Panic".to_string())
}

fn int_bytes(dt: &str, v: i128) -> Vec<u8> {
    match dt {
        "DInt8" | "DUInt8" | "DBool" => vec![v as u8],
        "DInt16" | "DUInt16" => (v as u16).to_le_bytes().to_vec(),
        "DInt32" | "DUInt32" => (v as u32).to_le_bytes().to_vec(),
        _ => (v as u64).to_le_bytes().to_vec(),
    }
}

fn exec_line(line: &str, k: usize) -> String {
    let p: Vec<&str> = line.split_whitespace().collect();
    let optimize = k % 2 == 0;
    match p[0] {
        "I" => {
            let dt = p[1];
            let v: i128 = p[2].parse().unwrap();
            let bytes = if dt == "AValueInt" { model_constant_attr("value_int", &[v as i64], true) }
                else if dt == "AValueInts" { model_constant_attr("value_ints", &[v as i64, 7], false) }
                else {
                    let code = onnx_dtype(dt).unwrap();
                    // alternate between raw_data and the typed repeated field where ONNX defines one
                    let typed = k % 3 == 0;
                    let t = if typed && matches!(dt, "DInt8" | "DUInt8" | "DInt16" | "DUInt16" | "DInt32" | "DBool") {
                        tensor_proto("init", code, None, &[v as i64, 0], &[], 2)
                    } else if typed && dt == "DInt64" {
                        tensor_proto("init", code, None, &[], &[v as i64, 0], 2)
                    } else {
                        let mut raw = int_bytes(dt, v); raw.extend(int_bytes(dt, 0));
                        tensor_proto("init", code, Some(&raw), &[], &[], 2)
                    };
                    model_initializer(t)
                };
            run_model(bytes, optimize)
        }
        "F64" | "F16" => {
            let bits = u64::from_str_radix(p[1], 16).unwrap();
            let (code, mut raw) = if p[0] == "F64" { (11, bits.to_le_bytes().to_vec()) } else { (10, (bits as u16).to_le_bytes().to_vec()) };
            let one = raw.clone(); raw.extend(one);
            // optimisation off: this isolates the loader's constant conversion (the optimizer may later
            // replace the output by a shape-inference constant, which e.g. turns -0.0 into +0.0)
            let _ = optimize;
            run_model(model_initializer(tensor_proto("init", code, Some(&raw), &[], &[], 2)), false)
        }
        _ => "Rejected".to_string(),
    }
}

fn main() {
    std::panic::set_hook(Box::new(|_| {}));
    let stdout = std::io::stdout();
    let mut out = std::io::BufWriter::new(stdout.lock());
    for (k, line) in std::io::stdin().lock().lines().enumerate() {
        let line = line.unwrap();
        if line.trim().is_empty() { continue; }
        writeln!(out, "{}", exec_line(&line, k)).unwrap();
    }
}
