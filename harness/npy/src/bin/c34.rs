//! C34 correspondence harness: .npy / .npz / .safetensors round trips and malformed .npy input.
//!
//!   c34 gen <seed> <n> <tier>   print input lines
//!   c34 exec                    read input lines, print `tag \t input \t coq-case`
//!
//! Input lines:
//!   R|<hex bytes>                                         npy::read on arbitrary bytes
//!   T|<fmt>|<dtype>|<shape a,b,..>|<view>|<seed>|<hex name>   write a tensor through a view, read back
//!   G|<dtype>|<shape>                                     tensor too large to materialise (broadcast zeros)
//!   S|<hex bytes> / Z|<hex bytes>                         safetensors::read / npz::read on arbitrary bytes
//!   M|<fmt>|<dtype>|<seed>|<hex name>,<hex name>,...      several named tensors in ONE npz / safetensors archive
use rten_serialize::View;
use rten_tensor::TensorView;
use std::io::{BufRead, Write};
use vh_npy::*;

fn parse_shape(s: &str) -> Vec<usize> {
    if s.is_empty() { vec![] } else { s.split(',').map(|x| x.parse().unwrap()).collect() }
}
fn fmt_shape(s: &[usize]) -> String {
    s.iter().map(|x| x.to_string()).collect::<Vec<_>>().join(",")
}

fn exec_round<T: HBits>(dbg: bool, fmt: &str, shape: &[usize], view: char, seed: u64, name: &str, width: u32) -> (String, String)
where
    for<'a> TensorView<'a, T>: Into<View<'a>>,
{
    let src = Source::<T>::new(shape, view, seed, width);
    let r = match fmt {
        "npy" => round_npy(&src),
        "npz" => round_npz(&src, name),
        _ => round_safetensors(&src, name),
    };
    let bits: Vec<u64> = src.elems.iter().map(|x| x.to_bits64()).collect();
    let sh: Vec<u64> = shape.iter().map(|&x| x as u64).collect();
    let f = match fmt { "npy" => "FNpy", "npz" => "FNpz", _ => "FSafetensors" };
    let aux_in = if fmt == "npz" { coq_bytes(name.as_bytes()) } else { "[]".to_string() };
    let aux_out = match &r.aux_out { Some(b) => format!("(Some {})", coq_bytes(b)), None => "None".to_string() };
    let term = format!(
        "(CRound {} {} {} {} {} {} {} {} {})",
        dbg, f, T::COQ, coq_list_u64(&sh), coq_list_u64(&bits), coq_bytes(&r.written), aux_in, aux_out, r.outcome.coq()
    );
    let n: usize = shape.iter().product();
    let triv = if n == 0 && fmt == "npy" && shape.len() == 1 { "trivial-" } else { "" };
    (format!("{}round-{}-{}-r{}-{}-{}", triv, fmt, T::COQ, shape.len(), view, r.outcome.tag()), term)
}

fn exec_line(line: &str) -> String {
    let dbg = cfg!(debug_assertions);
    let f: Vec<&str> = line.split('|').collect();
    let (tag, term) = match f[0] {
        "R" => {
            let bytes = unhex(f[1]);
            let o = npy_read_bytes(bytes.clone());
            let class = if bytes.len() < 10 { "short" } else if &bytes[..6] != b"\x93NUMPY" { "nomagic" } else { "hdr" };
            (format!("read-{}-{}", class, o.tag()), format!("(CRead {} {} {})", dbg, coq_bytes(&bytes), o.coq()))
        }
        "T" => {
            let shape = parse_shape(f[3]);
            let view = f[4].chars().next().unwrap();
            let seed: u64 = f[5].parse().unwrap();
            let name = String::from_utf8(unhex(f[6])).unwrap();
            let width = width_bits(f[2]);
            with_dtype!(f[2], T => exec_round::<T>(dbg, f[1], &shape, view, seed, &name, width))
        }
        "G" => {
            let shape = parse_shape(f[2]);
            let (hdr, total, o) = with_dtype!(f[1], T => big_round::<T>(&shape));
            let coqd = with_dtype!(f[1], T => <T as HBits>::COQ);
            let sh: Vec<u64> = shape.iter().map(|&x| x as u64).collect();
            (format!("big-{}", o.tag()), format!("(CBig {} {} {} {} {} {})", dbg, coqd, coq_list_u64(&sh), coq_bytes(&hdr), total, o.coq()))
        }
        "M" => {
            let st = f[1] == "st";
            let seed: u64 = f[3].parse().unwrap();
            let names: Vec<String> = if f[4].is_empty() { vec![] } else { f[4].split(',').map(|h| String::from_utf8(unhex(h)).unwrap()).collect() };
            let width = width_bits(f[2]);
            let m = with_dtype!(f[2], T => multi_round::<T>(st, &names, seed, width));
            let coqd = with_dtype!(f[2], T => <T as HBits>::COQ);
            let ents: Vec<String> = m.entries.iter().map(|(n, sh, el)| {
                let shv: Vec<u64> = sh.iter().map(|&x| x as u64).collect();
                format!("({}, ({}, ({}, {})))", coq_bytes(n.as_bytes()), coqd, coq_list_u64(&shv), coq_list_u64(el))
            }).collect();
            let rb: Vec<String> = m.readback.iter().map(|(k, o)| format!("({}, {})", coq_bytes(k), o.coq())).collect();
            let ra: Vec<String> = m.by_name.iter().map(|o| o.coq()).collect();
            let dotted = names.iter().any(|n| n.trim_end_matches(".npy").contains('.'));
            (format!("multi-{}-n{}{}-{}", f[1], names.len(), if dotted { "-dotted" } else { "" }, if m.wrote { "ok" } else { "refused" }),
             format!("(CMulti {} {} [{}] {} [{}] [{}])", dbg, if st { "FSafetensors" } else { "FNpz" }, ents.join(";"), m.wrote, rb.join(";"), ra.join(";")))
        }
        "S" | "Z" => {
            let bytes = unhex(f[1]);
            let st = f[0] == "S";
            let o = guarded(move || {
                let r = if st {
                    rten_serialize::safetensors::read(&bytes[..]).map(|m| m.len())
                } else {
                    rten_serialize::npz::read(std::io::Cursor::new(bytes)).map(|m| m.len())
                };
                match r { Ok(_) => Outcome::Ok("DU8", vec![], vec![]), Err(_) => Outcome::Err("EOther".into()) }
            });
            let cls = match o { Outcome::Ok(..) => 0, Outcome::Err(_) => 1, Outcome::Panic => 2, Outcome::Timeout => 3 };
            (format!("{}-read-{}", if st { "st" } else { "npz" }, ["ok", "err", "panic", "timeout"][cls]),
             format!("(CReadOther {} {} {})", dbg, if st { "FSafetensors" } else { "FNpz" }, cls))
        }
        other => panic!("bad line kind {other}"),
    };
    format!("{}\t{}\t{}", tag, line, term)
}

// ------------------------------------------------------------------------- generator
const MAGIC: &[u8] = b"\x93NUMPY";

/// Assemble an npy file from parts. `len`: explicit header length field (None = actual).
fn mk_npy(ver: (u8, u8), dict: &[u8], data: &[u8], len: Option<u64>) -> Vec<u8> {
    let mut out = MAGIC.to_vec();
    out.push(ver.0);
    out.push(ver.1);
    let l = len.unwrap_or(dict.len() as u64);
    if ver.0 == 1 {
        out.extend_from_slice(&(l as u16).to_le_bytes());
    } else {
        out.extend_from_slice(&(l as u32).to_le_bytes());
    }
    out.extend_from_slice(dict);
    out.extend_from_slice(data);
    out
}

fn dict(descr: &str, fortran: &str, shape: &str) -> Vec<u8> {
    format!("{{'descr': '{}', 'fortran_order': {}, 'shape': {}, }}\n", descr, fortran, shape).into_bytes()
}

fn emit_r(out: &mut impl Write, bytes: &[u8]) {
    writeln!(out, "R|{}", hex(bytes)).unwrap();
}

fn handcrafted(out: &mut impl Write) {
    let data16: Vec<u8> = (1..=64u8).collect();
    // descr variants
    let descrs = [
        "<i4", ">i4", "=i4", "|i4", "<i8", ">i8", ">f8", "<f4", ">f4", "<f2", "<c8", "<U4", "<i+4", "<i04", "<i 4", "<i4 ", " <i4",
        "i4", "", "<", "<i", "<i99999999999999999999", "<i18446744073709551616", "<i18446744073709551615", "<\u{e9}4", "\u{e9}", "<i\u{e9}",
        "<i4\u{e9}", "|b1", ">b1", "<b1", "=b1", "<b2", "|u1", ">u2", "<u2", "<u16", "<i0", "<i-4", "<i+", "<i++4", "<i4.0", "<I4", "<f8", "|i1", ">i2", ">u8", ">u4",
        "<i1", "<u1", "<m8", "|O", "|V16", "<i3", "<f16", "<i00000000000000000000000000004",
    ];
    for d in descrs {
        emit_r(out, &mk_npy((1, 0), &dict(d, "False", "(2,)"), &data16, None));
    }
    // shape variants (i4 and u1)
    let shapes = [
        "()", "(5,)", "(5)", "(2,3)", "(2,3,)", "( 2 , 3 )", "(2 3)", "(,)", "(-1,)", "(1.5,)", "(0x10,)", "(\u{661}\u{662},)", "(2,,3)", "(2", "(2,", "(", "2,3", "[2,3]",
        "(0,)", "(0,3)", "(3,0)", "(0,0)", "(1,1,1,1)", "(2,2,2,2)", "(1,2,3,4,5)", "(02,)", "(+2,)", "(2L,)", "(2 ,)", "(\t2\n,\r3\x0c)", "(2\x0b,)",
        "(18446744073709551615,)", "(18446744073709551616,)", "(9223372036854775807,)", "(9223372036854775808,)", "(99999999999999999999999,)",
        "(4294967296,4294967296)", "(4294967295,4294967297)", "(9223372036854775808,2)", "(2,9223372036854775808)",
        "(0,9223372036854775808,9223372036854775808)", "(9223372036854775808,9223372036854775808,0)", "(9223372036854775808,0,9223372036854775808)",
        "(0,18446744073709551615,18446744073709551615)", "(0,4294967296,4294967296)", "(0,4294967296,4294967295)", "(0,18446744073709551615)",
        "(4294967295,)", "(4294967296,)", "(4294967295,2)", "(1073741823,)", "(1073741824,)", "(2147483648,2)", "(65536,65536)", "(65536,65535)",
        "(1,18446744073709551615)", "(18446744073709551615,1)", "(3,6148914691236517205)", "(3,6148914691236517206)", "(16,)", "(64,)", "(65,)", "(4,4)", "(2,2,4)",
        "(000000000000000000000000000000000000002,)",
    ];
    for s in shapes {
        for d in ["<i4", "|u1", ">f8"] {
            emit_r(out, &mk_npy((1, 0), &dict(d, "False", s), &data16, None));
        }
        emit_r(out, &mk_npy((1, 0), &dict("<i2", "True", s), &data16, None));
    }
    // fortran order
    for s in ["()", "(6,)", "(2,3)", "(3,2)", "(2,3,4)", "(4,3,2)", "(1,6)", "(6,1)", "(2,0)", "(0,2)", "(2,2,2,2)", "(1,2,1,3)", "(3,1,2)"] {
        for d in ["|u1", "<i2", ">i2", "|b1", ">u4"] {
            emit_r(out, &mk_npy((1, 0), &dict(d, "True", s), &data16, None));
        }
    }
    for f in ["True", "False", "true", "false", "TRUE", "Truee", "Tru", "Fals", "1", "0", "None", "'True'", "", " True", "True ", "FalseTrue", "True,", "False}"] {
        emit_r(out, &mk_npy((1, 0), &dict("<i4", f, "(2,)"), &data16, None));
    }
    // dictionary structure
    let dicts: [&str; 52] = [
        "{'descr': '<i4'}", "{'fortran_order': False, 'shape': (1,)}", "{'descr': '<i4', 'shape': (1,)}", "{'descr': '<i4', 'fortran_order': False}",
        "{}", "{ }", "", "{", "}", "{{}}", "not a dict", "{'descr': '<i4', 'fortran_order': False, 'shape': (1,)", "{'descr': '<i4', 'fortran_order': False, 'shape': (1,)}}",
        "{'descr': '<i4' 'fortran_order': False 'shape': (2,)}", "{'descr':'<i4','fortran_order':False,'shape':(2,)}", "{'descr' : '<i4' , 'fortran_order' : False , 'shape' : (2,) , }",
        "  \n{'descr': '<i4', 'fortran_order': False, 'shape': (2,)}", "\x0b{'descr': '<i4', 'fortran_order': False, 'shape': (2,)}", "\x0c{'descr': '<i4', 'fortran_order': False, 'shape': (2,)}",
        "{'descr': '<i4', 'fortran_order': False, 'shape': (2,)} trailing garbage \u{e9}", "{'descr': '<i4', 'fortran_order': False, 'shape': (2,)}{",
        "{'shape': (2,), 'fortran_order': False, 'descr': '<i4'}", "{'descr': '<i4', 'descr': '<i2', 'fortran_order': False, 'shape': (2,)}",
        "{'descr': '<i2', 'fortran_order': False, 'shape': (2,), 'shape': (3,)}", "{'descr': '<i4', 'fortran_order': True, 'fortran_order': False, 'shape': (2,)}",
        "{'descr': '<i4', 'fortran_order': False, 'shape': (2,), 'extra': 1}", "{'extra': 'x', 'descr': '<i4', 'fortran_order': False, 'shape': (2,)}",
        "{\"descr\": \"<i4\", \"fortran_order\": False, \"shape\": (2,)}", "{'descr': \"<i4\", 'fortran_order': False, 'shape': (2,)}", "{descr: '<i4', 'fortran_order': False, 'shape': (2,)}",
        "{'descr': '<i4', 'fortran_order': False, 'shape': (2,),,}", "{,'descr': '<i4', 'fortran_order': False, 'shape': (2,)}", "{'descr': '<i4';'fortran_order': False, 'shape': (2,)}",
        "{'descr' '<i4', 'fortran_order': False, 'shape': (2,)}", "{'descr': , 'fortran_order': False, 'shape': (2,)}", "{'descr': '<i4', 'fortran_order': False, 'shape': }",
        "{'descr': '<i4', 'fortran_order': False, 'shape': (2,)", "{'descr': '<i4', 'fortran_order': False, 'shape': (2,) ", "{'descr': '<i4", "{'descr': '<i4'", "{'descr", "{'",
        "{'Descr': '<i4', 'fortran_order': False, 'shape': (2,)}", "{'descr ': '<i4', 'fortran_order': False, 'shape': (2,)}", "{'': '<i4'}", "{'d\u{e9}scr': '<i4'}",
        "{'descr': [('a', '<i4')], 'fortran_order': False, 'shape': (2,)}", "{'descr': '<i4', 'fortran_order': False, 'shape': 2}", "{'descr': '<i4', 'fortran_order': False, 'shape': (2,), }\n\n\n",
        "{'descr':\t'<i4',\n'fortran_order':\rFalse,\x0c'shape':\t(2,)}", "{'descr': '<i4'\x0b, 'fortran_order': False, 'shape': (2,)}", "{'descr': 'a''b'}",
    ];
    for d in dicts {
        emit_r(out, &mk_npy((1, 0), d.as_bytes(), &data16, None));
        emit_r(out, &mk_npy((2, 0), d.as_bytes(), &data16, None));
    }
    // non-UTF-8 in the header
    let good = dict("<i4", "False", "(2,)");
    for pos in [0usize, 1, 5, 12, 13, 30, good.len() - 2, good.len() - 1] {
        for bad in [0xffu8, 0x80, 0xc0, 0xc2, 0xe0, 0xf5, 0xed] {
            let mut d = good.clone();
            d[pos] = bad;
            emit_r(out, &mk_npy((1, 0), &d, &data16, None));
            let mut d2 = good.clone();
            d2.insert(pos, bad);
            emit_r(out, &mk_npy((1, 0), &d2, &data16, None));
        }
    }
    for seq in [&b"\xc3\xa9"[..], b"\xe0\xa0\x80", b"\xe0\x9f\x80", b"\xed\x9f\xbf", b"\xed\xa0\x80", b"\xf0\x90\x80\x80", b"\xf0\x8f\x80\x80", b"\xf4\x8f\xbf\xbf", b"\xf4\x90\x80\x80", b"\xc3", b"\xe2\x82", b"\xf0\x9f\x98", b"\xc1\xbf", b"\xef\xbf\xbf"] {
        let mut d = good.clone();
        d.extend_from_slice(seq);
        emit_r(out, &mk_npy((1, 0), &d, &data16, None));
        let mut d2 = b"{'descr': '<i4', 'fortran_order': False, 'shape': (2,), '".to_vec();
        d2.extend_from_slice(seq);
        d2.extend_from_slice(b"': 1}");
        emit_r(out, &mk_npy((1, 0), &d2, &data16, None));
        let mut d3 = b"{'descr': '<i".to_vec();
        d3.extend_from_slice(seq);
        d3.extend_from_slice(b"', 'fortran_order': False, 'shape': (2,)}");
        emit_r(out, &mk_npy((1, 0), &d3, &data16, None));
    }
    // versions and header length field
    for ver in [(1u8, 0u8), (1, 5), (2, 0), (3, 0), (3, 7), (0, 0), (4, 0), (255, 255), (2, 255), (1, 255)] {
        emit_r(out, &mk_npy(ver, &good, &data16, None));
    }
    for l in [0u64, 1, 5, good.len() as u64 - 1, good.len() as u64 + 1, good.len() as u64 + 8, good.len() as u64 + 64, 200, 65535, 70000, 0xFFFF_FFFF, 0x8000_0000] {
        emit_r(out, &mk_npy((1, 0), &good, &data16, Some(l)));
        emit_r(out, &mk_npy((2, 0), &good, &data16, Some(l)));
        emit_r(out, &mk_npy((3, 0), &good, &data16, Some(l)));
    }
    // data length: truncated / exact / surplus, element sizes, big endian, bool bytes
    for (d, s, need) in [("<i4", "(2,)", 8usize), ("<i4", "(2,2)", 16), ("|u1", "(5,)", 5), ("<f8", "(3,)", 24), (">i2", "(3,)", 6), ("|b1", "(4,)", 4), ("<u8", "()", 8), ("<i4", "(0,)", 0), ("<i4", "(3,0)", 0)] {
        for n in [0usize, 1, need.saturating_sub(1), need, need + 1, need + 7] {
            let data: Vec<u8> = (0..n).map(|i| (i as u8).wrapping_mul(37).wrapping_add(200)).collect();
            emit_r(out, &mk_npy((1, 0), &dict(d, "False", s), &data, None));
        }
    }
    emit_r(out, &mk_npy((1, 0), &dict("|b1", "False", "(6,)"), &[0, 1, 2, 255, 128, 0], None));
    emit_r(out, &mk_npy((1, 0), &dict(">b1", "False", "(3,)"), &[0, 7, 1], None));
}

fn mk_st(json: &str, data: &[u8]) -> Vec<u8> {
    let mut out = (json.len() as u64).to_le_bytes().to_vec();
    out.extend_from_slice(json.as_bytes());
    out.extend_from_slice(data);
    out
}

fn valid_other(rng: &mut SplitMix64, st: bool) -> Vec<u8> {
    let dt = rng.pick(&DTYPES);
    let rank = rng.below(3) as usize;
    let shape: Vec<usize> = (0..rank).map(|_| rng.below(4) as usize).collect();
    let seed = rng.next();
    let width = width_bits(dt);
    with_dtype!(dt, T => {
        let a = Source::<T>::new(&shape, 'c', seed, width);
        let b2 = Source::<T>::new(&[2], 'c', seed ^ 5, width);
        if st {
            let mut buf = Vec::new();
            rten_serialize::safetensors::write(&mut buf, [("a", a.view()), ("b", b2.view())]).unwrap();
            buf
        } else {
            let mut cur = std::io::Cursor::new(Vec::new());
            rten_serialize::npz::write(&mut cur, [("a", a.view()), ("b", b2.view())]).unwrap();
            cur.into_inner()
        }
    })
}

fn other_formats(rng: &mut SplitMix64, n: usize, out: &mut impl Write) {
    // safetensors headers whose shapes hide an overflow behind a zero-sized dimension
    for (dt, shape, offs, data) in [
        ("U8", "[0,9223372036854775808,9223372036854775808]", "[0,0]", 0usize),
        ("F32", "[0,18446744073709551615,18446744073709551615]", "[0,0]", 0),
        ("I64", "[9223372036854775808,0,9223372036854775808]", "[0,0]", 0),
        ("BOOL", "[0,4294967296,4294967296]", "[0,0]", 0),
        ("U8", "[4294967296,4294967296]", "[0,0]", 0),
        ("U8", "[2,2]", "[0,4]", 4),
        ("U8", "[2,2]", "[0,5]", 5),
        ("U8", "[2,2]", "[0,4]", 3),
        ("F16", "[2]", "[0,4]", 4),
        ("BF16", "[2]", "[0,4]", 4),
        ("F8_E4M3", "[2]", "[0,2]", 2),
        ("I32", "[]", "[0,4]", 4),
        ("I32", "[1]", "[4,8]", 8),
        ("I32", "[-1]", "[0,4]", 4),
        ("X9", "[1]", "[0,4]", 4),
        ("U64", "[0]", "[0,0]", 0),
    ] {
        let json = format!("{{\"t\":{{\"dtype\":\"{}\",\"shape\":{},\"data_offsets\":{}}}}}", dt, shape, offs);
        let data: Vec<u8> = (0..data as u8).collect();
        writeln!(out, "S|{}", hex(&mk_st(&json, &data))).unwrap();
    }
    for j in ["", "{}", "{\"__metadata__\":{\"a\":\"b\"}}", "[]", "null", "{\"t\":1}", "{\"t\":{}}", "{\"t\":{\"dtype\":\"U8\"}}", "{\"a\":{\"dtype\":\"U8\",\"shape\":[1],\"data_offsets\":[0,1]},\"a\":{\"dtype\":\"U8\",\"shape\":[1],\"data_offsets\":[1,2]}}"] {
        writeln!(out, "S|{}", hex(&mk_st(j, &[1, 2, 3, 4]))).unwrap();
    }
    for l in [0u64, 1, 7, u64::MAX, 1 << 40, 100_000_001] {
        let mut b2 = l.to_le_bytes().to_vec();
        b2.extend_from_slice(b"{}");
        writeln!(out, "S|{}", hex(&b2)).unwrap();
    }
    // mutations / truncations of valid archives
    for i in 0..n {
        let st = i % 2 == 0;
        let mut f = valid_other(rng, st);
        match rng.below(4) {
            0 => { let cut = rng.below(f.len() as u64 + 1) as usize; f.truncate(cut); }
            1 => { for _ in 0..1 + rng.below(3) { let pos = rng.below(f.len() as u64) as usize; f[pos] = rng.next() as u8; } }
            2 => { for _ in 0..1 + rng.below(2) { let pos = rng.below(f.len() as u64) as usize; f[pos] ^= 1 << rng.below(8); } }
            _ => { let pos = rng.below(f.len() as u64) as usize; if rng.chance(1, 2) { f.remove(pos); } else { f.insert(pos, rng.next() as u8); } }
        }
        writeln!(out, "{}|{}", if st { "S" } else { "Z" }, hex(&f)).unwrap();
    }
}

fn emit_m(out: &mut impl Write, fmt: &str, dt: &str, seed: u64, names: &[&str]) {
    let hs: Vec<String> = names.iter().map(|n| hex(n.as_bytes())).collect();
    writeln!(out, "M|{}|{}|{}|{}", fmt, dt, seed, hs.join(",")).unwrap();
}

fn multi_entries(rng: &mut SplitMix64, n: usize, out: &mut impl Write) {
    let long_a: String = "a".repeat(300);
    let long_dotted: String = format!("{}.{}", "layer".repeat(40), "w".repeat(60));
    let pool: Vec<&str> = vec![
        "a", "b", "a.b", "layer.0", "layer.1", "fc.weight", "fc.bias", "x.npy", "x.npy.npy", ".hidden", "trailing.", "a.b.c.d",
        "v1.2/w.q", "a.b/c", "dir/a", "dir/b.0", "model.layers.0.attn.q_proj.weight", "model.layers.0.attn.k_proj.weight",
        "\u{fc}n\u{ef}.c\u{f6}d\u{e9}", "\u{1f600}.\u{1f601}", "\u{65e5}\u{672c}.\u{8a9e}", "a b.c d", "A.NPY", "a.npz", "a.npy.bak", "0", "0.0", "..x", "x..", "a..b",
        &long_a, &long_dotted,
    ];
    let sets: Vec<Vec<&str>> = vec![
        vec!["a.b"], vec!["layer.0"], vec!["fc.weight", "fc.bias"], vec!["x.npy"], vec!["x.npy.npy"], vec![".hidden"], vec!["trailing."],
        vec!["layer.0", "layer.1", "layer.2.bias"], vec!["a", "a.b", "a.b.c"], vec!["v1.2/w.q", "v1.2/w.k"], vec!["a.b/c", "a.b/d"],
        vec!["model.layers.0.attn.q_proj.weight", "model.layers.0.attn.k_proj.weight", "model.layers.1.attn.q_proj.weight", "model.norm.weight"],
        vec!["\u{fc}n\u{ef}.c\u{f6}d\u{e9}", "\u{65e5}\u{672c}.\u{8a9e}", "\u{1f600}.\u{1f601}"], vec![&long_a, &long_dotted], vec!["0", "0.0", "0.0.0"],
        vec!["x", "x.npy"], vec!["a", "a"], vec!["a.npy", "a.npy.npy"], vec![""], vec!["a", ""], vec![".npy", "b"], vec![],
        vec!["a", "b", "c", "d", "e", "f", "g", "h"], vec!["w.0", "w.1", "w.2", "w.3", "w.4", "w.5"],
    ];
    let dts = ["i32", "f32", "u8", "bool", "f64", "i64", "u16"];
    for (i, set) in sets.iter().enumerate() {
        for fmt in ["npz", "st"] {
            emit_m(out, fmt, dts[i % dts.len()], rng.next() >> 1, set);
        }
    }
    for i in 0..n {
        let k = 1 + rng.below(4) as usize;
        let mut names: Vec<&str> = Vec::new();
        while names.len() < k {
            let c = rng.pick(&pool);
            // safetensors keeps one of two equal names silently; npz refuses: exercise collisions for npz only
            if i % 2 == 1 && names.contains(&c) { continue; }
            names.push(c);
        }
        emit_m(out, if i % 2 == 0 { "npz" } else { "st" }, rng.pick(&dts), rng.next() >> 1, &names);
    }
}

fn valid_npy(rng: &mut SplitMix64) -> Vec<u8> {
    let dt = rng.pick(&DTYPES);
    let rank = rng.below(4) as usize;
    let shape: Vec<usize> = (0..rank).map(|_| rng.below(4) as usize).collect();
    let seed = rng.next();
    let width = width_bits(dt);
    with_dtype!(dt, T => {
        let src = Source::<T>::new(&shape, 'c', seed, width);
        let mut buf = Vec::new();
        rten_serialize::npy::write(&mut buf, src.view()).unwrap();
        buf
    })
}

fn generate(seed: u64, n: usize, tier: &str, out: &mut impl Write) {
    let mut rng = SplitMix64(seed);
    let thorough = tier == "thorough";
    // 1. round trips: all dtypes x shapes x views x formats
    let shapes: Vec<Vec<usize>> = vec![
        vec![], vec![0], vec![1], vec![5], vec![0, 3], vec![3, 0], vec![1, 1], vec![2, 3], vec![3, 2], vec![1, 4], vec![4, 1],
        vec![2, 0, 3], vec![2, 3, 4], vec![1, 2, 1], vec![3, 1, 2], vec![2, 2, 2, 2], vec![1, 3, 2, 1], vec![2, 1, 0, 2], vec![4, 3, 2, 1],
        vec![10], vec![11], vec![99], vec![100], vec![9, 11], vec![101],
    ];
    let names = ["a", "a.npy", "x.npy.npy", "dir/a", "weights.0.bias", "\u{fc}n\u{ef}", "a b", "a.NPY", "npy", "a.npz", "layer.0", "fc.weight", ".hidden", "trailing.", "a.b"];
    let mut k = 0u64;
    for dt in DTYPES {
        for sh in &shapes {
            for view in ['c', 'p', 's', 'b'] {
                for (fi, fmt) in ["npy", "npz", "st"].into_iter().enumerate() {
                    k += 1;
                    // quick tier: every (dtype, shape, view) for npy; a rotating quarter for npz/st
                    if !thorough && fmt != "npy" && (k / 3 + fi as u64) % 5 != 0 {
                        continue;
                    }
                    let name = names[(k % names.len() as u64) as usize];
                    writeln!(out, "T|{}|{}|{}|{}|{}|{}", fmt, dt, fmt_shape(sh), view, rng.next() >> 1, hex(name.as_bytes())).unwrap();
                }
            }
        }
    }
    // header padding boundary: shapes whose decimal text moves the dict length across 64-byte steps
    for sh in [vec![1usize; 1], vec![123456789, 0], vec![0, 12345678901234567], vec![0, 1234567890123456789, 1], vec![0, 1, 1, 1, 1, 1, 1, 1, 1, 1, 1, 1, 1, 1, 1, 1, 1, 1, 1, 1, 1, 1, 1, 1],
               vec![0, 18446744073709551615], vec![18446744073709551615, 0], vec![0, 9223372036854775807, 2], vec![1, 1, 1, 1, 0, 1, 1, 1, 1, 1, 1, 1, 1, 1, 1, 1, 1, 1, 1, 1, 1, 1, 1, 1, 1, 1, 1, 1, 1, 1, 1, 1, 1, 1, 1, 1, 1, 1, 1]] {
        for dt in ["u8", "f64", "bool"] {
            writeln!(out, "T|npy|{}|{}|c|1|61", dt, fmt_shape(&sh)).unwrap();
        }
    }
    // header-length sweep: shape [k, 1, 1, ...] with k of 1-3 digits and rank 2..=25 gives dimension
    // texts of every length 4..=75, so the unpadded header length takes EVERY residue mod 64
    // (including 0, where the padding must be 0 and not 64). Pure text arithmetic: tiny tensors.
    let sweep_dts = ["i32", "u8", "f64", "i16", "bool", "u64", "f32"];
    let mut j = 0usize;
    for rank in 2..=25usize {
        for k in [2usize, 10, 100] {
            let mut sh = vec![1usize; rank];
            sh[0] = k;
            let dt = sweep_dts[j % sweep_dts.len()];
            j += 1;
            writeln!(out, "T|npy|{}|{}|c|{}|61", dt, fmt_shape(&sh), rng.next() >> 1).unwrap();
            writeln!(out, "T|npz|i32|{}|p|{}|{}", fmt_shape(&sh), rng.next() >> 1, hex(b"w.0")).unwrap();
        }
    }
    // npz / safetensors names incl. the empty base
    for name in ["", ".npy", ".npy.npy", "a", "a.npy", "a.npy.npy", "b/c.npy", ".npya", "npy.", "\u{1f600}.npy"] {
        writeln!(out, "T|npz|i32|2,2|c|7|{}", hex(name.as_bytes())).unwrap();
        writeln!(out, "T|st|i32|2,2|p|7|{}", hex(name.as_bytes())).unwrap();
    }
    // archives with several entries; entry names with dots, unicode, long names
    multi_entries(&mut rng, if thorough { 400 } else { 60 }, out);
    // 2. tensors of >= 4 GiB (never materialised)
    writeln!(out, "G|u64|536870912").unwrap();
    writeln!(out, "G|f64|2,268435456").unwrap();
    // 3. handcrafted header edge cases
    handcrafted(out);
    other_formats(&mut rng, n / 4, out);
    // 4. truncations of valid files (every prefix) and single-byte mutations
    let nfiles = if thorough { 12 } else { 2 };
    for _ in 0..nfiles {
        let f = valid_npy(&mut rng);
        for cut in 0..f.len() {
            emit_r(out, &f[..cut]);
        }
    }
    // 5. random mutations of valid files, random bytes
    let alphabet: &[u8] = b"{}'(),: \n\t0123456789TrueFalsdcfotnhp<>|=ibuf_+-";
    for i in 0..n {
        let mut f = valid_npy(&mut rng);
        match i % 8 {
            0..=3 => {
                for _ in 0..1 + rng.below(3) {
                    let hdr_end = (10 + u16::from_le_bytes([f[8], f[9]]) as usize).min(f.len());
                    let pos = if rng.chance(3, 4) { rng.below(hdr_end as u64) as usize } else { rng.below(f.len() as u64) as usize };
                    match rng.below(5) {
                        0 => f[pos] = rng.next() as u8,
                        1 => f[pos] = rng.pick(alphabet),
                        2 => { f.insert(pos, rng.pick(alphabet)); }
                        3 => { f.remove(pos); }
                        _ => f[pos] ^= 1 << rng.below(8),
                    }
                }
                emit_r(out, &f);
            }
            4 => {
                // replace a number in the shape by an extreme one
                let s = String::from_utf8_lossy(&f[10..]).to_string();
                let big = rng.pick(&["18446744073709551615", "18446744073709551616", "9223372036854775808", "4294967296", "4294967295", "0", "-1", "00", "1e3", "99999999999999999999999999"]);
                if let Some(i) = s.find("'shape': (") {
                    let mut t = s[..i + 10].to_string();
                    t.push_str(big);
                    t.push_str(", ");
                    t.push_str(&s[i + 10..]);
                    let mut g = f[..10].to_vec();
                    g.extend_from_slice(t.as_bytes());
                    emit_r(out, &g);
                } else {
                    emit_r(out, &f);
                }
            }
            5 => {
                let cut = rng.below(f.len() as u64 + 1) as usize;
                f.truncate(cut);
                let extra = rng.below(4);
                for _ in 0..extra { f.push(rng.next() as u8); }
                emit_r(out, &f);
            }
            6 => {
                // random dictionary text from the grammar's alphabet
                let l = rng.below(80) as usize;
                let mut d = vec![b'{'];
                for _ in 0..l { d.push(rng.pick(alphabet)); }
                let ver = rng.pick(&[(1u8, 0u8), (2, 0), (3, 0)]);
                emit_r(out, &mk_npy(ver, &d, &[1, 2, 3, 4, 5, 6, 7, 8], None));
            }
            _ => {
                let l = rng.below(120) as usize;
                let mut g: Vec<u8> = (0..l).map(|_| rng.next() as u8).collect();
                if rng.chance(2, 3) {
                    let mut h = MAGIC.to_vec();
                    h.push(rng.pick(&[1u8, 2, 3, 0, 9]));
                    h.push(0);
                    h.extend_from_slice(&g);
                    g = h;
                }
                emit_r(out, &g);
            }
        }
    }
}

fn main() {
    if std::env::var("VERIF_LOUD").is_err() { quiet_panics(); }
    let args: Vec<String> = std::env::args().collect();
    let stdout = std::io::stdout();
    let mut out = std::io::BufWriter::new(stdout.lock());
    match args.get(1).map(|s| s.as_str()) {
        Some("gen") => {
            let seed: u64 = args[2].parse().unwrap();
            let n: usize = args[3].parse().unwrap();
            generate(seed, n, &args[4], &mut out);
        }
        Some("exec") => {
            for line in std::io::stdin().lock().lines() {
                let line = line.unwrap();
                if line.trim().is_empty() { continue; }
                writeln!(out, "{}", exec_line(&line)).unwrap();
            }
        }
        _ => {
            eprintln!("usage: c34 gen <seed> <n> <tier> | c34 exec");
            std::process::exit(2);
        }
    }
}
