//! Shared helpers for the C34 correspondence harness (npy / npz / safetensors).
use rten_serialize::{DataType, Value, View};
use rten_tensor::prelude::*;
use rten_tensor::{SliceItem, Tensor, TensorView};
use std::io::{self, Cursor, Read, Write};

pub struct SplitMix64(pub u64);
impl SplitMix64 {
    pub fn next(&mut self) -> u64 {
        self.0 = self.0.wrapping_add(0x9E3779B97F4A7C15);
        let mut z = self.0;
        z = (z ^ (z >> 30)).wrapping_mul(0xBF58476D1CE4E5B9);
        z = (z ^ (z >> 27)).wrapping_mul(0x94D049BB133111EB);
        z ^ (z >> 31)
    }
    pub fn below(&mut self, n: u64) -> u64 {
        if n == 0 { 0 } else { self.next() % n }
    }
    pub fn pick<T: Clone>(&mut self, xs: &[T]) -> T {
        xs[self.below(xs.len() as u64) as usize].clone()
    }
    pub fn chance(&mut self, num: u64, den: u64) -> bool {
        self.below(den) < num
    }
}

pub fn quiet_panics() {
    std::panic::set_hook(Box::new(|_| {}));
}

pub fn hex(b: &[u8]) -> String {
    b.iter().map(|x| format!("{:02x}", x)).collect()
}
pub fn unhex(s: &str) -> Vec<u8> {
    (0..s.len() / 2).map(|i| u8::from_str_radix(&s[2 * i..2 * i + 2], 16).unwrap()).collect()
}
pub fn coq_bytes(b: &[u8]) -> String {
    let v: Vec<String> = b.iter().map(|x| x.to_string()).collect();
    format!("[{}]", v.join(";"))
}
pub fn coq_list_u64(b: &[u64]) -> String {
    let v: Vec<String> = b.iter().map(|x| x.to_string()).collect();
    format!("[{}]", v.join(";"))
}

// ------------------------------------------------------------------ element types
/// Conversion between an element and its bit pattern as an unsigned integer.
pub trait HBits: Copy + Default + Send + 'static {
    const COQ: &'static str;
    fn from_bits64(b: u64) -> Self;
    fn to_bits64(self) -> u64;
}
macro_rules! hbits_int {
    ($t:ty, $u:ty, $coq:literal) => {
        impl HBits for $t {
            const COQ: &'static str = $coq;
            fn from_bits64(b: u64) -> Self { (b as $u) as $t }
            fn to_bits64(self) -> u64 { (self as $u) as u64 }
        }
    };
}
hbits_int!(i8, u8, "DI8");
hbits_int!(i16, u16, "DI16");
hbits_int!(i32, u32, "DI32");
hbits_int!(i64, u64, "DI64");
hbits_int!(u8, u8, "DU8");
hbits_int!(u16, u16, "DU16");
hbits_int!(u32, u32, "DU32");
hbits_int!(u64, u64, "DU64");
impl HBits for f32 {
    const COQ: &'static str = "DF32";
    fn from_bits64(b: u64) -> Self { f32::from_bits(b as u32) }
    fn to_bits64(self) -> u64 { self.to_bits() as u64 }
}
impl HBits for f64 {
    const COQ: &'static str = "DF64";
    fn from_bits64(b: u64) -> Self { f64::from_bits(b) }
    fn to_bits64(self) -> u64 { self.to_bits() }
}
impl HBits for bool {
    const COQ: &'static str = "DBool";
    fn from_bits64(b: u64) -> Self { b & 1 != 0 }
    fn to_bits64(self) -> u64 { self as u64 }
}

/// Expand `$body` with `$T` bound to the Rust type named by the dtype string.
#[macro_export]
macro_rules! with_dtype {
    ($name:expr, $T:ident => $body:expr) => {
        match $name {
            "bool" => { type $T = bool; $body }
            "i8" => { type $T = i8; $body }
            "i16" => { type $T = i16; $body }
            "i32" => { type $T = i32; $body }
            "i64" => { type $T = i64; $body }
            "u8" => { type $T = u8; $body }
            "u16" => { type $T = u16; $body }
            "u32" => { type $T = u32; $body }
            "u64" => { type $T = u64; $body }
            "f32" => { type $T = f32; $body }
            "f64" => { type $T = f64; $body }
            other => panic!("unknown dtype {other}"),
        }
    };
}
pub const DTYPES: [&str; 11] = ["bool", "i8", "i16", "i32", "i64", "u8", "u16", "u32", "u64", "f32", "f64"];

pub fn width_bits(dt: &str) -> u32 {
    match dt {
        "bool" => 1,
        "i8" | "u8" => 8,
        "i16" | "u16" => 16,
        "i32" | "u32" | "f32" => 32,
        _ => 64,
    }
}

// ------------------------------------------------------------------ outcomes
#[derive(Debug, Clone, PartialEq)]
pub enum Outcome {
    Ok(&'static str, Vec<usize>, Vec<u64>),
    Err(String),
    Panic,
    Timeout,
}

impl Outcome {
    pub fn coq(&self) -> String {
        match self {
            Outcome::Ok(d, s, e) => {
                let sh: Vec<u64> = s.iter().map(|&x| x as u64).collect();
                format!("(ROk {} {} {})", d, coq_list_u64(&sh), coq_list_u64(e))
            }
            Outcome::Err(e) => format!("(RErr {})", e),
            Outcome::Panic => "RPanic".into(),
            Outcome::Timeout => "RTimeout".into(),
        }
    }
    pub fn tag(&self) -> String {
        match self {
            Outcome::Ok(..) => "ok".into(),
            Outcome::Err(e) => format!("err-{}", e.split(|c: char| !c.is_alphanumeric()).find(|s| !s.is_empty()).unwrap_or("x")),
            Outcome::Panic => "panic".into(),
            Outcome::Timeout => "timeout".into(),
        }
    }
}

/// Map an io::Error of the npy reader/writer to the model's `err` constructor.
pub fn classify_err(e: &io::Error) -> String {
    if e.kind() == io::ErrorKind::UnexpectedEof {
        return "EEof".into();
    }
    let m = e.to_string();
    let has = |s: &str| m.contains(s);
    if has("not an npy file") { "ENotNpy".into() }
    else if has("unsupported npy version") { "EVersion".into() }
    else if has("npy header is not valid UTF-8") { "EUtf8".into() }
    else if has("npy header string is not valid UTF-8") { "EStrUtf8".into() }
    else if has("expected `True` or `False`") { "EBool".into() }
    else if has("expected integer") { "EInt".into() }
    else if has("unterminated string") { "EUnterminated".into() }
    else if has("is out of range") { "EIntRange".into() }
    else if has("unexpected npy header key") { "EKey".into() }
    else if has("missing `descr`") { "(EMissing 0)".into() }
    else if has("missing `fortran_order`") { "(EMissing 1)".into() }
    else if has("missing `shape`") { "(EMissing 2)".into() }
    else if has("invalid npy dtype") { "EDescr".into() }
    else if has("unsupported npy dtype") { "EDtype".into() }
    else if has("element count overflows") { "ECount".into() }
    else if has("size in bytes overflows") { "EBytes".into() }
    else if has("array is too large") { "ETooLarge".into() }
    else if has("array data is truncated") { "ETruncated".into() }
    else if has("too large to encode") { "EHeaderTooLarge".into() }
    else if let Some(i) = m.find("expected `") {
        let c = m[i + 10..].chars().next().unwrap_or('?');
        format!("(EExpect {})", c as u32)
    } else { "EOther".into() }
}

pub fn value_outcome(v: Value) -> Outcome {
    macro_rules! arm {
        ($T:ty) => {{
            let t: Tensor<$T> = v.into_type::<$T>().unwrap();
            let shape = t.shape().to_vec();
            let bits: Vec<u64> = t.iter().map(|x| x.to_bits64()).collect();
            Outcome::Ok(<$T as HBits>::COQ, shape, bits)
        }};
    }
    match v.dtype() {
        DataType::Bool => arm!(bool),
        DataType::Int8 => arm!(i8),
        DataType::Int16 => arm!(i16),
        DataType::Int32 => arm!(i32),
        DataType::Int64 => arm!(i64),
        DataType::UInt8 => arm!(u8),
        DataType::UInt16 => arm!(u16),
        DataType::UInt32 => arm!(u32),
        DataType::UInt64 => arm!(u64),
        DataType::Float32 => arm!(f32),
        DataType::Float64 => arm!(f64),
        _ => Outcome::Err("EOther".into()),
    }
}

/// Run `f` on another thread under catch_unwind with a watchdog.
pub fn guarded<F>(f: F) -> Outcome
where
    F: FnOnce() -> Outcome + Send + 'static,
{
    let (tx, rx) = std::sync::mpsc::channel();
    let _ = std::thread::Builder::new().stack_size(8 << 20).spawn(move || {
        let r = std::panic::catch_unwind(std::panic::AssertUnwindSafe(f)).unwrap_or(Outcome::Panic);
        let _ = tx.send(r);
    });
    match rx.recv_timeout(std::time::Duration::from_secs(20)) {
        Ok(o) => o,
        Err(_) => Outcome::Timeout,
    }
}

pub fn npy_read_bytes(bytes: Vec<u8>) -> Outcome {
    guarded(move || match rten_serialize::npy::read(&bytes[..]) {
        Ok(v) => value_outcome(v),
        Err(e) => Outcome::Err(classify_err(&e)),
    })
}

// ------------------------------------------------------------------ views
/// The logical tensor (shape, elements) together with a source arrangement.
pub struct Source<T> {
    pub shape: Vec<usize>,
    pub elems: Vec<T>,
    backing: Tensor<T>,
    kind: char,
}

fn strides_of(shape: &[usize]) -> Vec<usize> {
    let mut st = vec![1usize; shape.len()];
    for i in (0..shape.len().saturating_sub(1)).rev() {
        st[i] = st[i + 1] * shape[i + 1];
    }
    st
}

impl<T: HBits> Source<T> {
    /// kind: 'c' contiguous, 'p' transposed storage, 's' every second element of a larger
    /// buffer, 'b' broadcast along the first axis (elements are repeated accordingly).
    pub fn new(shape: &[usize], kind: char, seed: u64, width: u32) -> Source<T> {
        let mut rng = SplitMix64(seed);
        let mask = if width >= 64 { u64::MAX } else { (1u64 << width) - 1 };
        let genv = |rng: &mut SplitMix64| -> u64 {
            match rng.below(8) {
                0 => 0,
                1 => mask,
                2 => 1u64 << (width - 1),
                3 => rng.below(4),
                4 if width == 32 => 0x7fc00001,          // f32 NaN with payload
                4 if width == 64 => 0xfff8000000000123,  // f64 NaN with payload
                _ => rng.next() & mask,
            }
        };
        let n: usize = shape.iter().product();
        let kind = if kind == 'b' && shape.is_empty() { 'c' } else { kind };
        if kind == 'b' {
            let inner: usize = shape[1..].iter().product();
            let small: Vec<T> = (0..inner).map(|_| T::from_bits64(genv(&mut rng))).collect();
            let mut elems = Vec::with_capacity(n);
            for _ in 0..shape[0] {
                elems.extend_from_slice(&small);
            }
            let mut sshape = shape.to_vec();
            sshape[0] = 1;
            let backing = Tensor::from_data(&sshape[..], small);
            return Source { shape: shape.to_vec(), elems, backing, kind };
        }
        let elems: Vec<T> = (0..n).map(|_| T::from_bits64(genv(&mut rng))).collect();
        let st = strides_of(shape);
        let backing = match kind {
            'p' => {
                // storage holds the transposed tensor contiguously
                let rshape: Vec<usize> = shape.iter().rev().copied().collect();
                let rst = strides_of(&rshape);
                let mut data = vec![T::default(); n];
                for (i, e) in elems.iter().enumerate() {
                    let mut rem = i;
                    let mut off = 0;
                    for k in 0..shape.len() {
                        let idx = rem / st[k];
                        rem %= st[k];
                        off += idx * rst[shape.len() - 1 - k];
                    }
                    data[off] = *e;
                }
                Tensor::from_data(&rshape[..], data)
            }
            's' => {
                let bshape: Vec<usize> = shape.iter().map(|d| 2 * d + 1).collect();
                let bst = strides_of(&bshape);
                let bn: usize = bshape.iter().product();
                let mut data: Vec<T> = (0..bn).map(|_| T::from_bits64(genv(&mut rng))).collect();
                for (i, e) in elems.iter().enumerate() {
                    let mut rem = i;
                    let mut off = 0;
                    for k in 0..shape.len() {
                        let idx = rem / st[k];
                        rem %= st[k];
                        off += (2 * idx + 1) * bst[k];
                    }
                    data[off] = *e;
                }
                Tensor::from_data(&bshape[..], data)
            }
            _ => Tensor::from_data(shape, elems.clone()),
        };
        Source { shape: shape.to_vec(), elems, backing, kind }
    }

    pub fn view(&self) -> TensorView<'_, T> {
        match self.kind {
            'p' => self.backing.transposed(),
            's' => {
                let items: Vec<SliceItem> = self.shape.iter().map(|_| SliceItem::range(1, None, 2)).collect();
                self.backing.slice(&items[..])
            }
            'b' => self.backing.broadcast(&self.shape[..]),
            _ => self.backing.view(),
        }
    }
}

// ------------------------------------------------------------------ round trips
pub struct Round {
    pub written: Vec<u8>,
    pub aux_out: Option<Vec<u8>>,
    pub outcome: Outcome,
}

pub fn round_npy<T: HBits>(src: &Source<T>) -> Round
where
    for<'a> TensorView<'a, T>: Into<View<'a>>,
{
    let mut buf = Vec::new();
    let w = std::panic::catch_unwind(std::panic::AssertUnwindSafe(|| rten_serialize::npy::write(&mut buf, src.view())));
    match w {
        Err(_) => Round { written: vec![], aux_out: None, outcome: Outcome::Panic },
        Ok(Err(e)) => Round { written: buf, aux_out: None, outcome: Outcome::Err(classify_err(&e)) },
        Ok(Ok(())) => {
            let outcome = npy_read_bytes(buf.clone());
            Round { written: buf, aux_out: None, outcome }
        }
    }
}

pub fn round_npz<T: HBits>(src: &Source<T>, name: &str) -> Round
where
    for<'a> TensorView<'a, T>: Into<View<'a>>,
{
    let mut cur = Cursor::new(Vec::new());
    let w = std::panic::catch_unwind(std::panic::AssertUnwindSafe(|| {
        rten_serialize::npz::write(&mut cur, [(name, src.view())])
    }));
    match w {
        Err(_) => Round { written: vec![], aux_out: None, outcome: Outcome::Panic },
        Ok(Err(_)) => Round { written: vec![], aux_out: None, outcome: Outcome::Err("EOther".into()) },
        Ok(Ok(())) => {
            let bytes = cur.into_inner();
            let (tx, rx) = std::sync::mpsc::channel();
            let outcome = guarded(move || match rten_serialize::npz::read(Cursor::new(bytes)) {
                Err(_) => Outcome::Err("EOther".into()),
                Ok(map) => {
                    if map.len() != 1 {
                        return Outcome::Err("EOther".into());
                    }
                    let (k, v) = map.into_iter().next().unwrap();
                    let _ = tx.send(k.into_bytes());
                    value_outcome(v)
                }
            });
            Round { written: vec![], aux_out: rx.try_recv().ok(), outcome }
        }
    }
}

pub fn round_safetensors<T: HBits>(src: &Source<T>, name: &str) -> Round
where
    for<'a> TensorView<'a, T>: Into<View<'a>>,
{
    let mut buf = Vec::new();
    let name_owned = name.to_string();
    let w = std::panic::catch_unwind(std::panic::AssertUnwindSafe(|| {
        rten_serialize::safetensors::write(&mut buf, [(name_owned.clone(), src.view())])
    }));
    match w {
        Err(_) => Round { written: vec![], aux_out: None, outcome: Outcome::Panic },
        Ok(Err(_)) => Round { written: vec![], aux_out: None, outcome: Outcome::Err("EOther".into()) },
        Ok(Ok(())) => {
            // dtype string in the JSON header
            let mut aux = None;
            if buf.len() >= 8 {
                let n = u64::from_le_bytes(buf[..8].try_into().unwrap()) as usize;
                if let Some(h) = buf.get(8..8 + n) {
                    let pat = b"\"dtype\":\"";
                    if let Some(i) = h.windows(pat.len()).position(|w| w == pat) {
                        let rest = &h[i + pat.len()..];
                        if let Some(j) = rest.iter().position(|&c| c == b'"') {
                            aux = Some(rest[..j].to_vec());
                        }
                    }
                }
            }
            let bytes = buf;
            let want = name.to_string();
            let outcome = guarded(move || match rten_serialize::safetensors::read(&bytes[..]) {
                Err(_) => Outcome::Err("EOther".into()),
                Ok(map) => {
                    if map.len() != 1 {
                        return Outcome::Err("EOther".into());
                    }
                    let (k, v) = map.into_iter().next().unwrap();
                    if k != want {
                        return Outcome::Err("EOther".into());
                    }
                    // read_array must agree with read
                    value_outcome(v)
                }
            });
            Round { written: vec![], aux_out: aux, outcome }
        }
    }
}

// ------------------------------------------------------------------ several entries in one archive
pub struct Multi {
    /// (name, shape, element bit patterns) of every tensor handed to the writer
    pub entries: Vec<(String, Vec<usize>, Vec<u64>)>,
    pub wrote: bool,
    /// everything `read` returned, sorted by key
    pub readback: Vec<(Vec<u8>, Outcome)>,
    /// `read_array(name)` for every written name, in order
    pub by_name: Vec<Outcome>,
}

/// Write one tensor per name (shapes cycle through a fixed list) into a single npz or
/// safetensors archive, read everything back with `read` and each name with `read_array`.
pub fn multi_round<T: HBits>(st: bool, names: &[String], seed: u64, width: u32) -> Multi
where
    for<'a> TensorView<'a, T>: Into<View<'a>>,
{
    let shapes: [&[usize]; 6] = [&[2], &[1, 3], &[], &[0], &[2, 2], &[3, 1, 1]];
    let kinds = ['c', 'p', 's', 'b'];
    let srcs: Vec<Source<T>> = names
        .iter()
        .enumerate()
        .map(|(i, _)| Source::<T>::new(shapes[(i + seed as usize) % shapes.len()], kinds[(i + (seed >> 8) as usize) % 4], seed.wrapping_add(i as u64 * 7919), width))
        .collect();
    let entries: Vec<(String, Vec<usize>, Vec<u64>)> = names
        .iter()
        .zip(srcs.iter())
        .map(|(n, s)| (n.clone(), s.shape.clone(), s.elems.iter().map(|x| x.to_bits64()).collect()))
        .collect();
    let items: Vec<(String, TensorView<'_, T>)> = names.iter().cloned().zip(srcs.iter().map(|s| s.view())).collect();
    let written: Result<io::Result<Vec<u8>>, _> = std::panic::catch_unwind(std::panic::AssertUnwindSafe(|| {
        if st {
            let mut buf = Vec::new();
            rten_serialize::safetensors::write(&mut buf, items).map(|_| buf)
        } else {
            let mut cur = Cursor::new(Vec::new());
            rten_serialize::npz::write(&mut cur, items).map(|_| cur.into_inner())
        }
    }));
    let bytes = match written {
        Ok(Ok(b)) => b,
        _ => return Multi { entries, wrote: false, readback: vec![], by_name: vec![] },
    };
    let b1 = bytes.clone();
    let (tx, rx) = std::sync::mpsc::channel();
    let _ = guarded(move || {
        let r = if st { rten_serialize::safetensors::read(&b1[..]) } else { rten_serialize::npz::read(Cursor::new(b1)) };
        if let Ok(map) = r {
            let mut v: Vec<(Vec<u8>, Outcome)> = map.into_iter().map(|(k, val)| (k.into_bytes(), value_outcome(val))).collect();
            v.sort_by(|a, b| a.0.cmp(&b.0));
            let _ = tx.send(v);
        }
        Outcome::Err("EOther".into())
    });
    let readback = rx.try_recv().unwrap_or_default();
    let mut by_name = Vec::new();
    for n in names {
        let b2 = bytes.clone();
        let n2 = n.clone();
        by_name.push(guarded(move || {
            let r = if st { rten_serialize::safetensors::read_array(&b2[..], &n2) } else { rten_serialize::npz::read_array(Cursor::new(b2), &n2) };
            match r {
                Ok(v) => value_outcome(v),
                Err(_) => Outcome::Err("EOther".into()),
            }
        }));
    }
    Multi { entries, wrote: true, readback, by_name }
}

// ------------------------------------------------------------------ tensors too large to materialise
struct CountingWriter {
    head: Vec<u8>,
    total: u64,
}
impl Write for CountingWriter {
    fn write(&mut self, buf: &[u8]) -> io::Result<usize> {
        let room = 4096usize.saturating_sub(self.head.len());
        self.head.extend_from_slice(&buf[..buf.len().min(room)]);
        self.total += buf.len() as u64;
        Ok(buf.len())
    }
    fn flush(&mut self) -> io::Result<()> { Ok(()) }
}

/// Write a broadcast zero tensor of `shape` (never materialised) and read it back from a
/// reader that replays the header followed by zero bytes.
pub fn big_round<T: HBits>(shape: &[usize]) -> (Vec<u8>, u64, Outcome)
where
    for<'a> TensorView<'a, T>: Into<View<'a>>,
{
    let ones: Vec<usize> = shape.iter().map(|_| 1).collect();
    let scalar = Tensor::from_data(&ones[..], vec![T::from_bits64(0)]);
    let view = scalar.broadcast(shape);
    let mut w = CountingWriter { head: Vec::new(), total: 0 };
    if let Err(e) = rten_serialize::npy::write(&mut w, view) {
        return (w.head, w.total, Outcome::Err(classify_err(&e)));
    }
    let hlen = if w.head.len() >= 10 { 10 + u16::from_le_bytes([w.head[8], w.head[9]]) as usize } else { w.head.len() };
    let header = w.head[..hlen.min(w.head.len())].to_vec();
    let total = w.total;
    let h2 = header.clone();
    let outcome = guarded(move || {
        let rest = total - h2.len() as u64;
        let reader = Cursor::new(h2).chain(io::repeat(0).take(rest));
        match rten_serialize::npy::read(reader) {
            Ok(v) => match v.dtype() {
                // do not expand billions of elements: report dtype and shape only
                _ => {
                    macro_rules! sh { ($T:ty) => { v.as_type::<$T>().map(|t| t.shape().to_vec()).ok() }; }
                    let shape = sh!(bool).or(sh!(i8)).or(sh!(i16)).or(sh!(i32)).or(sh!(i64)).or(sh!(u8)).or(sh!(u16)).or(sh!(u32)).or(sh!(u64)).or(sh!(f32)).or(sh!(f64)).unwrap();
                    let name = match v.dtype() {
                        DataType::Bool => "DBool", DataType::Int8 => "DI8", DataType::Int16 => "DI16", DataType::Int32 => "DI32",
                        DataType::Int64 => "DI64", DataType::UInt8 => "DU8", DataType::UInt16 => "DU16", DataType::UInt32 => "DU32",
                        DataType::UInt64 => "DU64", DataType::Float32 => "DF32", _ => "DF64",
                    };
                    Outcome::Ok(name, shape, vec![])
                }
            },
            Err(e) => Outcome::Err(classify_err(&e)),
        }
    });
    (header, total, outcome)
}

pub fn read_to_vec(mut r: impl Read) -> Vec<u8> {
    let mut v = Vec::new();
    let _ = r.read_to_end(&mut v);
    v
}
