//! rten-vecmath reducers built on the folding iterators (MinMax -> fold_n_unroll, Sum / SumSquare /
//! MaxNum / MinNum -> fold_unroll, Softmax's max) on a named ISA.  Inputs are small integers, so every
//! sum is exact in f32 whatever the order of summation.
use crate::slices::slice_input_family;
use rten_simd::verif::dispatch_on;
use rten_simd::SimdOp;
use rten_vecmath as vm;

pub const R_MINMAX: u32 = 0;
pub const R_SUM: u32 = 1;
pub const R_SUMSQUARE: u32 = 2;
pub const R_MAXNUM: u32 = 3;
pub const R_MINNUM: u32 = 4;
/// softmax of a constant vector: number of outputs that differ from 1/len (a wrong maximum makes every
/// exp underflow and the result NaN)
pub const R_SOFTMAX_CONST: u32 = 5;
pub const N_REDUCERS: u32 = 6;
pub const R_NAMES: [&str; 6] = ["MinMax", "Sum", "SumSquare", "MaxNum", "MinNum", "Softmax-const"];
/// Encoding of infinities (results for the empty slice) as integers.
pub const INF_CODE: i64 = 1 << 40;

fn enc(v: f32) -> i64 {
    if v.is_nan() {
        -(1 << 41)
    } else if v.is_infinite() {
        if v > 0.0 { INF_CODE } else { -INF_CODE }
    } else if v.fract() != 0.0 {
        (1 << 42) + v.to_bits() as i64 // not an integer: cannot be a correct result here
    } else {
        v as i64
    }
}

pub fn reducer_input(red: u32, family: u32, len: usize, seed: u64) -> Vec<i64> {
    if red == R_SOFTMAX_CONST {
        let c = match family { 1 => 100, 2 => -100, 3 => 3, 4 => -3, _ => 0 };
        return vec![c; len];
    }
    slice_input_family(5, len, seed, family)
}

struct Red<'a> {
    red: u32,
    xs: &'a [f32],
}
impl SimdOp for Red<'_> {
    type Output = Vec<i64>;
    #[inline(always)]
    fn eval<I: rten_simd::Isa>(self, isa: I) -> Vec<i64> {
        match self.red {
            R_MINMAX => {
                let (a, b) = vm::MinMax::new(self.xs).eval(isa);
                vec![enc(a), enc(b)]
            }
            R_SUM => vec![enc(vm::Sum::new(self.xs).eval(isa))],
            R_SUMSQUARE => vec![enc(vm::SumSquare::new(self.xs).eval(isa))],
            R_MAXNUM => vec![enc(vm::MaxNum::new(self.xs).eval(isa))],
            R_MINNUM => vec![enc(vm::MinNum::new(self.xs).eval(isa))],
            _ => {
                let mut buf = self.xs.to_vec();
                let out = vm::Softmax::new_mut(&mut buf).eval(isa);
                let want = 1.0f32 / (out.len() as f32);
                // exp(0) = 1 exactly, the sum of len ones is exact, x * (1 / len) = 1 / len
                vec![out.iter().filter(|v| v.to_bits() != want.to_bits()).count() as i64]
            }
        }
    }
}

/// Result per ISA; a panic is reported as the single value -(2^43).
pub fn run_reducer(isa: &str, red: u32, xs: &[i64]) -> Vec<i64> {
    let xf: Vec<f32> = xs.iter().map(|v| *v as f32).collect();
    let r = std::panic::catch_unwind(std::panic::AssertUnwindSafe(|| dispatch_on(isa, Red { red, xs: &xf })));
    match r {
        Ok(Some(v)) => v,
        _ => vec![-(1 << 43)],
    }
}

/// The scalar fold over exactly the slice elements (mirrors `reduce_spec` in SimdModel.v).
pub fn ref_reducer(red: u32, xs: &[i64]) -> Vec<i64> {
    match red {
        R_MINMAX => vec![xs.iter().copied().min().unwrap_or(INF_CODE), xs.iter().copied().max().unwrap_or(-INF_CODE)],
        R_SUM => vec![xs.iter().sum()],
        R_SUMSQUARE => vec![xs.iter().map(|x| x * x).sum()],
        R_MAXNUM => vec![xs.iter().copied().max().unwrap_or(-INF_CODE)],
        R_MINNUM => vec![xs.iter().copied().min().unwrap_or(INF_CODE)],
        _ => vec![0],
    }
}
