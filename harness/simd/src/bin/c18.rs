//! C18 correspondence harness: every rten-simd primitive / slice helper on every available
//! instruction set (through the `rten_simd::verif::dispatch_on` hook).
//!
//!   c18 gen <seed> <n> <tier>     print input lines
//!   c18 exec                      read input lines, print `tag \t input \t coq-case`
//!
//! Input lines:
//!   prim <ty> <op> <k> <x> <y> <z>                 one lane-wise integer primitive, all ISAs
//!   sweep <ty> <op> <k> <mode> [seed n]            exh | strat | rand : many operands, judged in Rust
//!   vec <isa> <ty> <v> <seed>                      one whole-vector primitive on one ISA
//!   flt <op> <xbits> <ybits> <zbits>               one f32 primitive, all ISAs
//!   fsweep <op> <seed> <n>                         many f32 operand triples
//!   slice <isa> <ty> <fn> <unroll> <opk> <len> <seed>
//!   slicesweep <isa> <ty> <fn> <unroll> <opk> <seed>   all lengths 0..=4*lanes+3, both placements
//!   vm <fn> <seed> <n>                             rten-vecmath unary op on all ISAs
//!   reduce <red> <family> <len> <seed>             rten-vecmath reducer (MinMax, Sum, ...) on all ISAs
//!   reducesweep <red> <family> <seed>              every length 0..=4*16+3, all ISAs, judged in Rust
use rten_simd::verif::{available_isas, dispatch_on};
use rten_simd::{Isa, SimdOp, SimdUnaryOp};
use std::io::{BufRead, Write};
use vh_simd::lanes::*;
use vh_simd::reducers::*;
use vh_simd::slices::*;
use vh_simd::vecops::*;
use vh_simd::*;

const PANIC_SENTINEL: i64 = 1 << 40;

// ---------------------------------------------------------------- integer lane ops
fn run_lane_all<T: IntElem>(op: u32, k: u32, xs: &[T], ys: &[T], zs: &[T], isas: &[&str]) -> Vec<Option<Vec<T>>> {
    isas.iter()
        .map(|isa| {
            let mut out = vec![T::default(); xs.len()];
            let r = std::panic::catch_unwind(std::panic::AssertUnwindSafe(|| {
                T::run(isa, LaneArgs { op, k, x: xs, y: ys, z: zs, out: &mut out })
            }));
            match r {
                Ok(Some(())) => Some(out),
                _ => None,
            }
        })
        .collect()
}

fn prim_typed<T: IntElem>(op: u32, k: u32, x: i64, y: i64, z: i64) -> Vec<i64> {
    let isas = available_isas();
    let xs = vec![T::from_i64(x); 64];
    let ys = vec![T::from_i64(y); 64];
    let zs = vec![T::from_i64(z); 64];
    let rs = run_lane_all::<T>(op, k, &xs, &ys, &zs, &isas);
    rs.iter()
        .map(|r| match r {
            Some(v) => {
                // every lane got the same operands: all lanes must hold the same value
                let v0 = v[0].to_i64();
                if v.iter().all(|e| e.to_i64() == v0) { v0 } else { PANIC_SENTINEL + 1 }
            }
            None => PANIC_SENTINEL,
        })
        .collect()
}

fn prim_line(p: &[&str]) -> (String, String) {
    let ty: u32 = p[1].parse().unwrap();
    let op: u32 = p[2].parse().unwrap();
    let k: u32 = p[3].parse().unwrap();
    let (x, y, z): (i64, i64, i64) = (p[4].parse().unwrap(), p[5].parse().unwrap(), p[6].parse().unwrap());
    let rs = match ty {
        0 => prim_typed::<i8>(op, k, x, y, z),
        1 => prim_typed::<u8>(op, k, x, y, z),
        2 => prim_typed::<i16>(op, k, x, y, z),
        3 => prim_typed::<u16>(op, k, x, y, z),
        _ => prim_typed::<i32>(op, k, x, y, z),
    };
    (
        format!("prim-{}-{}", TY_NAMES[ty as usize], OP_NAMES[op as usize]),
        format!("CPrim {} {} {} {} {} {} {}", ty, op, k, coq_z(x), coq_z(y), coq_z(z), coq_list_z(&rs)),
    )
}

fn third(ty: u32, x: i64, y: i64) -> i64 {
    wrap(ty, x.wrapping_mul(7) ^ y.wrapping_mul(13).wrapping_add(5))
}

/// Scalar reference for a whole chunk.  The result is computed in i64 (no overflow for these operand
/// sizes) and converted with an `as` cast, which Rust defines as reduction modulo 2^bits into the
/// type's range -- the same function as `wrap`.  The op is matched outside the loop; every 4099th
/// element is cross-checked against `ref_lane_op` (explicit `wrap`), which is the definition
/// mirrored in SimdModel.v.
fn ref_fill<T: IntElem>(op: u32, k: u32, xs: &[T], ys: &[T], zs: &[T], out: &mut [T]) {
    macro_rules! fill {
        (|$x:ident, $y:ident, $z:ident| $e:expr) => {
            for i in 0..xs.len() {
                let ($x, $y, $z) = (xs[i].to_i64(), ys[i].to_i64(), zs[i].to_i64());
                let _ = ($y, $z);
                out[i] = T::from_i64($e);
            }
        };
    }
    match op {
        OP_ADD => fill!(|x, y, z| x + y),
        OP_SUB => fill!(|x, y, z| x - y),
        OP_MUL => fill!(|x, y, z| x * y),
        OP_MULADD => fill!(|x, y, z| x * y + z),
        OP_MIN => fill!(|x, y, z| x.min(y)),
        OP_MAX => fill!(|x, y, z| x.max(y)),
        OP_CLAMP => fill!(|x, y, z| x.max(y).min(z)),
        OP_EQ => fill!(|x, y, z| (x == y) as i64),
        OP_GE => fill!(|x, y, z| (x >= y) as i64),
        OP_GT => fill!(|x, y, z| (x > y) as i64),
        OP_LT => fill!(|x, y, z| (x < y) as i64),
        OP_LE => fill!(|x, y, z| (x <= y) as i64),
        OP_AND => fill!(|x, y, z| x & y),
        OP_OR => fill!(|x, y, z| x | y),
        OP_XOR => fill!(|x, y, z| x ^ y),
        OP_NOT => fill!(|x, y, z| !x),
        OP_SHL => fill!(|x, y, z| x << k),
        OP_SHR => fill!(|x, y, z| x >> k),
        OP_ABS => fill!(|x, y, z| x.abs()),
        OP_NEG => fill!(|x, y, z| -x),
        OP_SELECT => fill!(|x, y, z| if z > 0 { x } else { y }),
        OP_SPLAT => fill!(|x, y, z| x),
        _ => unreachable!(),
    }
    let mut i = 0;
    while i < xs.len() {
        let slow = ref_lane_op(T::TY, op, k, xs[i].to_i64(), ys[i].to_i64(), zs[i].to_i64());
        assert!(out[i].to_i64() == slow, "harness bug: fast and explicit scalar references differ");
        i += 4099;
    }
}

/// Reusable buffers of a sweep (allocation and page faults dominated the run time otherwise).
struct SweepBufs<T> {
    exp: Vec<T>,
    outs: Vec<Vec<T>>,
}

/// Judge one chunk of operands on all ISAs against the Rust scalar definition.
fn sweep_chunk<T: IntElem>(op: u32, k: u32, xs: &[T], ys: &[T], zs: &[T], isas: &[&str], b: &mut SweepBufs<T>,
                           mism: &mut Option<(i64, i64, i64, Vec<i64>)>) {
    let n = xs.len();
    b.exp.resize(n, T::default());
    ref_fill::<T>(op, k, xs, ys, zs, &mut b.exp[..n]);
    b.outs.resize(isas.len(), vec![]);
    let mut ok: Vec<bool> = vec![];
    for (j, isa) in isas.iter().enumerate() {
        b.outs[j].resize(n, T::default());
        let out = &mut b.outs[j][..n];
        let r = std::panic::catch_unwind(std::panic::AssertUnwindSafe(|| T::run(isa, LaneArgs { op, k, x: xs, y: ys, z: zs, out })));
        ok.push(matches!(r, Ok(Some(()))));
    }
    if mism.is_some() {
        return;
    }
    if (0..isas.len()).all(|j| ok[j] && b.outs[j][..n] == b.exp[..n]) {
        return;
    }
    for i in 0..n {
        let vals: Vec<i64> = (0..isas.len()).map(|j| if ok[j] { b.outs[j][i].to_i64() } else { PANIC_SENTINEL }).collect();
        if vals.iter().any(|v| *v != b.exp[i].to_i64()) {
            *mism = Some((xs[i].to_i64(), ys[i].to_i64(), zs[i].to_i64(), vals));
            return;
        }
    }
}

fn sweep_typed<T: IntElem>(op: u32, k: u32, mode: &str, seed: u64, n: u64) -> (u64, Option<(i64, i64, i64, Vec<i64>)>) {
    let ty = T::TY;
    let isas = available_isas();
    let bits = ty_bits(ty);
    let (lo, hi) = (ty_min(ty), ty_max(ty));
    let mut mism = None;
    let mut count = 0u64;
    const CH: usize = 65536;
    let mut xs: Vec<T> = Vec::with_capacity(CH);
    let mut ys: Vec<T> = Vec::with_capacity(CH);
    let mut zs: Vec<T> = Vec::with_capacity(CH);
    let bufs = std::cell::RefCell::new(SweepBufs::<T> { exp: vec![], outs: vec![] });
    let flush = |xs: &mut Vec<T>, ys: &mut Vec<T>, zs: &mut Vec<T>, mism: &mut Option<_>, count: &mut u64| {
        if xs.is_empty() {
            return;
        }
        *count += xs.len() as u64;
        while xs.len() % 64 != 0 {
            xs.push(T::default());
            ys.push(T::default());
            zs.push(T::default());
        }
        sweep_chunk::<T>(op, k, xs, ys, zs, &isas, &mut bufs.borrow_mut(), mism);
        xs.clear();
        ys.clear();
        zs.clear();
    };
    let arity = op_arity(op);
    match mode {
        // every operand pair (x, y) of the type; z derived (8 and 16 bit types)
        "exh" => {
            assert!(bits <= 16);
            if arity == 1 {
                for x in lo..=hi {
                    xs.push(T::from_i64(x));
                    ys.push(T::from_i64(third(ty, x, 1)));
                    zs.push(T::from_i64(third(ty, x, 2)));
                }
                flush(&mut xs, &mut ys, &mut zs, &mut mism, &mut count);
            } else {
                // optional partition of the x range: `exh <part> <nparts>` (seed / n arguments reused)
                let (part, nparts) = if n > 0 { (seed as i64, n as i64) } else { (0, 1) };
                let span = hi - lo + 1;
                let (xlo, xhi) = (lo + span * part / nparts, lo + span * (part + 1) / nparts - 1);
                if bits == 16 {
                    // one chunk per x: xs = splat(x), ys = every value (built once), zs = cheap mix of both
                    let all: Vec<T> = (lo..=hi).map(T::from_i64).collect();
                    let mut xv = vec![T::default(); all.len()];
                    let mut zv = vec![T::default(); all.len()];
                    for x in xlo..=xhi {
                        let xt = T::from_i64(x);
                        for i in 0..all.len() {
                            xv[i] = xt;
                            zv[i] = T::from_i64(x.wrapping_mul(7) ^ (all[i].to_i64().wrapping_mul(13) + 5));
                        }
                        count += all.len() as u64;
                        sweep_chunk::<T>(op, k, &xv, &all, &zv, &isas, &mut bufs.borrow_mut(), &mut mism);
                        if mism.is_some() {
                            break;
                        }
                    }
                } else {
                    for x in xlo..=xhi {
                        for y in lo..=hi {
                            xs.push(T::from_i64(x));
                            ys.push(T::from_i64(y));
                            zs.push(T::from_i64(third(ty, x, y)));
                            if xs.len() == CH {
                                flush(&mut xs, &mut ys, &mut zs, &mut mism, &mut count);
                            }
                        }
                        if mism.is_some() {
                            break;
                        }
                    }
                    flush(&mut xs, &mut ys, &mut zs, &mut mism, &mut count);
                }
            }
        }
        // boundary values x every value (both orders) + seeded random triples
        _ => {
            let bv = boundary_values(ty);
            if bits <= 16 && mode == "strat" {
                for &b in &bv {
                    for v in lo..=hi {
                        xs.push(T::from_i64(b));
                        ys.push(T::from_i64(v));
                        zs.push(T::from_i64(third(ty, v, b)));
                        xs.push(T::from_i64(v));
                        ys.push(T::from_i64(b));
                        zs.push(T::from_i64(third(ty, b, v)));
                        if xs.len() >= CH {
                            flush(&mut xs, &mut ys, &mut zs, &mut mism, &mut count);
                        }
                    }
                }
            } else {
                for &a in &bv {
                    for &b in &bv {
                        for &c in &[bv[0], 0, 1, *bv.last().unwrap(), third(ty, a, b)] {
                            xs.push(T::from_i64(a));
                            ys.push(T::from_i64(b));
                            zs.push(T::from_i64(c));
                        }
                    }
                }
                flush(&mut xs, &mut ys, &mut zs, &mut mism, &mut count);
            }
            let mut rng = SplitMix64(seed ^ ((ty as u64) << 8) ^ ((op as u64) << 16) ^ ((k as u64) << 24));
            for _ in 0..n {
                let pickv = |rng: &mut SplitMix64| -> i64 {
                    match rng.below(4) {
                        0 => rng.pick(&bv),
                        1 => wrap(ty, (rng.next() >> 40) as i64 - (1 << 23)), // small magnitude
                        _ => wrap(ty, rng.next() as i64),
                    }
                };
                xs.push(T::from_i64(pickv(&mut rng)));
                ys.push(T::from_i64(pickv(&mut rng)));
                zs.push(T::from_i64(pickv(&mut rng)));
                if xs.len() == CH {
                    flush(&mut xs, &mut ys, &mut zs, &mut mism, &mut count);
                }
            }
            flush(&mut xs, &mut ys, &mut zs, &mut mism, &mut count);
        }
    }
    (count, mism)
}

fn sweep_line(p: &[&str]) -> (String, String) {
    let ty: u32 = p[1].parse().unwrap();
    let op: u32 = p[2].parse().unwrap();
    let k: u32 = p[3].parse().unwrap();
    let mode = p[4];
    let seed: u64 = p.get(5).map_or(0, |s| s.parse().unwrap());
    let n: u64 = p.get(6).map_or(0, |s| s.parse().unwrap());
    let (count, mism) = match ty {
        0 => sweep_typed::<i8>(op, k, mode, seed, n),
        1 => sweep_typed::<u8>(op, k, mode, seed, n),
        2 => sweep_typed::<i16>(op, k, mode, seed, n),
        3 => sweep_typed::<u16>(op, k, mode, seed, n),
        _ => sweep_typed::<i32>(op, k, mode, seed, n),
    };
    let m = match &mism {
        None => "None".to_string(),
        Some((x, y, z, rs)) => format!("(Some ({}, {}, {}, {}))", coq_z(*x), coq_z(*y), coq_z(*z), coq_list_z(rs)),
    };
    (
        format!("sweep-{}-{}-{}", mode, TY_NAMES[ty as usize], OP_NAMES[op as usize]),
        format!("CSweep {} {} {} {} {}", ty, op, k, count, m),
    )
}

// ---------------------------------------------------------------- whole-vector ops
fn vec_inputs(ty: u32, v: u32, lanes: usize, seed: u64) -> (Vec<i64>, Vec<i64>) {
    let mut rng = SplitMix64(seed ^ ((ty as u64) << 40) ^ ((v as u64) << 48));
    let bv = boundary_values(ty);
    let style = rng.below(6);
    let genv = |rng: &mut SplitMix64| -> Vec<i64> {
        (0..lanes)
            .map(|i| match style {
                0 => rng.pick(&bv),
                1 => wrap(ty, rng.next() as i64),
                2 => wrap(ty, i as i64 + 1),              // lane index: exposes permutations
                3 => [1, 0, -1][rng.below(3) as usize].max(ty_min(ty)),
                4 => if rng.chance(1, 2) { rng.pick(&bv) } else { wrap(ty, (rng.next() >> 44) as i64 - (1 << 19)) },
                _ => if i == rng.below(lanes as u64) as usize { rng.pick(&bv) } else { 1 },
            })
            .collect()
    };
    let mut a = genv(&mut rng);
    let mut b = genv(&mut rng);
    if style == 2 {
        for e in b.iter_mut() {
            *e = wrap(ty, *e + 100);
        }
    }
    if v == V_FIRST_N_MASK {
        a[0] = rng.below(lanes as u64 + 1) as i64;
    }
    if v == V_LOAD_PAD {
        b[0] = rng.below(lanes as u64 + 1) as i64;
    }
    (a, b)
}

fn vec_line(p: &[&str]) -> (String, String) {
    let isa = p[1];
    let ty: u32 = p[2].parse().unwrap();
    let v: u32 = p[3].parse().unwrap();
    let seed: u64 = p[4].parse().unwrap();
    let lanes = lanes_of(isa, ty);
    let (a, b) = vec_inputs(ty, v, lanes, seed);
    let r = run_vec(isa, ty, VecArgs { v, a: &a, b: &b }).expect("isa");
    let rt = match &r {
        Ok(v) => format!("(Some {})", coq_list_z(v)),
        Err(()) => "None".to_string(),
    };
    (
        format!("vec-{}-{}-{}", isa, TY_NAMES[ty as usize], V_NAMES[v as usize]),
        format!("CVec {} {} {} {} {} {}", ty, v, lanes, coq_list_z(&a), coq_list_z(&b), rt),
    )
}

// ---------------------------------------------------------------- f32 lane ops
fn flt_all(op: u32, xs: &[u32], ys: &[u32], zs: &[u32], isas: &[&str]) -> Vec<Option<Vec<u32>>> {
    isas.iter()
        .map(|isa| {
            let mut out = vec![0u32; xs.len()];
            let r = std::panic::catch_unwind(std::panic::AssertUnwindSafe(|| {
                run_f32(isa, LaneArgs { op, k: 0, x: xs, y: ys, z: zs, out: &mut out })
            }));
            match r {
                Ok(Some(())) => Some(out),
                _ => None,
            }
        })
        .collect()
}
fn f_same(a: u32, b: u32) -> bool {
    a == b || (is_nan_bits(a) && is_nan_bits(b))
}
fn flt_ok(rs: &[i64], r1: Option<u32>, r2: Option<u32>) -> bool {
    let inr = |r: i64| r >= 0 && r <= u32::MAX as i64;
    match r1 {
        Some(a) => rs.iter().all(|r| inr(*r) && (f_same(*r as u32, a) || r2.map_or(false, |b| f_same(*r as u32, b)))),
        None => rs.iter().all(|r| inr(*r) && inr(rs[0]) && f_same(*r as u32, rs[0] as u32)),
    }
}
fn opt_z(o: Option<u32>) -> String {
    o.map_or("None".to_string(), |v| format!("(Some {})", v))
}
/// The recorded, documented-as-unspecified divergence (finding F52): float -> int conversion of
/// NaN / out-of-range values saturates on the generic ISA (Rust `as`) and yields the x86
/// "integer indefinite" value 0x80000000 on AVX2 / AVX-512.
fn is_f52(op: u32, xb: u32, isas: &[&str], rs: &[i64]) -> bool {
    if op != F_TRUNC_I && op != F_ROUND_I {
        return false;
    }
    let x = f32::from_bits(xb);
    let want_generic = if op == F_TRUNC_I { x as i32 } else { x.round_ties_even() as i32 } as u32 as i64;
    ref_f32(op, xb, 0, 0).0.is_none()
        && isas.iter().zip(rs).all(|(isa, r)| if *isa == "generic" { *r == want_generic } else { *r == 0x8000_0000 })
}

fn flt_line(p: &[&str]) -> (String, String) {
    let op: u32 = p[1].parse().unwrap();
    let (x, y, z): (u32, u32, u32) = (p[2].parse().unwrap(), p[3].parse().unwrap(), p[4].parse().unwrap());
    let isas = available_isas();
    let rs = flt_all(op, &[x; 64], &[y; 64], &[z; 64], &isas);
    let vals: Vec<i64> = rs
        .iter()
        .map(|r| match r {
            Some(v) => if v.iter().all(|e| *e == v[0] || (is_nan_bits(*e) && is_nan_bits(v[0]))) { v[0] as i64 } else { PANIC_SENTINEL + 1 },
            None => PANIC_SENTINEL,
        })
        .collect();
    let (r1, r2) = ref_f32(op, x, y, z);
    let tag = if is_f52(op, x, &isas, &vals) && !flt_ok(&vals, r1, r2) { "known-F52".to_string() } else { format!("flt-{}", F_NAMES[op as usize]) };
    (tag, format!("CFlt {} {} {} {} {} {} {}", op, x, y, z, coq_list_z(&vals), opt_z(r1), opt_z(r2)))
}

fn fsweep_line(p: &[&str]) -> (String, String) {
    let op: u32 = p[1].parse().unwrap();
    let seed: u64 = p[2].parse().unwrap();
    let n: usize = p[3].parse().unwrap();
    let isas = available_isas();
    let sp = float_specials();
    let mut xs = vec![];
    let mut ys = vec![];
    let mut zs = vec![];
    // all pairs of special values first, then seeded random triples
    for (i, &a) in sp.iter().enumerate() {
        for (j, &b) in sp.iter().enumerate() {
            xs.push(a);
            ys.push(b);
            zs.push(sp[(i * 7 + j * 3) % sp.len()]);
        }
    }
    let mut rng = SplitMix64(seed ^ ((op as u64) << 32) ^ 0xf10a7);
    for _ in 0..n {
        xs.push(random_float_bits(&mut rng));
        ys.push(random_float_bits(&mut rng));
        zs.push(random_float_bits(&mut rng));
    }
    let count = xs.len();
    while xs.len() % 64 != 0 {
        xs.push(0);
        ys.push(0);
        zs.push(0);
    }
    let rs = flt_all(op, &xs, &ys, &zs, &isas);
    let mut mism = None;
    let mut f52 = 0u64;
    for i in 0..count {
        let vals: Vec<i64> = rs.iter().map(|r| r.as_ref().map_or(PANIC_SENTINEL, |v| v[i] as i64)).collect();
        let (r1, r2) = ref_f32(op, xs[i], ys[i], zs[i]);
        if !flt_ok(&vals, r1, r2) {
            if is_f52(op, xs[i], &isas, &vals) {
                f52 += 1;
                continue;
            }
            mism = Some((xs[i], ys[i], zs[i], vals, r1, r2));
            break;
        }
    }
    let m = match &mism {
        None => "None".to_string(),
        Some((x, y, z, vals, r1, r2)) => format!("(Some ({}, {}, {}, {}, {}, {}))", x, y, z, coq_list_z(vals), opt_z(*r1), opt_z(*r2)),
    };
    let tag = if f52 > 0 { format!("fsweep-{}-F52x{}", F_NAMES[op as usize], f52) } else { format!("fsweep-{}", F_NAMES[op as usize]) };
    (tag, format!("CFSweep {} {} {}", op, count, m))
}

// ---------------------------------------------------------------- slices (guard pages, child process)
fn slice_ty_name(ty: u32) -> &'static str {
    if ty >= 5 { "f32" } else { TY_NAMES[ty as usize] }
}
fn slice_lens(isa: &str, ty: u32) -> usize {
    4 * lanes_of(isa, ty) + 3
}

/// Run slice cases for lengths from..=to, each at both placements (end of the mapping against the
/// trailing guard page, start of the mapping against the leading guard page).
fn slice_run(isa: &str, ty: u32, fn_: u32, unroll: u32, opk: u32, seed: u64, from: usize, to: usize) -> Vec<(usize, bool, Vec<i64>)> {
    let mut res = vec![];
    for len in from..=to {
        let xs = slice_input(ty, fn_, opk, len, seed);
        let r = std::panic::catch_unwind(|| {
            let r0 = run_slice(isa, ty, fn_, unroll, opk, &xs, 0);
            let r1 = run_slice(isa, ty, fn_, unroll, opk, &xs, 1);
            let fault = !r0.canary_ok || !r1.canary_ok || r0.out != r1.out;
            (fault, r0.out)
        });
        let (fault, out) = r.unwrap_or((true, vec![]));
        res.push((len, fault, out));
    }
    res
}

fn slice_case(ty: u32, fn_: u32, unroll: u32, opk: u32, lanes: usize, xs: &[i64], out: &[i64], fault: bool) -> String {
    format!("CSlice {} {} {} {} {} {} {} {}", ty, fn_, unroll, opk, lanes, coq_list_z(xs), coq_list_z(out), fault)
}

fn slice_line(p: &[&str]) -> (String, String) {
    let isa = p[1];
    let n = |i: usize| -> u64 { p[i].parse().unwrap() };
    let (ty, fn_, unroll, opk, len, seed) = (n(2) as u32, n(3) as u32, n(4) as u32, n(5) as u32, n(6) as usize, n(7));
    let lanes = lanes_of(isa, ty);
    let r = slice_run(isa, ty, fn_, unroll, opk, seed, len, len);
    let (_, fault, out) = &r[0];
    let xs = slice_input(ty, fn_, opk, len, seed);
    let kind = if len == 0 { "empty" } else if len % lanes == 0 { "full" } else if len < lanes { "tailonly" } else { "tail" };
    (
        format!("slice-{}-{}-{}-{}", isa, slice_ty_name(ty), S_NAMES[fn_ as usize], kind),
        slice_case(ty, fn_, unroll, opk, lanes, &xs, out, *fault),
    )
}

fn slicesweep_line(p: &[&str]) -> (String, String) {
    let isa = p[1];
    let n = |i: usize| -> u64 { p[i].parse().unwrap() };
    let (ty, fn_, unroll, opk, seed) = (n(2) as u32, n(3) as u32, n(4) as u32, n(5) as u32, n(6));
    let lanes = lanes_of(isa, ty);
    let to = slice_lens(isa, ty).max(lanes * unroll as usize * 2 + 3);
    let r = slice_run(isa, ty, fn_, unroll, opk, seed, 0, to);
    let mut bad: Option<usize> = None;
    for (len, fault, out) in &r {
        let xs = slice_input(ty, fn_, opk, *len, seed);
        let want = ref_slice(ty, fn_, unroll, opk, lanes, &xs);
        if *fault || *out != want {
            bad = Some(*len);
            break;
        }
    }
    (
        format!("slicesweep-{}-{}-{}", isa, slice_ty_name(ty), S_NAMES[fn_ as usize]),
        format!("CSliceSweep {} {} {} {} {} {} {}", ty, fn_, unroll, opk, lanes, r.len(), bad.map_or("None".to_string(), |l| format!("(Some {}%N)", l))),
    )
}

// ---------------------------------------------------------------- vecmath ops on every ISA
const VM_NAMES: [&str; 11] = ["exp", "sigmoid", "tanh", "erf", "sin", "cos", "silu", "gelu", "approx_gelu", "swish", "elu"];
struct VmOp<'a> {
    f: u32,
    xs: &'a [f32],
    out: &'a mut [f32],
}
impl SimdOp for VmOp<'_> {
    type Output = ();
    #[inline(always)]
    fn eval<I: Isa>(self, isa: I) {
        use rten_simd::functional::simd_map;
        use rten_vecmath as vm;
        let ops = isa.f32();
        self.out.copy_from_slice(self.xs);
        let o = self.out;
        match self.f {
            0 => { simd_map(ops, o, #[inline(always)] |x| vm::Exp {}.eval(isa, x)); }
            1 => { simd_map(ops, o, #[inline(always)] |x| vm::Sigmoid {}.eval(isa, x)); }
            2 => { simd_map(ops, o, #[inline(always)] |x| vm::Tanh {}.eval(isa, x)); }
            3 => { simd_map(ops, o, #[inline(always)] |x| vm::Erf {}.eval(isa, x)); }
            4 => { simd_map(ops, o, #[inline(always)] |x| vm::Sin::new().eval(isa, x)); }
            5 => { simd_map(ops, o, #[inline(always)] |x| vm::Cos::new().eval(isa, x)); }
            6 => { simd_map(ops, o, #[inline(always)] |x| vm::Silu {}.eval(isa, x)); }
            7 => { simd_map(ops, o, #[inline(always)] |x| vm::Gelu {}.eval(isa, x)); }
            8 => { simd_map(ops, o, #[inline(always)] |x| vm::ApproxGelu {}.eval(isa, x)); }
            9 => { simd_map(ops, o, #[inline(always)] |x| vm::Swish { alpha: 1.7 }.eval(isa, x)); }
            _ => { simd_map(ops, o, #[inline(always)] |x| vm::Elu { alpha: 0.5 }.eval(isa, x)); }
        }
    }
}
fn vm_line(p: &[&str]) -> (String, String) {
    let f: u32 = p[1].parse().unwrap();
    let seed: u64 = p[2].parse().unwrap();
    let n: usize = p[3].parse().unwrap();
    let isas = available_isas();
    let mut rng = SplitMix64(seed ^ ((f as u64) << 20) ^ 0x7ec);
    let mut xs: Vec<f32> = float_specials().iter().map(|b| f32::from_bits(*b)).collect();
    for _ in 0..n {
        let b = match rng.below(3) {
            0 => random_float_bits(&mut rng),
            1 => ((rng.below(2_000_001) as f32 - 1_000_000.0) / 10_000.0).to_bits(), // [-100, 100]
            _ => ((rng.below(2_000_001) as f32 - 1_000_000.0) / 125_000.0).to_bits(), // [-8, 8]
        };
        xs.push(f32::from_bits(b));
    }
    // sin/cos fall back to the scalar libm path when ANY lane of a vector is large, so the result
    // of a lane may depend on its neighbours; keep those inputs out of the cross-ISA comparison
    if f == 4 || f == 5 {
        for x in xs.iter_mut() {
            if !(x.abs() < 40000.0) {
                *x = 1.0;
            }
        }
    }
    let outs: Vec<Vec<f32>> = isas
        .iter()
        .map(|isa| {
            let mut out = vec![0f32; xs.len()];
            dispatch_on(isa, VmOp { f, xs: &xs, out: &mut out });
            out
        })
        .collect();
    let fma = |isa: &str| isa != "generic";
    let mut pick = 0;
    'outer: for i in 0..xs.len() {
        for a in 0..isas.len() {
            for b in a + 1..isas.len() {
                if fma(isas[a]) == fma(isas[b]) && !f_same(outs[a][i].to_bits(), outs[b][i].to_bits()) {
                    pick = i;
                    break 'outer;
                }
            }
        }
    }
    let rs: Vec<String> = isas.iter().enumerate().map(|(a, isa)| format!("({}, {})", fma(isa), outs[a][pick].to_bits())).collect();
    (format!("vm-{}", VM_NAMES[f as usize]), format!("CVm {} {} [{}]%Z", f, xs[pick].to_bits(), rs.join(";")))
}

// ---------------------------------------------------------------- vecmath reducers
fn reduce_line(p: &[&str]) -> (String, String) {
    let n = |i: usize| -> u64 { p[i].parse().unwrap() };
    let (red, family, len, seed) = (n(1) as u32, n(2) as u32, n(3) as usize, n(4));
    let xs = reducer_input(red, family, len, seed);
    let rs: Vec<String> = available_isas().iter().map(|isa| coq_list_z(&run_reducer(isa, red, &xs))).collect();
    (
        format!("reduce-{}-fam{}-{}", R_NAMES[red as usize], family, if len == 0 { "empty" } else if len % 16 == 0 { "full" } else { "tail" }),
        format!("CReduce {} {} [{}]", red, coq_list_z(&xs), rs.join(";")),
    )
}
fn reducesweep_line(p: &[&str]) -> (String, String) {
    let n = |i: usize| -> u64 { p[i].parse().unwrap() };
    let (red, family, seed) = (n(1) as u32, n(2) as u32, n(3));
    let isas = available_isas();
    let mut bad: Option<usize> = None;
    let to = 4 * 16 + 3;
    for len in 0..=to {
        let xs = reducer_input(red, family, len, seed);
        let want = ref_reducer(red, &xs);
        if isas.iter().any(|isa| run_reducer(isa, red, &xs) != want) {
            bad = Some(len);
            break;
        }
    }
    (
        format!("reducesweep-{}-fam{}", R_NAMES[red as usize], family),
        format!("CReduceSweep {} {} {} {}", red, family, to + 1, bad.map_or("None".to_string(), |l| format!("(Some {}%N)", l))),
    )
}

// ---------------------------------------------------------------- gen / exec
fn shifts_for(ty: u32, thorough: bool) -> Vec<u32> {
    let b = ty_bits(ty);
    if b <= 16 || thorough { (0..b).collect() } else { vec![0, 1, 7, 8, 16, 23, 31] }
}

fn generate(seed: u64, n: usize, tier: &str, out: &mut impl Write) {
    let thorough = tier == "thorough";
    let isas = available_isas();
    let mut rng = SplitMix64(seed);
    if tier == "debug" {
        // reduced set for the unoptimised build with overflow checks: what differs between the
        // profiles is integer overflow (arithmetic in the generic ISA, shifts building masks)
        for ty in 0..5u32 {
            for op in 0..N_LANE_OPS {
                if !op_defined(ty, op) {
                    continue;
                }
                let ks = if op == OP_SHL || op == OP_SHR { vec![0, 1, ty_bits(ty) - 1] } else { vec![0] };
                for k in ks {
                    if ty_bits(ty) == 8 && matches!(op, OP_ADD | OP_SUB | OP_MUL | OP_MULADD | OP_ABS | OP_NEG | OP_SHL | OP_SHR) {
                        writeln!(out, "sweep {} {} {} exh", ty, op, k).unwrap();
                    } else {
                        writeln!(out, "sweep {} {} {} rand {} {}", ty, op, k, seed, 1 << 12).unwrap();
                    }
                }
            }
        }
        for op in 0..N_FLOAT_OPS {
            writeln!(out, "fsweep {} {} {}", op, seed, 1 << 10).unwrap();
        }
        for isa in &isas {
            for ty in [0u32, 3, 4, 5] {
                for f in [S_MAP_INPLACE, S_APPLY, S_ITER, S_FOLD_UNROLL] {
                    writeln!(out, "slicesweep {} {} {} 2 0 {}", isa, ty, f, seed).unwrap();
                }
                writeln!(out, "slicesweep {} {} {} 1 1 {}", isa, ty, S_FOLD_N, seed).unwrap();
                writeln!(out, "slicesweep {} {} {} 2 2 {}", isa, ty, S_FOLD_N_UNROLL, seed).unwrap();
            }
            for ty in 0..5u32 {
                for v in 0..N_VEC_OPS {
                    if vop_defined(ty, v) {
                        writeln!(out, "vec {} {} {} {}", isa, ty, v, rng.next() >> 16).unwrap();
                    }
                }
            }
        }
        for _ in 0..n {
            let ty = rng.below(5) as u32;
            let op = rng.pick(&[OP_ADD, OP_SUB, OP_MUL, OP_MULADD, OP_ABS, OP_NEG, OP_SHL, OP_CLAMP, OP_NOT]);
            if !op_defined(ty, op) {
                continue;
            }
            let k = if op == OP_SHL { rng.below(ty_bits(ty) as u64) as u32 } else { 0 };
            let bv = boundary_values(ty);
            writeln!(out, "prim {} {} {} {} {} {}", ty, op, k, rng.pick(&bv), rng.pick(&bv), rng.pick(&bv)).unwrap();
        }
        return;
    }
    // 1. sweeps judged in Rust (every op, every type)
    for ty in 0..5u32 {
        for op in 0..N_LANE_OPS {
            if !op_defined(ty, op) {
                continue;
            }
            let ks = if op == OP_SHL || op == OP_SHR { shifts_for(ty, thorough) } else { vec![0] };
            for k in ks {
                let bits = ty_bits(ty);
                if bits == 8 {
                    writeln!(out, "sweep {} {} {} exh", ty, op, k).unwrap();
                } else if bits == 16 {
                    if op_arity(op) == 1 {
                        writeln!(out, "sweep {} {} {} exh", ty, op, k).unwrap();
                    } else if thorough {
                        // all 2^32 operand pairs, split into 8 x-ranges so that the lines spread over the cores
                        for part in 0..8 {
                            writeln!(out, "sweep {} {} {} exh {} 8", ty, op, k, part).unwrap();
                        }
                    } else {
                        writeln!(out, "sweep {} {} {} strat {} {}", ty, op, k, seed, 1 << 18).unwrap();
                    }
                    if op_arity(op) == 3 {
                        writeln!(out, "sweep {} {} {} rand {} {}", ty, op, k, seed, 1 << 18).unwrap();
                    }
                } else {
                    writeln!(out, "sweep {} {} {} rand {} {}", ty, op, k, seed, if thorough { 1 << 24 } else { 1 << 19 }).unwrap();
                }
            }
        }
    }
    for op in 0..N_FLOAT_OPS {
        writeln!(out, "fsweep {} {} {}", op, seed, if thorough { 1 << 22 } else { 1 << 17 }).unwrap();
    }
    for f in 0..VM_NAMES.len() {
        writeln!(out, "vm {} {} {}", f, seed, if thorough { 1 << 20 } else { 1 << 15 }).unwrap();
    }
    // 2. slice helpers: every length on every ISA / type / function (judged in Rust), plus
    //    individual lengths that are re-judged by the Coq model
    let unrolls = |f: u32| -> Vec<u32> { if f == S_APPLY || f == S_FOLD_UNROLL || f == S_FOLD_N_UNROLL { vec![1, 2, 4] } else { vec![1] } };
    for isa in &isas {
        for ty in 0..6u32 {
            let lanes = lanes_of(isa, ty);
            for f in 0..N_SLICE_FNS {
                for u in unrolls(f) {
                    // map functions: opk = vector function; folds: opk = data family (0 mixed, 1 all positive,
                    // 2 all negative, 3 around +100, 4 around -100) -- zero is not in the range of 1..4
                    let opks: Vec<u32> = if f <= S_APPLY { vec![0, 1] } else if f >= S_FOLD { vec![0, 1, 2, 3, 4] } else { vec![0] };
                    for opk in opks {
                        writeln!(out, "slicesweep {} {} {} {} {} {}", isa, ty, f, u, opk, seed).unwrap();
                        let mut lens = vec![0, 1, lanes - 1, lanes, lanes + 1, 2 * lanes - 1, 2 * lanes, 3 * lanes + 1, 4 * lanes + 3,
                                            lanes * u as usize, lanes * u as usize + 1, 2 * lanes * u as usize + lanes + 2];
                        lens.push(rng.below(4 * lanes as u64 + 4) as usize);
                        if thorough {
                            for _ in 0..6 {
                                lens.push(rng.below(4 * lanes as u64 + 4) as usize);
                            }
                        }
                        lens.sort();
                        lens.dedup();
                        // keep the Coq side small: a third of the lengths per combination in the quick tier
                        let pickd = (ty + 3 * f + 5 * u + 7 * opk) as usize;
                        // the extra data families of the folds are judged at every length by the slicesweep line;
                        // only a third of those combinations also send one length to Coq in the quick tier
                        let sparse = !thorough && f >= S_FOLD && opk >= 1;
                        for (i, len) in lens.iter().enumerate() {
                            if sparse && (pickd % 3 != 0 || *len != lanes + 1) {
                                continue;
                            }
                            if thorough || i == pickd % lens.len() || (*len == lanes + 1 && pickd % 2 == 0) || sparse {
                                writeln!(out, "slice {} {} {} {} {} {} {}", isa, ty, f, u, opk, len, seed).unwrap();
                            }
                        }
                    }
                }
            }
        }
    }
    // 2b. rten-vecmath reducers built on the folds: every length on every ISA (judged in Rust) + a sample for Coq
    for red in 0..N_REDUCERS {
        for family in 0..5u32 {
            writeln!(out, "reducesweep {} {} {}", red, family, seed).unwrap();
            let mut lens = vec![0usize, 1, 3, 4, 5, 9, 16, 17, 20, 24, 33, 67];
            lens.push(rng.below(68) as usize);
            for (i, len) in lens.iter().enumerate() {
                if thorough || (i + (red + family) as usize) % 4 == 0 {
                    writeln!(out, "reduce {} {} {} {}", red, family, len, seed).unwrap();
                }
            }
        }
    }
    // 3. whole-vector primitives
    let per = if thorough { 12 } else { 1 };
    for isa in &isas {
        for ty in 0..5u32 {
            for v in 0..N_VEC_OPS {
                if !vop_defined(ty, v) {
                    continue;
                }
                for _ in 0..per {
                    writeln!(out, "vec {} {} {} {}", isa, ty, v, rng.next() >> 16).unwrap();
                }
            }
        }
    }
    // 4. individual primitives re-judged against the Coq definitions
    for i in 0..n {
        if i % 3 == 2 {
            let op = rng.below(N_FLOAT_OPS as u64) as u32;
            writeln!(out, "flt {} {} {} {}", op, random_float_bits(&mut rng), random_float_bits(&mut rng), random_float_bits(&mut rng)).unwrap();
            continue;
        }
        let ty = rng.below(5) as u32;
        let op = loop {
            let o = rng.below(N_LANE_OPS as u64) as u32;
            if op_defined(ty, o) {
                break o;
            }
        };
        let k = if op == OP_SHL || op == OP_SHR { rng.pick(&shifts_for(ty, thorough)) } else { 0 };
        let bv = boundary_values(ty);
        let v = |rng: &mut SplitMix64| if rng.chance(1, 2) { rng.pick(&bv) } else { wrap(ty, rng.next() as i64) };
        writeln!(out, "prim {} {} {} {} {} {}", ty, op, k, v(&mut rng), v(&mut rng), v(&mut rng)).unwrap();
    }
}

fn exec_line(line: &str) -> String {
    // anything after '#' is an annotation added by the check (e.g. the build profile)
    let p: Vec<&str> = line.split('#').next().unwrap().split_whitespace().collect();
    let (tag, term) = match p[0] {
        "prim" => prim_line(&p),
        "sweep" => sweep_line(&p),
        "vec" => vec_line(&p),
        "flt" => flt_line(&p),
        "fsweep" => fsweep_line(&p),
        "slice" => slice_line(&p),
        "slicesweep" => slicesweep_line(&p),
        "vm" => vm_line(&p),
        "reduce" => reduce_line(&p),
        "reducesweep" => reducesweep_line(&p),
        _ => panic!("unknown input line {:?}", line),
    };
    format!("{}\t{}\t({})", tag, line, term)
}

fn main() {
    let args: Vec<String> = std::env::args().collect();
    quiet_panics();
    install_guard_handler();
    match args.get(1).map(|s| s.as_str()) {
        Some("gen") => {
            let seed: u64 = args[2].parse().unwrap();
            let n: usize = args[3].parse().unwrap();
            let so = std::io::stdout();
            let mut o = std::io::BufWriter::new(so.lock());
            generate(seed, n, &args[4], &mut o);
        }
        Some("exec") => {
            let lines: Vec<String> = std::io::stdin().lock().lines().map(|l| l.unwrap()).filter(|l| !l.trim().is_empty()).collect();
            // work-stealing over lines; output in input order
            let results: Vec<std::sync::Mutex<Option<String>>> = lines.iter().map(|_| std::sync::Mutex::new(None)).collect();
            let next = std::sync::atomic::AtomicUsize::new(0);
            let nthreads = std::thread::available_parallelism().map_or(4, |n| n.get());
            std::thread::scope(|s| {
                for _ in 0..nthreads {
                    s.spawn(|| loop {
                        let i = next.fetch_add(1, std::sync::atomic::Ordering::SeqCst);
                        if i >= lines.len() {
                            break;
                        }
                        let r = exec_line(&lines[i]);
                        *results[i].lock().unwrap() = Some(r);
                    });
                }
            });
            let so = std::io::stdout();
            let mut o = std::io::BufWriter::new(so.lock());
            for r in results {
                writeln!(o, "{}", r.into_inner().unwrap().unwrap()).unwrap();
            }
        }
        Some("isas") => println!("{}", available_isas().join(" ")),
        _ => eprintln!("usage: c18 gen <seed> <n> <tier> | exec"),
    }
}
