//! Lane-wise primitives of rten-simd evaluated on a NAMED instruction set through the
//! `rten_simd::verif::dispatch_on` hook.  One `SimdOp` per element type; the op code is matched
//! outside the chunk loop so the loop body is a single inlined intrinsic sequence.
use crate::*;
use rten_simd::ops::{BitOps, FloatOps, IntOps, NumOps, SignedIntOps};
use rten_simd::verif::dispatch_on;
use rten_simd::{Isa, Mask, Simd, SimdOp};

pub struct LaneArgs<'a, T> {
    pub op: u32,
    pub k: u32,
    pub x: &'a [T],
    pub y: &'a [T],
    pub z: &'a [T],
    pub out: &'a mut [T],
}

/// Number of lanes of the vector type for `ty` (0..4 ints, 5 f32) on `isa`.
pub fn lanes_of(isa: &str, ty: u32) -> usize {
    struct L(u32);
    impl SimdOp for L {
        type Output = usize;
        fn eval<I: Isa>(self, isa: I) -> usize {
            match self.0 {
                0 => isa.i8().len(),
                1 => isa.u8().len(),
                2 => isa.i16().len(),
                3 => isa.u16().len(),
                4 => isa.i32().len(),
                _ => isa.f32().len(),
            }
        }
    }
    dispatch_on(isa, L(ty)).expect("isa")
}

macro_rules! chunk_loop {
    ($ops:ident, $a:ident, |$x:ident, $y:ident, $z:ident| $e:expr) => {{
        let l = $ops.len();
        let n = $a.x.len();
        let mut i = 0;
        while i + l <= n {
            let $x = $ops.load(&$a.x[i..]);
            let $y = $ops.load(&$a.y[i..]);
            let $z = $ops.load(&$a.z[i..]);
            let _ = ($y, $z);
            let r = $e;
            $ops.store(r, &mut $a.out[i..]);
            i += l;
        }
    }};
}
macro_rules! mask_loop {
    ($ops:ident, $a:ident, $t:ty, |$x:ident, $y:ident| $e:expr) => {{
        let l = $ops.len();
        let n = $a.x.len();
        let mut i = 0;
        while i + l <= n {
            let $x = $ops.load(&$a.x[i..]);
            let $y = $ops.load(&$a.y[i..]);
            let m = $e;
            let arr = m.to_array();
            let arr = arr.as_ref();
            for j in 0..l {
                $a.out[i + j] = arr[j] as $t;
            }
            i += l;
        }
    }};
}
macro_rules! shift_match {
    ($ops:ident, $a:ident, $f:ident, [$($k:literal),*]) => {
        match $a.k {
            $($k => chunk_loop!($ops, $a, |x, y, z| $ops.$f::<$k>(x)),)*
            _ => panic!("shift amount not instantiated"),
        }
    };
}

macro_rules! int_lane_op {
    ($name:ident, $t:ty, $acc:ident, signed = $signed:tt, shifts = [$($k:literal),*]) => {
        pub struct $name<'a>(pub LaneArgs<'a, $t>);
        impl SimdOp for $name<'_> {
            type Output = ();
            #[inline(always)]
            fn eval<I: Isa>(self, isa: I) {
                let ops = isa.$acc();
                let a = self.0;
                match a.op {
                    OP_ADD => chunk_loop!(ops, a, |x, y, z| ops.add(x, y)),
                    OP_SUB => chunk_loop!(ops, a, |x, y, z| ops.sub(x, y)),
                    OP_MUL => chunk_loop!(ops, a, |x, y, z| ops.mul(x, y)),
                    OP_MULADD => chunk_loop!(ops, a, |x, y, z| ops.mul_add(x, y, z)),
                    OP_MIN => chunk_loop!(ops, a, |x, y, z| ops.min(x, y)),
                    OP_MAX => chunk_loop!(ops, a, |x, y, z| ops.max(x, y)),
                    OP_CLAMP => chunk_loop!(ops, a, |x, y, z| ops.clamp(x, y, z)),
                    OP_EQ => mask_loop!(ops, a, $t, |x, y| ops.eq(x, y)),
                    OP_GE => mask_loop!(ops, a, $t, |x, y| ops.ge(x, y)),
                    OP_GT => mask_loop!(ops, a, $t, |x, y| ops.gt(x, y)),
                    OP_LT => mask_loop!(ops, a, $t, |x, y| ops.lt(x, y)),
                    OP_LE => mask_loop!(ops, a, $t, |x, y| ops.le(x, y)),
                    OP_AND => chunk_loop!(ops, a, |x, y, z| ops.and(x, y)),
                    OP_OR => chunk_loop!(ops, a, |x, y, z| ops.or(x, y)),
                    OP_XOR => chunk_loop!(ops, a, |x, y, z| ops.xor(x, y)),
                    OP_NOT => chunk_loop!(ops, a, |x, y, z| ops.not(x)),
                    OP_SHL => shift_match!(ops, a, shift_left, [$($k),*]),
                    OP_SHR => shift_match!(ops, a, shift_right, [$($k),*]),
                    OP_SELECT => chunk_loop!(ops, a, |x, y, z| ops.select(x, y, ops.gt(z, ops.zero()))),
                    OP_SPLAT => {
                        // splat is exercised one element at a time
                        let l = ops.len();
                        let n = a.x.len();
                        let mut i = 0;
                        while i + l <= n {
                            for j in 0..l {
                                let v = ops.splat(a.x[i + j]);
                                a.out[i + j] = v.to_array().as_ref()[(i + j) % l];
                            }
                            i += l;
                        }
                    }
                    _ => int_lane_op!(@signed $signed, ops, a),
                }
            }
        }
    };
    (@signed true, $ops:ident, $a:ident) => {
        match $a.op {
            OP_ABS => chunk_loop!($ops, $a, |x, y, z| $ops.abs(x)),
            OP_NEG => chunk_loop!($ops, $a, |x, y, z| $ops.neg(x)),
            _ => panic!("unknown op"),
        }
    };
    (@signed false, $ops:ident, $a:ident) => {
        panic!("op not defined for unsigned type")
    };
}

int_lane_op!(LaneI8, i8, i8, signed = true, shifts = [0, 1, 2, 3, 4, 5, 6, 7]);
int_lane_op!(LaneU8, u8, u8, signed = false, shifts = [0, 1, 2, 3, 4, 5, 6, 7]);
int_lane_op!(LaneI16, i16, i16, signed = true, shifts = [0, 1, 2, 3, 4, 5, 6, 7, 8, 9, 10, 11, 12, 13, 14, 15]);
int_lane_op!(LaneU16, u16, u16, signed = false, shifts = [0, 1, 2, 3, 4, 5, 6, 7, 8, 9, 10, 11, 12, 13, 14, 15]);
int_lane_op!(LaneI32, i32, i32, signed = true,
    shifts = [0, 1, 2, 3, 4, 5, 6, 7, 8, 9, 10, 11, 12, 13, 14, 15, 16, 17, 18, 19, 20, 21, 22, 23, 24, 25, 26, 27, 28, 29, 30, 31]);

/// Element types as seen by the generic driver code.
pub trait IntElem: Copy + Default + PartialEq + Send + Sync + 'static {
    const TY: u32;
    fn from_i64(v: i64) -> Self;
    fn to_i64(self) -> i64;
    /// Run lane op on `isa`; `None` = the ISA is unavailable; `Err` = it panicked.
    fn run(isa: &str, a: LaneArgs<'_, Self>) -> Option<()>;
}
macro_rules! int_elem {
    ($t:ty, $ty:literal, $op:ident) => {
        impl IntElem for $t {
            const TY: u32 = $ty;
            #[inline(always)]
            fn from_i64(v: i64) -> Self {
                v as $t
            }
            #[inline(always)]
            fn to_i64(self) -> i64 {
                self as i64
            }
            fn run(isa: &str, a: LaneArgs<'_, Self>) -> Option<()> {
                dispatch_on(isa, $op(a))
            }
        }
    };
}
int_elem!(i8, 0, LaneI8);
int_elem!(u8, 1, LaneU8);
int_elem!(i16, 2, LaneI16);
int_elem!(u16, 3, LaneU16);
int_elem!(i32, 4, LaneI32);

// ------------------------------------------------------------------ f32 lane ops (bit patterns)
pub const F_ADD: u32 = 0;
pub const F_SUB: u32 = 1;
pub const F_MUL: u32 = 2;
pub const F_DIV: u32 = 3;
pub const F_MULADD: u32 = 4;
pub const F_MULSUBFROM: u32 = 5;
pub const F_MIN: u32 = 6;
pub const F_MAX: u32 = 7;
pub const F_EQ: u32 = 8;
pub const F_GE: u32 = 9;
pub const F_GT: u32 = 10;
pub const F_LT: u32 = 11;
pub const F_LE: u32 = 12;
pub const F_ABS: u32 = 13;
pub const F_NEG: u32 = 14;
pub const F_RECIP: u32 = 15;
pub const F_ROUND: u32 = 16;
pub const F_TRUNC_I: u32 = 17;
pub const F_ROUND_I: u32 = 18;
pub const F_AND: u32 = 19;
pub const F_OR: u32 = 20;
pub const F_XOR: u32 = 21;
pub const F_NOT: u32 = 22;
pub const F_SELECT: u32 = 23;
pub const F_CLAMP: u32 = 24;
pub const F_POLY: u32 = 25;
pub const F_FROM_I32: u32 = 26;
pub const N_FLOAT_OPS: u32 = 27;
pub const F_NAMES: [&str; 27] = [
    "add", "sub", "mul", "div", "mul_add", "mul_sub_from", "min", "max", "eq", "ge", "gt", "lt", "le", "abs", "neg",
    "reciprocal", "round_ties_even", "to_int_trunc", "to_int_round", "and", "or", "xor", "not", "select", "clamp",
    "poly_eval", "to_float",
];
pub fn f_arity(op: u32) -> u32 {
    match op {
        F_MULADD | F_MULSUBFROM | F_SELECT | F_CLAMP | F_POLY => 3,
        F_ABS | F_NEG | F_RECIP | F_ROUND | F_TRUNC_I | F_ROUND_I | F_NOT | F_FROM_I32 => 1,
        _ => 2,
    }
}

/// f32 lane ops on bit patterns: inputs/outputs are `u32` bit patterns.
pub struct LaneF32<'a>(pub LaneArgs<'a, u32>);

macro_rules! f_loop {
    ($ops:ident, $a:ident, |$x:ident, $y:ident, $z:ident| $e:expr) => {{
        let l = $ops.len();
        let n = $a.x.len();
        let mut i = 0;
        while i + l <= n {
            // u32 and f32 have the same layout; loads are plain memory copies
            let $x = unsafe { $ops.load_ptr($a.x[i..].as_ptr() as *const f32) };
            let $y = unsafe { $ops.load_ptr($a.y[i..].as_ptr() as *const f32) };
            let $z = unsafe { $ops.load_ptr($a.z[i..].as_ptr() as *const f32) };
            let _ = ($y, $z);
            let r = $e;
            unsafe { $ops.store_ptr(r, $a.out[i..].as_mut_ptr() as *mut f32) };
            i += l;
        }
    }};
}
macro_rules! f_mask_loop {
    ($ops:ident, $a:ident, |$x:ident, $y:ident| $e:expr) => {{
        let l = $ops.len();
        let n = $a.x.len();
        let mut i = 0;
        while i + l <= n {
            let $x = unsafe { $ops.load_ptr($a.x[i..].as_ptr() as *const f32) };
            let $y = unsafe { $ops.load_ptr($a.y[i..].as_ptr() as *const f32) };
            let m = $e;
            let arr = m.to_array();
            let arr = arr.as_ref();
            for j in 0..l {
                $a.out[i + j] = arr[j] as u32;
            }
            i += l;
        }
    }};
}
macro_rules! f_int_loop {
    ($ops:ident, $iops:ident, $a:ident, |$x:ident| $e:expr) => {{
        let l = $ops.len();
        let n = $a.x.len();
        let mut i = 0;
        while i + l <= n {
            let $x = unsafe { $ops.load_ptr($a.x[i..].as_ptr() as *const f32) };
            let r = $e;
            unsafe { $iops.store_ptr(r, $a.out[i..].as_mut_ptr() as *mut i32) };
            i += l;
        }
    }};
}

impl SimdOp for LaneF32<'_> {
    type Output = ();
    #[inline(always)]
    fn eval<I: Isa>(self, isa: I) {
        let ops = isa.f32();
        let iops = isa.i32();
        let a = self.0;
        match a.op {
            F_ADD => f_loop!(ops, a, |x, y, z| ops.add(x, y)),
            F_SUB => f_loop!(ops, a, |x, y, z| ops.sub(x, y)),
            F_MUL => f_loop!(ops, a, |x, y, z| ops.mul(x, y)),
            F_DIV => f_loop!(ops, a, |x, y, z| ops.div(x, y)),
            F_MULADD => f_loop!(ops, a, |x, y, z| ops.mul_add(x, y, z)),
            F_MULSUBFROM => f_loop!(ops, a, |x, y, z| ops.mul_sub_from(x, y, z)),
            F_MIN => f_loop!(ops, a, |x, y, z| ops.min(x, y)),
            F_MAX => f_loop!(ops, a, |x, y, z| ops.max(x, y)),
            F_EQ => f_mask_loop!(ops, a, |x, y| ops.eq(x, y)),
            F_GE => f_mask_loop!(ops, a, |x, y| ops.ge(x, y)),
            F_GT => f_mask_loop!(ops, a, |x, y| ops.gt(x, y)),
            F_LT => f_mask_loop!(ops, a, |x, y| ops.lt(x, y)),
            F_LE => f_mask_loop!(ops, a, |x, y| ops.le(x, y)),
            F_ABS => f_loop!(ops, a, |x, y, z| ops.abs(x)),
            F_NEG => f_loop!(ops, a, |x, y, z| ops.neg(x)),
            F_RECIP => f_loop!(ops, a, |x, y, z| ops.reciprocal(x)),
            F_ROUND => f_loop!(ops, a, |x, y, z| ops.round_ties_even(x)),
            F_TRUNC_I => f_int_loop!(ops, iops, a, |x| ops.to_int_trunc(x)),
            F_ROUND_I => f_int_loop!(ops, iops, a, |x| ops.to_int_round(x)),
            F_AND => f_loop!(ops, a, |x, y, z| ops.and(x, y)),
            F_OR => f_loop!(ops, a, |x, y, z| ops.or(x, y)),
            F_XOR => f_loop!(ops, a, |x, y, z| ops.xor(x, y)),
            F_NOT => f_loop!(ops, a, |x, y, z| ops.not(x)),
            F_SELECT => f_loop!(ops, a, |x, y, z| ops.select(x, y, ops.gt(z, ops.zero()))),
            F_CLAMP => f_loop!(ops, a, |x, y, z| ops.clamp(x, y, z)),
            F_POLY => f_loop!(ops, a, |x, y, z| ops.poly_eval(x, &[y, z, y])),
            F_FROM_I32 => {
                use rten_simd::ops::ToFloat;
                let l = ops.len();
                let n = a.x.len();
                let mut i = 0;
                while i + l <= n {
                    let x = unsafe { iops.load_ptr(a.x[i..].as_ptr() as *const i32) };
                    let r = iops.to_float(x);
                    unsafe { ops.store_ptr(r, a.out[i..].as_mut_ptr() as *mut f32) };
                    i += l;
                }
            }
            _ => panic!("unknown float op"),
        }
    }
}

pub fn run_f32(isa: &str, a: LaneArgs<'_, u32>) -> Option<()> {
    dispatch_on(isa, LaneF32(a))
}

/// Rust scalar definition of the f32 lane ops (the documented meaning of each primitive on one
/// lane).  `None` = the documentation leaves the result open for these operands (see docs/C18.md:
/// float->int conversion of NaN / out-of-range values).  For `mul_add`/`poly_eval` both the fused and
/// the two-rounding result are admissible ("may use one or two roundings"): returned as a pair.
pub fn ref_f32(op: u32, xb: u32, yb: u32, zb: u32) -> (Option<u32>, Option<u32>) {
    let (x, y, z) = (f32::from_bits(xb), f32::from_bits(yb), f32::from_bits(zb));
    let b = |v: bool| Some(v as u32);
    let one = |v: f32| (Some(v.to_bits()), None);
    match op {
        F_ADD => one(x + y),
        F_SUB => one(x - y),
        F_MUL => one(x * y),
        F_DIV => one(x / y),
        F_MULADD => (Some(x.mul_add(y, z).to_bits()), Some((x * y + z).to_bits())),
        F_MULSUBFROM => (Some((-x).mul_add(y, z).to_bits()), Some((z - x * y).to_bits())),
        // x86 MINPS/MAXPS and the trait's default `select(x, y, le(x, y))`: second operand unless x < y
        F_MIN => one(if x < y { x } else { y }),
        F_MAX => one(if x > y { x } else { y }),
        F_EQ => (b(x == y), None),
        F_GE => (b(x >= y), None),
        F_GT => (b(x > y), None),
        F_LT => (b(x < y), None),
        F_LE => (b(x <= y), None),
        F_ABS => (Some(xb & 0x7fff_ffff), None),
        F_NEG => (Some(xb ^ 0x8000_0000), None),
        F_RECIP => one(1.0 / x),
        F_ROUND => one(x.round_ties_even()),
        F_TRUNC_I => {
            if x.is_nan() || x >= 2147483648.0 || x < -2147483648.0 { (None, None) } else { (Some((x as i32) as u32), None) }
        }
        F_ROUND_I => {
            let r = x.round_ties_even();
            if r.is_nan() || r >= 2147483648.0 || r < -2147483648.0 { (None, None) } else { (Some((r as i32) as u32), None) }
        }
        F_AND => (Some(xb & yb), None),
        F_OR => (Some(xb | yb), None),
        F_XOR => (Some(xb ^ yb), None),
        F_NOT => (Some(!xb), None),
        F_SELECT => (Some(if z > 0.0 { xb } else { yb }), None),
        F_CLAMP => {
            let m = if x > y { x } else { y };
            one(if m < z { m } else { z })
        }
        F_POLY => {
            // x*c0 + x^2*c1 + x^3*c2 with c = [y, z, y], Horner with mul_add
            let fused = y.mul_add(x, z).mul_add(x, y) * x;
            let unfused = ((y * x + z) * x + y) * x;
            (Some(fused.to_bits()), Some(unfused.to_bits()))
        }
        F_FROM_I32 => one((xb as i32) as f32),
        _ => unreachable!(),
    }
}
