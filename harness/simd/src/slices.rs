//! Slice-level helpers of rten-simd (functional.rs, iter.rs) run on a named ISA over slices that
//! are placed directly against an inaccessible guard page, so that a load or store outside the
//! slice faults; a SIGSEGV handler records the fault against the mapping (run-time observation).
use crate::*;
use rten_simd::functional::{simd_apply, simd_map};
use rten_simd::ops::{BitOps, GetNumOps, NumOps};
use rten_simd::verif::dispatch_on;
use rten_simd::{Isa, Mask, Simd, SimdIterable, SimdOp};
use std::mem::MaybeUninit;

pub const S_MAP_INPLACE: u32 = 0;
pub const S_MAP: u32 = 1;
pub const S_APPLY: u32 = 2;
pub const S_ITER: u32 = 3;
pub const S_ITER_PAD: u32 = 4;
pub const S_FOLD: u32 = 5;
pub const S_FOLD_UNROLL: u32 = 6;
pub const S_FOLD_N: u32 = 7;
pub const S_FOLD_N_UNROLL: u32 = 8;
pub const N_SLICE_FNS: u32 = 9;
pub const S_NAMES: [&str; 9] = [
    "simd_map_inplace", "simd_map", "simd_apply", "simd_iter", "simd_iter_pad", "fold", "fold_unroll", "fold_n", "fold_n_unroll",
];
pub const ACC0: i64 = 5;
/// Initial accumulators of the min / max folds: above / below every generated value, and NOT zero,
/// so that a zero-padded lane taking part in the reduction is visible.
pub const ACC_MIN: i64 = 120;
pub fn acc_max(ty: u32) -> i64 {
    if ty == 1 || ty == 3 { 3 } else { -120 }
}

pub trait SliceElem: GetNumOps + Copy + PartialEq + 'static {
    const TYC: u32;
    fn from_i64(v: i64) -> Self;
    fn to_i64(self) -> i64;
}
macro_rules! slice_elem {
    ($t:ty, $c:literal) => {
        impl SliceElem for $t {
            const TYC: u32 = $c;
            fn from_i64(v: i64) -> Self {
                v as $t
            }
            fn to_i64(self) -> i64 {
                self as i64
            }
        }
    };
}
slice_elem!(i8, 0);
slice_elem!(u8, 1);
slice_elem!(i16, 2);
slice_elem!(u16, 3);
slice_elem!(i32, 4);
slice_elem!(f32, 5);

pub struct SliceOp<'a, T> {
    pub fn_: u32,
    pub unroll: u32,
    pub opk: u32,
    pub acc_max: i64,
    pub src: &'a [T],
    /// destination: same memory as `src` for the in-place functions (the caller passes the
    /// pointer twice; `src` is then not used)
    pub dst: &'a mut [MaybeUninit<T>],
    pub out: &'a mut Vec<i64>,
}

fn push_vec<S: Simd>(out: &mut Vec<i64>, v: S)
where
    S::Elem: SliceElem,
{
    out.extend(v.to_array().as_ref().iter().map(|e| e.to_i64()));
}

impl<T: SliceElem> SimdOp for SliceOp<'_, T> {
    type Output = ();
    #[inline(always)]
    fn eval<I: Isa>(self, isa: I) {
        let ops = T::num_ops(isa);
        let three = ops.splat(T::from_i64(3));
        let one = ops.one();
        let opk = self.opk;
        let vop = |x: <T as rten_simd::ops::GetSimd>::Simd<I>| {
            if opk == 0 {
                ops.add(ops.mul(x, three), one)
            } else {
                let a = x.to_array();
                let mut v: Vec<T> = a.as_ref().to_vec();
                v.reverse();
                ops.load(&v)
            }
        };
        let out = self.out;
        let acc0 = ops.splat(T::from_i64(ACC0));
        let accmin = ops.splat(T::from_i64(ACC_MIN));
        let accmax = ops.splat(T::from_i64(self.acc_max));
        match self.fn_ {
            S_MAP_INPLACE => {
                // Safety: dst was fully initialised by the caller
                let dst: &mut [T] = unsafe { std::mem::transmute::<&mut [MaybeUninit<T>], &mut [T]>(self.dst) };
                let n = dst.len();
                let r = simd_map(ops, dst, vop);
                out.push((r.len() == n) as i64);
            }
            S_MAP => {
                let n = self.dst.len();
                let r = simd_map(ops, (self.src, self.dst), vop);
                out.push((r.len() == n) as i64);
            }
            S_APPLY => {
                let dst: &mut [T] = unsafe { std::mem::transmute::<&mut [MaybeUninit<T>], &mut [T]>(self.dst) };
                let n = dst.len();
                let r = match self.unroll {
                    1 => simd_apply::<_, _, _, 1>(ops, dst, vop),
                    2 => simd_apply::<_, _, _, 2>(ops, dst, vop),
                    _ => simd_apply::<_, _, _, 4>(ops, dst, vop),
                };
                out.push((r.len() == n) as i64);
            }
            S_ITER => {
                let mut it = self.src.simd_iter(ops);
                let hint = it.len();
                let mut cnt = 0;
                while let Some(c) = it.next() {
                    push_vec(out, c);
                    cnt += 1;
                }
                if let Some((t, m)) = it.tail() {
                    push_vec(out, t);
                    out.extend(m.to_array().as_ref().iter().take(ops.len()).map(|b| *b as i64));
                }
                out.push((hint == cnt) as i64);
            }
            S_ITER_PAD => {
                let it = self.src.simd_iter_pad(ops);
                let hint = it.len();
                let mut cnt = 0;
                for c in it {
                    push_vec(out, c);
                    cnt += 1;
                }
                out.push((hint == cnt) as i64);
            }
            S_FOLD => {
                // three separate folds: wrapping add, min, max
                let r = self.src.simd_iter(ops).fold(acc0, |a, x| ops.add(a, x));
                push_vec(out, r);
                let r = self.src.simd_iter(ops).fold(accmin, |a, x| ops.min(a, x));
                push_vec(out, r);
                let r = self.src.simd_iter(ops).fold(accmax, |a, x| ops.max(a, x));
                push_vec(out, r);
            }
            S_FOLD_UNROLL => {
                macro_rules! fu {
                    ($u:literal) => {{
                        let r = self.src.simd_iter(ops).fold_unroll::<$u>(acc0, |a, x| ops.add(a, x), |a, b| ops.add(a, b));
                        push_vec(out, r);
                        let r = self.src.simd_iter(ops).fold_unroll::<$u>(accmin, |a, x| ops.min(a, x), |a, b| ops.min(a, b));
                        push_vec(out, r);
                        let r = self.src.simd_iter(ops).fold_unroll::<$u>(accmax, |a, x| ops.max(a, x), |a, b| ops.max(a, b));
                        push_vec(out, r);
                    }};
                }
                match self.unroll {
                    1 => fu!(1),
                    2 => fu!(2),
                    _ => fu!(4),
                }
            }
            S_FOLD_N => {
                let [s, mn, mx] = self
                    .src
                    .simd_iter(ops)
                    .fold_n([acc0, accmin, accmax], |[s, mn, mx], x| [ops.add(s, x), ops.min(mn, x), ops.max(mx, x)]);
                push_vec(out, s);
                push_vec(out, mn);
                push_vec(out, mx);
            }
            S_FOLD_N_UNROLL => {
                let it = self.src.simd_iter(ops);
                let f = |[s, mn, mx]: [_; 3], x| [ops.add(s, x), ops.min(mn, x), ops.max(mx, x)];
                let g = |[s, mn, mx]: [_; 3], [s2, mn2, mx2]: [_; 3]| [ops.add(s, s2), ops.min(mn, mn2), ops.max(mx, mx2)];
                let init = [acc0, accmin, accmax];
                let [s, mn, mx] = match self.unroll {
                    1 => it.fold_n_unroll::<3, 1>(init, f, g),
                    2 => it.fold_n_unroll::<3, 2>(init, f, g),
                    _ => it.fold_n_unroll::<3, 4>(init, f, g),
                };
                push_vec(out, s);
                push_vec(out, mn);
                push_vec(out, mx);
            }
            _ => panic!("unknown slice fn"),
        }
    }
}

/// Deterministic input data for a slice case.  For the map functions `family` is 0 (values in
/// [-100, 100], unsigned [0, 200]); the folds also use families whose range EXCLUDES zero, where the
/// neutral element of the reduction matters: 1 all positive [1, 100], 2 all negative [-100, -1]
/// (unsigned: [100, 200]), 3 around +100 [90, 110], 4 around -100 [-110, -90] (unsigned: [1, 20]).
pub fn slice_input_family(ty: u32, len: usize, seed: u64, family: u32) -> Vec<i64> {
    let unsigned = ty == 1 || ty == 3;
    let mut rng = SplitMix64(seed ^ ((len as u64) << 32) ^ 0x51ce ^ ((family as u64) << 56));
    (0..len)
        .map(|_| match (family, unsigned) {
            (1, _) => 1 + rng.below(100) as i64,
            (2, false) => -1 - rng.below(100) as i64,
            (2, true) => 100 + rng.below(101) as i64,
            (3, _) => 90 + rng.below(21) as i64,
            (4, false) => -110 + rng.below(21) as i64,
            (4, true) => 1 + rng.below(20) as i64,
            (_, true) => rng.below(201) as i64,
            (_, false) => rng.below(201) as i64 - 100,
        })
        .collect()
}
/// Input of a slice case: for the map / iter functions `opk` selects the vector function and the data
/// are family 0; for the folds `opk` is the data family.
pub fn slice_input(ty: u32, fn_: u32, opk: u32, len: usize, seed: u64) -> Vec<i64> {
    slice_input_family(ty, len, seed, if fn_ >= S_FOLD { opk } else { 0 })
}

/// Result of one slice run: observed list (see `model_slice` in SimdModel.v) and whether memory
/// outside the slice was modified.
pub struct SliceResult {
    pub out: Vec<i64>,
    pub canary_ok: bool,
}

fn run_typed<T: SliceElem>(isa: &str, fn_: u32, unroll: u32, opk: u32, xs: &[i64], place: u32) -> SliceResult {
    let n = xs.len();
    let sz = std::mem::size_of::<T>();
    // the two guarded mappings are cached per thread (mmap/munmap are expensive) and reset
    thread_local! {
        static POOL: std::cell::RefCell<Option<(Guarded, Guarded)>> = const { std::cell::RefCell::new(None) };
    }
    let (gs, gd) = POOL.with(|p| {
        let mut p = p.borrow_mut();
        match p.take() {
            Some((a, b)) if a.capacity() >= n * sz + PAGE => {
                a.reset();
                b.reset();
                (a, b)
            }
            _ => (Guarded::new(n * sz + PAGE), Guarded::new(n * sz + PAGE)),
        }
    });
    let (ps, pd) = if place == 0 {
        (gs.at_end(n * sz) as *mut T, gd.at_end(n * sz) as *mut T)
    } else {
        (gs.at_start() as *mut T, gd.at_start() as *mut T)
    };
    let inplace = fn_ == S_MAP_INPLACE || fn_ == S_APPLY;
    let mut out = vec![];
    unsafe {
        for (i, v) in xs.iter().enumerate() {
            ps.add(i).write(T::from_i64(*v));
            if inplace {
                pd.add(i).write(T::from_i64(*v));
            }
        }
        let src: &[T] = std::slice::from_raw_parts(ps, n);
        let dst: &mut [MaybeUninit<T>] = std::slice::from_raw_parts_mut(pd as *mut MaybeUninit<T>, n);
        dispatch_on(isa, SliceOp { fn_, unroll, opk, acc_max: acc_max(T::TYC), src, dst, out: &mut out }).expect("isa");
        let mut res: Vec<i64> = vec![];
        if fn_ <= S_APPLY {
            // returned-length flag is the last element pushed by eval; fold it into the canary
            let len_ok = out.pop() == Some(1);
            for i in 0..n {
                res.push(pd.add(i).read().to_i64());
            }
            out = res;
            if !len_ok {
                out.push(-999);
            }
        } else if fn_ == S_ITER || fn_ == S_ITER_PAD {
            if out.pop() != Some(1) {
                out.push(-999); // ExactSizeIterator::len disagreed with the number of items
            }
        }
        // canaries: everything accessible outside the two slices must still hold the 0xA5 fill,
        // and the source must be unchanged when it is not the destination
        let chk = |g: &Guarded, p: *mut T| -> bool {
            let acc = g.accessible();
            let start = p as usize - acc.as_ptr() as usize;
            acc[..start].iter().all(|b| *b == 0xA5) && acc[start + n * sz..].iter().all(|b| *b == 0xA5)
        };
        let mut ok = chk(&gs, ps) && chk(&gd, pd) && gs.faults() == 0 && gd.faults() == 0;
        for (i, v) in xs.iter().enumerate() {
            ok &= ps.add(i).read() == T::from_i64(*v);
        }
        POOL.with(|p| *p.borrow_mut() = Some((gs, gd)));
        SliceResult { out, canary_ok: ok }
    }
}

pub fn run_slice(isa: &str, ty: u32, fn_: u32, unroll: u32, opk: u32, xs: &[i64], place: u32) -> SliceResult {
    match ty {
        0 => run_typed::<i8>(isa, fn_, unroll, opk, xs, place),
        1 => run_typed::<u8>(isa, fn_, unroll, opk, xs, place),
        2 => run_typed::<i16>(isa, fn_, unroll, opk, xs, place),
        3 => run_typed::<u16>(isa, fn_, unroll, opk, xs, place),
        4 => run_typed::<i32>(isa, fn_, unroll, opk, xs, place),
        _ => run_typed::<f32>(isa, fn_, unroll, opk, xs, place),
    }
}

/// Reference for a slice function written without chunking (mirrors `spec_slice`).
pub fn ref_slice(ty: u32, fn_: u32, unroll: u32, opk: u32, lanes: usize, xs: &[i64]) -> Vec<i64> {
    let w = |v: i64| if ty >= 5 { v } else { wrap(ty, v) };
    let n = xs.len();
    let full = n / lanes * lanes;
    let lane_sum = |init: i64| -> Vec<i64> {
        (0..lanes).map(|j| xs.iter().enumerate().filter(|(i, _)| i % lanes == j).fold(init, |s, (_, x)| w(s + x))).collect()
    };
    let lane_max = |init: i64| -> Vec<i64> {
        (0..lanes).map(|j| xs.iter().enumerate().filter(|(i, _)| i % lanes == j).fold(init, |s, (_, x)| s.max(*x))).collect()
    };
    let lane_min = |init: i64| -> Vec<i64> {
        (0..lanes).map(|j| xs.iter().enumerate().filter(|(i, _)| i % lanes == j).fold(init, |s, (_, x)| s.min(*x))).collect()
    };
    let padded_tail = || -> Vec<i64> { (0..lanes).map(|i| if full + i < n { xs[full + i] } else { 0 }).collect() };
    match fn_ {
        S_MAP_INPLACE | S_MAP | S_APPLY => {
            if opk == 0 {
                xs.iter().map(|x| w(x * 3 + 1)).collect()
            } else {
                let mut r = vec![];
                for c in xs[..full].chunks(lanes) {
                    r.extend(c.iter().rev());
                }
                if full < n {
                    let mut t = padded_tail();
                    t.reverse();
                    r.extend(&t[..n - full]);
                }
                r
            }
        }
        S_ITER | S_ITER_PAD => {
            let mut r = xs[..full].to_vec();
            if full < n {
                r.extend(padded_tail());
                if fn_ == S_ITER {
                    r.extend((0..lanes).map(|i| (i < n - full) as i64));
                }
            }
            r
        }
        S_FOLD | S_FOLD_N => {
            let mut r = lane_sum(ACC0);
            r.extend(lane_min(ACC_MIN));
            r.extend(lane_max(acc_max(ty)));
            r
        }
        S_FOLD_UNROLL | S_FOLD_N_UNROLL => {
            let mut r = lane_sum(w(unroll as i64 * ACC0));
            r.extend(lane_min(ACC_MIN));
            r.extend(lane_max(acc_max(ty)));
            r
        }
        _ => unreachable!(),
    }
}
