//! Shared helpers for the C18 harness: seeded RNG, Coq term printers, guard-page
//! allocations, and the scalar reference definitions of the integer primitives.
use std::ffi::c_void;
pub mod lanes;
pub mod vecops;
pub mod slices;
pub mod reducers;

pub struct SplitMix64(pub u64);
impl SplitMix64 {
    pub fn next(&mut self) -> u64 {
        self.0 = self.0.wrapping_add(0x9E3779B97F4A7C15);
        let mut z = self.0;
        z = (z ^ (z >> 30)).wrapping_mul(0xBF58476D1CE4E5B9);
        z = (z ^ (z >> 27)).wrapping_mul(0x94D049BB133111EB);
        z ^ (z >> 31)
    }
    pub fn below(&mut self, n: u64) -> u64 {
        if n == 0 { 0 } else { self.next() % n }
    }
    pub fn pick<T: Copy>(&mut self, xs: &[T]) -> T {
        xs[self.below(xs.len() as u64) as usize]
    }
    pub fn chance(&mut self, num: u64, den: u64) -> bool {
        self.below(den) < num
    }
}

pub fn coq_z(x: i64) -> String {
    if x < 0 { format!("({})", x) } else { x.to_string() }
}
pub fn coq_list_z(xs: &[i64]) -> String {
    let v: Vec<String> = xs.iter().map(|x| coq_z(*x)).collect();
    format!("[{}]%Z", v.join(";"))
}
pub fn coq_list_n(xs: &[u64]) -> String {
    let v: Vec<String> = xs.iter().map(|x| x.to_string()).collect();
    format!("[{}]%N", v.join(";"))
}
pub fn coq_list_b(xs: &[bool]) -> String {
    let v: Vec<&str> = xs.iter().map(|x| if *x { "true" } else { "false" }).collect();
    format!("[{}]", v.join(";"))
}

pub fn quiet_panics() {
    std::panic::set_hook(Box::new(|_| {}));
}

// ---------------------------------------------------------------- guard pages
// Declared by hand (std already links libc on Linux) so that the harness needs no
// crate beyond the two under test.
unsafe extern "C" {
    fn mmap(addr: *mut c_void, len: usize, prot: i32, flags: i32, fd: i32, off: i64) -> *mut c_void;
    fn mprotect(addr: *mut c_void, len: usize, prot: i32) -> i32;
    fn munmap(addr: *mut c_void, len: usize) -> i32;
    fn sigaction(signum: i32, act: *const SigAction, old: *mut SigAction) -> i32;
}
const PROT_NONE: i32 = 0;
const PROT_RW: i32 = 3;
const MAP_PRIVATE_ANON: i32 = 0x02 | 0x20;
pub const PAGE: usize = 4096;
const SIGSEGV: i32 = 11;
const SIGBUS: i32 = 7;
const SA_SIGINFO: i32 = 4;
const SA_NODEFER: i32 = 0x4000_0000;
const SA_RESTORER_UNUSED: usize = 0;

/// x86_64 Linux (glibc) `struct sigaction`.
#[repr(C)]
struct SigAction {
    handler: usize,
    mask: [u64; 16],
    flags: i32,
    restorer: usize,
}

use std::sync::atomic::{AtomicUsize, Ordering};
const SLOTS: usize = 256;
static SLOT_BASE: [AtomicUsize; SLOTS] = [const { AtomicUsize::new(0) }; SLOTS];
static SLOT_TOTAL: [AtomicUsize; SLOTS] = [const { AtomicUsize::new(0) }; SLOTS];
static SLOT_FAULT: [AtomicUsize; SLOTS] = [const { AtomicUsize::new(0) }; SLOTS];

/// SIGSEGV handler: an access to one of OUR guard pages is recorded against the mapping and the
/// page is made accessible so that the faulting instruction can be restarted (the case is then
/// reported as out-of-bounds).  Any other fault restores the default action and re-faults.
unsafe extern "C" fn on_segv(sig: i32, info: *const u8, _ctx: *mut c_void) {
    let addr = unsafe { *(info.add(16) as *const usize) };
    for i in 0..SLOTS {
        let base = SLOT_BASE[i].load(Ordering::SeqCst);
        let total = SLOT_TOTAL[i].load(Ordering::SeqCst);
        if base != 0 && addr >= base && addr < base + total {
            let lead = addr < base + PAGE;
            let trail = addr >= base + total - PAGE;
            if lead || trail {
                SLOT_FAULT[i].fetch_add(1, Ordering::SeqCst);
                let page = addr & !(PAGE - 1);
                unsafe { mprotect(page as *mut c_void, PAGE, PROT_RW) };
                return;
            }
        }
    }
    // not ours: default action
    let dfl = SigAction { handler: 0, mask: [0; 16], flags: 0, restorer: SA_RESTORER_UNUSED };
    unsafe { sigaction(sig, &dfl, std::ptr::null_mut()) };
}

pub fn install_guard_handler() {
    let act = SigAction { handler: on_segv as usize, mask: [0; 16], flags: SA_SIGINFO | SA_NODEFER, restorer: SA_RESTORER_UNUSED };
    unsafe {
        assert_eq!(sigaction(SIGSEGV, &act, std::ptr::null_mut()), 0);
        assert_eq!(sigaction(SIGBUS, &act, std::ptr::null_mut()), 0);
    }
}

/// `n` bytes of read/write memory whose first byte follows an inaccessible page and whose
/// last byte is followed by an inaccessible page (when `n` is a multiple of the element size the
/// slice placed with `at_end` ends exactly at the guard; `at_start` begins exactly after one).
/// Needs `install_guard_handler()`; an access to either guard page is counted by `faults()`.
pub struct Guarded {
    base: *mut u8,
    total: usize,
    data_pages: usize,
    slot: usize,
}
impl Guarded {
    pub fn new(nbytes: usize) -> Guarded {
        let data_pages = (nbytes + PAGE - 1) / PAGE + 1;
        let total = (data_pages + 2) * PAGE;
        unsafe {
            let p = mmap(std::ptr::null_mut(), total, PROT_RW, MAP_PRIVATE_ANON, -1, 0) as *mut u8;
            assert!(!p.is_null() && p as isize != -1, "mmap failed");
            // fill the accessible part with a recognisable pattern
            std::ptr::write_bytes(p.add(PAGE), 0xA5, data_pages * PAGE);
            assert_eq!(mprotect(p as *mut c_void, PAGE, PROT_NONE), 0);
            assert_eq!(mprotect(p.add((data_pages + 1) * PAGE) as *mut c_void, PAGE, PROT_NONE), 0);
            let mut slot = usize::MAX;
            for i in 0..SLOTS {
                if SLOT_BASE[i].compare_exchange(0, p as usize, Ordering::SeqCst, Ordering::SeqCst).is_ok() {
                    SLOT_TOTAL[i].store(total, Ordering::SeqCst);
                    SLOT_FAULT[i].store(0, Ordering::SeqCst);
                    slot = i;
                    break;
                }
            }
            assert!(slot != usize::MAX, "no free guard slot");
            Guarded { base: p, total, data_pages, slot }
        }
    }
    /// Bytes available between the guard pages.
    pub fn capacity(&self) -> usize {
        self.data_pages * PAGE
    }
    /// Restore the initial state: 0xA5 fill, both guard pages inaccessible, fault counter zero.
    pub fn reset(&self) {
        unsafe {
            if self.faults() != 0 {
                assert_eq!(mprotect(self.base as *mut c_void, PAGE, PROT_NONE), 0);
                assert_eq!(mprotect(self.base.add((self.data_pages + 1) * PAGE) as *mut c_void, PAGE, PROT_NONE), 0);
                SLOT_FAULT[self.slot].store(0, Ordering::SeqCst);
            }
            std::ptr::write_bytes(self.base.add(PAGE), 0xA5, self.data_pages * PAGE);
        }
    }
    /// Number of accesses to the guard pages observed so far.
    pub fn faults(&self) -> usize {
        SLOT_FAULT[self.slot].load(Ordering::SeqCst)
    }
    /// Pointer such that `ptr .. ptr+nbytes` ends exactly at the trailing guard page.
    pub fn at_end(&self, nbytes: usize) -> *mut u8 {
        unsafe { self.base.add((self.data_pages + 1) * PAGE - nbytes) }
    }
    /// Pointer to the first accessible byte (directly after the leading guard page).
    pub fn at_start(&self) -> *mut u8 {
        unsafe { self.base.add(PAGE) }
    }
    /// All accessible bytes (to check the 0xA5 fill outside the slice = canary).
    pub fn accessible(&self) -> &[u8] {
        unsafe { std::slice::from_raw_parts(self.base.add(PAGE), self.data_pages * PAGE) }
    }
}
impl Drop for Guarded {
    fn drop(&mut self) {
        SLOT_TOTAL[self.slot].store(0, Ordering::SeqCst);
        SLOT_BASE[self.slot].store(0, Ordering::SeqCst);
        unsafe {
            munmap(self.base as *mut c_void, self.total);
        }
    }
}

// ------------------------------------------------- integer element types / scalar definitions
/// Element types: 0 i8, 1 u8, 2 i16, 3 u16, 4 i32.
pub const TY_NAMES: [&str; 5] = ["i8", "u8", "i16", "u16", "i32"];
pub fn ty_bits(ty: u32) -> u32 {
    match ty { 0 | 1 => 8, 2 | 3 => 16, _ => 32 }
}
pub fn ty_signed(ty: u32) -> bool {
    matches!(ty, 0 | 2 | 4)
}
pub fn ty_min(ty: u32) -> i64 {
    if ty_signed(ty) { -(1i64 << (ty_bits(ty) - 1)) } else { 0 }
}
pub fn ty_max(ty: u32) -> i64 {
    if ty_signed(ty) { (1i64 << (ty_bits(ty) - 1)) - 1 } else { (1i64 << ty_bits(ty)) - 1 }
}
/// The representative of `z` modulo 2^bits in the value range of `ty`.
#[inline(always)]
pub fn wrap(ty: u32, z: i64) -> i64 {
    let b = ty_bits(ty);
    let m = 1i64 << b;
    let r = z.rem_euclid(m);
    if ty_signed(ty) && r >= (m >> 1) { r - m } else { r }
}

// lane-wise op codes (shared with coq/simd/SimdModel.v)
pub const OP_ADD: u32 = 0;
pub const OP_SUB: u32 = 1;
pub const OP_MUL: u32 = 2;
pub const OP_MULADD: u32 = 3;
pub const OP_MIN: u32 = 4;
pub const OP_MAX: u32 = 5;
pub const OP_CLAMP: u32 = 6;
pub const OP_EQ: u32 = 7;
pub const OP_GE: u32 = 8;
pub const OP_GT: u32 = 9;
pub const OP_LT: u32 = 10;
pub const OP_LE: u32 = 11;
pub const OP_AND: u32 = 12;
pub const OP_OR: u32 = 13;
pub const OP_XOR: u32 = 14;
pub const OP_NOT: u32 = 15;
pub const OP_SHL: u32 = 16;
pub const OP_SHR: u32 = 17;
pub const OP_ABS: u32 = 18;
pub const OP_NEG: u32 = 19;
pub const OP_SELECT: u32 = 20;
pub const OP_SPLAT: u32 = 21;
pub const N_LANE_OPS: u32 = 22;
pub const OP_NAMES: [&str; 22] = [
    "add", "sub", "mul", "mul_add", "min", "max", "clamp", "eq", "ge", "gt", "lt", "le", "and", "or", "xor",
    "not", "shl", "shr", "abs", "neg", "select", "splat",
];
/// Number of operands the op really depends on (for generators / sweeps).
pub fn op_arity(op: u32) -> u32 {
    match op {
        OP_MULADD | OP_CLAMP | OP_SELECT => 3,
        OP_NOT | OP_SHL | OP_SHR | OP_ABS | OP_NEG | OP_SPLAT => 1,
        _ => 2,
    }
}
pub fn op_defined(ty: u32, op: u32) -> bool {
    match op {
        OP_ABS | OP_NEG => ty_signed(ty),
        _ => op < N_LANE_OPS,
    }
}

/// Scalar definition of lane-wise integer op `op` on element type `ty` (values as mathematical
/// integers in the type's range; `k` = shift amount).  Written over i64 with explicit wrapping so it
/// does not share code with rten-simd's generic ISA.  Mirrors `lane_op` in SimdModel.v.
#[inline(always)]
pub fn ref_lane_op(ty: u32, op: u32, k: u32, x: i64, y: i64, z: i64) -> i64 {
    match op {
        OP_ADD => wrap(ty, x + y),
        OP_SUB => wrap(ty, x - y),
        OP_MUL => wrap(ty, x * y),
        OP_MULADD => wrap(ty, x * y + z),
        OP_MIN => x.min(y),
        OP_MAX => x.max(y),
        OP_CLAMP => x.max(y).min(z),
        OP_EQ => (x == y) as i64,
        OP_GE => (x >= y) as i64,
        OP_GT => (x > y) as i64,
        OP_LT => (x < y) as i64,
        OP_LE => (x <= y) as i64,
        OP_AND => wrap(ty, x & y),
        OP_OR => wrap(ty, x | y),
        OP_XOR => wrap(ty, x ^ y),
        OP_NOT => wrap(ty, !x),
        OP_SHL => wrap(ty, x << k),
        OP_SHR => x >> k, // floor division by 2^k: arithmetic for signed, logical for unsigned (x >= 0)
        OP_ABS => wrap(ty, x.abs()),
        OP_NEG => wrap(ty, -x),
        OP_SELECT => if z > 0 { x } else { y },
        OP_SPLAT => x,
        _ => unreachable!(),
    }
}

/// Interesting values of an integer element type.
pub fn boundary_values(ty: u32) -> Vec<i64> {
    let (lo, hi) = (ty_min(ty), ty_max(ty));
    let mut v = vec![lo, lo + 1, lo + 2, -2, -1, 0, 1, 2, 3, 7, 15, 16, 127, 128, 129, 255, 256, hi / 2, hi / 2 + 1, hi - 2, hi - 1, hi,
                     -127, -128, -129, -255, -256, -32767, -32768, 32767, 32768, 65535, 0x5555, 0x2AAA, 46341, -46341, 181, -181];
    v.retain(|x| *x >= lo && *x <= hi);
    v.sort();
    v.dedup();
    v
}

// ------------------------------------------------------------------------ floats
pub fn is_nan_bits(b: u32) -> bool {
    (b & 0x7fff_ffff) > 0x7f80_0000
}
/// Interesting f32 bit patterns: zeros, subnormals, normals around powers of two, infinities,
/// quiet/signalling NaNs with payloads, integers around rounding boundaries.
pub fn float_specials() -> Vec<u32> {
    let mut v: Vec<u32> = vec![
        0x0000_0000, 0x8000_0000, // +-0
        0x0000_0001, 0x8000_0001, 0x007f_ffff, 0x807f_ffff, 0x0040_0000, // subnormals
        0x0080_0000, 0x8080_0000, // min normal
        0x3f80_0000, 0xbf80_0000, 0x3f7f_ffff, 0x3f80_0001, // +-1 and neighbours
        0x3f00_0000, 0xbf00_0000, 0x3fc0_0000, 0xbfc0_0000, 0x4020_0000, 0xc020_0000, // .5 1.5 2.5
        0x4000_0000, 0x4040_0000, 0x4b00_0000, 0x4b00_0001, 0xcb00_0000, 0x4b80_0000, // 2,3,2^23,2^24
        0x4f00_0000, 0xcf00_0000, 0x4eff_ffff, 0xceff_ffff, 0x4f00_0001, 0x4f80_0000, // around 2^31, 2^32
        0x7f7f_ffff, 0xff7f_ffff, // +-MAX
        0x7f80_0000, 0xff80_0000, // +-inf
        0x7fc0_0000, 0xffc0_0000, 0x7fc0_1234, 0xffc5_4321, 0x7f80_0001, 0xff80_0001, 0x7fa0_0000, 0x7fff_ffff, // NaNs
        0x42d0_0000, 0xc2d0_0000, 0x42ae_0000, 0xc2ae_0000, 0x477f_e000, 0x4780_0000, 0x3380_0000, 0x3880_0000, // 104, 87, f16 max, 2^-24..
        0x3eaa_aaab, 0x4049_0fdb, 0x3fb8_aa3b, 0x3f31_7218,
    ];
    v.sort();
    v.dedup();
    v
}
pub fn random_float_bits(rng: &mut SplitMix64) -> u32 {
    match rng.below(8) {
        0 => rng.pick(&float_specials()),
        1 => rng.next() as u32, // any pattern
        2 => ((rng.below(2) as u32) << 31) | (rng.below(0x0080_0000) as u32), // subnormal
        3 => ((rng.below(2) as u32) << 31) | 0x7f80_0000 | (rng.below(0x0080_0000) as u32), // inf / NaN payloads
        4 => ((rng.below(40) as i64 - 20) as f32).to_bits(), // small integers
        5 => (((rng.below(4001) as i64 - 2000) as f32) * 0.25).to_bits(), // quarter steps (ties)
        _ => {
            // moderate magnitude
            let e = 100 + rng.below(56) as u32;
            ((rng.below(2) as u32) << 31) | (e << 23) | (rng.below(0x0080_0000) as u32)
        }
    }
}
