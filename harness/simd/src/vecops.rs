//! Whole-vector (cross-lane) primitives on a named ISA.  Inputs are the first `lanes` values of
//! `a` / `b` (as i64); the result is the list of output lanes (masks / booleans as 0/1).
use crate::lanes::IntElem;
use rten_simd::ops::{BitOps, Concat, Extend, Interleave, MaskOps, NarrowSaturate, NumOps};
use rten_simd::verif::dispatch_on;
use rten_simd::{Isa, Mask, Simd, SimdOp};

pub const V_EXTEND_LOW: u32 = 0;
pub const V_EXTEND_HIGH: u32 = 1;
pub const V_INTERLEAVE_LOW: u32 = 2;
pub const V_INTERLEAVE_HIGH: u32 = 3;
pub const V_CONCAT_LOW: u32 = 4;
pub const V_CONCAT_HIGH: u32 = 5;
pub const V_NARROW_SAT: u32 = 6;
pub const V_SUM: u32 = 7;
pub const V_BROADCAST0: u32 = 8;
pub const V_BROADCAST1: u32 = 9;
pub const V_BROADCAST3: u32 = 10;
pub const V_FOLD_SPLAT: u32 = 11;
pub const V_FIRST_N_MASK: u32 = 12; // n = a[0]
pub const V_LOAD_PAD: u32 = 13; // n = b[0]; output = lanes ++ mask
pub const V_MASK_AND: u32 = 14; // masks gt(a,0), gt(b,0)
pub const V_MASK_ANY: u32 = 15;
pub const V_MASK_ALL: u32 = 16;
pub const V_MASK_ALL_FALSE: u32 = 17;
pub const V_LOAD_STORE_MANY: u32 = 18; // a ++ b (2 vectors) round trip through load_many / store_many_uninit
pub const V_ZERO_ONE: u32 = 19; // zero() ++ one()
pub const N_VEC_OPS: u32 = 20;
pub const V_NAMES: [&str; 20] = [
    "extend_low", "extend_high", "interleave_low", "interleave_high", "concat_low", "concat_high", "narrow_saturate",
    "sum", "broadcast_lane0", "broadcast_lane1", "broadcast_lane3", "fold_splat", "first_n_mask", "load_pad",
    "mask_and", "mask_any", "mask_all", "mask_all_false", "load_store_many", "zero_one",
];

pub fn vop_defined(ty: u32, v: u32) -> bool {
    match v {
        V_EXTEND_LOW | V_EXTEND_HIGH => matches!(ty, 0 | 1 | 2),
        V_INTERLEAVE_LOW | V_INTERLEAVE_HIGH => matches!(ty, 0 | 1 | 2),
        V_CONCAT_LOW | V_CONCAT_HIGH => ty == 4,
        V_NARROW_SAT => matches!(ty, 2 | 4),
        _ => v < N_VEC_OPS,
    }
}
/// Element type of the output lanes.
pub fn vop_out_ty(ty: u32, v: u32) -> u32 {
    match v {
        V_EXTEND_LOW | V_EXTEND_HIGH => match ty { 0 => 2, 1 => 3, _ => 4 },
        V_NARROW_SAT => if ty == 4 { 2 } else { 1 },
        _ => ty,
    }
}

fn arr<S: Simd>(v: S) -> Vec<i64>
where
    S::Elem: IntElem,
{
    v.to_array().as_ref().iter().map(|e| e.to_i64()).collect()
}
fn marr<M: Mask>(m: M, lanes: usize) -> Vec<i64> {
    m.to_array().as_ref().iter().take(lanes).map(|b| *b as i64).collect()
}

pub struct VecArgs<'a> {
    pub v: u32,
    pub a: &'a [i64],
    pub b: &'a [i64],
}

macro_rules! common_vops {
    ($t:ty, $ops:ident, $mops:ident, $s:ident, $l:ident, $av:ident, $bv:ident, $x:ident, $y:ident) => {
        match $s.v {
            V_SUM => vec![$ops.sum($x).to_i64()],
            V_BROADCAST0 => arr($ops.broadcast_lane::<0>($x)),
            V_BROADCAST1 => arr($ops.broadcast_lane::<1>($x)),
            V_BROADCAST3 => arr($ops.broadcast_lane::<3>($x)),
            V_FOLD_SPLAT => arr($ops.fold_splat($x, $bv[0], |p, q| p.wrapping_add(q))),
            V_FIRST_N_MASK => marr($ops.first_n_mask($s.a[0] as usize), $l),
            V_LOAD_PAD => {
                let n = ($s.b[0] as usize).min($av.len());
                let (v, m) = $ops.load_pad(&$av[..n]);
                let mut r = arr(v);
                r.extend(marr(m, $l));
                r
            }
            V_MASK_AND => marr($mops.and($ops.gt($x, $ops.zero()), $ops.gt($y, $ops.zero())), $l),
            V_MASK_ANY => vec![$mops.any($ops.gt($x, $ops.zero())) as i64],
            V_MASK_ALL => vec![$mops.all($ops.gt($x, $ops.zero())) as i64],
            V_MASK_ALL_FALSE => vec![$mops.all_false($ops.gt($x, $ops.zero())) as i64],
            V_LOAD_STORE_MANY => {
                let mut src = $av[..$l].to_vec();
                src.extend_from_slice(&$bv[..$l]);
                let vs = $ops.load_many::<2>(&src);
                let mut dst: Vec<$t> = Vec::with_capacity(2 * $l);
                let init = $ops.store_many_uninit(vs, dst.spare_capacity_mut());
                init.iter().map(|e| e.to_i64()).collect()
            }
            V_ZERO_ONE => {
                let mut r = arr($ops.zero());
                r.extend(arr($ops.one()));
                r
            }
            _ => panic!("vector op not defined for this type"),
        }
    };
}

macro_rules! vec_op_struct {
    ($name:ident, $t:ty, $acc:ident, $macc:ident, |$ops:ident, $s:ident, $x:ident, $y:ident| { $($extra:tt)* }) => {
        pub struct $name<'a>(pub VecArgs<'a>);
        impl SimdOp for $name<'_> {
            type Output = Vec<i64>;
            #[inline(always)]
            fn eval<I: Isa>(self, isa: I) -> Vec<i64> {
                let $ops = isa.$acc();
                let mops = isa.$macc();
                let $s = self.0;
                let l = $ops.len();
                let av: Vec<$t> = $s.a.iter().map(|v| <$t>::from_i64(*v)).collect();
                let bv: Vec<$t> = $s.b.iter().map(|v| <$t>::from_i64(*v)).collect();
                let $x = $ops.load(&av);
                let $y = $ops.load(&bv);
                match $s.v {
                    $($extra)*
                    _ => common_vops!($t, $ops, mops, $s, l, av, bv, $x, $y),
                }
            }
        }
    };
}

vec_op_struct!(VecI8, i8, i8, m8, |ops, s, x, y| {
    V_EXTEND_LOW => arr(ops.extend_low(x)),
    V_EXTEND_HIGH => arr(ops.extend_high(x)),
    V_INTERLEAVE_LOW => arr(ops.interleave_low(x, y)),
    V_INTERLEAVE_HIGH => arr(ops.interleave_high(x, y)),
});
vec_op_struct!(VecU8, u8, u8, m8, |ops, s, x, y| {
    V_EXTEND_LOW => arr(ops.extend_low(x)),
    V_EXTEND_HIGH => arr(ops.extend_high(x)),
    V_INTERLEAVE_LOW => arr(ops.interleave_low(x, y)),
    V_INTERLEAVE_HIGH => arr(ops.interleave_high(x, y)),
});
vec_op_struct!(VecI16, i16, i16, m16, |ops, s, x, y| {
    V_EXTEND_LOW => arr(ops.extend_low(x)),
    V_EXTEND_HIGH => arr(ops.extend_high(x)),
    V_INTERLEAVE_LOW => arr(ops.interleave_low(x, y)),
    V_INTERLEAVE_HIGH => arr(ops.interleave_high(x, y)),
    V_NARROW_SAT => arr(ops.narrow_saturate(x, y)),
});
vec_op_struct!(VecU16, u16, u16, m16, |ops, s, x, y| {});
vec_op_struct!(VecI32, i32, i32, m32, |ops, s, x, y| {
    V_CONCAT_LOW => arr(ops.concat_low(x, y)),
    V_CONCAT_HIGH => arr(ops.concat_high(x, y)),
    V_NARROW_SAT => arr(ops.narrow_saturate(x, y)),
});

/// `None` = ISA unavailable; `Some(Err(()))` = the primitive panicked.
pub fn run_vec(isa: &str, ty: u32, a: VecArgs<'_>) -> Option<Result<Vec<i64>, ()>> {
    let r = std::panic::catch_unwind(std::panic::AssertUnwindSafe(|| match ty {
        0 => dispatch_on(isa, VecI8(a)),
        1 => dispatch_on(isa, VecU8(a)),
        2 => dispatch_on(isa, VecI16(a)),
        3 => dispatch_on(isa, VecU16(a)),
        _ => dispatch_on(isa, VecI32(a)),
    }));
    match r {
        Ok(Some(v)) => Some(Ok(v)),
        Ok(None) => None,
        Err(_) => Some(Err(())),
    }
}

/// Scalar (list-level) definition of the whole-vector ops; mirrors `vec_op` in SimdModel.v.
pub fn ref_vec(ty: u32, v: u32, lanes: usize, a: &[i64], b: &[i64]) -> Vec<i64> {
    use crate::{ty_max, ty_min, wrap};
    let a = &a[..lanes];
    let bb = &b[..lanes.min(b.len())];
    let h = lanes / 2;
    let pos = |xs: &[i64]| -> Vec<bool> { xs.iter().map(|x| *x > 0).collect() };
    match v {
        V_EXTEND_LOW => a[..h].to_vec(),
        V_EXTEND_HIGH => a[h..].to_vec(),
        V_INTERLEAVE_LOW => (0..lanes).map(|i| if i % 2 == 0 { a[i / 2] } else { bb[i / 2] }).collect(),
        V_INTERLEAVE_HIGH => (0..lanes).map(|i| if i % 2 == 0 { a[h + i / 2] } else { bb[h + i / 2] }).collect(),
        V_CONCAT_LOW => a[..h].iter().chain(bb[..h].iter()).copied().collect(),
        V_CONCAT_HIGH => a[h..].iter().chain(bb[h..].iter()).copied().collect(),
        V_NARROW_SAT => {
            let ot = vop_out_ty(ty, v);
            a.iter().chain(bb.iter()).map(|x| (*x).clamp(ty_min(ot), ty_max(ot))).collect()
        }
        V_SUM => vec![a.iter().fold(0i64, |s, x| wrap(ty, s + x))],
        V_BROADCAST0 => vec![a[0]; lanes],
        V_BROADCAST1 => vec![a[1]; lanes],
        V_BROADCAST3 => vec![a[3]; lanes],
        V_FOLD_SPLAT => vec![a.iter().fold(b[0], |s, x| wrap(ty, s + x)); lanes],
        V_FIRST_N_MASK => (0..lanes).map(|i| ((i as i64) < a[0]) as i64).collect(),
        V_LOAD_PAD => {
            let n = (b[0] as usize).min(a.len());
            let mut r: Vec<i64> = (0..lanes).map(|i| if i < n { a[i] } else { 0 }).collect();
            r.extend((0..lanes).map(|i| (i < n) as i64));
            r
        }
        V_MASK_AND => pos(a).iter().zip(pos(bb)).map(|(p, q)| (*p && q) as i64).collect(),
        V_MASK_ANY => vec![pos(a).iter().any(|p| *p) as i64],
        V_MASK_ALL => vec![pos(a).iter().all(|p| *p) as i64],
        V_MASK_ALL_FALSE => vec![!pos(a).iter().any(|p| *p) as i64],
        V_LOAD_STORE_MANY => a.iter().chain(bb.iter()).copied().collect(),
        V_ZERO_ONE => {
            let mut r = vec![0; lanes];
            r.extend(vec![1; lanes]);
            r
        }
        _ => unreachable!(),
    }
}
