//! C15 harness: single-operator ONNX models written with a minimal protobuf writer, loaded with
//! `ModelOptions::with_all_ops().load(bytes)` and run through `Model::run` (public API only).
//!
//! Case line (space separated, no tabs):
//!   `<Op> <opset> O<0|1> <nout> {A <name> <i|I|s|f><value>}* {T <R|C> <dtype> <dims|_> <vals|_> | N}*`
//! `A` = attribute (i: int, I: int list "1,2,-3" or "_" for empty, s: string, f: integer-valued float),
//! `T` = input tensor (R: fed as run input, C: graph initializer), `N` = omitted optional input.
use rten::{ModelOptions, Value, ValueOrView};
use rten_tensor::prelude::*;
use rten_tensor::Tensor;

pub struct SplitMix64(pub u64);
impl SplitMix64 {
    pub fn next(&mut self) -> u64 {
        self.0 = self.0.wrapping_add(0x9E3779B97F4A7C15);
        let mut z = self.0;
        z = (z ^ (z >> 30)).wrapping_mul(0xBF58476D1CE4E5B9);
        z = (z ^ (z >> 27)).wrapping_mul(0x94D049BB133111EB);
        z ^ (z >> 31)
    }
    pub fn below(&mut self, n: u64) -> u64 {
        if n == 0 { 0 } else { self.next() % n }
    }
    pub fn pick<T: Copy>(&mut self, xs: &[T]) -> T {
        xs[self.below(xs.len() as u64) as usize]
    }
    pub fn chance(&mut self, num: u64, den: u64) -> bool {
        self.below(den) < num
    }
    /// integer in [lo, hi]
    pub fn range(&mut self, lo: i64, hi: i64) -> i64 {
        lo + self.below((hi - lo + 1) as u64) as i64
    }
}

#[derive(Clone, Copy, PartialEq, Eq, Debug)]
pub enum DType { I32, I64, F32, Bool, U8, I8 }

impl DType {
    pub fn parse(s: &str) -> DType {
        match s { "i32" => DType::I32, "i64" => DType::I64, "f32" => DType::F32, "bool" => DType::Bool,
                  "u8" => DType::U8, "i8" => DType::I8, _ => panic!("dtype {s}") }
    }
    pub fn name(self) -> &'static str {
        match self { DType::I32 => "i32", DType::I64 => "i64", DType::F32 => "f32", DType::Bool => "bool",
                     DType::U8 => "u8", DType::I8 => "i8" }
    }
    pub fn coq(self) -> &'static str {
        match self { DType::I32 => "DI32", DType::I64 => "DI64", DType::F32 => "DF32", DType::Bool => "DBool",
                     DType::U8 => "DU8", DType::I8 => "DI8" }
    }
    fn onnx(self) -> u64 {
        match self { DType::F32 => 1, DType::U8 => 2, DType::I8 => 3, DType::I32 => 6, DType::I64 => 7, DType::Bool => 9 }
    }
}

#[derive(Clone, Debug)]
pub enum AttrVal { Int(i64), Ints(Vec<i64>), Str(String), Float(i64) }

#[derive(Clone, Debug)]
pub struct InTensor { pub run: bool, pub dtype: DType, pub dims: Vec<usize>, pub data: Vec<i64> }

#[derive(Clone, Debug)]
pub struct Case {
    pub op: String,
    pub opset: u32,
    pub optimize: bool,
    pub nout: usize,
    pub attrs: Vec<(String, AttrVal)>,
    pub inputs: Vec<Option<InTensor>>,
}

pub fn fmt_ints<T: ToString>(xs: &[T]) -> String {
    if xs.is_empty() { "_".to_string() } else { xs.iter().map(|x| x.to_string()).collect::<Vec<_>>().join(",") }
}
pub fn parse_ints(s: &str) -> Vec<i64> {
    if s == "_" { vec![] } else { s.split(',').map(|x| x.parse::<i64>().unwrap()).collect() }
}

impl Case {
    pub fn new(op: &str, opset: u32) -> Case {
        Case { op: op.to_string(), opset, optimize: false, nout: 1, attrs: vec![], inputs: vec![] }
    }
    pub fn attr_i(mut self, name: &str, v: i64) -> Case { self.attrs.push((name.to_string(), AttrVal::Int(v))); self }
    pub fn attr_is(mut self, name: &str, v: &[i64]) -> Case { self.attrs.push((name.to_string(), AttrVal::Ints(v.to_vec()))); self }
    pub fn attr_s(mut self, name: &str, v: &str) -> Case { self.attrs.push((name.to_string(), AttrVal::Str(v.to_string()))); self }
    pub fn attr_f(mut self, name: &str, v: i64) -> Case { self.attrs.push((name.to_string(), AttrVal::Float(v))); self }
    pub fn input(mut self, t: InTensor) -> Case { self.inputs.push(Some(t)); self }
    pub fn no_input(mut self) -> Case { self.inputs.push(None); self }
    pub fn outputs(mut self, n: usize) -> Case { self.nout = n; self }

    pub fn to_line(&self) -> String {
        let mut s = format!("{} {} O{} {}", self.op, self.opset, self.optimize as u8, self.nout);
        for (n, v) in &self.attrs {
            let vs = match v {
                AttrVal::Int(i) => format!("i{}", i),
                AttrVal::Ints(is) => format!("I{}", fmt_ints(is)),
                AttrVal::Str(x) => format!("s{}", x),
                AttrVal::Float(f) => format!("f{}", f),
            };
            s += &format!(" A {} {}", n, vs);
        }
        for i in &self.inputs {
            match i {
                None => s += " N",
                Some(t) => s += &format!(" T {} {} {} {}", if t.run { "R" } else { "C" }, t.dtype.name(), fmt_ints(&t.dims), fmt_ints(&t.data)),
            }
        }
        s
    }

    pub fn parse(line: &str) -> Option<Case> {
        let p: Vec<&str> = line.split_whitespace().collect();
        if p.len() < 4 { return None; }
        let mut c = Case::new(p[0], p[1].parse().ok()?);
        c.optimize = p[2] == "O1";
        c.nout = p[3].parse().ok()?;
        let mut i = 4;
        while i < p.len() {
            match p[i] {
                "A" => {
                    let name = p.get(i + 1)?.to_string();
                    let v = p.get(i + 2)?;
                    let (k, rest) = v.split_at(1);
                    let av = match k {
                        "i" => AttrVal::Int(rest.parse().ok()?),
                        "I" => AttrVal::Ints(parse_ints(rest)),
                        "s" => AttrVal::Str(rest.to_string()),
                        "f" => AttrVal::Float(rest.parse().ok()?),
                        _ => return None,
                    };
                    c.attrs.push((name, av));
                    i += 3;
                }
                "T" => {
                    let run = *p.get(i + 1)? == "R";
                    let dtype = DType::parse(p.get(i + 2)?);
                    let dims: Vec<usize> = parse_ints(p.get(i + 3)?).into_iter().map(|x| x as usize).collect();
                    let data = parse_ints(p.get(i + 4)?);
                    c.inputs.push(Some(InTensor { run, dtype, dims, data }));
                    i += 5;
                }
                "N" => { c.inputs.push(None); i += 1; }
                _ => return None,
            }
        }
        Some(c)
    }

    /// Coq term of type `case` in the wire format of ModelC15.v (`mkCase`): every number is an
    /// unsigned 63-bit literal, signed values zigzag-encoded.
    pub fn to_coq(&self, impl_outcome: &str) -> String {
        let attrs: Vec<String> = self.attrs.iter().map(|(n, v)| {
            let vs = match v {
                AttrVal::Int(i) => format!("AIntW {}", zz(*i)),
                AttrVal::Ints(is) => format!("AIntsW {}", zzl(is)),
                AttrVal::Str(s) => format!("AStr \"{}\"", s),
                AttrVal::Float(f) => format!("AFloatW {}", zz(*f)),
            };
            format!("(\"{}\", {})", n, vs)
        }).collect();
        let ins: Vec<String> = self.inputs.iter().map(|i| match i {
            None => "None".to_string(),
            Some(t) => {
                let dims: Vec<i64> = t.dims.iter().map(|d| *d as i64).collect();
                format!("Some (mkInW {} {} {})", t.dtype.coq(), zzl(&dims), zzw(&t.data))
            }
        }).collect();
        format!("mkCase \"{}\" {} {} [{}] [{}] ({})",
                self.op, zz(self.opset as i64), zz(self.nout as i64), attrs.join("; "), ins.join("; "), impl_outcome)
    }
}

/// zigzag encoding (values clamped to +-2^40: the reference saturates i64 to the i32 range anyway)
pub fn zz(v: i64) -> u64 {
    let v = v.clamp(-(1i64 << 40), 1i64 << 40);
    if v >= 0 { 2 * v as u64 } else { 2 * v.unsigned_abs() - 1 }
}
pub fn zzl(vs: &[i64]) -> String {
    format!("[{}]", vs.iter().map(|v| zz(*v).to_string()).collect::<Vec<_>>().join(";"))
}
/// Value list in the `wire` format: `(P n [..])` packs seven zigzag bytes per literal when every
/// encoded value is below 256, `(W [..])` is one literal per value.
pub fn zzw(vs: &[i64]) -> String {
    if vs.len() >= 4 && vs.iter().all(|v| zz(*v) < 256) {
        let lits: Vec<String> = vs.chunks(7).map(|c| {
            let mut lit: u64 = 0;
            for (j, v) in c.iter().enumerate() { lit |= zz(*v) << (8 * j); }
            lit.to_string()
        }).collect();
        format!("(P {} [{}])", vs.len(), lits.join(";"))
    } else {
        format!("(W {})", zzl(vs))
    }
}

// ------------------------------------------------------------------ protobuf writer
fn varint(mut v: u64, out: &mut Vec<u8>) {
    loop {
        let b = (v & 0x7f) as u8;
        v >>= 7;
        if v == 0 { out.push(b); break; } else { out.push(b | 0x80); }
    }
}
fn tag(field: u32, wt: u32, out: &mut Vec<u8>) { varint(((field << 3) | wt) as u64, out); }
fn f_varint(field: u32, v: u64, out: &mut Vec<u8>) { tag(field, 0, out); varint(v, out); }
fn f_bytes(field: u32, b: &[u8], out: &mut Vec<u8>) { tag(field, 2, out); varint(b.len() as u64, out); out.extend_from_slice(b); }
fn f_str(field: u32, s: &str, out: &mut Vec<u8>) { f_bytes(field, s.as_bytes(), out); }
fn f_f32(field: u32, v: f32, out: &mut Vec<u8>) { tag(field, 5, out); out.extend_from_slice(&v.to_le_bytes()); }

fn tensor_proto(name: &str, t: &InTensor) -> Vec<u8> {
    let mut p = vec![];
    for d in &t.dims { f_varint(1, *d as u64, &mut p); }
    f_varint(2, t.dtype.onnx(), &mut p);
    f_str(8, name, &mut p);
    let mut raw = vec![];
    for v in &t.data {
        match t.dtype {
            DType::F32 => raw.extend_from_slice(&(*v as f32).to_le_bytes()),
            DType::I32 => raw.extend_from_slice(&(*v as i32).to_le_bytes()),
            DType::I64 => raw.extend_from_slice(&v.to_le_bytes()),
            DType::Bool | DType::U8 => raw.push(*v as u8),
            DType::I8 => raw.push(*v as i8 as u8),
        }
    }
    f_bytes(9, &raw, &mut p);
    p
}

fn attr_proto(name: &str, v: &AttrVal) -> Vec<u8> {
    let mut a = vec![];
    f_str(1, name, &mut a);
    match v {
        AttrVal::Int(i) => { f_varint(3, *i as u64, &mut a); f_varint(20, 2, &mut a); }
        AttrVal::Float(f) => { f_f32(2, *f as f32, &mut a); f_varint(20, 1, &mut a); }
        AttrVal::Str(s) => { f_str(4, s, &mut a); f_varint(20, 3, &mut a); }
        AttrVal::Ints(is) => { for i in is { f_varint(8, *i as u64, &mut a); } f_varint(20, 7, &mut a); }
    }
    a
}

fn value_info(name: &str) -> Vec<u8> { let mut v = vec![]; f_str(1, name, &mut v); v }

impl Case {
    pub fn to_model(&self) -> Vec<u8> {
        let mut node = vec![];
        let last = self.inputs.iter().rposition(|i| i.is_some()).map(|p| p + 1).unwrap_or(0);
        for (k, i) in self.inputs.iter().enumerate().take(last) {
            match i { Some(_) => f_str(1, &format!("in{}", k), &mut node), None => f_str(1, "", &mut node) }
        }
        for k in 0..self.nout { f_str(2, &format!("out{}", k), &mut node); }
        f_str(3, "node", &mut node);
        f_str(4, &self.op, &mut node);
        for (n, v) in &self.attrs { f_bytes(5, &attr_proto(n, v), &mut node); }
        let mut g = vec![];
        f_bytes(1, &node, &mut g);
        f_str(2, "g", &mut g);
        for (k, i) in self.inputs.iter().enumerate() {
            if let Some(t) = i {
                let name = format!("in{}", k);
                if t.run { f_bytes(11, &value_info(&name), &mut g); } else { f_bytes(5, &tensor_proto(&name, t), &mut g); }
            }
        }
        for k in 0..self.nout { f_bytes(12, &value_info(&format!("out{}", k)), &mut g); }
        let mut m = vec![];
        f_varint(1, 8, &mut m);
        let mut opset = vec![]; f_str(1, "", &mut opset); f_varint(2, self.opset as u64, &mut opset);
        f_bytes(8, &opset, &mut m);
        f_bytes(7, &g, &mut m);
        m
    }
}

// ------------------------------------------------------------------ running
fn fmt_out(v: &Value) -> String {
    let dims = |s: &[usize]| zzl(&s.iter().map(|d| *d as i64).collect::<Vec<_>>());
    match v {
        Value::Int32Tensor(t) => format!("OTW KInt {} {}", dims(t.shape()), zzw(&t.iter().map(|x| *x as i64).collect::<Vec<_>>())),
        Value::Int8Tensor(t) => format!("OTW KI8 {} {}", dims(t.shape()), zzw(&t.iter().map(|x| *x as i64).collect::<Vec<_>>())),
        Value::UInt8Tensor(t) => format!("OTW KU8 {} {}", dims(t.shape()), zzw(&t.iter().map(|x| *x as i64).collect::<Vec<_>>())),
        Value::FloatTensor(t) => {
            if t.iter().all(|x| x.is_finite() && x.fract() == 0.0 && x.abs() < 2147483648.0) {
                format!("OTW KFloat {} {}", dims(t.shape()), zzw(&t.iter().map(|x| *x as i64).collect::<Vec<_>>()))
            } else {
                format!("OTW KBadFloat {} (W [])", dims(t.shape()))
            }
        }
        _ => "OTW KOther [] (W [])".to_string(),
    }
}

/// Load + run; returns a Coq term of type `impl_outcome`.
pub fn run_case(c: &Case) -> String {
    let bytes = c.to_model();
    let c = c.clone();
    let r = std::panic::catch_unwind(move || {
        let mut opts = ModelOptions::with_all_ops();
        opts.enable_optimization(c.optimize);
        let model = match opts.load(bytes) {
            Ok(m) => m,
            Err(e) => {
                let msg = e.to_string();
                return if msg.contains("unsupported") { "ILoadUnsup".to_string() } else { "ILoadRej".to_string() };
            }
        };
        let mut inputs: Vec<(rten::NodeId, ValueOrView)> = vec![];
        for (k, i) in c.inputs.iter().enumerate() {
            if let Some(t) = i {
                if !t.run { continue; }
                let id = match model.find_node(&format!("in{}", k)) { Some(id) => id, None => return "ILoadRej".to_string() };
                let v: Value = match t.dtype {
                    DType::F32 => Tensor::from_data(&t.dims, t.data.iter().map(|x| *x as f32).collect::<Vec<_>>()).into(),
                    DType::I32 | DType::I64 | DType::Bool => Tensor::from_data(&t.dims, t.data.iter().map(|x| (*x).clamp(i32::MIN as i64, i32::MAX as i64) as i32).collect::<Vec<_>>()).into(),
                    DType::U8 => Tensor::from_data(&t.dims, t.data.iter().map(|x| *x as u8).collect::<Vec<_>>()).into(),
                    DType::I8 => Tensor::from_data(&t.dims, t.data.iter().map(|x| *x as i8).collect::<Vec<_>>()).into(),
                };
                inputs.push((id, v.into()));
            }
        }
        let mut outs = vec![];
        for k in 0..c.nout {
            match model.find_node(&format!("out{}", k)) { Some(id) => outs.push(id), None => return "ILoadRej".to_string() }
        }
        match model.run(inputs, &outs, None) {
            Ok(res) => format!("IOk [{}]", res.iter().map(fmt_out).collect::<Vec<_>>().join("; ")),
            Err(e) => {
                let msg = e.to_string();
                if msg.contains("unsupported") { "IUnsup".to_string() } else { "IRej".to_string() }
            }
        }
    });
    r.unwrap_or_else(|_| "IPanic".to_string())
}

/// Same, in a helper thread with a watchdog (hang => `ITimeout`).
pub fn run_case_timeout(c: &Case, secs: u64) -> String {
    let (tx, rx) = std::sync::mpsc::channel();
    let c2 = c.clone();
    std::thread::spawn(move || { let _ = tx.send(run_case(&c2)); });
    rx.recv_timeout(std::time::Duration::from_secs(secs)).unwrap_or_else(|_| "ITimeout".to_string())
}

pub fn error_text(c: &Case) -> String {
    let bytes = c.to_model();
    let mut opts = ModelOptions::with_all_ops();
    opts.enable_optimization(c.optimize);
    let model = match opts.load(bytes) { Ok(m) => m, Err(e) => return format!("LOAD: {}", e) };
    let mut inputs: Vec<(rten::NodeId, ValueOrView)> = vec![];
    for (k, i) in c.inputs.iter().enumerate() {
        if let Some(t) = i {
            if !t.run { continue; }
            let id = model.find_node(&format!("in{}", k)).unwrap();
            let v: Value = match t.dtype {
                DType::F32 => Tensor::from_data(&t.dims, t.data.iter().map(|x| *x as f32).collect::<Vec<_>>()).into(),
                DType::U8 => Tensor::from_data(&t.dims, t.data.iter().map(|x| *x as u8).collect::<Vec<_>>()).into(),
                DType::I8 => Tensor::from_data(&t.dims, t.data.iter().map(|x| *x as i8).collect::<Vec<_>>()).into(),
                _ => Tensor::from_data(&t.dims, t.data.iter().map(|x| (*x).clamp(i32::MIN as i64, i32::MAX as i64) as i32).collect::<Vec<_>>()).into(),
            };
            inputs.push((id, v.into()));
        }
    }
    let outs: Vec<_> = (0..c.nout).map(|k| model.find_node(&format!("out{}", k)).unwrap()).collect();
    match model.run(inputs, &outs, None) { Ok(_) => "ok".into(), Err(e) => format!("RUN: {}", e) }
}
