//! Case generators for C15: per operator, mostly-valid random nodes (shapes of rank <= 4 with
//! dims <= 5 incl. 0 and 1, attributes incl. negative axes / steps / modes / keepdims, several
//! opset variants where a parameter moved from attribute to input) plus a stream of
//! invalid/extreme parameter values.  All randomness comes from the seed.
use vh_onnxref::*;

const I64MAX: i64 = i64::MAX;
const I64MIN: i64 = i64::MIN;
const I32MAX: i64 = i32::MAX as i64;

pub fn tag(c: &Case) -> String {
    let numel = c.inputs.first().and_then(|i| i.as_ref()).map(|t| t.dims.iter().product::<usize>()).unwrap_or(1);
    if numel == 0 { format!("{}-empty", c.op) } else { c.op.clone() }
}

/// `long`: shapes have one long axis (17..70) and otherwise extents 1..2, so that size-dependent
/// fast paths (selection / sorting thresholds, chunked loops, SIMD widths) are reached.
struct G { rng: SplitMix64, long: bool }

impl G {
    fn dim(&mut self) -> usize {
        let r = self.rng.below(100);
        if r < 4 { 0 } else if r < 22 { 1 } else if r < 45 { 2 } else if r < 68 { 3 } else if r < 86 { 4 } else { 5 }
    }
    fn dim_pos(&mut self) -> usize { loop { let d = self.dim(); if d > 0 { return d; } } }
    fn rank(&mut self, lo: usize, hi: usize) -> usize { self.rng.range(lo as i64, hi as i64) as usize }
    fn long_shape(&mut self, lo: usize, hi: usize) -> Vec<usize> {
        loop {
            let r = self.rank(lo.max(1), hi.clamp(1, 3));
            let mut s: Vec<usize> = (0..r).map(|_| self.rng.range(1, 2) as usize).collect();
            let k = self.rng.below(r as u64) as usize;
            s[k] = if self.rng.chance(1, 2) { self.rng.range(21, 64) } else { self.rng.range(17, 70) } as usize;
            if s.iter().product::<usize>() <= 160 { return s; }
        }
    }
    fn shape(&mut self, lo: usize, hi: usize) -> Vec<usize> {
        if self.long { return self.long_shape(lo, hi); }
        loop {
            let r = self.rank(lo, hi);
            let s: Vec<usize> = (0..r).map(|_| self.dim()).collect();
            if s.iter().product::<usize>() <= 200 { return s; }
        }
    }
    fn shape_pos(&mut self, lo: usize, hi: usize) -> Vec<usize> {
        if self.long { return self.long_shape(lo, hi); }
        loop {
            let r = self.rank(lo, hi);
            let s: Vec<usize> = (0..r).map(|_| self.dim_pos()).collect();
            if s.iter().product::<usize>() <= 200 { return s; }
        }
    }
    fn data(&mut self, n: usize, lo: i64, hi: i64) -> Vec<i64> { (0..n).map(|_| self.rng.range(lo, hi)).collect() }
    /// numeric data dtype + whether it is fed as run input
    fn num_dtype(&mut self) -> DType { self.rng.pick(&[DType::I32, DType::I32, DType::F32, DType::F32, DType::I64]) }
    fn int_dtype(&mut self) -> DType { self.rng.pick(&[DType::I32, DType::I64]) }
    fn t(&mut self, dtype: DType, dims: &[usize], lo: i64, hi: i64) -> InTensor {
        let n = dims.iter().product();
        let run = self.rng.chance(1, 2);
        InTensor { run, dtype, dims: dims.to_vec(), data: self.data(n, lo, hi) }
    }
    fn tv(&mut self, dtype: DType, dims: &[usize], data: Vec<i64>) -> InTensor {
        let run = self.rng.chance(1, 3);
        InTensor { run, dtype, dims: dims.to_vec(), data }
    }
    /// parameter tensor (axes, shape, ...): i64, usually an initializer
    fn p(&mut self, data: Vec<i64>) -> InTensor {
        let run = self.rng.chance(1, 4);
        InTensor { run, dtype: DType::I64, dims: vec![data.len()], data }
    }
    fn scalar(&mut self, dtype: DType, v: i64) -> InTensor {
        let run = self.rng.chance(1, 4);
        InTensor { run, dtype, dims: vec![], data: vec![v] }
    }
    /// axis in [-r, r) (valid), occasionally out of range
    fn axis(&mut self, r: usize) -> i64 {
        if r == 0 || self.rng.chance(1, 40) { return self.rng.range(-(r as i64) - 2, r as i64 + 1); }
        self.rng.range(-(r as i64), r as i64 - 1)
    }
    fn neg_or_pos(&mut self, k: usize, r: usize) -> i64 {
        if self.rng.chance(1, 3) { k as i64 - r as i64 } else { k as i64 }
    }
    /// operand shape that broadcasts to `out`
    fn bcast_operand(&mut self, out: &[usize]) -> Vec<usize> {
        let keep = if self.rng.chance(2, 3) { out.len() } else { self.rng.range(0, out.len() as i64) as usize };
        let mut s: Vec<usize> = out[out.len() - keep..].to_vec();
        for d in s.iter_mut() {
            if self.rng.chance(1, 4) { *d = 1; }
        }
        if self.rng.chance(1, 40) && !s.is_empty() {
            let k = self.rng.below(s.len() as u64) as usize;
            s[k] += 1; // usually incompatible
        }
        s
    }
    fn subset(&mut self, r: usize) -> Vec<usize> {
        let mut v = vec![];
        for k in 0..r { if self.rng.chance(1, 2) { v.push(k); } }
        v
    }
    fn shuffle<T>(&mut self, v: &mut Vec<T>) {
        for i in (1..v.len()).rev() {
            let j = self.rng.below(i as u64 + 1) as usize;
            v.swap(i, j);
        }
    }
    fn opset(&mut self, xs: &[u32]) -> u32 { self.rng.pick(xs) }
}

fn gen_binary(g: &mut G) -> Case {
    let ops = ["Add", "Sub", "Mul", "Div", "Div", "Mod", "Mod", "Mod", "Pow", "Equal", "Less", "LessOrEqual", "Greater",
               "GreaterOrEqual", "And", "Or", "Xor"];
    let op = ops[g.rng.below(ops.len() as u64) as usize];
    let out = g.shape(0, 4);
    let (mut sa, mut sb) = if g.rng.chance(1, 3) { (out.clone(), out.clone()) } else { (g.bcast_operand(&out), g.bcast_operand(&out)) };
    if g.rng.chance(1, 6) {
        // single-element operand whose rank may exceed the other operand's
        let ones = vec![1usize; g.rank(0, 4)];
        if g.rng.chance(1, 2) { sb = ones; } else { sa = ones; }
    }
    let logical = matches!(op, "And" | "Or" | "Xor");
    let dt = if logical { DType::Bool } else { g.num_dtype() };
    let mut c = Case::new(op, g.opset(&[13, 14, 17]));
    if !logical && g.rng.chance(1, 3) {
        // "edge algebra": zero results, negative operands, exact multiples (incl. a zero dividend) of
        // divisors of both signs, equal operands for the comparisons; with and without broadcasting
        let (sa, sb) = match g.rng.below(3) { 0 => (out.clone(), out.clone()), 1 => (out.clone(), vec![1usize; g.rank(0, 2)]), _ => (sa, sb) };
        let (na, nb): (usize, usize) = (sa.iter().product(), sb.iter().product());
        let float_div = dt == DType::F32 && op == "Div";
        let db: Vec<i64> = (0..nb).map(|_| match op {
            "Div" | "Mod" => if float_div { g.rng.pick(&[-4i64, -2, -1, -1, 1, 2]) } else { g.rng.pick(&[-5i64, -4, -3, -3, -2, -2, -1, 1, 2, 3, 5]) },
            "Pow" => g.rng.range(0, 3),
            _ => g.rng.pick(&[-8i64, -3, -1, 0, 0, 1, 2, 7]),
        }).collect();
        let exact = nb > 0 && (nb == 1 || (sa == sb));
        let da: Vec<i64> = (0..na).map(|i| {
            let bv = if nb == 0 { 1 } else { db[i % nb] };
            match op {
                "Div" | "Mod" => if exact || g.rng.chance(1, 2) { g.rng.range(-3, 3) * bv } else { g.rng.pick(&[0i64, 0, -6, 6, -12, 12, -7, 9]) },
                "Pow" => g.rng.pick(&[-2i64, -1, 0, 0, 1, 2]),
                "Add" => if g.rng.chance(1, 2) { -bv } else { g.rng.range(-2, 2) },
                "Mul" => g.rng.pick(&[0i64, 0, -1, 1, -3]),
                _ => if g.rng.chance(2, 3) { bv } else { bv + g.rng.range(-1, 1) },   // Sub and the comparisons
            }
        }).collect();
        if op == "Mod" {
            let fmod = dt == DType::F32 || g.rng.chance(1, 4);
            if fmod || g.rng.chance(1, 3) { c = c.attr_i("fmod", fmod as i64); }
        }
        let (a, b) = (g.tv(dt, &sa, da), g.tv(dt, &sb, db));
        return c.input(a).input(b);
    }
    let (a, b) = match op {
        "And" | "Or" | "Xor" => (g.t(dt, &sa, 0, 1), g.t(dt, &sb, 0, 1)),
        "Div" => {
            if dt == DType::F32 {
                let na = sa.iter().product(); let nb = sb.iter().product();
                let da = g.data(na, -8, 8).into_iter().map(|x| x * 4).collect();
                let db = (0..nb).map(|_| g.rng.pick(&[1i64, 2, 4, -1, -2, -4])).collect();
                (g.tv(dt, &sa, da), g.tv(dt, &sb, db))
            } else {
                let nb = sb.iter().product();
                let db = (0..nb).map(|_| { let v = g.rng.range(-5, 5); if v == 0 && !g.rng.chance(1, 30) { 3 } else { v } }).collect();
                (g.t(dt, &sa, -20, 20), g.tv(dt, &sb, db))
            }
        }
        "Mod" => {
            let fmod = dt == DType::F32 || g.rng.chance(1, 2);
            if fmod || g.rng.chance(1, 3) { c = c.attr_i("fmod", fmod as i64); }
            let nb = sb.iter().product();
            let db = (0..nb).map(|_| { let v = g.rng.range(-5, 5); if v == 0 && !g.rng.chance(1, 30) { -3 } else { v } }).collect();
            (g.t(dt, &sa, -20, 20), g.tv(dt, &sb, db))
        }
        "Pow" => (g.t(dt, &sa, -3, 3), { let lo = if g.rng.chance(1, 20) { -1 } else { 0 }; g.t(dt, &sb, lo, 4) }),
        _ => (g.t(dt, &sa, -8, 8), g.t(dt, &sb, -8, 8)),
    };
    c.input(a).input(b)
}

/// Div / Mod "edge algebra": divisors of both signs, dividends that are exact multiples k*divisor
/// (k of both signs and 0) mixed with a few non-multiples; i32 / i64 / integer-valued f32; same
/// shapes, a single-element divisor, or a divisor broadcast along the leading axes.
fn gen_divmod(g: &mut G) -> Case {
    let op = g.rng.pick(&["Mod", "Mod", "Div"]);
    let dt = g.num_dtype();
    let sa = g.shape_pos(1, 3);
    let sb: Vec<usize> = match g.rng.below(3) { 0 => sa.clone(), 1 => vec![1usize; g.rank(0, 2)], _ => sa[sa.len() - 1..].to_vec() };
    let (na, nb): (usize, usize) = (sa.iter().product(), sb.iter().product());
    let float_div = dt == DType::F32 && op == "Div";
    let db: Vec<i64> = (0..nb).map(|_| if float_div { g.rng.pick(&[-4i64, -2, -1, 1, 2, 4]) } else { g.rng.pick(&[-7i64, -5, -4, -3, -3, -2, -2, -1, 1, 2, 3, 4, 5]) }).collect();
    let da: Vec<i64> = (0..na).map(|i| {
        let bv = db[i % nb];   // the divisor this element meets (shapes are suffix-aligned)
        if float_div || g.rng.chance(3, 4) { g.rng.range(-3, 3) * bv } else { g.rng.range(-15, 15) }
    }).collect();
    let mut c = Case::new(op, g.opset(&[13, 14]));
    if op == "Mod" {
        let fmod = dt == DType::F32 || g.rng.chance(1, 5);
        if fmod || g.rng.chance(1, 3) { c = c.attr_i("fmod", fmod as i64); }
    }
    let (a, b) = (g.tv(dt, &sa, da), g.tv(dt, &sb, db));
    c.input(a).input(b)
}

/// Clip: min < max, min = max, min > max (every output must be max), absent min / max / both;
/// opset-6 attribute form (floats) and opset-11+ scalar (0-D) inputs; data as run input (in place)
/// or initializer.
fn gen_clip(g: &mut G) -> Case {
    let dt = g.num_dtype();
    let s = g.shape(0, 4);
    let x = g.t(dt, &s, -8, 8);
    let lo0 = g.rng.range(-6, 6);
    let (lo, hi) = match g.rng.below(7) {
        0 | 1 => (Some(lo0), Some(lo0 + g.rng.range(1, 6))),
        2 => (Some(lo0), Some(lo0)),
        3 => (Some(lo0), Some(lo0 - g.rng.range(1, 6))),
        4 => (None, Some(lo0)),
        5 => (Some(lo0), None),
        _ => (None, None),
    };
    let attr_form = dt == DType::F32 && g.rng.chance(1, 3);
    let mut c = Case::new("Clip", if attr_form { g.opset(&[1, 6]) } else { g.opset(&[11, 12, 13]) });
    if attr_form {
        if let Some(v) = lo { c = c.attr_f("min", v); }
        if let Some(v) = hi { c = c.attr_f("max", v); }
        return c.input(x);
    }
    c = c.input(x);
    match (lo, hi) {
        (None, None) => {}
        (Some(l), None) => { let t = g.scalar(dt, l); c = c.input(t); }
        (l, Some(h)) => {
            match l { Some(l) => { let t = g.scalar(dt, l); c = c.input(t); } None => { c = c.no_input(); } }
            let mut t = g.scalar(dt, h);
            if g.rng.chance(1, 40) { t.dims = vec![1]; }   // not a scalar: outside the specification
            c = c.input(t);
        }
    }
    c
}

/// other cheap element-wise operators: Relu, LeakyRelu (integer alpha), Floor/Ceil/Round and
/// IsNaN/IsInf on integer-valued floats, variadic Max/Min/Sum with broadcasting
fn gen_elementwise2(g: &mut G) -> Case {
    let op = g.rng.pick(&["Relu", "LeakyRelu", "Floor", "Ceil", "Round", "IsNaN", "IsInf", "Max", "Min", "Sum", "Max", "Min", "Sum"]);
    match op {
        "Max" | "Min" | "Sum" => {
            let out = g.shape(0, 4);
            let dt = g.num_dtype();
            let n = g.rank(1, 4);
            let mut c = Case::new(op, g.opset(&[8, 12, 13]));
            for _ in 0..n { let si = g.bcast_operand(&out); let t = g.t(dt, &si, -8, 8); c = c.input(t); }
            c
        }
        "Relu" => { let dt = if g.rng.chance(1, 10) { DType::I32 } else { DType::F32 }; let s = g.shape(0, 4); let t = g.t(dt, &s, -8, 8); Case::new(op, g.opset(&[6, 13, 14])).input(t) }
        "LeakyRelu" => { let s = g.shape(0, 4); let t = g.t(DType::F32, &s, -8, 8); Case::new(op, g.opset(&[6, 16])).attr_f("alpha", g.rng.range(-2, 3)).input(t) }
        _ => { let s = g.shape(0, 4); let t = g.t(DType::F32, &s, -8, 8); Case::new(op, g.opset(&[13, 20])).input(t) }
    }
}

fn gen_unary(g: &mut G) -> Case {
    let op = g.rng.pick(&["Not", "Neg", "Abs", "Sign", "Identity"]);
    let s = g.shape(0, 4);
    let c = Case::new(op, g.opset(&[13, 17]));
    if op == "Not" { let t = g.t(DType::Bool, &s, 0, 1); c.input(t) } else { let dt = g.num_dtype(); let t = g.t(dt, &s, -8, 8); c.input(t) }
}

fn gen_where(g: &mut G) -> Case {
    let out = g.shape(0, 4);
    let (sc, sx, sy) = (g.bcast_operand(&out), g.bcast_operand(&out), g.bcast_operand(&out));
    let dt = g.num_dtype();
    let cnd = g.t(DType::Bool, &sc, 0, 1);
    let (x, y) = (g.t(dt, &sx, -8, 8), g.t(dt, &sy, -8, 8));
    Case::new("Where", g.opset(&[9, 16])).input(cnd).input(x).input(y)
}

fn gen_transpose(g: &mut G) -> Case {
    let s = g.shape(0, 4);
    let dt = g.num_dtype();
    let x = g.t(dt, &s, -8, 8);
    let mut c = Case::new("Transpose", g.opset(&[1, 13]));
    if g.rng.chance(4, 5) {
        let mut p: Vec<i64> = (0..s.len() as i64).collect();
        g.shuffle(&mut p);
        if g.rng.chance(1, 40) && !p.is_empty() { p[0] = g.rng.range(-1, s.len() as i64); }
        c = c.attr_is("perm", &p);
    }
    c.input(x)
}

fn factor_shape(g: &mut G, n: usize) -> Vec<i64> {
    // random factorisation of n into up to 4 dims
    let mut rest = n;
    let mut v = vec![];
    let r = g.rank(0, 4);
    for _ in 0..r {
        if rest == 0 { v.push(g.rng.range(0, 3)); continue; }
        let divs: Vec<usize> = (1..=rest).filter(|d| rest % d == 0).collect();
        let d = divs[g.rng.below(divs.len() as u64) as usize];
        v.push(d as i64);
        rest /= d;
    }
    if rest != 1 || (n == 0 && !v.contains(&0)) {
        if n == 0 { v.push(0) } else { v.push(rest as i64) }
    }
    g.shuffle(&mut v);
    v
}

fn gen_reshape(g: &mut G) -> Case {
    let s = g.shape(0, 4);
    let n: usize = s.iter().product();
    let dt = g.num_dtype();
    let x = g.t(dt, &s, -8, 8);
    let mut sh = factor_shape(g, n);
    let r = g.rng.below(10);
    if r < 3 && !sh.is_empty() {
        let k = g.rng.below(sh.len() as u64) as usize; sh[k] = -1;
    }
    if g.rng.chance(1, 3) {
        // use 0 = copy where the dims coincide (or anywhere, sometimes)
        for k in 0..sh.len() {
            if k < s.len() && (sh[k] == s[k] as i64 || g.rng.chance(1, 30)) && g.rng.chance(1, 2) { sh[k] = 0; }
        }
    }
    if g.rng.chance(1, 30) { sh.push(g.rng.range(-2, 3)); }
    let ops = g.opset(&[1, 5, 13, 14, 19]);
    let mut c = Case::new("Reshape", ops);
    if ops >= 14 && g.rng.chance(1, 2) { c = c.attr_i("allowzero", g.rng.range(0, 1)); }
    if ops < 5 { c.attr_is("shape", &sh).input(x) } else { let p = g.p(sh); c.input(x).input(p) }
}

fn gen_squeeze(g: &mut G) -> Case {
    let r = g.rank(0, 4);
    let s: Vec<usize> = (0..r).map(|_| if g.rng.chance(1, 2) { 1 } else { g.dim() }).collect();
    let dt = g.num_dtype();
    let x = g.t(dt, &s, -8, 8);
    let ops = g.opset(&[1, 11, 13, 21]);
    let c = Case::new("Squeeze", ops);
    if g.rng.chance(1, 4) { return c.input(x); }
    let ones: Vec<usize> = (0..r).filter(|k| s[*k] == 1).collect();
    let mut axes: Vec<i64> = vec![];
    for k in ones { if g.rng.chance(2, 3) { let a = g.neg_or_pos(k, r); axes.push(a); } }
    g.shuffle(&mut axes);
    if g.rng.chance(1, 30) { axes.push(g.axis(r)); }
    if ops < 13 { c.attr_is("axes", &axes).input(x) } else { let p = g.p(axes); c.input(x).input(p) }
}

fn gen_unsqueeze(g: &mut G) -> Case {
    let s = g.shape(0, 3);
    let dt = g.num_dtype();
    let x = g.t(dt, &s, -8, 8);
    let ops = g.opset(&[1, 11, 13, 21]);
    let extra = g.rank(1, 2);
    let n = s.len() + extra;
    let mut pos: Vec<usize> = (0..n).collect();
    g.shuffle(&mut pos);
    let mut axes: Vec<i64> = pos[..extra].iter().map(|k| g.neg_or_pos(*k, n)).collect();
    if g.rng.chance(1, 30) { axes.push(g.axis(n)); }
    let c = Case::new("Unsqueeze", ops);
    if ops < 13 { c.attr_is("axes", &axes).input(x) } else { let p = g.p(axes); c.input(x).input(p) }
}

fn gen_concat(g: &mut G) -> Case {
    let s = g.shape(1, 4);
    let r = s.len();
    let k = g.rng.below(r as u64) as usize;
    let dt = g.num_dtype();
    let n = g.rank(1, 4);
    let mut c = Case::new("Concat", g.opset(&[4, 11, 13])).attr_i("axis", g.neg_or_pos(k, r));
    for _ in 0..n {
        let mut si = s.clone();
        si[k] = g.dim();
        if g.rng.chance(1, 60) { let j = g.rng.below(r as u64) as usize; si[j] += 1; }
        let t = g.t(dt, &si, -8, 8);
        c = c.input(t);
    }
    c
}

fn gen_split(g: &mut G) -> Case {
    let s = g.shape(1, 4);
    let r = s.len();
    let k = g.rng.below(r as u64) as usize;
    let d = s[k];
    let dt = g.num_dtype();
    let x = g.t(dt, &s, -8, 8);
    let ops = g.opset(&[2, 11, 13, 18]);
    let mut c = Case::new("Split", ops);
    if k != 0 || g.rng.chance(1, 2) { c = c.attr_i("axis", g.neg_or_pos(k, r)); }
    let n = g.rank(1, 4);
    let mode = g.rng.below(3);
    if mode == 0 {
        // explicit sizes
        let mut sizes = vec![];
        let mut rest = d as i64;
        for i in 0..n { let v = if i + 1 == n { rest } else { g.rng.range(0, rest) }; sizes.push(v); rest -= v; }
        if g.rng.chance(1, 30) { sizes[0] += 1; }
        c = c.outputs(n);
        if ops < 13 { c.attr_is("split", &sizes).input(x) } else { let p = g.p(sizes); c.input(x).input(p) }
    } else {
        // equal parts; pick a divisor most of the time
        let divs: Vec<usize> = (1..=d.max(1)).filter(|q| d % q == 0).collect();
        let n = if g.rng.chance(2, 3) { divs[g.rng.below(divs.len() as u64) as usize] } else { n };
        c = c.outputs(n);
        if ops >= 18 { c = c.attr_i("num_outputs", n as i64); }
        c.input(x)
    }
}

fn slice_bound(g: &mut G, d: usize) -> i64 {
    let d = d as i64;
    match g.rng.below(12) {
        0 => I64MAX, 1 => I64MIN, 2 => I32MAX, 3 => -I32MAX, 4 => I64MIN + 1,
        _ => g.rng.range(-d - 2, d + 2),
    }
}

fn gen_slice(g: &mut G) -> Case {
    let s = g.shape(1, 4);
    let r = s.len();
    let dt = g.num_dtype();
    let x = g.t(dt, &s, -8, 8);
    let ops = g.opset(&[1, 10, 11, 13]);
    let mut axes_k = g.subset(r);
    if axes_k.is_empty() { axes_k.push(g.rng.below(r as u64) as usize); }
    g.shuffle(&mut axes_k);
    let default_axes = g.rng.chance(1, 4);
    if default_axes { axes_k = (0..g.rank(1, r)).collect(); }
    let starts: Vec<i64> = axes_k.iter().map(|k| slice_bound(g, s[*k])).collect();
    let ends: Vec<i64> = axes_k.iter().map(|k| slice_bound(g, s[*k])).collect();
    let mut axes: Vec<i64> = axes_k.iter().map(|k| g.neg_or_pos(*k, r)).collect();
    if ops < 10 { axes = axes_k.iter().map(|k| *k as i64).collect(); }
    if g.rng.chance(1, 40) { axes[0] = g.axis(r); }
    let c = Case::new("Slice", ops);
    if ops < 10 {
        let c = c.attr_is("starts", &starts).attr_is("ends", &ends);
        let c = if default_axes { c } else { c.attr_is("axes", &axes) };
        return c.input(x);
    }
    let steps: Vec<i64> = axes_k.iter().map(|_| match g.rng.below(10) { 0 | 1 | 2 => 1, 3 | 4 => -1, 5 => 2, 6 => -2, 7 => 3, 8 => -3,
                                                       _ => g.rng.pick(&[I64MAX, I64MIN, 0, 5, -5]) }).collect();
    let (ps, pe) = (g.p(starts), g.p(ends));
    let mut c = c.input(x).input(ps).input(pe);
    let with_steps = g.rng.chance(3, 4);
    if default_axes && !with_steps { return c; }
    if default_axes { c = c.no_input(); } else { let pa = g.p(axes); c = c.input(pa); }
    if with_steps { let pst = g.p(steps); c = c.input(pst); }
    c
}

fn index_val(g: &mut G, d: usize) -> i64 {
    let d = d as i64;
    if d == 0 { return g.rng.range(-1, 1); }
    if g.rng.chance(1, 150) { return g.rng.pick(&[d, -d - 1, d + 3]); }
    g.rng.range(-d, d - 1)
}

fn gen_gather(g: &mut G) -> Case {
    let s = g.shape(1, 4);
    let r = s.len();
    let k = g.rng.below(r as u64) as usize;
    let dt = g.num_dtype();
    let x = g.t(dt, &s, -8, 8);
    let is = { let l = g.long; g.long = false; let v = g.shape(0, 2); g.long = l; v };
    let n: usize = is.iter().product();
    let idt = g.int_dtype();
    let data = (0..n).map(|_| index_val(g, s[k])).collect();
    let i = g.tv(idt, &is, data);
    let mut c = Case::new("Gather", g.opset(&[1, 11, 13]));
    if k != 0 || g.rng.chance(1, 2) { c = c.attr_i("axis", g.neg_or_pos(k, r)); }
    c.input(x).input(i)
}

fn gen_gather_elements(g: &mut G) -> Case {
    let s = g.shape(1, 4);
    let r = s.len();
    let k = g.rng.below(r as u64) as usize;
    let dt = g.num_dtype();
    let x = g.t(dt, &s, -8, 8);
    let mut is: Vec<usize> = vec![];
    for d in &s { let lo = if g.rng.chance(1, 10) { 0 } else { 1 }; is.push(if *d == 0 { 0 } else { g.rng.range(lo, *d as i64) as usize }); }
    is[k] = g.dim();
    if g.rng.chance(1, 60) { let j = g.rng.below(r as u64) as usize; is[j] = s[j] + 1; }
    let n: usize = is.iter().product();
    let idt = g.int_dtype();
    let data = (0..n).map(|_| index_val(g, s[k])).collect();
    let i = g.tv(idt, &is, data);
    let mut c = Case::new("GatherElements", g.opset(&[11, 13]));
    if k != 0 || g.rng.chance(1, 2) { c = c.attr_i("axis", g.neg_or_pos(k, r)); }
    c.input(x).input(i)
}

fn gen_gather_nd(g: &mut G) -> Case {
    let s = g.shape(1, 4);
    let r = s.len();
    let b = if g.rng.chance(2, 3) { 0 } else { g.rng.range(0, r as i64 - 1) as usize };
    let m = g.rng.range(1, (r - b) as i64) as usize;
    let mut is: Vec<usize> = s[..b].to_vec();
    for _ in 0..g.rank(0, 2) { is.push(g.dim()); }
    is.push(m);
    let outer: usize = is[..is.len() - 1].iter().product();
    let mut data = vec![];
    for _ in 0..outer { for t in 0..m { data.push(index_val(g, s[b + t])); } }
    let dt = g.num_dtype();
    let x = g.t(dt, &s, -8, 8);
    let idt = g.int_dtype();
    let i = g.tv(idt, &is, data);
    let mut c = Case::new("GatherND", g.opset(&[11, 12, 13]));
    if b != 0 || g.rng.chance(1, 3) { c = c.attr_i("batch_dims", b as i64); }
    c.input(x).input(i)
}

fn gen_expand(g: &mut G) -> Case {
    let out = g.shape(0, 4);
    let sx = g.bcast_operand(&out);
    let mut sh: Vec<i64> = g.bcast_operand(&out).into_iter().map(|d| d as i64).collect();
    if g.rng.chance(1, 40) && !sh.is_empty() { sh[0] = -1; }
    let dt = g.num_dtype();
    let x = g.t(dt, &sx, -8, 8);
    let p = g.p(sh);
    Case::new("Expand", g.opset(&[8, 13])).input(x).input(p)
}

fn gen_tile(g: &mut G) -> Case {
    let s = g.shape(0, 4);
    let mut reps: Vec<i64> = s.iter().map(|_| g.rng.pick(&[1i64, 1, 2, 2, 3, 0])).collect();
    while s.iter().zip(&reps).map(|(d, r)| d * (*r as usize)).product::<usize>() > 400 {
        let k = g.rng.below(reps.len() as u64) as usize; reps[k] = 1;
    }
    if g.rng.chance(1, 40) { reps.push(1); }
    if g.rng.chance(1, 60) && !reps.is_empty() { reps[0] = -1; }
    let dt = g.num_dtype();
    let x = g.t(dt, &s, -8, 8);
    let p = g.p(reps);
    Case::new("Tile", g.opset(&[6, 13])).input(x).input(p)
}

fn gen_pad(g: &mut G) -> Case {
    let s = g.shape(1, 4);
    let r = s.len();
    let dt = g.num_dtype();
    let x = g.t(dt, &s, -8, 8);
    let mode = g.rng.pick(&["constant", "constant", "reflect", "edge", "wrap"]);
    let ops = g.opset(&[2, 11, 13, 18, 19]);
    let use_axes = ops >= 18 && g.rng.chance(1, 2);
    let mut ks: Vec<usize> = if use_axes { let mut k = g.subset(r); g.shuffle(&mut k); k } else { (0..r).collect() };
    if mode != "constant" && !use_axes && r > 2 && g.rng.chance(3, 4) {
        // rten only pads the last two dims in the non-constant modes: keep the others at zero
        ks = (0..r).collect();
    }
    let n = ks.len();
    let mut pads = vec![0i64; 2 * n];
    for (j, k) in ks.iter().enumerate() {
        let d = s[*k] as i64;
        let limit = match mode { "reflect" => (d - 1).max(0), "wrap" => d, _ => 3 };
        let inner = mode == "constant" || *k + 2 >= r || g.rng.chance(1, 8);
        if inner {
            pads[j] = g.rng.range(0, limit.min(3));
            pads[n + j] = g.rng.range(0, limit.min(3));
            if mode == "constant" && g.rng.chance(1, 6) { pads[j] = -g.rng.range(0, d); }
            if mode == "constant" && g.rng.chance(1, 6) { pads[n + j] = -g.rng.range(0, (d + pads[j].min(0)).max(0)); }
            if g.rng.chance(1, 60) { pads[j] = limit + 1; }
        }
    }
    let mut c = Case::new("Pad", ops);
    if mode != "constant" || g.rng.chance(1, 3) { c = c.attr_s("mode", mode); }
    let cv = g.rng.range(-8, 8);
    if ops < 11 {
        c = c.attr_is("pads", &pads);
        if g.rng.chance(1, 2) && dt == DType::F32 { c = c.attr_f("value", cv); }
        return c.input(x);
    }
    let pp = g.p(pads);
    c = c.input(x).input(pp);
    let with_cv = g.rng.chance(1, 2);
    if with_cv { let t = g.scalar(dt, cv); c = c.input(t); } else if use_axes { c = c.no_input(); }
    if use_axes { let ax: Vec<i64> = ks.iter().map(|k| g.neg_or_pos(*k, r)).collect(); let t = g.p(ax); c = c.input(t); }
    c
}

fn gen_reduce(g: &mut G) -> Case {
    let op = g.rng.pick(&["ReduceSum", "ReduceProd", "ReduceMax", "ReduceMin", "ReduceSumSquare", "ReduceL1"]);
    let s = g.shape(0, 4);
    let r = s.len();
    let dt = g.num_dtype();
    let x = if op == "ReduceProd" { if g.long { g.t(dt, &s, -1, 1) } else { g.t(dt, &s, -2, 2) } } else { g.t(dt, &s, -8, 8) };
    let ops = g.opset(&[1, 11, 13, 18]);
    let axes_input = if op == "ReduceSum" { ops >= 13 } else { ops >= 18 };
    let mut c = Case::new(op, ops);
    if g.rng.chance(2, 3) { c = c.attr_i("keepdims", g.rng.range(0, 1)); }
    let noop = axes_input && g.rng.chance(1, 4);
    if noop { c = c.attr_i("noop_with_empty_axes", g.rng.range(0, 1)); }
    let mut ks = g.subset(r);
    g.shuffle(&mut ks);
    let mut axes: Vec<i64> = ks.iter().map(|k| g.neg_or_pos(*k, r)).collect();
    if g.rng.chance(1, 40) { axes.push(g.axis(r)); }
    let omit = g.rng.chance(1, 5);
    if axes_input {
        c = c.input(x);
        if !omit { let p = g.p(axes); c = c.input(p); }
        c
    } else {
        if !omit && !axes.is_empty() { c = c.attr_is("axes", &axes); }
        c.input(x)
    }
}

fn long_axis(s: &[usize]) -> usize {
    s.iter().enumerate().max_by_key(|(_, d)| **d).map(|(k, _)| k).unwrap_or(0)
}

fn gen_arg(g: &mut G) -> Case {
    let op = g.rng.pick(&["ArgMax", "ArgMin"]);
    let s = g.shape(1, 4);
    let r = s.len();
    let dt = g.num_dtype();
    let x = g.t(dt, &s, -3, 3);
    let mut c = Case::new(op, g.opset(&[1, 11, 12, 13]));
    let k = if g.long { long_axis(&s) } else { g.rng.below(r as u64) as usize };
    if k != 0 || g.rng.chance(1, 2) { c = c.attr_i("axis", g.neg_or_pos(k, r)); }
    if g.rng.chance(2, 3) { c = c.attr_i("keepdims", g.rng.range(0, 1)); }
    if g.rng.chance(1, 4) { c = c.attr_i("select_last_index", 0); }
    c.input(x)
}

fn gen_cumsum(g: &mut G) -> Case {
    let s = g.shape(1, 4);
    let r = s.len();
    let dt = g.num_dtype();
    let x = g.t(dt, &s, -8, 8);
    let mut c = Case::new("CumSum", g.opset(&[11, 14]));
    if g.rng.chance(1, 2) { c = c.attr_i("exclusive", g.rng.range(0, 1)); }
    if g.rng.chance(1, 2) { c = c.attr_i("reverse", g.rng.range(0, 1)); }
    let a = g.axis(r);
    let idt = g.int_dtype();
    let t = g.scalar(idt, a);
    c.input(x).input(t)
}

fn gen_trilu(g: &mut G) -> Case {
    let s = g.shape(2, 4);
    let dt = g.num_dtype();
    let x = g.t(dt, &s, -8, 8);
    let mut c = Case::new("Trilu", 14);
    if g.rng.chance(2, 3) { c = c.attr_i("upper", g.rng.range(0, 1)); }
    c = c.input(x);
    if g.rng.chance(2, 3) { let k = g.rng.range(-6, 6); let t = g.scalar(DType::I64, k); c = c.input(t); }
    c
}

fn gen_range(g: &mut G) -> Case {
    let dt = g.num_dtype();
    let start = g.rng.range(-8, 8);
    let delta = { let d = g.rng.range(-4, 4); if d == 0 && !g.rng.chance(1, 20) { 2 } else { d } };
    let limit = start + g.rng.range(-12, 12);
    let (a, b, d) = (g.scalar(dt, start), g.scalar(dt, limit), g.scalar(dt, delta));
    Case::new("Range", 11).input(a).input(b).input(d)
}

fn gen_onehot(g: &mut G) -> Case {
    let s = g.shape(0, 3);
    let r = s.len();
    let depth = g.rng.range(0, 5);
    let idt = g.int_dtype();
    let n: usize = s.iter().product();
    let data = (0..n).map(|_| g.rng.range(-depth - 1, depth + 1)).collect();
    let i = g.tv(idt, &s, data);
    let ddt = g.int_dtype();
    let d = if g.rng.chance(1, 2) { g.scalar(ddt, depth) } else { let mut t = g.scalar(ddt, depth); t.dims = vec![1]; t };
    let vdt = g.num_dtype();
    let (off, on) = (g.rng.range(-3, 3), g.rng.range(-3, 3));
    let v = g.tv(vdt, &[2], vec![off, on]);
    let mut c = Case::new("OneHot", g.opset(&[9, 11]));
    if g.rng.chance(3, 4) { c = c.attr_i("axis", g.axis(r + 1)); }
    c.input(i).input(d).input(v)
}

fn gen_topk(g: &mut G) -> Case {
    let s = g.shape(1, 4);
    let r = s.len();
    let k_ax = g.rng.below(r as u64) as usize;
    let d = s[k_ax] as i64;
    let dt = g.num_dtype();
    // long lanes: a tiny alphabet, so that runs of equal values straddle position k
    let x = if g.long { g.t(dt, &s, 0, 2) } else { g.t(dt, &s, -3, 3) };
    let k = if g.long && d > 1 { g.rng.range(1, d - 1) } else if g.rng.chance(1, 40) { d + 1 } else { g.rng.range(0, d) };
    let ops = g.opset(&[1, 10, 11]);
    let mut c = Case::new("TopK", ops).outputs(2);
    if k_ax != r - 1 || g.rng.chance(1, 2) { c = c.attr_i("axis", g.neg_or_pos(k_ax, r)); }
    if ops >= 11 {
        if g.rng.chance(1, 2) { c = c.attr_i("largest", g.rng.range(0, 1)); }
        if g.rng.chance(1, 3) { c = c.attr_i("sorted", 1); }
    }
    if ops < 10 { c.attr_i("k", k).input(x) } else { let mut t = g.scalar(DType::I64, k); t.dims = vec![1]; c.input(x).input(t) }
}

fn gen_matmul(g: &mut G) -> Case {
    // rten implements MatMul / Gemm for f32 only (integer inputs are an unsupported element type)
    let dt = if g.rng.chance(1, 12) { DType::I32 } else { DType::F32 };
    let (m, k, n) = (g.dim(), g.dim(), g.dim());
    let batch = g.shape(0, 2);
    let mut sa = g.bcast_operand(&batch);
    let mut sb = g.bcast_operand(&batch);
    match g.rng.below(8) {
        0 => { sa = vec![k]; sb.extend([k, n]); }
        1 => { sa.extend([m, k]); sb = vec![k]; }
        2 => { sa = vec![k]; sb = vec![k]; }
        _ => { sa.extend([m, k]); sb.extend([k, n]); }
    }
    if g.rng.chance(1, 40) { let l = sa.len(); sa[l - 1] += 1; }
    let (a, b) = (g.t(dt, &sa, -4, 4), g.t(dt, &sb, -4, 4));
    Case::new("MatMul", g.opset(&[9, 13])).input(a).input(b)
}

fn gen_gemm(g: &mut G) -> Case {
    let dt = if g.rng.chance(1, 12) { DType::I32 } else { DType::F32 };
    let (m, k, n) = (g.dim(), g.dim(), g.dim());
    let (ta, tb) = (g.rng.chance(1, 2), g.rng.chance(1, 2));
    let sa = if ta { vec![k, m] } else { vec![m, k] };
    let sb = if tb { vec![n, k] } else { vec![k, n] };
    let mut c = Case::new("Gemm", g.opset(&[9, 11, 13]));
    if ta || g.rng.chance(1, 4) { c = c.attr_i("transA", ta as i64); }
    if tb || g.rng.chance(1, 4) { c = c.attr_i("transB", tb as i64); }
    if g.rng.chance(1, 2) { c = c.attr_f("alpha", g.rng.range(-2, 3)); }
    if g.rng.chance(1, 2) { c = c.attr_f("beta", g.rng.range(-2, 3)); }
    let (a, b) = (g.t(dt, &sa, -4, 4), g.t(dt, &sb, -4, 4));
    c = c.input(a).input(b);
    if g.rng.chance(2, 3) {
        let sc = g.bcast_operand(&[m, n]);
        let t = g.t(dt, &sc, -4, 4);
        c = c.input(t);
    }
    c
}

fn gen_scatter_elements(g: &mut G) -> Case {
    let s = g.shape(1, 3);
    let r = s.len();
    let k = g.rng.below(r as u64) as usize;
    let dt = g.num_dtype();
    let x = g.t(dt, &s, -8, 8);
    let mut is: Vec<usize> = s.iter().map(|d| if *d == 0 { 0 } else { g.rng.range(1, *d as i64) as usize }).collect();
    is[k] = g.rng.range(0, 3) as usize;
    let n: usize = is.iter().product();
    let red = g.rng.pick(&["none", "none", "add", "mul", "min", "max"]);
    let idt = g.int_dtype();
    // for reduction=none make the targets along the axis distinct (duplicates are undefined)
    let mut data = vec![0i64; n];
    if s[k] > 0 && n > 0 {
        let inner: usize = is[k + 1..].iter().product();
        let outer: usize = is[..k].iter().product();
        for o in 0..outer { for i in 0..inner {
            let mut perm: Vec<i64> = (0..s[k] as i64).collect();
            g.shuffle(&mut perm);
            for j in 0..is[k] {
                let v = if red == "none" && !g.rng.chance(1, 60) { perm[j % perm.len()] } else { g.rng.range(0, s[k] as i64 - 1) };
                let v = if g.rng.chance(1, 3) { v - s[k] as i64 } else { v };
                data[(o * is[k] + j) * inner + i] = v;
            }
        } }
    }
    let i = g.tv(idt, &is, data);
    let u = g.t(dt, &is, -4, 4);
    let ops = g.opset(&[11, 13, 16, 18]);
    let mut c = Case::new("ScatterElements", ops);
    if k != 0 || g.rng.chance(1, 2) { c = c.attr_i("axis", g.neg_or_pos(k, r)); }
    if red != "none" || g.rng.chance(1, 3) { c = c.attr_s("reduction", red); }
    c.input(x).input(i).input(u)
}

fn gen_scatter_nd(g: &mut G) -> Case {
    let s = g.shape_pos(1, 3);
    let r = s.len();
    let m = g.rng.range(1, r as i64) as usize;
    let dt = g.num_dtype();
    let x = g.t(dt, &s, -8, 8);
    let red = g.rng.pick(&["none", "none", "add", "mul", "min", "max"]);
    let total: usize = s[..m].iter().product();
    let cnt = g.rng.range(0, 3.min(total as i64)) as usize;
    // distinct index tuples for none
    let mut all: Vec<usize> = (0..total).collect();
    g.shuffle(&mut all);
    let mut data = vec![];
    for j in 0..cnt {
        let mut lin = if red == "none" { all[j] } else { g.rng.below(total as u64) as usize };
        let mut tup = vec![0i64; m];
        for t in (0..m).rev() { tup[t] = (lin % s[t]) as i64; lin /= s[t]; }
        for t in 0..m { if g.rng.chance(1, 4) { tup[t] -= s[t] as i64; } }
        data.extend(tup);
    }
    let idt = g.int_dtype();
    let i = g.tv(idt, &[cnt, m], data);
    let mut us = vec![cnt];
    us.extend(&s[m..]);
    let u = g.t(dt, &us, -4, 4);
    let mut c = Case::new("ScatterND", g.opset(&[11, 13, 16, 18]));
    if red != "none" || g.rng.chance(1, 3) { c = c.attr_s("reduction", red); }
    c.input(x).input(i).input(u)
}

fn gen_maxpool(g: &mut G) -> Case {
    let (n, c) = (g.rng.range(1, 2) as usize, g.rng.range(1, 3) as usize);
    let (h, w) = (g.dim_pos(), g.dim_pos());
    let (kh, kw) = (g.rng.range(1, 3.min(h as i64 + 1)), g.rng.range(1, 3.min(w as i64 + 1)));
    let pads: Vec<i64> = if g.rng.chance(1, 2) { vec![0; 4] } else {
        vec![g.rng.range(0, kh - 1), g.rng.range(0, kw - 1), g.rng.range(0, kh - 1), g.rng.range(0, kw - 1)] };
    let x = g.t(DType::F32, &[n, c, h, w], -8, 8);
    let mut cse = Case::new("MaxPool", g.opset(&[8, 11, 12])).attr_is("kernel_shape", &[kh, kw]);
    if g.rng.chance(2, 3) { cse = cse.attr_is("strides", &[g.rng.range(1, 3), g.rng.range(1, 3)]); }
    if pads.iter().any(|p| *p != 0) || g.rng.chance(1, 3) { cse = cse.attr_is("pads", &pads); }
    if g.rng.chance(1, 6) { cse = cse.attr_is("dilations", &[1, 1]); }
    if g.rng.chance(1, 6) { cse = cse.attr_i("ceil_mode", 0); }
    if g.rng.chance(1, 8) { cse = cse.attr_s("auto_pad", "NOTSET"); }
    cse.input(x)
}

type GenFn = fn(&mut G) -> Case;
const GENS: &[(&str, GenFn, u32)] = &[
    ("binary", gen_binary, 8), ("divmod", gen_divmod, 2), ("clip", gen_clip, 2), ("elementwise2", gen_elementwise2, 2), ("unary", gen_unary, 2), ("where", gen_where, 2), ("transpose", gen_transpose, 2),
    ("reshape", gen_reshape, 3), ("squeeze", gen_squeeze, 2), ("unsqueeze", gen_unsqueeze, 2), ("concat", gen_concat, 2),
    ("split", gen_split, 3), ("slice", gen_slice, 5), ("gather", gen_gather, 2), ("gather_elements", gen_gather_elements, 2),
    ("gather_nd", gen_gather_nd, 2), ("expand", gen_expand, 2), ("tile", gen_tile, 2), ("pad", gen_pad, 4),
    ("reduce", gen_reduce, 5), ("arg", gen_arg, 2), ("cumsum", gen_cumsum, 2), ("trilu", gen_trilu, 2), ("range", gen_range, 1),
    ("onehot", gen_onehot, 2), ("topk", gen_topk, 2), ("matmul", gen_matmul, 3), ("gemm", gen_gemm, 2),
    ("scatter_elements", gen_scatter_elements, 2), ("scatter_nd", gen_scatter_nd, 2), ("maxpool", gen_maxpool, 2),
];

/// generators that are also run with long-lane shapes (TopK twice: its selection step is size dependent)
const LONG_GENS: &[(&str, GenFn)] = &[
    ("topk", gen_topk), ("topk", gen_topk), ("topk", gen_topk), ("arg", gen_arg), ("arg", gen_arg), ("reduce", gen_reduce),
    ("reduce", gen_reduce), ("cumsum", gen_cumsum), ("gather", gen_gather), ("gather_elements", gen_gather_elements),
    ("scatter_elements", gen_scatter_elements), ("slice", gen_slice), ("concat", gen_concat), ("split", gen_split),
    ("transpose", gen_transpose), ("binary", gen_binary), ("where", gen_where), ("unary", gen_unary), ("clip", gen_clip),
    ("elementwise2", gen_elementwise2),
];

pub fn generate(seed: u64, n: usize, _tier: &str, only: Option<&str>) -> Vec<Case> {
    let mut g = G { rng: SplitMix64(seed ^ 0xC15), long: false };
    let gens: Vec<&(&str, GenFn, u32)> = GENS.iter().filter(|(name, _, _)| only.map(|o| o == *name || o == "long").unwrap_or(true)).collect();
    let total: u32 = gens.iter().map(|x| x.2).sum();
    let mut v = vec![];
    if gens.is_empty() { return v; }
    for _ in 0..n {
        let mut pick = g.rng.below(total as u64) as u32;
        let mut f = gens[0].1;
        for (_, gf, w) in gens.iter().map(|x| **x) {
            if pick < w { f = gf; break; }
            pick -= w;
        }
        // about one case in nine is a "long lane" variant of an operator with a lane / axis loop
        g.long = only.is_none() && g.rng.chance(1, 9) || only == Some("long");
        if g.long {
            let (_, lf) = LONG_GENS[g.rng.below(LONG_GENS.len() as u64) as usize];
            f = lf;
        }
        let mut c = f(&mut g);
        g.long = false;
        c.optimize = g.rng.chance(1, 2);
        v.push(c);
    }
    v
}
