//! C15: `c15 gen <seed> <n> <tier>` prints case lines; `c15 exec` runs them through rten and prints
//! `tag \t line \t coq-case`; `c15 dbg` prints rten's error text for each line (debugging aid).
use std::io::{BufRead, Write};
use vh_onnxref::*;

mod generators;

fn main() {
    if std::env::var_os("C15_VERBOSE").is_none() { std::panic::set_hook(Box::new(|_| {})); }
    let args: Vec<String> = std::env::args().collect();
    let stdout = std::io::stdout();
    let mut out = std::io::BufWriter::new(stdout.lock());
    match args.get(1).map(|s| s.as_str()) {
        Some("gen") => {
            let seed: u64 = args[2].parse().unwrap();
            let n: usize = args[3].parse().unwrap();
            let tier = args.get(4).map(|s| s.as_str()).unwrap_or("quick");
            let only = args.get(5).map(|s| s.as_str());
            for c in generators::generate(seed, n, tier, only) {
                writeln!(out, "{}", c.to_line()).unwrap();
            }
        }
        Some("exec") => {
            for line in std::io::stdin().lock().lines() {
                let line = line.unwrap();
                if line.trim().is_empty() { continue; }
                match Case::parse(&line) {
                    Some(c) => {
                        let oc = run_case_timeout(&c, 30);
                        writeln!(out, "{}\t{}\t{}", generators::tag(&c), line.trim(), c.to_coq(&oc)).unwrap();
                    }
                    None => {
                        let c = Case::new("Malformed", 0);
                        writeln!(out, "trivial-malformed\t{}\t{}", line.trim(), c.to_coq("ILoadRej")).unwrap();
                    }
                }
            }
        }
        Some("dbg") => {
            for line in std::io::stdin().lock().lines() {
                let line = line.unwrap();
                if let Some(c) = Case::parse(&line) {
                    let oc = run_case(&c);
                    let et = std::panic::catch_unwind(|| error_text(&c)).unwrap_or_else(|_| "PANIC".into());
                    writeln!(out, "{} => {} / {}", line.trim(), et, oc).unwrap();
                }
            }
        }
        _ => { eprintln!("usage: c15 gen <seed> <n> <tier> [op] | exec | dbg"); std::process::exit(2); }
    }
}
