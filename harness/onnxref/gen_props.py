#!/usr/bin/env python3
"""Regenerate coq/onnxref/Props_C15.v: copies the STATEMENT of every listed lemma verbatim from the
*_proofs.v files and proves it with `exact <lemma>` (so the Props file holds statements only).
Run from anywhere:  python3 harness/onnxref/gen_props.py"""
import os, re
D = os.path.join(os.path.dirname(os.path.dirname(os.path.dirname(os.path.abspath(__file__)))), "coq", "onnxref")
want = [
 ("RefBase_proofs.v", ["get_tab","tabo_spec","nth_all_idx","In_all_idx","NoDup_all_idx","norm_axis_spec"]),
 ("Bcast_proofs.v", ["bshape_spec","bidx_valid","bidx_coords","binop_spec","binop_defined","where_spec","get_unop","div_trunc_spec","mod_int_spec","mod_fmod_spec","pow_spec","compare_spec"]),
 ("Transpose_proofs.v", ["transpose_spec","expand_spec","tile_spec"]),
 ("Concat_proofs.v", ["concat_spec","split_sizes_sum","split_sizes_equal","split_spec"]),
 ("Slice_proofs.v", ["slice_start_range","slice_end_range","slice_len_spec","slice_in_bounds","nth_slice_params","nth_slice_src","slice_spec","pad_src_in_bounds","nth_pad_params","pad_spec"]),
 ("Gather_proofs.v", ["norm_idx_spec","gather_spec","gather_elements_spec","gather_nd_spec","scatter_apply_spec","scatter_elements_spec","scatter_nd_spec"]),
 ("Reduce_proofs.v", ["red_fold_spec","reduce_spec","reduce_op_spec","arg_reduce_spec","cumsum_range_spec","cumsum_spec"]),
 ("Misc_proofs.v", ["trilu_spec","range_spec","onehot_spec","matmul_spec","gemm_spec"]),
 ("Reshape_proofs.v", ["reshape_spec","squeeze_spec","unsqueeze_spec"]),
 ("TopK_proofs.v", ["topk_list_spec","topk_spec"]),
 ("Pool_proofs.v", ["pool_window_spec","maxpool2d_spec"]),
 ("Clip_proofs.v", ["clip_val_spec","clip_spec","relu_leaky_spec","variadic_spec"]),
 ("Oracle_proofs.v", ["out_eqb_spec","prop_ok_reflect"]),
]
out, names = [], []
for fn, ths in want:
    src = open(os.path.join(D, fn)).read()
    for th in ths:
        m = re.search(r"(?:Theorem|Lemma)\s+%s\b(.*?)\nProof\." % re.escape(th), src, re.S)
        assert m, th
        body = m.group(1)
        depth, pos = 0, None
        for i, ch in enumerate(body):
            if ch in "({[": depth += 1
            elif ch in ")}]": depth -= 1
            elif ch == ":" and depth == 0 and body[i + 1] in " \n" and body[i - 1] in " \n":
                pos = i; break
        binders, stmt = body[:pos].strip(), body[pos + 1:].strip()
        assert stmt.endswith(".")
        stmt = stmt[:-1]
        cm = re.search(r"(\(\*(?:(?!\*\)).)*\*\))\s*$", src[:m.start()], re.S)
        comment = cm.group(1) + "\n" if cm else ""
        poly = "{A}" in binders or "{A B}" in binders
        binders = binders.replace("{A B}", "(A B : Type)").replace("{A}", "(A : Type)")
        fa = ("forall %s,\n  " % binders) if binders else ""
        names.append("C15_" + th)
        out.append("%sTheorem C15_%s : %s%s.\nProof. exact %s. Qed.\n" % (comment, th, fa, stmt, ("(@%s)" % th) if poly else th))
hdr = '''(* C15 -- Operators conform to ONNX reference semantics.
   Only statements; every proof is `exact <lemma>` (the lemmas are in the *_proofs.v files).
   For each operator of OnnxRef.v the theorem states, for ALL shapes / attributes / inputs on which
   the reference is defined, the output shape and, for every valid output index, (1) that the
   source index it reads is a valid index of the input (no reliance on out-of-range defaults) and
   (2) the index-level equation of the ONNX operator specification.
   GENERATED from the lemma statements by harness/onnxref/gen_props.py -- regenerate, do not edit. *)
From RV Require Import Prelude.
From Coq Require Import Permutation Sorted.
From OnnxRef Require Import RefBase OnnxRef ModelC15 RefBase_proofs Bcast_proofs Transpose_proofs Concat_proofs
  Slice_proofs Gather_proofs Reduce_proofs Misc_proofs Reshape_proofs TopK_proofs Pool_proofs Clip_proofs Oracle_proofs.
Open Scope nat_scope.

'''
tail = '''
(* ---- known finding F150 (recorded, not fixed: the unit test test_sign pins it): rten's f32 Sign
   returns 1 for 0.0.  The reference follows the text ("if input == 0, output 0"); the observed
   outcome fails the oracle. ---- *)
From Coq Require Import String.
Open Scope string_scope.
Definition sign_zero_case : case :=
  {| c_op := "Sign"; c_opset := 13%Z; c_nout := 1%Z; c_attrs := [];
     c_inputs := [Some (mkIn DF32 [4; 2]%Z [-6; -8; 0; -5; -8; 5; -1; -3]%Z)];
     c_impl := IOk [OT KFloat [4; 2]%Z [-1; -1; 1; -1; -1; 1; -1; -1]%Z] |}.
Theorem C15_sign_zero_refuted :
  run_ref sign_zero_case = Some [(KFloat, mkT [4; 2] [-1; -1; 0; -1; -1; 1; -1; -1]%Z)] /\\
  prop_ok sign_zero_case = false.
Proof. split; vm_compute; reflexivity. Qed.
Theorem C15_sign_of_zero : Z.sgn 0 = 0%Z /\\ forall v, (v <> 0 -> Z.sgn v = if (0 <? v) then 1 else -1)%Z.
Proof. split; [reflexivity|]. intros v Hv. destruct (Z.ltb_spec 0 v); lia. Qed.

(* ---- non-vacuity: the reference is defined (and computes the expected values) on typical nodes ---- *)
Example C15_nonvacuous_slice_negative_step :
  slice true (mkT [5] [10; 11; 12; 13; 14]%Z) [4]%Z [-9223372036854775808]%Z (Some [0]%Z) (Some [-2]%Z)
  = Some (mkT [3] [14; 12; 10]%Z).
Proof. vm_compute; reflexivity. Qed.
Example C15_nonvacuous_broadcast_mod :
  binop (scalar_bin (BMod false) false) (mkT [2; 1] [-7; 7]%Z) (mkT [3] [3; -3; 5]%Z)
  = Some (mkT [2; 3] [2; -1; 3; 1; -2; 2]%Z).
Proof. vm_compute; reflexivity. Qed.
Example C15_nonvacuous_reduce_argmax :
  reduce RMax false (mkT [2; 3] [1; 5; 5; -2; -7; -2]%Z) [1] = Some (mkT [2] [5; -2]%Z) /\\
  arg_reduce true false false 1%Z (mkT [2; 3] [1; 5; 5; -2; -7; -2]%Z) = Some (mkT [2] [1; 0]%Z).
Proof. split; vm_compute; reflexivity. Qed.
Example C15_nonvacuous_run_ref :
  run_ref {| c_op := "Gather"; c_opset := 13%Z; c_nout := 1%Z; c_attrs := [("axis", AInt (-1)%Z)];
             c_inputs := [Some (mkIn DI32 [2; 3]%Z [1; 2; 3; 4; 5; 6]%Z); Some (mkIn DI64 [2]%Z [-1; 0]%Z)];
             c_impl := IRej |}
  = Some [(KInt, mkT [2; 2] [3; 1; 6; 4]%Z)].
Proof. vm_compute; reflexivity. Qed.
'''
names += ["C15_sign_zero_refuted", "C15_sign_of_zero", "C15_nonvacuous_slice_negative_step",
          "C15_nonvacuous_broadcast_mod", "C15_nonvacuous_reduce_argmax", "C15_nonvacuous_run_ref"]
open(os.path.join(D, "Props_C15.v"), "w").write(hdr + "\n".join(out) + tail)
print("\n".join(names))
