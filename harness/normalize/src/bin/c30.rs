//! C30 correspondence: rten_text::normalizers::{Bert, Replace, Sequence, Unicode} through the
//! public `Normalizer::normalize` API.
//!
//!   c30 gen <seed> <n> <tier>     print input lines `<config>|<code points>`
//!   c30 exec                      read input lines, print `tag \t input \t coq-case`
//!                                 (the case is printed as `Build_case <fields in record order>`:
//!                                 application syntax elaborates ~4x faster than `{| .. |}`)
//!
//! config grammar:  B<l><s>            Bert { lowercase: l, strip_accents: s }   (l, s in 0|1)
//!                  NFC|NFD|NFKC|NFKD  Unicode::*
//!                  R[<cps>][<cps>]    Replace::new(pattern, content), both as decimal code points
//!                  S(<cfg> <cfg> ..)  Sequence::from_vec
//! text: comma separated decimal code points (scalar values).
//!
//! Besides the implementation's outcome the case term carries the char-level ORACLE tables the
//! model needs (lowercase, canonical/compatibility decomposition, Mn category, composition,
//! regex matches), produced here by the very crates/functions rten-text calls, restricted to
//! the chars that can occur for this input (closure of the input's chars under the maps).
use rten_text::normalizers::{Bert, BertOptions, Normalizer, Replace, Sequence, Unicode};
use std::collections::BTreeSet;
use std::io::{BufRead, Write};
use unicode_categories::UnicodeCategories;
use unicode_normalization::char::{compose, decompose_canonical, decompose_compatible};
use vh_normalize::*;

#[derive(Clone, Debug)]
enum Cfg {
    Bert { lower: bool, strip: bool },
    Uni(u8), // 0 Nfc, 1 Nfd, 2 Nfkc, 3 Nfkd
    Replace { pat: String, content: String },
    Seq(Vec<Cfg>),
}

// ---------------------------------------------------------------- parsing / printing
fn cps_to_string(s: &str) -> Option<String> {
    let s = s.trim();
    if s.is_empty() {
        return Some(String::new());
    }
    s.split(',').map(|x| x.trim().parse::<u32>().ok().and_then(char::from_u32)).collect()
}

fn string_to_cps(s: &str) -> String {
    s.chars().map(|c| (c as u32).to_string()).collect::<Vec<_>>().join(",")
}

struct P<'a> {
    s: &'a [u8],
    i: usize,
}
impl<'a> P<'a> {
    fn eat(&mut self, lit: &str) -> bool {
        if self.s[self.i..].starts_with(lit.as_bytes()) {
            self.i += lit.len();
            true
        } else {
            false
        }
    }
    fn bracket(&mut self) -> Option<String> {
        if !self.eat("[") {
            return None;
        }
        let start = self.i;
        while self.i < self.s.len() && self.s[self.i] != b']' {
            self.i += 1;
        }
        let inner = std::str::from_utf8(&self.s[start..self.i]).ok()?;
        if !self.eat("]") {
            return None;
        }
        cps_to_string(inner)
    }
    fn cfg(&mut self) -> Option<Cfg> {
        if self.eat("NFKC") {
            return Some(Cfg::Uni(2));
        }
        if self.eat("NFKD") {
            return Some(Cfg::Uni(3));
        }
        if self.eat("NFC") {
            return Some(Cfg::Uni(0));
        }
        if self.eat("NFD") {
            return Some(Cfg::Uni(1));
        }
        if self.eat("B") {
            let l = *self.s.get(self.i)?;
            let s = *self.s.get(self.i + 1)?;
            self.i += 2;
            return Some(Cfg::Bert { lower: l == b'1', strip: s == b'1' });
        }
        if self.eat("R") {
            let pat = self.bracket()?;
            let content = self.bracket()?;
            return Some(Cfg::Replace { pat, content });
        }
        if self.eat("S(") {
            let mut v = vec![];
            loop {
                while self.eat(" ") {}
                if self.eat(")") {
                    return Some(Cfg::Seq(v));
                }
                v.push(self.cfg()?);
            }
        }
        None
    }
}

fn parse_cfg(s: &str) -> Option<Cfg> {
    let mut p = P { s: s.as_bytes(), i: 0 };
    let c = p.cfg()?;
    if p.i == s.len() { Some(c) } else { None }
}

fn fmt_cfg(c: &Cfg) -> String {
    match c {
        Cfg::Bert { lower, strip } => format!("B{}{}", *lower as u8, *strip as u8),
        Cfg::Uni(k) => ["NFC", "NFD", "NFKC", "NFKD"][*k as usize].to_string(),
        Cfg::Replace { pat, content } => format!("R[{}][{}]", string_to_cps(pat), string_to_cps(content)),
        Cfg::Seq(v) => format!("S({})", v.iter().map(fmt_cfg).collect::<Vec<_>>().join(" ")),
    }
}

fn build(c: &Cfg) -> Option<Box<dyn Normalizer>> {
    Some(match c {
        Cfg::Bert { lower, strip } => Box::new(Bert::new(BertOptions { lowercase: *lower, strip_accents: *strip })),
        Cfg::Uni(0) => Box::new(Unicode::Nfc),
        Cfg::Uni(1) => Box::new(Unicode::Nfd),
        Cfg::Uni(2) => Box::new(Unicode::Nfkc),
        Cfg::Uni(_) => Box::new(Unicode::Nfkd),
        Cfg::Replace { pat, content } => Box::new(Replace::new(pat, content.clone()).ok()?),
        Cfg::Seq(v) => {
            let mut bs = vec![];
            for x in v {
                bs.push(build(x)?);
            }
            Box::new(Sequence::from_vec(bs))
        }
    })
}

fn coq_cps(s: &str) -> String {
    format!("[{}]", s.chars().map(|c| (c as u32).to_string()).collect::<Vec<_>>().join(";"))
}
fn coq_chars(v: &[char]) -> String {
    format!("[{}]", v.iter().map(|c| (*c as u32).to_string()).collect::<Vec<_>>().join(";"))
}
fn coq_nats(v: &[usize]) -> String {
    format!("[{}]%nat", v.iter().map(|x| x.to_string()).collect::<Vec<_>>().join(";"))
}

fn pat_id(pats: &mut Vec<String>, p: &str) -> usize {
    if let Some(i) = pats.iter().position(|x| x == p) {
        i
    } else {
        pats.push(p.to_string());
        pats.len() - 1
    }
}

fn coq_cfg(c: &Cfg, pats: &mut Vec<String>) -> String {
    match c {
        Cfg::Bert { lower, strip } => format!("NBert {} {}", lower, strip),
        Cfg::Uni(k) => format!("NUnicode {}", ["Nfc", "Nfd", "Nfkc", "Nfkd"][*k as usize]),
        Cfg::Replace { pat, content } => format!("NReplace {} {}", pat_id(pats, pat), coq_cps(content)),
        Cfg::Seq(v) => format!("NSeq [{}]", v.iter().map(|x| coq_cfg(x, pats)).collect::<Vec<_>>().join("; ")),
    }
}

// ---------------------------------------------------------------- oracle tables
#[derive(Default)]
struct Tabs {
    chars: BTreeSet<char>,
    regex: Vec<(usize, String, Option<Vec<(usize, usize)>>)>,
    need_lower: bool,
    need_canon: bool,
    need_compat: bool,
    need_compose: bool,
    need_mn: bool,
}

fn regex_matches(pat: &str, text: &str) -> Option<Vec<(usize, usize)>> {
    let re = fancy_regex::Regex::new(pat).ok()?;
    let mut v = vec![];
    for m in re.find_iter(text) {
        let m = m.ok()?;
        v.push((m.range().start, m.range().end));
    }
    Some(v)
}

/// Walk the configuration the way Sequence does, feeding every stage the text its
/// predecessor produced (each stage run through the real implementation), and record the
/// texts seen by each stage and the regex matches on them. Returns the stage's output text.
fn collect(c: &Cfg, text: &str, pats: &mut Vec<String>, tabs: &mut Tabs) -> Option<String> {
    tabs.chars.extend(text.chars());
    let out = match c {
        Cfg::Seq(v) => {
            let mut cur = text.to_string();
            for x in v {
                cur = collect(x, &cur, pats, tabs)?;
            }
            cur
        }
        _ => {
            match c {
                Cfg::Replace { pat, .. } => {
                    let id = pat_id(pats, pat);
                    if !tabs.regex.iter().any(|(i, t, _)| *i == id && t == text) {
                        tabs.regex.push((id, text.to_string(), regex_matches(pat, text)));
                    }
                }
                Cfg::Bert { lower, strip } => {
                    tabs.need_lower |= *lower;
                    tabs.need_canon |= *strip;
                    tabs.need_mn |= *strip;
                }
                Cfg::Uni(k) => {
                    tabs.need_compose |= *k == 0 || *k == 2;
                    tabs.need_canon |= *k == 1;
                    tabs.need_compat |= *k >= 2;
                }
                Cfg::Seq(_) => {}
            }
            let n = build(c)?;
            match no_panic(|| n.normalize(text)) {
                Some(Ok((s, _))) => s,
                _ => return None,
            }
        }
    };
    tabs.chars.extend(out.chars());
    Some(out)
}

fn lower_of(c: char) -> Vec<char> {
    c.to_lowercase().collect()
}
fn canon_of(c: char) -> Vec<char> {
    let mut v = vec![];
    decompose_canonical(c, |d| v.push(d));
    v
}
fn compat_of(c: char) -> Vec<char> {
    let mut v = vec![];
    decompose_compatible(c, |d| v.push(d));
    v
}

/// Close the char set under the maps in use (so every char the model can ever look up is
/// covered) and print the non-trivial table entries.
fn tables(tabs: &mut Tabs) -> String {
    loop {
        let before = tabs.chars.len();
        let cur: Vec<char> = tabs.chars.iter().copied().collect();
        for &c in &cur {
            if tabs.need_lower {
                tabs.chars.extend(lower_of(c));
            }
            if tabs.need_canon {
                tabs.chars.extend(canon_of(c));
            }
            if tabs.need_compat {
                tabs.chars.extend(compat_of(c));
            }
        }
        if tabs.need_compose {
            for &a in &cur {
                for &b in &cur {
                    if let Some(r) = compose(a, b) {
                        tabs.chars.insert(r);
                    }
                }
            }
        }
        if tabs.chars.len() == before {
            break;
        }
    }
    let cur: Vec<char> = tabs.chars.iter().copied().collect();
    let tab = |f: &dyn Fn(char) -> Vec<char>, on: bool| -> String {
        let mut es = vec![];
        if on {
            for &c in &cur {
                let v = f(c);
                if v != [c] {
                    es.push(format!("({},{})", c as u32, coq_chars(&v)));
                }
            }
        }
        format!("[{}]", es.join(";"))
    };
    let lower = tab(&lower_of, tabs.need_lower);
    let canon = tab(&canon_of, tabs.need_canon);
    let compat = tab(&compat_of, tabs.need_compat);
    let mn: Vec<char> = if tabs.need_mn { cur.iter().copied().filter(|c| c.is_mark_nonspacing()).collect() } else { vec![] };
    let mut comp = vec![];
    if tabs.need_compose {
        for &a in &cur {
            for &b in &cur {
                if let Some(r) = compose(a, b) {
                    comp.push(format!("({},{},{})", a as u32, b as u32, r as u32));
                }
            }
        }
    }
    let regex: Vec<String> = tabs
        .regex
        .iter()
        .map(|(id, t, ms)| {
            let m = match ms {
                None => "None".to_string(),
                Some(v) => format!(
                    "Some [{}]%nat",
                    v.iter().map(|(s, e)| format!("({},{})", s, e)).collect::<Vec<_>>().join(";")
                ),
            };
            format!("({},{},{})", id, coq_cps(t), m)
        })
        .collect();
    format!(
        "({}) ({}) ({}) ({}) ([{}]) ([{}])",
        lower,
        canon,
        compat,
        coq_chars(&mn),
        comp.join(";"),
        regex.join(";")
    )
}

// ---------------------------------------------------------------- exec
fn kind_tag(c: &Cfg) -> String {
    match c {
        Cfg::Bert { lower: false, strip: false } => "bertnoop".into(),
        Cfg::Bert { .. } => "bert".into(),
        Cfg::Uni(_) => "unicode".into(),
        Cfg::Replace { .. } => "replace".into(),
        Cfg::Seq(v) => {
            let nested = v.iter().any(|x| matches!(x, Cfg::Seq(_)));
            format!("seq{}{}", v.len(), if nested { "n" } else { "" })
        }
    }
}
fn has_replace(c: &Cfg) -> bool {
    match c {
        Cfg::Replace { .. } => true,
        Cfg::Seq(v) => v.iter().any(has_replace),
        _ => false,
    }
}

fn exec_line(line: &str) -> String {
    let parsed = line.split_once('|').and_then(|(a, b)| Some((parse_cfg(a.trim())?, cps_to_string(b)?)));
    let Some((cfg, text)) = parsed else {
        // unreadable line: a trivially agreeing placeholder
        return format!(
            "trivial-unparsed\t{}\tBuild_case [] (NSeq []) [] [] [] [] [] [] (IOk [] []%nat 0%nat true)",
            line
        );
    };
    let mut pats = vec![];
    let norm_term = coq_cfg(&cfg, &mut pats);
    let Some(normalizer) = build(&cfg) else {
        // pattern rejected by Replace::new: no normalizer exists, nothing to check
        return format!(
            "trivial-badpattern\t{}\tBuild_case [] (NSeq []) [] [] [] [] [] [] (IOk [] []%nat 0%nat true)",
            line
        );
    };
    let outcome = no_panic(|| normalizer.normalize(&text));
    let mut tabs = Tabs::default();
    let _ = collect(&cfg, &text, &mut pats, &mut tabs);
    let tabs_term = tables(&mut tabs);
    let (impl_term, otag) = match &outcome {
        Some(Ok((s, offs))) => {
            let valid = std::str::from_utf8(s.as_bytes()).is_ok();
            (format!("IOk {} {} {}%nat {}", coq_cps(s), coq_nats(offs), s.len(), valid), "")
        }
        Some(Err(_)) => ("IErr".to_string(), "-err"),
        None => ("IPanic".to_string(), "-panic"),
    };
    let mb = text.chars().any(|c| c.len_utf8() > 1);
    let tag = if text.is_empty() && !has_replace(&cfg) {
        "trivial-empty".to_string()
    } else {
        format!("{}-{}{}", kind_tag(&cfg), if mb { "mb" } else { "ascii" }, otag)
    };
    format!(
        "{}\t{}\tBuild_case ({}) ({}) {} ({})",
        tag,
        line,
        coq_cps(&text),
        norm_term,
        tabs_term,
        impl_term
    )
}

// ---------------------------------------------------------------- gen
/// chars chosen for their UTF-8 length / case / decomposition / composition behaviour
const ALPHABET: &[char] = &[
    'a', 'b', 'x', 'A', 'E', 'I', 'e', ' ', ' ', '\t', '\n', '\0', '\u{7f}', '!', '1',
    '\u{e9}',   // é  2 bytes, canon -> e + U+301
    '\u{c9}',   // É
    '\u{f6}',   // ö
    '\u{130}',  // İ  lowercases to 2 chars (1 + 2 bytes)
    '\u{df}',   // ß
    '\u{1e9e}', // ẞ  3 bytes, lowercases to ß (2 bytes)
    '\u{301}', '\u{307}', '\u{308}', // combining marks (Mn)
    '\u{344}',  // decomposes to two marks
    '\u{3a3}',  // Σ
    '\u{1c5}',  // ǅ titlecase digraph
    '\u{2460}', // ① compat -> 1
    '\u{fb01}', // ﬁ compat -> fi
    '\u{212b}', // Å ANGSTROM, canon -> A + U+30A
    '\u{4e16}', '\u{754c}', // 世界
    '\u{3000}', // ideographic space
    '\u{ac00}', // 가 Hangul syllable, decomposes algorithmically
    '\u{1100}', '\u{1161}', '\u{11a8}', // Hangul jamo, compose algorithmically
    '\u{fdfa}', // compat -> 18 chars
    '\u{7ff}', '\u{800}', '\u{ffff}', '\u{10000}', '\u{d7ff}', '\u{e000}', '\u{10ffff}', // length edges
    '\u{1f600}', // 😀 4 bytes
    '\u{1d400}', // 𝐀 4 bytes, compat -> A
    '\u{10400}', // 𐐀 4 bytes, lowercases to 4 bytes
    '\u{85}', '\u{ad}', '\u{200b}', '\u{200d}', '\u{feff}', // C1 control, soft hyphen, zero width
];

const PATTERNS: &[&str] = &[
    "x", "a", " ", "  ", r"\s+", "", "x*", "$", "^", ".", r"\p{L}+", "[^a]", r"\b", "\u{e9}", "\u{4e16}",
    "e\u{301}", "\u{301}", r"\p{Mn}", "(?<=a)x", r"(?i)E", "\u{1f600}+", r"(a)\1", "a|\u{e9}|\u{4e16}\u{754c}",
    r"\z", r"(?m)$", "\u{307}?",
];
const CONTENTS: &[&str] = &["", "y", " ", "--", "\u{e9}", "\u{4e16}", "\u{1f600}", "e\u{301}", "x", "a"];

/// fixed configurations crossed with the exhaustive small-scope texts
const FIXED: &[&str] = &[
    "B00", "B10", "B01", "B11", "NFC", "NFD", "NFKC", "NFKD",
    "R[120][121]", "R[233][101]", "R[120,42][45]", "R[][46]", "R[36][33]", "R[94][62]", "R[92,115,43][32]",
    "R[46][233]", "R[19990][115,104,105]", "R[120][]", "R[769][]", "R[97][128512]",
    "S()", "S(B00)", "S(R[120][121])", "S(NFD B11)", "S(NFC B10 R[92,115,43][32])", "S(R[36][33] R[33][63])",
    "S(R[120][233,233] NFD)", "S(S(B00) NFKC)", "S(R[120][121] R[121][19990] B10)", "S(NFD R[769][] NFC)",
    "S(B00 B00 B00)", "S(NFKD B01)", "S(R[][46] B00)", "S(R[36][] S(R[94][62] B10))", "S(S() S())",
    "S(R[36][128512] R[][45])",
];

/// combining marks of DIFFERENT canonical combining classes (class in the comment); texts put
/// 2-4 of them on one base in every order, so a normalizer that reorders marks (and moves the
/// source offsets with them) shows up in the monotonicity clause
const MARKS: &[char] = &[
    '\u{93c}',  // 7   devanagari nukta
    '\u{5b0}',  // 10  hebrew point sheva
    '\u{5b4}',  // 14  hebrew point hiriq
    '\u{327}',  // 202 cedilla
    '\u{31b}',  // 216 horn
    '\u{323}',  // 220 dot below
    '\u{300}',  // 230 grave
    '\u{301}',  // 230 acute
    '\u{308}',  // 230 diaeresis
    '\u{345}',  // 240 ypogegrammeni
];
/// bases for mark clusters: plain, precomposed (decompose to base + marks), Hangul
const BASES: &[char] = &['a', 'e', 'I', '\u{e9}', '\u{1ead}', '\u{1fb}', '\u{3b1}', '\u{5d1}', '\u{915}', '\u{ac00}', '\u{1100}'];

fn rand_text(rng: &mut SplitMix64) -> Vec<char> {
    let len = match rng.below(10) {
        0 => 0,
        1 => 1,
        _ => 1 + rng.below(10) as usize,
    };
    let ascii_only = rng.chance(1, 8);
    let mut v = vec![];
    while v.len() < len {
        match rng.below(13) {
            0 => {
                // base letter followed by combining marks (composable)
                v.push(rng.pick(&['e', 'E', 'a', 'o', 'I', 'i']));
                if !ascii_only {
                    v.push(rng.pick(&['\u{301}', '\u{307}', '\u{308}']));
                }
            }
            12 => {
                // (optional) base + 2..4 marks of different combining classes, any order;
                // without a base the marks sit at the start of the text / after anything
                if rng.chance(4, 5) {
                    let b = rng.pick(BASES);
                    if !ascii_only || b.is_ascii() {
                        v.push(b);
                    }
                }
                if !ascii_only {
                    for _ in 0..2 + rng.below(3) {
                        v.push(rng.pick(MARKS));
                    }
                }
            }
            1 => {
                v.push(' ');
                v.push(' ');
            }
            2 => {
                v.push('x');
            }
            _ => {
                let c = rng.pick(ALPHABET);
                if !ascii_only || c.is_ascii() {
                    v.push(c);
                }
            }
        }
    }
    v
}

fn rand_leaf(rng: &mut SplitMix64) -> Cfg {
    match rng.below(10) {
        0 => Cfg::Bert { lower: false, strip: false },
        1 => Cfg::Bert { lower: true, strip: false },
        2 => Cfg::Bert { lower: false, strip: true },
        3 => Cfg::Bert { lower: true, strip: true },
        4 | 5 => Cfg::Uni(rng.below(4) as u8),
        _ => Cfg::Replace { pat: rng.pick(PATTERNS).to_string(), content: rng.pick(CONTENTS).to_string() },
    }
}

fn rand_cfg(rng: &mut SplitMix64, depth: u32) -> Cfg {
    if depth < 2 && rng.chance(if depth == 0 { 5 } else { 1 }, 8) {
        let n = rng.below(4) as usize;
        Cfg::Seq((0..n).map(|_| rand_cfg(rng, depth + 1)).collect())
    } else {
        rand_leaf(rng)
    }
}

fn generate(seed: u64, n: usize, tier: &str, out: &mut impl Write) {
    // 1. small-scope exhaustive: every text up to a length bound over a small alphabet,
    //    crossed with the fixed configurations
    let small: &[char] = if tier == "thorough" {
        &['a', 'x', 'E', ' ', '\u{e9}', '\u{301}', '\u{4e16}', '\u{1f600}', '\u{130}']
    } else {
        &['a', 'x', ' ', '\u{e9}', '\u{301}', '\u{4e16}', '\u{1f600}']
    };
    let max_len = if tier == "thorough" { 3 } else { 2 };
    let mut texts: Vec<Vec<char>> = vec![vec![]];
    let mut frontier: Vec<Vec<char>> = vec![vec![]];
    for _ in 0..max_len {
        let mut next = vec![];
        for t in &frontier {
            for &c in small {
                let mut t2 = t.clone();
                t2.push(c);
                next.push(t2);
            }
        }
        texts.extend(next.iter().cloned());
        frontier = next;
    }
    for cfg in FIXED {
        for t in &texts {
            let s: String = t.iter().collect();
            writeln!(out, "{}|{}", cfg, string_to_cps(&s)).unwrap();
        }
    }
    // 1c. mark clusters: {no base (start of text), plain base, precomposed base} followed by every
    //     ordered pair (thorough: also every ordered triple over six of them; two 4-mark runs in
    //     descending class order) of marks with different combining classes; Hangul jamo sequences; for all four
    //     Unicode forms and inside Sequences with Bert / Replace
    let cluster_cfgs = [
        "NFC", "NFD", "NFKC", "NFKD", "S(NFD B10)", "S(R[120][121] NFC)", "S(B01 NFKD R[97][98])", "S(S(NFKC) B00)",
    ];
    let marks: &[char] = if tier == "thorough" { MARKS } else { &['\u{93c}', '\u{5b0}', '\u{31b}', '\u{323}', '\u{301}', '\u{345}'] };
    let bases: &[&str] = if tier == "thorough" {
        &["", "a", "\u{e9}", "\u{1ead}", "x\u{5d1}", "\u{ac00}"]
    } else {
        &["", "a", "\u{e9}"]
    };
    let mut clusters: Vec<String> = vec![];
    for &m1 in marks {
        for &m2 in marks {
            if m1 == m2 {
                continue;
            }
            clusters.push([m1, m2].iter().collect());
            let small3 = |m: char| ['\u{93c}', '\u{5b0}', '\u{31b}', '\u{323}', '\u{301}', '\u{345}'].contains(&m);
            if tier == "thorough" && small3(m1) && small3(m2) {
                for &m3 in marks {
                    if m3 != m1 && m3 != m2 && small3(m3) {
                        clusters.push([m1, m2, m3].iter().collect());
                    }
                }
            }
        }
    }
    clusters.push("\u{345}\u{301}\u{323}\u{31b}".to_string());
    clusters.push("\u{301}\u{323}\u{5b0}\u{93c}".to_string());
    let mut cluster_texts: Vec<String> = vec![];
    for b in bases {
        for c in &clusters {
            cluster_texts.push(format!("{}{}", b, c));
        }
    }
    for t in [
        "\u{1100}\u{1161}\u{11a8}", "\u{1100}\u{1161}\u{1161}", "\u{ac00}\u{11a8}", "\u{1100}\u{1161}\u{301}\u{323}",
        "\u{ac01}\u{323}\u{301}", "\u{1100}\u{1100}\u{1161}\u{11a8}\u{11a8}", "a\u{301}\u{323}b\u{323}\u{301}",
    ] {
        cluster_texts.push(t.to_string());
    }
    for cfg in cluster_cfgs {
        for t in &cluster_texts {
            writeln!(out, "{}|{}", cfg, string_to_cps(t)).unwrap();
        }
    }
    // 1b. regex run-time errors (fancy-regex backtrack limit): NormalizeError::RegexError, alone
    //     and propagated through a Sequence
    let err_pat = string_to_cps(r"(a+)+\1$");
    for k in [26usize, 28, 30] {
        let t: String = "a".repeat(k) + "!";
        for cfg in [
            format!("R[{}][121]", err_pat),
            format!("S(B10 R[{}][121])", err_pat),
            format!("S(R[{}][121] NFD)", err_pat),
            format!("S(R[33][33] S(R[{}][121]))", err_pat),
        ] {
            writeln!(out, "{}|{}", cfg, string_to_cps(&t)).unwrap();
        }
    }
    // 2. seeded random texts x random configurations (nested sequences of up to 3 stages)
    let mut rng = SplitMix64(seed);
    for _ in 0..n {
        let t: String = rand_text(&mut rng).into_iter().collect();
        let cfg = rand_cfg(&mut rng, 0);
        writeln!(out, "{}|{}", fmt_cfg(&cfg), string_to_cps(&t)).unwrap();
    }
}

fn main() {
    quiet_panics();
    let args: Vec<String> = std::env::args().collect();
    let stdout = std::io::stdout();
    let mut out = std::io::BufWriter::new(stdout.lock());
    match args.get(1).map(|s| s.as_str()) {
        Some("gen") => {
            let seed: u64 = args[2].parse().unwrap();
            let n: usize = args[3].parse().unwrap();
            generate(seed, n, &args[4], &mut out);
        }
        Some("exec") => {
            for line in std::io::stdin().lock().lines() {
                let line = line.unwrap();
                if line.trim().is_empty() {
                    continue;
                }
                writeln!(out, "{}", exec_line(&line)).unwrap();
            }
        }
        _ => {
            eprintln!("usage: c30 gen <seed> <n> <tier> | c30 exec");
            std::process::exit(2);
        }
    }
}
