import importlib.util, os, sys
ROOT = os.path.dirname(os.path.dirname(os.path.abspath(__file__)))
sys.path.insert(0, os.path.join(ROOT, "lib"))
import vf
if len(sys.argv) < 2:
    print("usage: ./check Cnn [--tier quick|thorough] [--replay path]"); sys.exit(2)
prop = sys.argv[1]
fn = os.path.join(ROOT, "checks", prop + ".py")
if not os.path.exists(fn):
    print("no check for", prop); sys.exit(2)
spec = importlib.util.spec_from_file_location("check_" + prop, fn)
mod = importlib.util.module_from_spec(spec)
spec.loader.exec_module(mod)
vf.run_check(prop, mod.main)
