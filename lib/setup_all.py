"""./setup: build, offline, everything the registered checks need (Coq groups as full .vo builds,
harness crates against /repo's working tree).  Groups/crates of properties that are not (yet)
registered in MANIFEST.json are built best-effort and never fail the setup."""
import importlib.util, json, os, sys
ROOT = os.path.dirname(os.path.dirname(os.path.abspath(__file__)))
sys.path.insert(0, os.path.join(ROOT, "lib"))
import vf
ctx = vf.Ctx("SETUP", "quick", 0)
rc = 0
manifest = json.load(open(os.path.join(ROOT, "MANIFEST.json")))
claimed = [c["property_id"] for c in manifest["checks"]]
need_groups, need_harness = [], []
mods = {}
for fn in sorted(os.listdir(os.path.join(ROOT, "checks"))):
    if not fn.endswith(".py"):
        continue
    pid = fn[:-3]
    try:
        spec = importlib.util.spec_from_file_location("check_" + pid, os.path.join(ROOT, "checks", fn))
        mod = importlib.util.module_from_spec(spec)
        spec.loader.exec_module(mod)
    except Exception as ex:
        print("setup: cannot import checks/%s: %s" % (fn, ex))
        if pid in claimed:
            rc = 1
        continue
    mods[pid] = mod
    groups = list(getattr(mod, "GROUPS", [])) or ([mod.GROUP] if hasattr(mod, "GROUP") else [])
    hgroups = list(getattr(mod, "HARNESS_GROUPS", groups))
    if pid in claimed:
        for g in groups:
            for d in vf.group_deps(g) + [g]:
                if d not in need_groups:
                    need_groups.append(d)
        for g in hgroups:
            if g not in need_harness:
                need_harness.append(g)
    if hasattr(mod, "PINS"):
        try:
            probs = ctx.pins(mod.GROUP, mod.PINS)
            if probs:
                print("setup: pins for", fn, probs)
        except Exception as ex:
            print("setup: pins for %s failed: %s" % (fn, ex))
    if hasattr(mod, "setup_hook"):
        try:
            mod.setup_hook(ctx)
        except Exception as ex:
            print("setup: setup_hook of %s failed: %s" % (fn, ex))
            if pid in claimed:
                rc = 1
all_groups = sorted(g for g in os.listdir(vf.COQ) if os.path.isdir(os.path.join(vf.COQ, g)))
for g in ["common"] + need_groups + [g for g in all_groups if g not in need_groups and g != "common"]:
    required = g == "common" or g in need_groups
    if not any(f.endswith(".v") for f in os.listdir(os.path.join(vf.COQ, g))):
        continue
    ok, out = ctx.make(g, None, timeout=3600)
    print("setup: coq group %-12s %s%s" % (g, "ok" if ok else "FAILED", "" if required else " (not registered yet)"))
    if not ok:
        print(out[-1500:])
        if required:
            rc = 1
hdir = os.path.join(ROOT, "harness")
for g in need_harness + [g for g in sorted(os.listdir(hdir)) if g not in need_harness]:
    if not os.path.exists(os.path.join(hdir, g, "Cargo.toml")):
        continue
    required = g in need_harness
    if not required and os.environ.get("VERIF_SETUP_ALL") != "1":
        continue      # unregistered harnesses are built on demand by their checks
    cfg = {}
    p = os.path.join(hdir, g, "verif.json")
    if os.path.exists(p):
        cfg = json.load(open(p))
    import re as _re
    bdir = os.path.join(hdir, g, "src", "bin")
    bins = cfg.get("bins") or (sorted(f[:-3] for f in os.listdir(bdir) if _re.match(r"c\d\d\w*\.rs$", f)) if os.path.isdir(bdir) else None)
    for prof in cfg.get("profiles", ["release"]):
        try:
            ctx.harness(g, profile=prof, features=cfg.get("features", ""), hooks=cfg.get("hooks", True), bins=bins)
            print("setup: harness %-12s %-8s ok" % (g, prof))
        except vf.CheckerBroken as ex:
            # not fatal: every check builds the binaries it needs itself (and reports a broken build as
            # CHECKER-BROKEN); the setup only warms the caches
            print("setup: harness %s %s FAILED (non-fatal; the check will rebuild what it needs)\n%s" % (g, prof, str(ex)[-1500:]))
sys.exit(rc)
