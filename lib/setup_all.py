import json, os, sys
ROOT = os.path.dirname(os.path.dirname(os.path.abspath(__file__)))
sys.path.insert(0, os.path.join(ROOT, "lib"))
import vf
ctx = vf.Ctx("SETUP", "quick", 0)
rc = 0
groups = sorted(g for g in os.listdir(vf.COQ) if os.path.isdir(os.path.join(vf.COQ, g)))
# pins first (Pins.v files are generated, never committed)
for fn in sorted(os.listdir(os.path.join(ROOT, "checks"))):
    if fn.endswith(".py"):
        import importlib.util
        spec = importlib.util.spec_from_file_location("check_" + fn[:-3], os.path.join(ROOT, "checks", fn))
        mod = importlib.util.module_from_spec(spec)
        spec.loader.exec_module(mod)
        if hasattr(mod, "PINS"):
            probs = ctx.pins(mod.GROUP, mod.PINS)
            if probs:
                print("setup: pins for", fn, probs)
for g in groups:
    ok, out = ctx.make(g, None, timeout=3600)
    print("setup: coq group %-12s %s" % (g, "ok" if ok else "FAILED"))
    if not ok:
        print(out[-2000:]); rc = 1
hdir = os.path.join(ROOT, "harness")
for g in sorted(os.listdir(hdir)):
    if not os.path.exists(os.path.join(hdir, g, "Cargo.toml")):
        continue
    cfg = {}
    p = os.path.join(hdir, g, "verif.json")
    if os.path.exists(p):
        cfg = json.load(open(p))
    for prof in cfg.get("profiles", ["release"]):
        try:
            ctx.harness(g, profile=prof, features=cfg.get("features", ""), hooks=cfg.get("hooks", True))
            print("setup: harness %-12s %-8s ok" % (g, prof))
        except vf.CheckerBroken as ex:
            print("setup: harness %s %s FAILED\n%s" % (g, prof, ex)); rc = 1
sys.exit(rc)
