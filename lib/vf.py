"""Shared machinery for the rten property checks (see DESIGN.md section 0.3).

A property check (checks/Cnn.py) defines `main(ctx)` and uses the Ctx methods:

  ctx.audit(group)                      forbid Admitted/Axiom/... in the Coq sources
  ctx.pins(group, [Pin(...)])           regenerate coq/<group>/Pins.v from /repo
  ctx.prove(group, module, theorems)    `make` the Props module, read Print Assumptions
  ctx.harness(group, ...)               build harness crate against /repo's working tree
  ctx.correspond(...)                   run impl + model on the same cases, compare in Coq
  ctx.violation(...) / ctx.known(...)   report
  ctx.finish()                          evidence + exit code

Exit codes: 0 property held on everything explored; 1 VIOLATION; 2 the checker itself is
broken (never reported as a violation of rten).
"""
import concurrent.futures as cf
import hashlib
import json
import os
import re
import shutil
import subprocess
import sys
import time

ROOT = os.path.dirname(os.path.dirname(os.path.abspath(__file__)))
REPO = os.environ.get("VERIF_REPO", "/repo")
CACHE = os.path.join(ROOT, ".cache")
COQ = os.path.join(ROOT, "coq")
NCPU = os.cpu_count() or 4
HOOK_CFG = "rten_verif"

FORBIDDEN = re.compile(
    r"\b(Admitted|admit|Axiom|Axioms|Parameter|Parameters|Conjecture|Conjectures|"
    r"Admit\s+Obligations|bypass_check|Hypothesis|Hypotheses|Variable|Variables)\b|"
    r"Unset\s+Guard|Unset\s+Positivity|Unset\s+Universe|type-in-type|impredicative-set"
)

# Axioms that the standard library (or an installed library) declares and that the
# development may depend on (DESIGN.md section 3).  Anything else fails the check.
ALLOWED_AXIOMS = {
    "Coq.Logic.FunctionalExtensionality.functional_extensionality_dep",
    "FunctionalExtensionality.functional_extensionality_dep",
    "functional_extensionality_dep",
    "Classical_Prop.classic",
    "classic",
    "ClassicalDedekindReals.sig_forall_dec",
    "sig_forall_dec",
    "ClassicalDedekindReals.sig_not_dec",
    "sig_not_dec",
    "Eqdep.Eq_rect_eq.eq_rect_eq",
    "Eq_rect_eq.eq_rect_eq",
    "eq_rect_eq",
    "JMeq.JMeq_eq",
    "JMeq_eq",
    "ProofIrrelevance.proof_irrelevance",
    "proof_irrelevance",
}


class CheckerBroken(Exception):
    pass


def sh(cmd, cwd=None, timeout=None, env=None, input=None):
    """Run a command, return (rc, stdout+stderr). rc=124 on timeout."""
    e = dict(os.environ)
    if env:
        e.update(env)
    try:
        p = subprocess.run(cmd, cwd=cwd, timeout=timeout, env=e, input=input,
                           stdout=subprocess.PIPE, stderr=subprocess.STDOUT,
                           shell=isinstance(cmd, str), text=True, errors="replace")
        return p.returncode, p.stdout
    except subprocess.TimeoutExpired as ex:
        out = ex.stdout or ""
        if isinstance(out, bytes):
            out = out.decode(errors="replace")
        return 124, out + "\n[timeout]"


class Pin:
    """One constant copied from the Rust (or Python) source into Pins.v.

    file: path relative to REPO; regex: must match exactly once, group(1) is the value
    text; coq_name/coq_type: the Definition emitted; conv: python function turning the
    captured text into a Coq term (default: strip `_` and type suffixes)."""

    def __init__(self, coq_name, file, regex, coq_type="N", conv=None, scope=None):
        self.coq_name, self.file, self.regex = coq_name, file, regex
        self.coq_type, self.conv, self.scope = coq_type, conv, scope


def _default_conv(txt):
    t = txt.strip().replace("_", "")
    t = re.sub(r"(usize|u64|u32|u16|u8|i64|i32|i16|i8|isize)$", "", t)
    return t


class Ctx:
    def __init__(self, prop, tier, seed, replay=None):
        self.prop, self.tier, self.seed, self.replay_path = prop, tier, seed, replay
        self.t0 = time.time()
        self.obligations = []      # (name, ok, detail)
        self.axioms_used = set()
        self.violations = []       # (replay_path, no_input, summary)
        self.known_hits = []
        self.evals = 0
        self.distinct = set()
        self.hist = {}
        self.samples = []
        self.pins_rec = []
        self.notes = []
        self.trusted = []
        self.assumptions = []
        self.rule = ""
        self.checker_cmds = []
        self.corr = []             # per-correspondence summary
        self.level = "proof"
        self.extra = {}
        self.exhaustive = False
        os.makedirs(os.path.join(ROOT, "replays"), exist_ok=True)
        os.makedirs(os.path.join(ROOT, "evidence"), exist_ok=True)
        os.makedirs(CACHE, exist_ok=True)
        with open(os.path.join(ROOT, "known_findings.json")) as f:
            self.findings = json.load(f)["findings"]

    # ------------------------------------------------------------------ util
    def log(self, *a):
        print("[%s %6.1fs]" % (self.prop, time.time() - self.t0), *a, flush=True)

    def quick(self):
        return self.tier == "quick"

    def n(self, quick, thorough):
        return quick if self.tier == "quick" else thorough

    # ----------------------------------------------------------------- audit
    def audit(self, *groups):
        """No Admitted/admit/Axiom/Parameter/... anywhere in the Coq sources used."""
        bad = []
        for g in ("common",) + tuple(groups):
            d = os.path.join(COQ, g)
            for fn in sorted(os.listdir(d)):
                if not fn.endswith(".v") or fn.startswith(("cases_", "Assum_")):
                    continue
                txt = open(os.path.join(d, fn)).read()
                code = strip_coq_comments(txt)
                in_section = 0
                for ln, line in enumerate(code.split("\n"), 1):
                    if re.match(r"\s*Section\b", line):
                        in_section += 1
                    if re.match(r"\s*End\b", line) and in_section:
                        # may close a Module too; Modules are not used with Variables here
                        in_section -= 1
                    for m in FORBIDDEN.finditer(line):
                        w = m.group(0)
                        if re.match(r"(Hypothesis|Hypotheses|Variable|Variables)$", w):
                            if in_section > 0:
                                continue  # section variables are discharged, not axioms
                        bad.append("%s/%s:%d: %s" % (g, fn, ln, w))
        if bad:
            raise CheckerBroken("forbidden constructs in Coq development: " + "; ".join(bad[:10]))
        self.notes.append("audit: no Admitted/admit/Axiom/Parameter/Conjecture/guard switches in coq/{%s}" % ",".join(("common",) + tuple(groups)))

    # ------------------------------------------------------------------ pins
    def pins(self, group, pins):
        """Regenerate coq/<group>/Pins.v from REPO. Returns list of problems (unmatched pins)."""
        lines = ["(* GENERATED on every run by lib/vf.py from %s -- do not edit *)" % REPO,
                 "From Coq Require Import ZArith NArith List String.",
                 "Import ListNotations.", "Open Scope N_scope.", ""]
        problems = []
        for p in pins:
            path = os.path.join(REPO, p.file)
            try:
                src = open(path).read()
            except OSError:
                problems.append("pin %s: file %s missing" % (p.coq_name, p.file))
                continue
            ms = list(re.finditer(p.regex, src, re.S | re.M))
            if len(ms) != 1:
                problems.append("pin %s: anchor /%s/ matched %d times in %s" % (p.coq_name, p.regex, len(ms), p.file))
                continue
            raw = ms[0].group(1)
            try:
                val = (p.conv or _default_conv)(raw)
            except Exception as ex:  # translator could not read the value
                problems.append("pin %s: cannot translate %r (%s)" % (p.coq_name, raw[:80], ex))
                continue
            sc = ("%%%s" % p.scope) if p.scope else ""
            lines.append("Definition %s : %s := (%s)%s." % (p.coq_name, p.coq_type, val, sc))
            self.pins_rec.append({"name": p.coq_name, "file": p.file, "text": raw.strip()[:200]})
        text = "\n".join(lines) + "\n"
        fn = os.path.join(COQ, group, "Pins.v")
        old = open(fn).read() if os.path.exists(fn) else None
        if old != text:
            with open(fn, "w") as f:
                f.write(text)
        return problems

    # ----------------------------------------------------------------- prove
    def _ensure_makefile(self, group):
        d = os.path.join(COQ, group)
        vs = sorted(f for f in os.listdir(d) if f.endswith(".v") and not f.startswith(("cases_", "Assum_")))
        logical = group_logical(group)
        proj = ["-Q ../common RV"] if group != "common" else []
        proj.append("-Q . %s" % logical)
        for extra in group_deps(group):
            proj.insert(1, "-Q ../%s %s" % (extra, group_logical(extra)))
        proj += ["-arg -w -arg -notation-overridden,-deprecated-hint-without-locality,-deprecated-instance-without-locality"]
        proj += vs
        text = "\n".join(proj) + "\n"
        pf = os.path.join(d, "_CoqProject")
        if not os.path.exists(pf) or open(pf).read() != text or not os.path.exists(os.path.join(d, "Makefile")):
            with open(pf, "w") as f:
                f.write(text)
            rc, out = sh(["coq_makefile", "-f", "_CoqProject", "-o", "Makefile"], cwd=d, timeout=120)
            if rc != 0:
                raise CheckerBroken("coq_makefile failed in %s: %s" % (group, out[-500:]))

    def make(self, group, targets=None, timeout=1800, clean=False, keep_going=False):
        """Full (.vo) build of a group. Returns (ok, log)."""
        for dep in (["common"] if group != "common" else []) + list(group_deps(group)):
            # keep going: a file of a dependency group that this group does not import must not
            # fail this build (if a needed .vo is missing the build below fails anyway)
            self.make(dep, None, timeout, keep_going=True)
        self._ensure_makefile(group)
        d = os.path.join(COQ, group)
        lock = open(os.path.join(CACHE, "make-%s.lock" % group), "w")
        import fcntl
        fcntl.flock(lock, fcntl.LOCK_EX)
        try:
            if clean:
                sh(["make", "clean"], cwd=d, timeout=120)
            cmd = ["make", "-j%d" % NCPU] + (["-k"] if keep_going else []) + (targets or [])
            rc, out = sh(cmd, cwd=d, timeout=timeout)
        finally:
            fcntl.flock(lock, fcntl.LOCK_UN)
            lock.close()
        self.checker_cmds.append("make -C coq/%s %s (coqc 8.16.1, full .vo build)" % (group, " ".join(targets or [])))
        return rc == 0, out

    def prove(self, group, module, theorems, timeout=1800, extra_allowed=()):
        """Build `module` (a Props_*.v file that only states property theorems) and read
        back Print Assumptions for each theorem.  Every theorem is one obligation.
        Returns list of names that are NOT discharged."""
        clean = (self.tier == "thorough" and os.environ.get("VERIF_NO_CLEAN") != "1")
        ok, out = self.make(group, [module + ".vo"], timeout, clean=False)
        failed = []
        if not ok:
            m = re.search(r'File "\./?([^"]+)", line (\d+)', out)
            where = "%s:%s" % (m.group(1), m.group(2)) if m else "?"
            for t in theorems:
                self.obligations.append((t, False, "build failed at " + where))
                failed.append(t)
            self.build_error = out[-3000:]
            self.log("PROOF BUILD FAILED at", where)
            self.log(out[-1500:])
            return failed
        # Print Assumptions, in a scratch file compiled on every run
        d = os.path.join(COQ, group)
        logical = group_logical(group)
        afn = os.path.join(d, "Assum_%s_%s_%d.v" % (self.prop, module, os.getpid()))
        with open(afn, "w") as f:
            f.write("From %s Require Import %s.\n" % (logical, module))
            for t in theorems:
                f.write('Goal True. idtac "@@BEGIN %s". Abort.\nPrint Assumptions %s.\n' % (t, t))
            f.write('Goal True. idtac "@@END". Abort.\n')
        rc, out = sh(["coqc", "-noglob"] + self._coq_paths(group) + [os.path.basename(afn)], cwd=d, timeout=600)
        for ext in (".vo", ".vok", ".vos", ".glob"):
            try:
                os.remove(afn[:-2] + ext)
            except OSError:
                pass
        try:
            os.remove(os.path.join(d, "." + os.path.basename(afn)[:-2] + ".aux"))
        except OSError:
            pass
        os.remove(afn)
        if rc != 0:
            for t in theorems:
                self.obligations.append((t, False, "Print Assumptions failed: " + out[-300:]))
                failed.append(t)
            self.build_error = out[-3000:]
            return failed
        blocks = re.split(r"@@BEGIN (\S+)", out)
        got = {}
        for i in range(1, len(blocks), 2):
            got[blocks[i]] = blocks[i + 1].split("@@END")[0]
        allowed = ALLOWED_AXIOMS | set(extra_allowed)
        for t in theorems:
            b = got.get(t, "")
            if "Closed under the global context" in b:
                self.obligations.append((t, True, "closed"))
                continue
            axs = [a for a in re.findall(r"^([A-Za-z_][\w.']*)\s*:", b, re.M) if a != "Axioms"]
            if not axs:
                self.obligations.append((t, False, "no Print Assumptions output"))
                failed.append(t)
                continue
            badax = [a for a in axs if a not in allowed]
            if badax:
                raise CheckerBroken("theorem %s depends on non-allow-listed axioms %s" % (t, badax))
            self.axioms_used.update(axs)
            self.obligations.append((t, True, "axioms: " + ",".join(axs)))
        self.checker_cmds.append("coqc Print Assumptions for %s" % module)
        self.log("proved %s: %d theorem(s) checked, Print Assumptions read" % (module, len(theorems)))
        if self.tier == "thorough" and os.environ.get("VERIF_NO_COQCHK") != "1":
            self.coqchk(group, module)
        return failed

    def _coq_paths(self, group):
        ps = ["-Q", "../common", "RV"] if group != "common" else []
        for extra in group_deps(group):
            ps += ["-Q", "../" + extra, group_logical(extra)]
        ps += ["-Q", ".", group_logical(group)]
        return ps

    def coqchk(self, group, module, timeout=1500):
        d = os.path.join(COQ, group)
        rc, out = sh(["coqchk", "-silent", "-o"] + self._coq_paths(group) + ["%s.%s" % (group_logical(group), module)],
                     cwd=d, timeout=timeout)
        ok = rc == 0
        self.extra.setdefault("coqchk", []).append({"module": module, "ok": ok, "tail": out[-600:]})
        self.checker_cmds.append("coqchk -silent -o %s.%s" % (group_logical(group), module))
        if not ok and rc != 124:
            raise CheckerBroken("coqchk rejected %s: %s" % (module, out[-800:]))
        return ok

    # --------------------------------------------------------------- harness
    def harness(self, group, profile="release", features="", bins=None, hooks=True, timeout=3000):
        """Build harness/<group> against REPO's *current working tree*; returns dir with binaries."""
        src = os.path.join(ROOT, "harness", group)
        key = hashlib.sha1((REPO + "|" + group).encode()).hexdigest()[:10]
        bdir = os.path.join(CACHE, "hbuild", "%s-%s" % (group, key))
        os.makedirs(bdir, exist_ok=True)
        # mirror sources (cheap; keeps mtimes of unchanged files so cargo stays incremental)
        sh(["rsync", "-a", "--delete", "--exclude", "target", "--exclude", "Cargo.toml", "--exclude", "Cargo.lock",
            src + "/", bdir + "/"])
        tmpl = open(os.path.join(src, "Cargo.toml")).read().replace("@REPO@", REPO)
        cfn = os.path.join(bdir, "Cargo.toml")
        if not os.path.exists(cfn) or open(cfn).read() != tmpl:
            open(cfn, "w").write(tmpl)
        lock = os.path.join(bdir, "Cargo.lock")
        if not os.path.exists(lock):
            own = os.path.join(src, "Cargo.lock")
            shutil.copy(own if os.path.exists(own) else os.path.join(REPO, "Cargo.lock"), lock)
        os.makedirs(os.path.join(bdir, ".cargo"), exist_ok=True)
        open(os.path.join(bdir, ".cargo", "config.toml"), "w").write("[net]\noffline = true\n")
        tdir = os.path.join(CACHE, "target-" + key)
        env = {"CARGO_NET_OFFLINE": "true", "CARGO_TARGET_DIR": tdir,
               "RUSTFLAGS": ("--cfg %s " % HOOK_CFG if hooks else "") + os.environ.get("VERIF_RUSTFLAGS", "-C target-cpu=native" if False else "")}
        cmd = ["cargo", "build", "--offline", "-q"]
        if profile == "release":
            cmd.append("--release")
        if features:
            cmd += ["--features", features]
        for b in (bins or []):
            cmd += ["--bin", b]
        rc, out = sh(cmd, cwd=bdir, timeout=timeout, env=env)
        if rc != 0:
            # The repository (or the hook) does not compile: not a property verdict.
            raise CheckerBroken("harness %s failed to build against %s:\n%s" % (group, REPO, out[-3000:]))
        self.log("harness %s (%s) built against %s" % (group, profile, REPO))
        return os.path.join(tdir, "release" if profile == "release" else "debug")

    def run_bin(self, path, args=(), stdin=None, timeout=600, env=None):
        rc, out = sh([path] + list(args), input=stdin, timeout=timeout, env=env)
        return rc, out

    def gen_exec(self, bindir, binname, n, extra_gen=(), exec_args=("exec",), timeout=1800, env=None, inputs=None):
        """Standard two-stage harness protocol:  `<bin> gen <seed> <n> <tier>` prints input lines;
        `<bin> exec` reads them and prints `tag \t input \t coq-case-term` per line.
        Returns list of case dicts.  `inputs` (list of lines) replaces the gen stage (replay)."""
        path = os.path.join(bindir, binname)
        if inputs is None:
            rc, out = sh([path, "gen", str(self.seed), str(n), self.tier] + list(extra_gen), timeout=timeout, env=env)
            if rc != 0:
                raise CheckerBroken("%s gen failed rc=%d: %s" % (binname, rc, out[-500:]))
            inputs = [l for l in out.split("\n") if l.strip()]
        # corpus of minimised past failures always runs first
        corpus = os.path.join(ROOT, "corpus", self.prop + ".txt")
        if os.path.exists(corpus) and not self.replay_path:
            pre = [l.rstrip("\n") for l in open(corpus) if l.strip() and not l.startswith("#")]
            inputs = pre + inputs
        rc, out = sh([path] + list(exec_args), input="\n".join(inputs) + "\n", timeout=timeout, env=env)
        if rc != 0:
            raise CheckerBroken("%s exec failed rc=%d: %s" % (binname, rc, out[-800:]))
        cases = []
        for l in out.split("\n"):
            if not l.strip():
                continue
            parts = l.split("\t")
            if len(parts) != 3:
                raise CheckerBroken("%s exec printed a malformed line: %r" % (binname, l[:200]))
            cases.append({"tag": parts[0], "input": parts[1], "term": parts[2]})
        self.log("%s: implementation ran on %d inputs" % (binname, len(cases)))
        if len(cases) != len(inputs):
            raise CheckerBroken("%s exec answered %d of %d inputs (crash?): %s" % (binname, len(cases), len(inputs), out[-300:]))
        return cases

    def replay_inputs(self):
        """Input lines stored in the replay file given with --replay (or None)."""
        if not self.replay_path:
            return None
        r = json.load(open(self.replay_path))
        ins = []
        for k in ("input", "first_disagreeing_input"):
            if r.get(k):
                ins.append(r[k])
        return ins or None

    # ------------------------------------------------------------ model eval
    def coq_eval_cases(self, group, requires, terms, agree="agree", prop_ok="prop_ok", shard=400, timeout=900, tag="c"):
        """Evaluate `agree c` and `prop_ok c` for every Coq term (of the group's `case` type)
        inside Coq (vm_compute), sharded over coqc processes.
        Returns (disagree_idx, propfail_idx, err) with indices into `terms`."""
        d = os.path.join(COQ, group)
        shards = [(i, terms[i:i + shard]) for i in range(0, len(terms), shard)]

        def one(sh_):
            base, ts = sh_
            name = "cases_%s_%s_%d_%d" % (self.prop, tag, os.getpid(), base)
            fn = os.path.join(d, name + ".v")
            with open(fn, "w") as f:
                f.write(requires + "\n")
                f.write("Definition cs : list case := [\n" + ";\n".join(ts) + "\n].\n")
                f.write("Eval vm_compute in (RV.Prelude.bad_idx (fun c => %s c) cs, RV.Prelude.bad_idx (fun c => %s c) cs).\n" % (agree, prop_ok))
            rc, out = sh(["coqc", "-noglob"] + self._coq_paths(group) + [name + ".v"], cwd=d, timeout=timeout)
            for ext in (".v", ".vo", ".vok", ".vos", ".glob"):
                try:
                    os.remove(os.path.join(d, name + ext))
                except OSError:
                    pass
            try:
                os.remove(os.path.join(d, "." + name + ".aux"))
            except OSError:
                pass
            if rc != 0:
                return base, None, None, "coqc rc=%d: %s" % (rc, out[-1500:])
            flat = re.sub(r"\s+", "", out)
            m = re.search(r"=\(\[(.*?)\],\[(.*?)\]\)", flat)
            if not m:
                return base, None, None, "cannot parse coq output: " + out[-500:]
            f1 = [base + int(x) for x in re.findall(r"\d+", m.group(1))]
            f2 = [base + int(x) for x in re.findall(r"\d+", m.group(2))]
            return base, f1, f2, None

        dis, pf, err = [], [], None
        with cf.ThreadPoolExecutor(max_workers=NCPU) as ex:
            for base, f1, f2, e in ex.map(one, shards):
                if e or f1 is None:
                    err = e or "unknown"
                    continue
                dis += f1
                pf += f2
        self.checker_cmds.append("coqc cases_*.v (Eval vm_compute, %d shards)" % len(shards))
        return sorted(dis), sorted(pf), err

    def coq_eval_show(self, group, requires, term, timeout=300):
        """Evaluate one Coq term and return Coq's printed answer (for replay files)."""
        d = os.path.join(COQ, group)
        name = "cases_%s_show_%d" % (self.prop, os.getpid())
        fn = os.path.join(d, name + ".v")
        with open(fn, "w") as f:
            f.write(requires + "\nEval vm_compute in (%s).\n" % term)
        rc, out = sh(["coqc", "-noglob"] + self._coq_paths(group) + [name + ".v"], cwd=d, timeout=timeout)
        for ext in (".v", ".vo", ".vok", ".vos", ".glob"):
            try:
                os.remove(os.path.join(d, name + ext))
            except OSError:
                pass
        try:
            os.remove(os.path.join(d, "." + name + ".aux"))
        except OSError:
            pass
        return out.strip()

    # ------------------------------------------------------------ correspond
    def correspond(self, name, group, requires, cases, classify=None, show=None,
                   agree="agree", prop_ok="prop_ok", shard=400, fn_name=None):
        """cases: list of dicts {input: str, term: str (Coq `case`), tag: str}.
        Runs agree/prop_ok in Coq.  Reports violations / known findings.
        classify(case) -> finding id (str) or None.  show: Coq function name applied to a
        case for the replay file."""
        terms = [c["term"] for c in cases]
        for c in cases:
            self.evals += 1
            t = c.get("tag", "")
            self.hist[t] = self.hist.get(t, 0) + 1
            if not t.startswith("trivial"):
                self.distinct.add(hashlib.sha1(c["input"].encode()).hexdigest())
        for c in cases[:3]:
            if len(self.samples) < 12:
                self.samples.append({"check": name, "input": c["input"][:400], "tag": c.get("tag", "")})
        dis, pf, err = self.coq_eval_cases(group, requires, terms, agree, prop_ok, shard, tag=re.sub(r"\W", "", name)[:12])
        if err:
            raise CheckerBroken("model evaluation failed for %s: %s" % (name, err))
        self.corr.append({"name": name, "cases": len(cases), "disagree": len(dis), "property_failures": len(pf)})
        self.log("correspondence %s: %d cases, %d model/impl disagreements, %d property failures"
                 % (name, len(cases), len(dis), len(pf)))
        reported = 0
        seen_known = set()
        # 1. concrete failing inputs: the implementation's own outcome fails the property oracle
        for i in pf:
            c = cases[i]
            fid = classify(c) if classify else None
            if fid and self._is_known(fid):
                if fid not in seen_known:
                    seen_known.add(fid)
                    self.known(fid)
                continue
            if reported < 3:
                detail = self.coq_eval_show(group, requires, "%s (%s)" % (show, c["term"])) if show else ""
                self.violation({"kind": "property-failure", "check": name, "input": c["input"], "coq_case": c["term"],
                                "explain": "the implementation's outcome on this input fails the property oracle %s (reflection lemma in the Props file)" % prop_ok,
                                "model_says": detail})
                reported += 1
        # 2. model/impl disagreement without a property failure on those cases
        only_dis = [i for i in dis if i not in set(pf)]
        unexplained = []
        for i in only_dis:
            c = cases[i]
            fid = classify(c) if classify else None
            if fid and self._is_known(fid):
                if fid not in seen_known:
                    seen_known.add(fid)
                    self.known(fid)
                continue
            unexplained.append(i)
        if unexplained and reported == 0:
            c = cases[unexplained[0]]
            detail = self.coq_eval_show(group, requires, "%s (%s)" % (show, c["term"])) if show else ""
            self.violation({"kind": "correspondence-broken", "check": name,
                            "broken": "correspondence %s between model %s and the implementation" % (name, fn_name or group),
                            "first_disagreeing_input": c["input"], "coq_case": c["term"], "model_says": detail,
                            "disagreements": len(unexplained),
                            "explain": "model and implementation disagree on %d case(s) but no input was found on which the implementation violates the property oracle; the theorem no longer transfers to the code" % len(unexplained)},
                           no_input=True)
        return dis, pf

    # ----------------------------------------------------------- reporting
    def _is_known(self, fid):
        for f in self.findings:
            if f["id"] == fid and f["property"] == self.prop and f.get("status") == "known":
                return True
        return False

    def known(self, fid):
        for f in self.findings:
            if f["id"] == fid and f["property"] == self.prop and f.get("status") == "known":
                print("KNOWN-FINDING: property=%s %s [%s] %s" % (self.prop, fid, f.get("site", ""), f.get("what", "")), flush=True)
                self.known_hits.append(fid)
                return True
        return False

    def violation(self, replay, no_input=False):
        n = len(self.violations)
        path = os.path.join(ROOT, "replays", "%s-%s-%d-%d.json" % (self.prop, "replayed" if self.replay_path else self.tier, self.seed, n))
        replay = dict(replay)
        replay.update({"property": self.prop, "seed": self.seed, "tier": self.tier, "repo": REPO,
                       "replay_cmd": "./check %s --replay %s" % (self.prop, path)})
        with open(path, "w") as f:
            json.dump(replay, f, indent=1)
        self.violations.append((path, no_input, replay.get("kind", "")))
        print("VIOLATION property=%s replay=%s%s" % (self.prop, path, " no-failing-input-found" if no_input else ""), flush=True)

    def proof_broken(self, failed, searched):
        """A property theorem no longer checks (through Pins.v / generated tables) and the
        search found no failing input."""
        self.violation({"kind": "proof-broken", "theorems": failed,
                        "build_error": getattr(self, "build_error", "")[-2000:],
                        "searched": searched,
                        "explain": "the listed theorem(s) no longer check against the model regenerated from the current source; no concrete failing input was found"},
                       no_input=True)

    def finish(self):
        obl = len(self.obligations)
        dis = sum(1 for o in self.obligations if o[1])
        cov = {
            "obligations": obl, "discharged": dis,
            "theorems": [{"name": o[0], "discharged": o[1], "assumptions": o[2]} for o in self.obligations],
            "checker_cmd": "; ".join(dict.fromkeys(self.checker_cmds)) or "none",
            "trusted_base": [
                "Coq 8.16.1 kernel (coqc, full .vo build; vm_compute used; native_compute not used)",
                "axioms (Print Assumptions): " + (", ".join(sorted(self.axioms_used)) or "none - closed under the global context"),
                "correspondence harness /verif/harness (Rust, built against %s working tree, --cfg %s)" % (REPO, HOOK_CFG),
                "source pins translator lib/vf.py:Ctx.pins (regex anchors, values copied verbatim)",
            ] + self.trusted,
            "evaluations": self.evals, "distinct_nontrivial": len(self.distinct),
            "rule": self.rule, "samples": self.samples or [{"note": "no cases"}],
            "input_distribution": self.hist, "correspondence": self.corr, "pins": self.pins_rec,
            "notes": self.notes, "known_findings_reproduced": self.known_hits,
            "exhaustive": self.exhaustive,
        }
        cov.update(self.extra)
        ev = {"property_id": self.prop, "tier": self.tier, "seed": self.seed, "level": self.level,
              "coverage": cov, "assumptions": self.assumptions, "wall_s": round(time.time() - self.t0, 2),
              "violations": len(self.violations)}
        # evidence is only (re)written by runs against /repo itself, never by trial runs against a
        # scratch checkout (VERIF_REPO) or by replays
        if not self.replay_path and os.path.realpath(REPO) == "/repo":
            with open(os.path.join(ROOT, "evidence", self.prop + ".json"), "w") as f:
                json.dump(ev, f, indent=1)
        self.log("obligations %d/%d discharged; %d evaluations (%d distinct non-trivial); %d violation(s); %d known finding(s)"
                 % (dis, obl, self.evals, len(self.distinct), len(self.violations), len(self.known_hits)))
        return 1 if self.violations else 0


GROUP_DEPS = {}
try:
    GROUP_DEPS = json.load(open(os.path.join(ROOT, "coq", "groups.json")))
except OSError:
    pass


def group_logical(group):
    return GROUP_DEPS.get(group, {}).get("logical", group.capitalize())


def group_deps(group):
    return GROUP_DEPS.get(group, {}).get("deps", [])


def strip_coq_comments(txt):
    out, depth, i, n = [], 0, 0, len(txt)
    instr = False
    while i < n:
        if not instr and txt.startswith("(*", i):
            depth += 1
            i += 2
            continue
        if not instr and depth and txt.startswith("*)", i):
            depth -= 1
            i += 2
            continue
        ch = txt[i]
        if depth == 0:
            if ch == '"':
                instr = not instr
            out.append(ch)
        elif ch == "\n":
            out.append(ch)
        i += 1
    return "".join(out)


class SplitMix64:
    def __init__(self, seed):
        self.s = seed & 0xFFFFFFFFFFFFFFFF

    def next(self):
        self.s = (self.s + 0x9E3779B97F4A7C15) & 0xFFFFFFFFFFFFFFFF
        z = self.s
        z = ((z ^ (z >> 30)) * 0xBF58476D1CE4E5B9) & 0xFFFFFFFFFFFFFFFF
        z = ((z ^ (z >> 27)) * 0x94D049BB133111EB) & 0xFFFFFFFFFFFFFFFF
        return z ^ (z >> 31)

    def below(self, n):
        return self.next() % n if n > 0 else 0

    def choice(self, xs):
        return xs[self.below(len(xs))]


def coq_list(xs, scope=""):
    return "[" + "; ".join(str(x) for x in xs) + "]" + (("%" + scope) if scope else "")


def run_check(prop, main):
    import argparse
    ap = argparse.ArgumentParser()
    ap.add_argument("--tier", default=os.environ.get("VERIF_TIER", "quick"), choices=["quick", "thorough"])
    ap.add_argument("--replay", default=None)
    a = ap.parse_args(sys.argv[2:])
    seed = int(os.environ.get("VERIF_SEED", "20260921"))
    ctx = Ctx(prop, a.tier, seed, a.replay)
    try:
        main(ctx)
        rc = ctx.finish()
    except CheckerBroken as ex:
        print("CHECKER-BROKEN property=%s: %s" % (prop, ex), flush=True)
        sys.exit(2)
    sys.exit(rc)
