#!/bin/bash
# usage: cross_seed.sh <seed dir under /verif/seeded> <prop>...   (runs other properties' quick checks against the patched tree)
d=$1; shift
wt=/tmp/cross-$(basename $d)
git -C /repo worktree remove --force $wt 2>/dev/null
git -C /repo worktree add -q --detach $wt main && git -C $wt apply /verif/seeded/$d/patch.diff || exit 1
for p in "$@"; do
  out=$(cd /verif && VERIF_REPO=$wt ./check $p --tier quick 2>&1 | grep -E "^VIOLATION|obligations" | head -3)
  echo "$d vs $p: $out" | tr '\n' ' '; echo
done
git -C /repo worktree remove --force $wt
