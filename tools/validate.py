#!/usr/bin/env python3-vt
"""Validate MANIFEST.json and every evidence file against the schemas (uses the tooling venv)."""
import json, glob, sys, jsonschema
ok = True
def v(path, schema):
    global ok
    try:
        jsonschema.validate(json.load(open(path)), json.load(open(schema)))
        print("ok   ", path)
    except Exception as e:
        ok = False
        print("FAIL ", path, str(e)[:300])
v("/verif/MANIFEST.json", "/root/.vp/MANIFEST.schema.json")
for f in sorted(glob.glob("/verif/evidence/*.json")):
    v(f, "/root/.vp/EVIDENCE.schema.json")
m = json.load(open("/verif/MANIFEST.json"))
ids = [json.loads(l)["id"] for l in open("/verif/properties.jsonl")]
claimed = [c["property_id"] for c in m["checks"]]
na = [c["property_id"] for c in m.get("not_applicable", [])]
missing = [i for i in ids if i not in claimed and i not in na]
print("claimed", len(claimed), "not_applicable", len(na), "unlisted", missing)
sys.exit(0 if ok else 1)
