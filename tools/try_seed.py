#!/usr/bin/env python3
"""Confirm an independently written breaking change and run our check(s) against it.
usage: try_seed.py <prop> <variant dir, e.g. /tmp/seeds/C07/A> <crate> [extra props to run...]
 1. fresh detached worktree of /repo main under /tmp/seedtry-<prop>-<variant>
 2. demo without the patch must pass, with the patch must fail (demo.rs is dropped into <crate>/tests/)
 3. the crate's existing tests must pass with the patch
 4. ./check <prop> --tier quick with VERIF_REPO=<worktree> (expect VIOLATION)
Writes /verif/seeded/<prop>-<variant>/{patch.diff,demo.*,notes.md,meta.json}; removes the worktree."""
import json, os, shutil, subprocess, sys, time
prop, vdir, crate = sys.argv[1:4]
extra = sys.argv[4:]
var = os.path.basename(vdir.rstrip("/"))
wt = "/tmp/seedtry-%s-%s" % (prop, var)
def sh(cmd, cwd=None, env=None, timeout=3600):
    e = dict(os.environ); e.update(env or {})
    p = subprocess.run(cmd, cwd=cwd, env=e, shell=True, stdout=subprocess.PIPE, stderr=subprocess.STDOUT, text=True, timeout=timeout)
    return p.returncode, p.stdout
sh("git -C /repo worktree remove --force %s" % wt)
rc, out = sh("git -C /repo worktree add -q --detach %s main" % wt)
assert rc == 0, out
tgt = "/tmp/seedtry-target-%s-%s" % (prop, var)
env = {"CARGO_TARGET_DIR": tgt, "CARGO_NET_OFFLINE": "true"}
cdir = wt if crate in (".", "rten") else os.path.join(wt, crate)
pkg = "rten" if crate in (".", "rten") else crate
meta = {"property": prop, "variant": var, "crate": pkg, "ran": []}
demo = os.path.join(vdir, "demo.rs")
if os.environ.get("SEED_NO_DEMO") == "1":
    demo = "/nonexistent"   # demo is not an integration test (e.g. needs crate-private items): the author's logs are kept instead
    meta["ran"].append("demonstration not re-run by the lead (unit-test-module demo using crate-private items); see with_change.log / without_change.log written by its author")
res = {}
if os.path.exists(demo):
    os.makedirs(os.path.join(cdir, "tests"), exist_ok=True)
    shutil.copy(demo, os.path.join(cdir, "tests", "seed_demo.rs"))
    rc0, o0 = sh("cargo test -p %s --offline --test seed_demo 2>&1 | tail -15" % pkg, cwd=wt, env=env)
    res["demo_without_patch"] = "pass" if "test result: ok" in o0 else "FAIL"
    meta["ran"].append("cargo test -p %s --offline --test seed_demo (unpatched): %s" % (pkg, res["demo_without_patch"]))
rc, out = sh("git apply %s" % os.path.join(vdir, "patch.diff"), cwd=wt)
if rc != 0:
    print("patch does not apply:", out); sys.exit(1)
if os.path.exists(demo):
    rc1, o1 = sh("cargo test -p %s --offline --test seed_demo 2>&1 | tail -25" % pkg, cwd=wt, env=env)
    res["demo_with_patch"] = "fail" if ("test result: FAILED" in o1 or "panicked" in o1 or "error: test failed" in o1) else "PASSES(!)"
    meta["ran"].append("cargo test -p %s --offline --test seed_demo (patched): %s" % (pkg, res["demo_with_patch"]))
    os.remove(os.path.join(cdir, "tests", "seed_demo.rs"))
rc2, o2 = sh("cargo test -p %s --offline 2>&1 | grep -E '^test result|FAILED|failed' | head" % pkg, cwd=wt, env=env)
res["crate_tests_with_patch"] = "pass" if ("test result: ok" in o2 and "FAILED" not in o2) else "FAIL: " + o2[-300:]
meta["ran"].append("cargo test -p %s --offline (patched): %s" % (pkg, res["crate_tests_with_patch"]))
checks = {}
for p in [prop] + extra:
    t = time.time()
    rc3, o3 = sh("./check %s --tier quick 2>&1 | tail -8" % p, cwd="/verif", env={"VERIF_REPO": wt}, timeout=7200)
    viol = [l for l in o3.split("\n") if l.startswith("VIOLATION")]
    checks[p] = {"detected": bool(viol), "lines": viol[:3], "tail": o3[-600:], "wall_s": round(time.time() - t)}
    meta["ran"].append("VERIF_REPO=<worktree> ./check %s --tier quick: %s" % (p, "VIOLATION" if viol else "no alarm"))
meta.update(res); meta["checks"] = checks
dst = "/verif/seeded/%s-%s" % (prop, var)
os.makedirs(dst, exist_ok=True)
for f in os.listdir(vdir):
    s = os.path.join(vdir, f)
    if os.path.isfile(s) and os.path.getsize(s) < 200000:
        shutil.copy(s, dst)
notes = os.path.join(vdir, "notes.md")
meta["needs_to_manifest"] = "see notes.md"
json.dump(meta, open(os.path.join(dst, "meta.json"), "w"), indent=1)
sh("git -C /repo worktree remove --force %s" % wt)
shutil.rmtree(tgt, ignore_errors=True)
print(json.dumps({k: meta[k] for k in meta if k != "ran"}, indent=1)[:1800])
