#!/usr/bin/env python3
"""Rewrite the `commit` field of fixed findings in known_findings.json to the SHA the fix has on
/repo main (cherry-picking from the builders' branches changes SHAs): matched by commit subject.
Also refreshes tools/hooks.json source_commits with every `verif hooks:` commit on main. Run by hand."""
import json, os, subprocess
ROOT = os.path.dirname(os.path.dirname(os.path.abspath(__file__)))
def git(*a):
    return subprocess.run(["git", "-C", "/repo"] + list(a), capture_output=True, text=True).stdout
main = [l.split(" ", 1) for l in git("log", "--format=%h %s", "main").strip().split("\n")]
by_subject = {s: h for h, s in main}
p = os.path.join(ROOT, "known_findings.json")
d = json.load(open(p))
for f in d["findings"]:
    c = f.get("commit")
    if f.get("status") == "fixed" and c:
        subj = git("log", "-1", "--format=%s", c).strip()
        if subj in by_subject and by_subject[subj] != c[:len(by_subject[subj])]:
            print("finding %s/%s: %s -> %s (%s)" % (f["property"], f["id"], c, by_subject[subj], subj))
            f["commit"] = by_subject[subj]
        elif subj not in by_subject:
            print("WARNING: fix for %s/%s (%s %s) is not on main" % (f["property"], f["id"], c, subj))
json.dump(d, open(p, "w"), indent=1)
hp = os.path.join(ROOT, "tools", "hooks.json")
h = json.load(open(hp))
h["source_commits"] = [x for x, s in reversed(main) if s.startswith("verif hooks:")]
json.dump(h, open(hp, "w"), indent=1)
print("hook commits:", h["source_commits"])
