#!/usr/bin/env python3
"""Add or update an entry of /verif/known_findings.json (file-locked; run by hand, never by a check).
usage: add_finding.py <property> <id> <status: known|fixed> <site> <what fails / replay input> [commit]"""
import fcntl, json, os, sys
ROOT = os.path.dirname(os.path.dirname(os.path.abspath(__file__)))
p = os.path.join(ROOT, "known_findings.json")
prop, fid, status, site, what = sys.argv[1:6]
commit = sys.argv[6] if len(sys.argv) > 6 else None
with open(p, "r+") as f:
    fcntl.flock(f, fcntl.LOCK_EX)
    d = json.load(f)
    d["findings"] = [x for x in d["findings"] if not (x["id"] == fid and x["property"] == prop)]
    e = {"property": prop, "id": fid, "status": status, "site": site, "what": what}
    if commit:
        e["commit"] = commit
    d["findings"].append(e)
    d["findings"].sort(key=lambda x: (x["property"], x["id"]))
    f.seek(0); f.truncate(); json.dump(d, f, indent=1); f.write("\n")
print("recorded", prop, fid, status)
