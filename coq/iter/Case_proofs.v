(* C07 -- the theorems assembled at the level of a correspondence case, the refutation
   witnesses for the code before the fixes, and the "at most once" corollary for *Mut. *)
From RV Require Import Prelude.
From Tensor Require Import Overlap Overlap_proofs.
From Iter Require Import ModelSpec ModelIter Spec_proofs Rm_proofs Offsets_proofs Fold_proofs Refine_proofs Chunks_proofs.
From Coq Require Import Permutation.
Open Scope N_scope.

(* the cases the theorems cover: well-formed layout; lane number in range and no split on a
   Lane (it has no split_at); chunk size > 0 (the constructor asserts it); and -- known
   finding C07-F2 -- no next_back on a chunk iterator whose axis is not a multiple of the
   chunk size *)
Definition valid_case (c : case) : Prop :=
  length (c_shape c) = length (c_strides c) /\
  match c_kind c with
  | KLane =>
      has_split (c_hist c) = false /\
      c_b c < nlen (spec_lanes (dims_of (c_shape c) (c_strides c)) (N.to_nat (c_a c))) /\
      dsize (nth (N.to_nat (c_a c)) (dims_of (c_shape c) (c_strides c)) (0, 0)) < two64
  | KChunks =>
      1 <= c_b c /\
      (has_back (c_hist c) = false \/
       dsize (nth (N.to_nat (c_a c)) (dims_of (c_shape c) (c_strides c)) (0, 0)) mod c_b c = 0)
  | _ => True
  end.

Lemma hd_error_ndrop_nth {A} (l : list A) k d : k < nlen l -> hd_error (ndrop k l) = Some (nth (N.to_nat k) l d).
Proof.
  intros H. rewrite ndrop_skipn. unfold nlen in H.
  assert (Hk : (N.to_nat k < length l)%nat) by lia. clear H. revert Hk. generalize (N.to_nat k) as n.
  induction l as [|x l IH]; intros n Hn; cbn [length] in Hn; [lia|].
  destruct n; cbn [skipn nth hd_error]; [reflexivity|]. apply IH. lia.
Qed.

Theorem model_meets_spec : forall c, valid_case c -> model_obs false c = spec_obs c.
Proof.
  intros c [Hlen Hv]. unfold model_obs, spec_obs, spec_items.
  set (dims := dims_of (c_shape c) (c_strides c)) in *. set (a := N.to_nat (c_a c)) in *.
  destruct (c_kind c).
  - apply iter_history. exact Hlen.
  - apply lanes_history.
  - destruct Hv as (Hs & Hb & Hsz).
    set (ld := nth a dims (0, 0)) in *. set (o := lanes_new dims a).
    assert (Hoi : off_inv o).
    { unfold o, lanes_new. destruct (is_empty dims); apply offsets_new_inv. }
    assert (Hsl : spec_lanes dims a = map (lane_elems ld) (off_abs o)).
    { unfold spec_lanes, o, lanes_new. fold ld. destruct (is_empty dims) eqn:E.
      - rewrite offsets_new_abs, (rm_zero _ E). reflexivity.
      - rewrite offsets_new_abs. reflexivity. }
    rewrite Hsl, nlen_map in Hb.
    destruct (nth_default_refines offsets_next off_inv off_abs (r_next _ _ _ offsets_refines_fwd)
                (S (N.to_nat (offsets_len o))) (c_b c) o Hoi) as (x & s' & E & Hx & _ & _).
    { rewrite (off_len o Hoi). unfold nlen. lia. }
    rewrite E, Hx, (hd_error_ndrop_nth _ _ 0 Hb).
    set (start := nth (N.to_nat (c_b c)) (off_abs o) 0).
    assert (Hn : nth (N.to_nat (c_b c)) (spec_lanes dims a) [] = lane_elems ld start).
    { rewrite Hsl. unfold start.
      rewrite (nth_indep _ [] (lane_elems ld 0)) by (rewrite map_length; unfold nlen in Hb; lia).
      apply map_nth. }
    rewrite Hn.
    assert (Habs : lane_elems ld start = ln_abs ld start {| ln_index := 0; ln_end := dsize ld |}).
    { unfold lane_elems, ln_abs, range0. cbn [ln_index ln_end]. rewrite N.sub_0_r. reflexivity. }
    rewrite Habs.
    apply (history_refines_gen _ ln_inv (fun s => map single (ln_abs ld start s))).
    + apply map_refines_fwd, lane_refines_fwd.
    + unfold ln_inv. cbn [ln_index ln_end]. lia.
    + right. apply map_refines_back, lane_refines_back.
    + left. exact Hs.
  - apply inner_history.
  - apply axis_iter_history.
  - destruct Hv as [Hcs Hb]. apply chunks_history; assumption.
Qed.

Lemma list_eqb_N_eq : forall a b, list_eqb N.eqb a b = true -> a = b.
Proof.
  induction a as [|x a IH]; intros [|y b] H; cbn [list_eqb] in H; try discriminate; [reflexivity|].
  apply andb_true_iff in H as [H1 H2]. apply N.eqb_eq in H1. subst. f_equal. auto.
Qed.
Lemma list_eqb_item_eq : forall a b, list_eqb item_eqb a b = true -> a = b.
Proof.
  induction a as [|x a IH]; intros [|y b] H; cbn [list_eqb] in H; try discriminate; [reflexivity|].
  apply andb_true_iff in H as [H1 H2]. apply list_eqb_N_eq in H1. subst. f_equal. auto.
Qed.
Lemma obs_eqb_eq : forall a b, obs_eqb a b = true -> a = b.
Proof.
  induction a as [l1|x1 l1 r1 IH|l1|a1 IHa b1 IHb| |]; intros b H; destruct b; cbn [obs_eqb] in H; try discriminate.
  - apply N.eqb_eq in H. subst. reflexivity.
  - apply andb_true_iff in H as [H H3]. apply andb_true_iff in H as [H1 H2].
    apply N.eqb_eq in H2. apply IH in H3. subst. f_equal.
    destruct x1, x; cbn [oitem_eqb] in H1; try discriminate; [|reflexivity].
    apply list_eqb_N_eq in H1. subst. reflexivity.
  - apply list_eqb_item_eq in H. subst. reflexivity.
  - apply andb_true_iff in H as [H1 H2]. apply IHa in H1. apply IHb in H2. subst. reflexivity.
  - reflexivity.
Qed.

(* How a run of the correspondence check transfers the theorem to the code: when the
   implementation's observations equal the model's on a valid case, they are the deque
   specification's observations. *)
Theorem agree_implies_spec : forall c, valid_case c -> agree c = true -> c_obs c = spec_obs c.
Proof.
  intros c Hv Ha. unfold agree in Ha. apply obs_eqb_eq in Ha.
  rewrite <- Ha. apply model_meets_spec. exact Hv.
Qed.

(* ------------------------------------------------------------------ each element once *)
(* Every logical element of the layout is either yielded exactly once or left unconsumed,
   for any history (Iter / IterMut, both paths). *)
Theorem iter_exactly_once : forall h shape strides, length shape = length strides ->
  Permutation
    (yielded (run_impl (offsets_iface false) h (offsets_new (dims_of shape strides)))
     ++ unconsumed h (logical_offsets shape strides))
    (logical_offsets shape strides).
Proof.
  intros h shape strides Hl. unfold dims_of. rewrite offsets_history, <- logical_offsets_rm by exact Hl.
  apply spec_exactly_once.
Qed.

(* ---- *Mut iterators: a layout accepted by the overlap check (C08) has pairwise distinct
   element offsets, so no history hands out an element twice ---- *)
Lemma dot_eq : forall idx strides, ModelSpec.dot idx strides = Overlap.dot idx strides.
Proof.
  induction idx as [|i ir IH]; intros [|s sr]; cbn [ModelSpec.dot Overlap.dot]; try reflexivity;
    rewrite IH; reflexivity.
Qed.

Lemma NoDup_app_intro {A} (a b : list A) :
  NoDup a -> NoDup b -> (forall x, In x a -> In x b -> False) -> NoDup (a ++ b).
Proof.
  induction 1 as [|x a Hx Ha IH]; intros Hb Hd; cbn [app]; [exact Hb|].
  constructor.
  - intros Hin. apply in_app_or in Hin as [Hin|Hin]; [contradiction|].
    apply (Hd x); [left; reflexivity|exact Hin].
  - apply IH; [exact Hb|]. intros y Hy1 Hy2. apply (Hd y); [right; exact Hy1|exact Hy2].
Qed.

Lemma NoDup_map_inj {A B} (f : A -> B) l :
  (forall x y, In x l -> In y l -> f x = f y -> x = y) -> NoDup l -> NoDup (map f l).
Proof.
  intros Hinj H. induction H as [|x l Hx Hl IH]; cbn [map]; constructor.
  - intros Hin. apply in_map_iff in Hin as (y & Hy & Hin).
    assert (y = x) by (apply Hinj; [right; exact Hin|left; reflexivity|exact Hy]). subst. contradiction.
  - apply IH. intros a b Ha Hb. apply Hinj; right; assumption.
Qed.

Lemma NoDup_nrange a n : NoDup (nrange a n).
Proof.
  revert a; induction n as [|n IH]; intros a; cbn [nrange]; constructor; [|apply IH].
  rewrite In_nrange. lia.
Qed.

Lemma In_indices idx shape : In idx (indices shape) -> Forall2 N.lt idx shape.
Proof.
  revert idx; induction shape as [|n r IH]; intros idx H; cbn [indices] in H.
  - destruct H as [<-|[]]. constructor.
  - apply in_flat_map in H as (i & Hi & Hx). apply In_range0 in Hi.
    apply in_map_iff in Hx as (t & <- & Ht). constructor; [exact Hi|apply IH; exact Ht].
Qed.

Lemma NoDup_indices shape : NoDup (indices shape).
Proof.
  induction shape as [|n r IH]; cbn [indices]; [repeat constructor; intros []|].
  unfold range0. generalize (N.to_nat n) as m. generalize 0 as a.
  intros a m. revert a. induction m as [|m IHm]; intros a; cbn [nrange flat_map]; [constructor|].
  apply NoDup_app_intro.
  - apply NoDup_map_inj; [|exact IH]. intros x y _ _ E. inversion E. reflexivity.
  - apply IHm.
  - intros x Hx1 Hx2. apply in_map_iff in Hx1 as (t & <- & _).
    apply in_flat_map in Hx2 as (i & Hi & Hx). apply in_map_iff in Hx as (t' & E & _).
    inversion E; subst. apply In_nrange in Hi. lia.
Qed.

Theorem logical_offsets_NoDup shape strides : length shape = length strides ->
  may_have_internal_overlap false shape strides = false -> NoDup (logical_offsets shape strides).
Proof.
  intros Hl Ho. unfold logical_offsets. apply NoDup_map_inj; [|apply NoDup_indices].
  intros x y Hx Hy E. rewrite !dot_eq in E.
  apply (no_overlap_injective shape strides Hl Ho); [apply In_indices; exact Hx|apply In_indices; exact Hy|exact E].
Qed.

(* IterMut (and every *Mut iterator built on Offsets): over a layout that the overlap check
   accepts -- which every mutable view's constructor enforces -- no history of next /
   next_back / nth / fold / split_at yields the same storage offset twice. *)
Theorem itermut_at_most_once : forall shape strides h, length shape = length strides ->
  may_have_internal_overlap false shape strides = false ->
  NoDup (yielded (run_impl (offsets_iface false) h (offsets_new (dims_of shape strides)))).
Proof.
  intros shape strides h Hl Ho. unfold dims_of. rewrite offsets_history, <- logical_offsets_rm by exact Hl.
  apply spec_at_most_once. apply logical_offsets_NoDup; assumption.
Qed.

(* ------------------------------------------------------------------ refutations *)
Fixpoint nodup_items (l : list (list N)) : bool :=
  match l with [] => true | x :: r => negb (existsb (item_eqb x) r) && nodup_items r end.
Lemma NoDup_nodup_items l : NoDup l -> nodup_items l = true.
Proof.
  induction 1 as [|x r Hx Hr IH]; [reflexivity|]. cbn [nodup_items]. rewrite IH, andb_true_r.
  apply negb_true_iff. destruct (existsb (item_eqb x) r) eqn:E; [|reflexivity].
  apply existsb_exists in E as (y & Hy & Exy). apply list_eqb_N_eq in Exy. subst. contradiction.
Qed.

(* F3: the unfixed next_back.  arange(24).reshape([2,3,4]).permuted([2,0,1]): next, next,
   next_back yields 15 (the deque says 23) and 15 is yielded again by the drain. *)
Definition f3_case : case :=
  {| c_kind := KIter; c_mut := false; c_shape := [4; 2; 3]; c_strides := [1; 12; 4]; c_a := 0; c_b := 0;
     c_hist := HNext (HNext (HBack HFold)); c_obs := OEnd 0; c_mut_ok := true |}.

Theorem next_back_refuted :
  exists c, valid_case c /\ model_obs true c <> spec_obs c /\
            ~ NoDup (yielded (model_obs true c)).
Proof.
  exists f3_case. split; [split; [reflexivity|exact I]|]. split.
  - vm_compute. discriminate.
  - (* [15] is yielded by next_back and again by the fold *)
    intros H. apply NoDup_nodup_items in H. vm_compute in H. discriminate.
Qed.

(* AxisIter::split_at before the fix: next, then split_at 1: the left half yields slice 0 again
   and the halves together hold more items than len() reported *)
Definition axis_split_case : case :=
  {| c_kind := KAxisIter; c_mut := true; c_shape := [4; 2]; c_strides := [2; 1]; c_a := 0; c_b := 0;
     c_hist := HNext (HSplit 1 HFold HFold); c_obs := OEnd 0; c_mut_ok := true |}.
Theorem axis_iter_split_refuted :
  exists c, valid_case c /\ model_obs true c <> spec_obs c /\ ~ NoDup (yielded (model_obs true c)).
Proof.
  exists axis_split_case. split; [split; [reflexivity|exact I]|]. split.
  - vm_compute. discriminate.
  - intros H. apply NoDup_nodup_items in H. vm_compute in H. discriminate.
Qed.

(* AxisChunks::split_at before the fix: split_at 0 gives a left half with len() = 0 that
   yields one (empty) chunk; split_at(len) panics when the last chunk is short *)
Definition chunks_split_case (k : N) : case :=
  {| c_kind := KChunks; c_mut := false; c_shape := [7; 2]; c_strides := [2; 1]; c_a := 0; c_b := 3;
     c_hist := HSplit k HFold HFold; c_obs := OEnd 0; c_mut_ok := true |}.
Theorem axis_chunks_split_refuted :
  (valid_case (chunks_split_case 0) /\ model_obs true (chunks_split_case 0) <> spec_obs (chunks_split_case 0)) /\
  (valid_case (chunks_split_case 3) /\ model_obs true (chunks_split_case 3) = OPanic /\
   spec_obs (chunks_split_case 3) <> OPanic).
Proof.
  split; [split|split; [|split]].
  - split; [reflexivity|]. cbn. split; [lia|left; reflexivity].
  - vm_compute. discriminate.
  - split; [reflexivity|]. cbn. split; [lia|left; reflexivity].
  - vm_compute. reflexivity.
  - vm_compute. discriminate.
Qed.

(* C07-F2 (known, not fixed): next_back of a chunk iterator over an axis that is not a multiple
   of the chunk size returns the last chunk_size rows, not the last forward chunk.  This is the
   CURRENT code (model_obs false). *)
Definition chunks_back_case : case :=
  {| c_kind := KChunks; c_mut := false; c_shape := [7; 2]; c_strides := [2; 1]; c_a := 0; c_b := 3;
     c_hist := HBack HFold; c_obs := OEnd 0; c_mut_ok := true |}.
Theorem chunks_ragged_back_refuted :
  model_obs false chunks_back_case <> spec_obs chunks_back_case /\
  (* ... although every element is still yielded exactly once *)
  Permutation (concat (yielded (model_obs false chunks_back_case)))
              (logical_offsets [7; 2] [2; 1]).
Proof.
  split.
  - vm_compute. discriminate.
  - vm_compute.
    apply Permutation_trans with ([0; 1; 2; 3; 4; 5; 6; 7] ++ [8; 9; 10; 11; 12; 13]); [|reflexivity].
    apply (Permutation_app_comm [8; 9; 10; 11; 12; 13] [0; 1; 2; 3; 4; 5; 6; 7]).
Qed.
