(* C07 -- facts about the row-major offset list [rm]:
   * it is the image of the logical indices in lexicographic order ([logical_offsets]);
   * it is the image of 0..T under the mixed-radix decoding [doffs] (what
     offset_from_linear_index computes);
   * merge_axes does not change it; a contiguous layout has rm = 0..T. *)
From RV Require Import Prelude.
From Tensor Require Import Overlap.
From Iter Require Import ModelSpec ModelIter Spec_proofs.
Open Scope N_scope.

(* ------------------------------------------------------------------ flat_map helpers *)
Lemma flat_map_ext_in {A B} (f g : A -> list B) l :
  (forall x, In x l -> f x = g x) -> flat_map f l = flat_map g l.
Proof.
  induction l as [|x l IH]; intros H; cbn [flat_map]; [reflexivity|].
  rewrite H, IH; [reflexivity| |left; reflexivity]. intros y Hy. apply H. right. exact Hy.
Qed.

Lemma map_flat_map {A B C} (f : B -> C) (g : A -> list B) l :
  map f (flat_map g l) = flat_map (fun x => map f (g x)) l.
Proof. induction l as [|x l IH]; cbn [flat_map map]; [reflexivity|]. rewrite map_app, IH. reflexivity. Qed.

Lemma flat_map_flat_map {A B C} (f : B -> list C) (g : A -> list B) l :
  flat_map f (flat_map g l) = flat_map (fun x => flat_map f (g x)) l.
Proof.
  induction l as [|x l IH]; cbn [flat_map]; [reflexivity|]. rewrite flat_map_app, IH. reflexivity.
Qed.

Lemma flat_map_map {A B C} (f : B -> list C) (g : A -> B) l :
  flat_map f (map g l) = flat_map (fun x => f (g x)) l.
Proof. induction l as [|x l IH]; cbn [flat_map map]; [reflexivity|]. rewrite IH. reflexivity. Qed.

Lemma flat_map_nil {A B} (l : list A) : flat_map (fun _ => @nil B) l = [].
Proof. induction l; cbn [flat_map app]; auto. Qed.

Lemma nrange_0_shift b n : nrange b n = map (N.add b) (nrange 0 n).
Proof. rewrite <- nrange_shift. reflexivity. Qed.

(* 0 .. n*p  =  concat over i < n of  i*p .. i*p+p *)
Lemma range0_mul n p : range0 (n * p) = flat_map (fun i => nrange (i * p) (N.to_nat p)) (range0 n).
Proof.
  induction n as [|n IH] using N.peano_ind.
  - rewrite N.mul_0_l. reflexivity.
  - rewrite range0_succ, flat_map_app. cbn [flat_map]. rewrite app_nil_r, <- IH.
    unfold range0. replace (N.to_nat (N.succ n * p)) with (N.to_nat (n * p) + N.to_nat p)%nat by lia.
    rewrite nrange_app. rewrite N2Nat.id. reflexivity.
Qed.

(* ------------------------------------------------------------------ rm basics *)
Lemma rm_length dims : nlen (rm dims) = prod_sizes dims.
Proof.
  induction dims as [|[n st] r IH]; [reflexivity|].
  cbn [rm prod_sizes fold_right dsize dstride fst snd]. fold (prod_sizes r). rewrite <- IH.
  induction n as [|n IHn] using N.peano_ind; [reflexivity|].
  rewrite range0_succ, flat_map_app, nlen_app, IHn. cbn [flat_map]. rewrite app_nil_r, nlen_map. lia.
Qed.

Lemma rm_zero dims : is_empty dims = true -> rm dims = [].
Proof.
  intros H. apply nlen_zero. rewrite rm_length.
  induction dims as [|[n st] r IH]; [discriminate|].
  cbn [is_empty existsb dsize fst] in H. cbn [prod_sizes fold_right dsize fst]. fold (prod_sizes r).
  apply orb_true_iff in H as [H|H]; [apply N.eqb_eq in H; subst; lia|].
  unfold is_empty in IH. rewrite (IH H). lia.
Qed.

Lemma is_empty_prod dims : is_empty dims = true <-> prod_sizes dims = 0.
Proof.
  induction dims as [|[n st] r IH]; cbn [is_empty existsb prod_sizes fold_right dsize fst].
  - split; [discriminate|lia].
  - fold (prod_sizes r). fold (is_empty r). rewrite orb_true_iff, IH, N.eqb_eq. nia.
Qed.

(* rm of a suffix determines rm of the whole *)
Lemma rm_app_congr pre x y : rm x = rm y -> rm (pre ++ x) = rm (pre ++ y).
Proof. intros H. induction pre as [|d pre IH]; cbn [app rm]; [exact H|]. rewrite IH. reflexivity. Qed.

Lemma map_add_0 l : map (N.add 0) l = l.
Proof. induction l as [|x l IH]; cbn [map]; [reflexivity|]. rewrite IH, N.add_0_l. reflexivity. Qed.

(* a unit axis contributes nothing, whatever its stride *)
Lemma rm_unit st r : rm ((1, st) :: r) = rm r.
Proof.
  cbn [rm dsize dstride fst snd]. change (range0 1) with [0]. cbn [flat_map].
  rewrite app_nil_r, N.mul_0_l. apply map_add_0.
Qed.

(* ------------------------------------------------------------------ logical indices *)
Theorem logical_offsets_rm : forall shape strides, length shape = length strides ->
  logical_offsets shape strides = rm (combine shape strides).
Proof.
  unfold logical_offsets.
  induction shape as [|n shape IH]; intros strides Hl; destruct strides as [|st strides]; try discriminate.
  - reflexivity.
  - cbn [indices combine rm dsize dstride fst snd]. rewrite map_flat_map.
    apply flat_map_ext_in. intros i _. rewrite map_map. cbn [dot].
    rewrite <- IH by (cbn [length] in Hl; lia). rewrite map_map. reflexivity.
Qed.

(* ------------------------------------------------------------------ mixed-radix decoding *)
(* the offset of the element with linear index k: sum ((k / P_inner) mod n_d) * stride_d *)
Fixpoint doffs (dims : list dim) (k : N) : N :=
  match dims with
  | [] => 0
  | d :: r => doffs r k + ((k / prod_sizes r) mod dsize d) * dstride d
  end.

Lemma prod_sizes_cons d r : prod_sizes (d :: r) = dsize d * prod_sizes r.
Proof. reflexivity. Qed.
Lemma prod_sizes_app a b : prod_sizes (a ++ b) = prod_sizes a * prod_sizes b.
Proof.
  induction a as [|d a IH]; cbn [app]; [rewrite N.mul_1_l; reflexivity|].
  rewrite !prod_sizes_cons, IH. lia.
Qed.

(* only k mod T matters *)
Lemma doffs_add_mul dims : prod_sizes dims <> 0 -> forall k j, doffs dims (k + j * prod_sizes dims) = doffs dims k.
Proof.
  induction dims as [|d r IH]; intros Hnz k j; [reflexivity|].
  rewrite prod_sizes_cons in *. cbn [doffs].
  assert (Hr : prod_sizes r <> 0) by nia. assert (Hd : dsize d <> 0) by nia.
  replace (j * (dsize d * prod_sizes r)) with ((j * dsize d) * prod_sizes r) by lia.
  rewrite (IH Hr). rewrite N.div_add by exact Hr. rewrite N.mod_add by exact Hd. reflexivity.
Qed.

Theorem rm_doffs dims : rm dims = map (doffs dims) (range0 (prod_sizes dims)).
Proof.
  induction dims as [|d r IH].
  - reflexivity.
  - rewrite prod_sizes_cons, range0_mul, map_flat_map. cbn [rm].
    apply flat_map_ext_in. intros i Hi. apply In_range0 in Hi.
    rewrite IH, map_map. rewrite (nrange_0_shift (i * prod_sizes r)), map_map.
    apply map_ext_in. intros j Hj. apply In_range0 in Hj.
    assert (Hr : prod_sizes r <> 0) by lia.
    cbn [doffs]. replace (i * prod_sizes r + j) with (j + i * prod_sizes r) by lia.
    rewrite (doffs_add_mul r Hr), N.div_add by exact Hr.
    rewrite (N.div_small j) by exact Hj. rewrite N.add_0_l, N.mod_small by exact Hi. lia.
Qed.

(* ------------------------------------------------------------------ merge_axes *)
(* merging two adjacent axes (outer stride = inner stride * inner size, or outer size 1)
   keeps the offset sequence *)
Lemma rm_merge o i m :
  (dsize o =? 1) || (dstride o =? dstride i * dsize i) = true ->
  rm (o :: i :: m) = rm ((dsize i * dsize o, dstride i) :: m).
Proof.
  destruct o as [n1 s1], i as [n2 s2]. cbn [dsize dstride fst snd]. intros H.
  apply orb_true_iff in H as [H|H]; apply N.eqb_eq in H; subst.
  - rewrite rm_unit, N.mul_1_r. reflexivity.
  - cbn [rm dsize dstride fst snd].
    rewrite (N.mul_comm n2 n1), range0_mul, flat_map_flat_map.
    apply flat_map_ext_in. intros a _.
    rewrite map_flat_map. rewrite (nrange_0_shift (a * n2)). fold (range0 n2). rewrite flat_map_map.
    apply flat_map_ext_in. intros b _. rewrite map_map. apply map_ext. intros x. lia.
Qed.

Lemma prod_merge o i m :
  prod_sizes (o :: i :: m) = prod_sizes ((dsize i * dsize o, dstride i) :: m).
Proof. rewrite !prod_sizes_cons. cbn [dsize fst]. lia. Qed.

Lemma merge_loop_rm : forall rdims merged, merged <> [] ->
  rm (merge_loop rdims merged) = rm (rev rdims ++ merged) /\
  prod_sizes (merge_loop rdims merged) = prod_sizes (rev rdims ++ merged).
Proof.
  induction rdims as [|o r IH]; intros merged Hne; cbn [merge_loop rev app]; [split; reflexivity|].
  destruct merged as [|i m]; [congruence|].
  rewrite <- app_assoc. cbn [app].
  destruct ((dsize o =? 1) || (dstride o =? dstride i * dsize i)) eqn:E.
  - destruct (IH ((dsize i * dsize o, dstride i) :: m)) as [H1 H2]; [discriminate|].
    rewrite H1, H2. split.
    + apply rm_app_congr. symmetry. apply rm_merge. exact E.
    + rewrite !prod_sizes_app. f_equal. symmetry. apply prod_merge.
  - destruct (IH (o :: i :: m)) as [H1 H2]; [discriminate|]. rewrite H1, H2. split; reflexivity.
Qed.

Theorem merge_axes_preserves_order dims :
  rm (merge_axes dims) = rm dims /\ prod_sizes (merge_axes dims) = prod_sizes dims.
Proof.
  unfold merge_axes. destruct (rev dims) as [|d r] eqn:E.
  - assert (dims = []) by (rewrite <- (rev_involutive dims), E; reflexivity). subst. split; reflexivity.
  - destruct (merge_loop_rm r [d]) as [H1 H2]; [discriminate|].
    assert (Ed : dims = rev r ++ [d]) by (rewrite <- (rev_involutive dims), E; reflexivity).
    rewrite H1, H2, Ed. split; reflexivity.
Qed.

(* ------------------------------------------------------------------ contiguous layouts *)
Fixpoint contigP (dims : list dim) : Prop :=
  match dims with
  | [] => True
  | d :: r => (dsize d = 1 \/ dstride d = prod_sizes r) /\ contigP r
  end.

Definition oprod (l : list Overlap.dim) : N := fold_right (fun d acc => d_size d * acc) 1 l.
Lemma oprod_app a b : oprod (a ++ b) = oprod a * oprod b.
Proof.
  induction a as [|d a IH]; cbn [app].
  - change (oprod []) with 1. lia.
  - change (oprod (d :: a ++ b)) with (d_size d * oprod (a ++ b)).
    change (oprod (d :: a)) with (d_size d * oprod a). rewrite IH. lia.
Qed.
Lemma oprod_rev a : oprod (rev a) = oprod a.
Proof.
  induction a as [|d a IH]; [reflexivity|]. cbn [rev]. rewrite oprod_app, IH.
  change (oprod [d]) with (d_size d * 1). change (oprod (d :: a)) with (d_size d * oprod a). lia.
Qed.
Lemma oprod_flip dims : oprod (flip_dims dims) = prod_sizes dims.
Proof.
  induction dims as [|d r IH]; [reflexivity|].
  change (oprod (flip_dims (d :: r))) with (dsize d * oprod (flip_dims r)). rewrite IH. reflexivity.
Qed.

Lemma contig_aux_app l1 l2 acc :
  contig_aux false (l1 ++ l2) acc = contig_aux false l1 acc && contig_aux false l2 (acc * oprod l1).
Proof.
  revert acc; induction l1 as [|d l1 IH]; intros acc; cbn [app contig_aux oprod fold_right].
  - rewrite N.mul_1_r. reflexivity.
  - fold (oprod l1). destruct (d_size d =? 1) eqn:E1.
    + apply N.eqb_eq in E1. rewrite IH, E1, N.mul_1_l. reflexivity.
    + destruct (d_stride d =? acc); [|reflexivity]. cbn [wr]. rewrite IH. do 2 f_equal. lia.
Qed.

Lemma is_contiguous_contigP dims : Overlap.is_contiguous false (flip_dims dims) = true -> contigP dims.
Proof.
  unfold Overlap.is_contiguous.
  induction dims as [|d r IH]; intros H; cbn [contigP]; [exact I|].
  cbn [flip_dims map rev] in H. fold (flip_dims r) in H.
  rewrite contig_aux_app in H. apply andb_true_iff in H as [Hr Hd]. split; [|apply IH; exact Hr].
  rewrite N.mul_1_l, oprod_rev, oprod_flip in Hd.
  cbn [contig_aux d_size d_stride fst snd] in Hd.
  destruct (dsize d =? 1) eqn:E1; [left; apply N.eqb_eq; exact E1|].
  destruct (dstride d =? prod_sizes r) eqn:E2; [right; apply N.eqb_eq; exact E2|discriminate].
Qed.

Lemma contigP_rm dims : contigP dims -> rm dims = range0 (prod_sizes dims).
Proof.
  induction dims as [|d r IH]; intros H; [reflexivity|].
  destruct H as [Hd Hr]. specialize (IH Hr). destruct d as [n st]. cbn [dsize dstride fst snd] in Hd.
  rewrite prod_sizes_cons. cbn [dsize fst].
  destruct Hd as [->| ->].
  - rewrite rm_unit, N.mul_1_l. exact IH.
  - rewrite range0_mul. cbn [rm dsize dstride fst snd]. apply flat_map_ext_in. intros i _.
    rewrite IH. unfold range0. rewrite <- nrange_shift. f_equal; lia.
Qed.

Lemma contigP_min_data_len dims : contigP dims -> min_data_len dims = prod_sizes dims.
Proof.
  intros H. unfold min_data_len. fold (is_empty dims).
  destruct (is_empty dims) eqn:E.
  - symmetry. apply is_empty_prod. exact E.
  - induction dims as [|d r IH]; [reflexivity|].
    destruct H as [Hd Hr]. cbn [is_empty existsb] in E. apply orb_false_iff in E as [E1 E2].
    apply N.eqb_neq in E1. fold (is_empty r) in E2. specialize (IH Hr E2).
    cbn [fold_right]. rewrite prod_sizes_cons.
    assert (Hp : prod_sizes r <> 0).
    { intros Hz. apply is_empty_prod in Hz. congruence. }
    destruct Hd as [Hd|Hd]; rewrite Hd; nia.
Qed.

Theorem contiguous_range dims : Overlap.is_contiguous false (flip_dims dims) = true ->
  rm dims = range0 (min_data_len dims).
Proof.
  intros H. apply is_contiguous_contigP in H.
  rewrite (contigP_min_data_len _ H). apply contigP_rm. exact H.
Qed.
