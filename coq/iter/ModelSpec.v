(* C07 -- specification side, shared by every iterator kind.

   * row-major offsets of a layout ([rm], and the index-space definition [logical_offsets]);
   * consumption histories [hist] (a tree: [HSplit] forks the iterator);
   * the DEQUE SPECIFICATION [run_spec]: what a history must observe when the iterator is
     nothing but the list of its remaining items;
   * a generic runner [run_impl] for an executable iterator model given as a dictionary of
     operations ([iface]).

   Executable definitions only. *)
From RV Require Import Prelude.
Open Scope N_scope.

(* ---- lists indexed by N (histories may contain nth(usize::MAX)) ---- *)
Fixpoint nrange (a : N) (n : nat) : list N :=
  match n with O => [] | S m => a :: nrange (N.succ a) m end.
Definition range0 (n : N) : list N := nrange 0 (N.to_nat n).

Definition nlen {A} (l : list A) : N := N.of_nat (length l).
Fixpoint ndrop {A} (k : N) (l : list A) : list A :=
  match l with
  | [] => []
  | _ :: t => if k =? 0 then l else ndrop (N.pred k) t
  end.
Fixpoint ntake {A} (k : N) (l : list A) : list A :=
  match l with
  | [] => []
  | x :: t => if k =? 0 then [] else x :: ntake (N.pred k) t
  end.

(* ---- layouts: dimensions (size, stride), outermost first ---- *)
Definition dim := (N * N)%type.
Definition dsize (d : dim) : N := fst d.
Definition dstride (d : dim) : N := snd d.

(* storage offsets of all elements, in row-major order of the index space *)
Fixpoint rm (dims : list dim) : list N :=
  match dims with
  | [] => [0]
  | d :: r => flat_map (fun i => map (N.add (i * dstride d)) (rm r)) (range0 (dsize d))
  end.

(* the same through explicit logical indices: all indices in lexicographic (row-major)
   order, each mapped to its offset  sum idx_k * stride_k *)
Fixpoint indices (shape : list N) : list (list N) :=
  match shape with
  | [] => [[]]
  | n :: r => flat_map (fun i => map (cons i) (indices r)) (range0 n)
  end.
Fixpoint dot (idx strides : list N) : N :=
  match idx, strides with
  | i :: ir, s :: sr => i * s + dot ir sr
  | _, _ => 0
  end.
Definition logical_offsets (shape strides : list N) : list N :=
  map (fun idx => dot idx strides) (indices shape).

Definition prod_sizes (dims : list dim) : N := fold_right (fun d acc => dsize d * acc) 1 dims.

(* ---- histories and observations ---- *)
Inductive hist :=
| HEnd                         (* drop the iterator; observe len() *)
| HNext (h : hist)
| HBack (h : hist)             (* next_back *)
| HNth (k : N) (h : hist)
| HFold                        (* for_each / fold the remainder *)
| HRFold                       (* rev().for_each: drain with next_back *)
| HPar                         (* into_par_iter().map().collect(): rayon picks a split tree *)
| HSplit (k : N) (l r : hist). (* SplitIterator::split_at k, continue on both halves *)

Inductive obs (A : Type) :=
| OEnd (len : N)
| OStep (x : option A) (len : N) (r : obs A)   (* yielded item, len() after the call *)
| OFold (l : list A)
| OSplit (l r : obs A)
| OPanic                                       (* the call panicked *)
| OStuck.                                      (* model only: ran out of fuel (never, by theorem) *)
Arguments OEnd {A}. Arguments OStep {A}. Arguments OFold {A}. Arguments OSplit {A}.
Arguments OPanic {A}. Arguments OStuck {A}.

(* ---- the deque specification ---- *)
Fixpoint run_spec {A} (h : hist) (l : list A) : obs A :=
  match h with
  | HEnd => OEnd (nlen l)
  | HNext h' =>
      match l with
      | [] => OStep None 0 (run_spec h' [])
      | x :: t => OStep (Some x) (nlen t) (run_spec h' t)
      end
  | HBack h' =>
      match rev l with
      | [] => OStep None 0 (run_spec h' [])
      | x :: t => OStep (Some x) (nlen t) (run_spec h' (rev t))
      end
  | HNth k h' =>
      let d := ndrop k l in
      OStep (hd_error d) (nlen (tl d)) (run_spec h' (tl d))
  | HFold => OFold l
  | HPar => OFold l
  | HRFold => OFold (rev l)
  | HSplit k a b =>
      if k <=? nlen l then OSplit (run_spec a (ntake k l)) (run_spec b (ndrop k l)) else OPanic
  end.

(* ---- executable iterator models ---- *)
Record iface (St A : Type) := {
  i_next : St -> option A * St;
  i_back : St -> option A * St;
  i_nth : N -> St -> option (option A * St);   (* None: out of fuel *)
  i_len : St -> N;
  i_split : N -> St -> option (St * St);       (* None: the call panics *)
  i_fold : St -> option (list A);           (* None: out of fuel *)
}.
Arguments i_next {St A}. Arguments i_back {St A}. Arguments i_nth {St A}.
Arguments i_len {St A}. Arguments i_split {St A}. Arguments i_fold {St A}.

(* rev().for_each = call next_back until it returns None *)
Fixpoint rdrain {St A} (I : iface St A) (fuel : nat) (s : St) : option (list A) :=
  match fuel with
  | O => None
  | S f =>
      match i_back I s with
      | (None, _) => Some []
      | (Some x, s') => match rdrain I f s' with Some l => Some (x :: l) | None => None end
      end
  end.

Fixpoint run_impl {St A} (I : iface St A) (h : hist) (s : St) : obs A :=
  match h with
  | HEnd => OEnd (i_len I s)
  | HNext h' => let (x, s') := i_next I s in OStep x (i_len I s') (run_impl I h' s')
  | HBack h' => let (x, s') := i_back I s in OStep x (i_len I s') (run_impl I h' s')
  | HNth k h' =>
      match i_nth I k s with
      | Some (x, s') => OStep x (i_len I s') (run_impl I h' s')
      | None => OStuck
      end
  | HFold => match i_fold I s with Some l => OFold l | None => OStuck end
  | HPar => match i_fold I s with Some l => OFold l | None => OStuck end
  | HRFold => match rdrain I (S (N.to_nat (i_len I s))) s with Some l => OFold l | None => OStuck end
  | HSplit k a b =>
      match i_split I k s with
      | Some (l, r) => OSplit (run_impl I a l) (run_impl I b r)
      | None => OPanic
      end
  end.

(* Iterator::nth as the standard library defines it when not overridden:
   advance_by(k) (stop at the first None), then next() *)
Fixpoint nth_default {St A} (next : St -> option A * St) (fuel : nat) (k : N) (s : St)
  : option (option A * St) :=
  if k =? 0 then Some (next s)
  else match fuel with
       | O => None
       | S f =>
           match next s with
           | (None, s') => Some (None, s')
           | (Some _, s') => nth_default next f (N.pred k) s'
           end
       end.

(* Iterator::fold when not overridden: call next until it returns None *)
Fixpoint fdrain {St A} (next : St -> option A * St) (fuel : nat) (s : St) : option (list A) :=
  match fuel with
  | O => None
  | S f =>
      match next s with
      | (None, _) => Some []
      | (Some x, s') => match fdrain next f s' with Some l => Some (x :: l) | None => None end
      end
  end.

(* items transformed by a function (Lanes over LaneRanges over Offsets, ...) *)
Definition omap {A B} (f : A -> B) (x : option A) : option B :=
  match x with Some a => Some (f a) | None => None end.
Definition map_iface {St A B} (f : A -> B) (I : iface St A) : iface St B := {|
  i_next := fun s => let (x, s') := i_next I s in (omap f x, s');
  i_back := fun s => let (x, s') := i_back I s in (omap f x, s');
  i_nth := fun k s => match i_nth I k s with Some (x, s') => Some (omap f x, s') | None => None end;
  i_len := i_len I;
  i_split := i_split I;
  i_fold := fun s => match i_fold I s with Some l => Some (map f l) | None => None end;
|}.

(* ---- decidable equality of observations over items of type list N ---- *)
Fixpoint list_eqb {A} (eq : A -> A -> bool) (a b : list A) : bool :=
  match a, b with
  | [], [] => true
  | x :: a', y :: b' => eq x y && list_eqb eq a' b'
  | _, _ => false
  end.
Definition item_eqb : list N -> list N -> bool := list_eqb N.eqb.
Definition oitem_eqb (a b : option (list N)) : bool :=
  match a, b with
  | None, None => true
  | Some x, Some y => item_eqb x y
  | _, _ => false
  end.
Fixpoint obs_eqb (a b : obs (list N)) : bool :=
  match a, b with
  | OEnd l1, OEnd l2 => l1 =? l2
  | OStep x1 l1 r1, OStep x2 l2 r2 => oitem_eqb x1 x2 && (l1 =? l2) && obs_eqb r1 r2
  | OFold l1, OFold l2 => list_eqb item_eqb l1 l2
  | OSplit a1 b1, OSplit a2 b2 => obs_eqb a1 a2 && obs_eqb b1 b2
  | OPanic, OPanic => true
  | _, _ => false          (* OStuck never equals anything, not even itself *)
  end.
