(* C07 -- AxisChunks / AxisChunksMut (after the split_at fix) refine the deque of forward chunks:
   for every history without next_back, and for every history at all when the chunk size
   divides the axis size.  (For a ragged axis next_back cuts chunk_size rows from the back,
   which is not the last forward chunk: known finding C07-F2.) *)
From RV Require Import Prelude.
From Tensor Require Import Overlap.
From Iter Require Import ModelSpec ModelIter Spec_proofs Rm_proofs.
Open Scope N_scope.

Section ChunkRanges.
  Context (cs : N) (Hcs : 1 <= cs).

  Lemma chunk_ranges_zero f st : chunk_ranges f st 0 cs = [].
  Proof. destruct f; reflexivity. Qed.

  Lemma chunk_ranges_fuel : forall f1 f2 st n, n <= N.of_nat f1 -> n <= N.of_nat f2 ->
    chunk_ranges f1 st n cs = chunk_ranges f2 st n cs.
  Proof.
    induction f1 as [|f1 IH]; intros f2 st n H1 H2.
    - replace n with 0 by lia. rewrite !chunk_ranges_zero. reflexivity.
    - destruct f2 as [|f2].
      + replace n with 0 by lia. rewrite !chunk_ranges_zero. reflexivity.
      + cbn [chunk_ranges]. destruct (n =? 0) eqn:E; [reflexivity|]. apply N.eqb_neq in E.
        f_equal. apply IH; lia.
  Qed.

  Lemma chunk_ranges_step f st n : 0 < n -> n <= N.of_nat f ->
    chunk_ranges f st n cs = (st, N.min cs n) :: chunk_ranges f (st + N.min cs n) (n - N.min cs n) cs.
  Proof.
    intros Hn Hf. destruct f as [|f]; [lia|].
    change (chunk_ranges (S f) st n cs) with
      (if n =? 0 then [] else (st, N.min cs n) :: chunk_ranges f (st + N.min cs n) (n - N.min cs n) cs).
    destruct (n =? 0) eqn:E; [apply N.eqb_eq in E; lia|]. f_equal.
    apply chunk_ranges_fuel; lia.
  Qed.

  Lemma chunk_ranges_shift : forall f st d n,
    chunk_ranges f (st + d) n cs = map (fun c => (fst c + d, snd c)) (chunk_ranges f st n cs).
  Proof.
    induction f as [|f IH]; intros st d n; [reflexivity|]. cbn [chunk_ranges].
    destruct (n =? 0); [reflexivity|]. cbn [map fst snd]. f_equal.
    replace (st + d + N.min cs n) with (st + N.min cs n + d) by lia. apply IH.
  Qed.

  Lemma div_ceil_step n : 0 < n -> div_ceil n cs = div_ceil (n - N.min cs n) cs + 1.
  Proof.
    intros Hn. unfold div_ceil. destruct (N.le_gt_cases n cs) as [H|H].
    - replace (n - N.min cs n) with 0 by lia.
      replace (0 + cs - 1) with (cs - 1) by lia. rewrite (N.div_small (cs - 1)) by lia.
      replace (n + cs - 1) with ((n - 1) + 1 * cs) by lia. rewrite N.div_add by lia.
      rewrite N.div_small by lia. reflexivity.
    - replace (N.min cs n) with cs by lia.
      replace (n + cs - 1) with ((n - cs + cs - 1) + 1 * cs) by lia. rewrite N.div_add by lia. reflexivity.
  Qed.

  Lemma div_ceil_zero : div_ceil 0 cs = 0.
  Proof. unfold div_ceil. apply N.div_small. lia. Qed.

  Lemma chunk_ranges_len : forall f st n, n <= N.of_nat f -> nlen (chunk_ranges f st n cs) = div_ceil n cs.
  Proof.
    induction f as [|f IH]; intros st n Hf.
    - replace n with 0 by lia. rewrite div_ceil_zero. reflexivity.
    - cbn [chunk_ranges]. destruct (n =? 0) eqn:E.
      + apply N.eqb_eq in E. subst. rewrite div_ceil_zero. reflexivity.
      + apply N.eqb_neq in E. rewrite nlen_cons, IH by lia. symmetry. apply div_ceil_step. lia.
  Qed.

  (* the first k full chunks, then the rest *)
  Lemma chunk_ranges_split f : forall k st n, cs * k <= n -> n <= N.of_nat f ->
    chunk_ranges f st n cs = chunk_ranges f st (cs * k) cs ++ chunk_ranges f (st + cs * k) (n - cs * k) cs.
  Proof.
    induction k as [|k IH] using N.peano_ind; intros st n Hk Hf.
    - rewrite N.mul_0_r, chunk_ranges_zero, N.add_0_r, N.sub_0_r. reflexivity.
    - assert (Hn : cs <= n) by nia.
      rewrite (chunk_ranges_step f st n) by lia.
      rewrite (chunk_ranges_step f st (cs * N.succ k)) by nia.
      replace (N.min cs n) with cs by lia. replace (N.min cs (cs * N.succ k)) with cs by nia.
      cbn [app]. f_equal.
      replace (cs * N.succ k - cs) with (cs * k) by nia.
      rewrite (IH (st + cs) (n - cs)) by nia. f_equal. f_equal; nia.
  Qed.

  Lemma div_ceil_mul k : div_ceil (cs * k) cs = k.
  Proof.
    unfold div_ceil. replace (cs * k + cs - 1) with ((cs - 1) + k * cs) by nia.
    rewrite N.div_add by lia. rewrite N.div_small by lia. reflexivity.
  Qed.

  Lemma div_ceil_le_mul n k : k < div_ceil n cs -> cs * k < n.
  Proof.
    unfold div_ceil. intros H.
    destruct (N.le_gt_cases n (cs * k)) as [Hle|]; [|assumption]. exfalso.
    assert ((n + cs - 1) / cs < k + 1); [|lia].
    apply N.div_lt_upper_bound; [lia|]. nia.
  Qed.
  Lemma div_ceil_ge n : n <= cs * div_ceil n cs.
  Proof.
    unfold div_ceil. pose proof (N.div_mod (n + cs - 1) cs). pose proof (N.mod_lt (n + cs - 1) cs). lia.
  Qed.
End ChunkRanges.

Section Chunks.
  Context (dims : list dim) (axis : nat) (stride cs : N) (Hcs : 1 <= cs).
  (* a property of the remaining axis size that every operation preserves: either nothing,
     or "chunk_size divides it" *)
  Context (P : N -> Prop) (P_mul : forall k, P (cs * k)) (P_sub : forall n k, P n -> cs * k <= n -> P (n - cs * k)).

  Definition chunk_item (base : N) (c : N * N) : list N :=
    ac_item dims axis stride (base + fst c * stride) (snd c).
  Definition chunks_of (base n : N) : list (list N) :=
    map (chunk_item base) (chunk_ranges (N.to_nat n) 0 n cs).
  Definition ac_abs (s : ChunksSt) : list (list N) :=
    match s with None => [] | Some (base, n) => chunks_of base n end.
  Definition ac_inv (s : ChunksSt) : Prop :=
    match s with None => True | Some (_, n) => 0 < n /\ P n end.

  Lemma chunks_of_zero base : chunks_of base 0 = [].
  Proof. reflexivity. Qed.

  Lemma ac_some_abs base n : ac_abs (ac_some base n) = chunks_of base n.
  Proof.
    unfold ac_some. destruct (0 <? n) eqn:E; [reflexivity|].
    apply N.ltb_ge in E. replace n with 0 by lia. reflexivity.
  Qed.
  Lemma ac_some_inv base n : P n -> ac_inv (ac_some base n).
  Proof.
    intros Hp. unfold ac_some. destruct (0 <? n) eqn:E; [|exact I]. apply N.ltb_lt in E. split; assumption.
  Qed.

  Lemma chunks_of_step base n : 0 < n ->
    chunks_of base n = ac_item dims axis stride base (N.min cs n) :: chunks_of (base + N.min cs n * stride) (n - N.min cs n).
  Proof.
    intros Hn. unfold chunks_of. rewrite (chunk_ranges_step cs Hcs _ 0 n) by lia.
    cbn [map]. f_equal.
    - unfold chunk_item. cbn [fst snd]. f_equal. lia.
    - rewrite (chunk_ranges_fuel cs Hcs (N.to_nat n) (N.to_nat (n - N.min cs n))) by lia.
      rewrite (chunk_ranges_shift cs Hcs _ 0 (N.min cs n)), map_map. apply map_ext. intros c.
      unfold chunk_item. cbn [fst snd]. f_equal. lia.
  Qed.

  Lemma chunks_of_split base n k : cs * k <= n ->
    chunks_of base n = chunks_of base (cs * k) ++ chunks_of (base + cs * k * stride) (n - cs * k).
  Proof.
    intros Hk. unfold chunks_of.
    rewrite (chunk_ranges_split cs Hcs _ k 0 n) by lia. rewrite map_app, N.add_0_l. f_equal.
    - f_equal. apply chunk_ranges_fuel; [exact Hcs|lia|lia].
    - rewrite (chunk_ranges_fuel cs Hcs (N.to_nat n) (N.to_nat (n - cs * k)) (cs * k) (n - cs * k)) by lia.
      pose proof (chunk_ranges_shift cs Hcs (N.to_nat (n - cs * k)) 0 (cs * k) (n - cs * k)) as Hsh.
      rewrite N.add_0_l in Hsh. rewrite Hsh, map_map.
      apply map_ext. intros c. unfold chunk_item. cbn [fst snd]. f_equal. lia.
  Qed.

  Lemma chunks_of_len base n : nlen (chunks_of base n) = div_ceil n cs.
  Proof. unfold chunks_of. rewrite nlen_map. apply chunk_ranges_len; [exact Hcs|lia]. Qed.

  Lemma ac_len_abs s : ac_len cs s = nlen (ac_abs s).
  Proof. destruct s as [[base n]|]; cbn [ac_len ac_abs]; [symmetry; apply chunks_of_len|reflexivity]. Qed.

  Lemma ac_next_ok s x s' : ac_inv s -> ac_next dims axis stride cs s = (x, s') ->
    x = hd_error (ac_abs s) /\ ac_abs s' = tl (ac_abs s) /\ ac_inv s'.
  Proof.
    destruct s as [[base n]|]; cbn [ac_inv ac_next ac_abs]; intros Hi E; injection E as Ex Es; subst x s'.
    - destruct Hi as [Hn Hp]. rewrite (chunks_of_step base n Hn). cbn [hd_error tl].
      rewrite ac_some_abs. split; [reflexivity|split; [reflexivity|]].
      apply ac_some_inv. destruct (N.le_gt_cases cs n) as [H|H].
      + replace (N.min cs n) with (cs * 1) by lia. apply P_sub; [exact Hp|lia].
      + replace (n - N.min cs n) with (cs * 0) by lia. apply P_mul.
    - cbn. auto.
  Qed.

  Theorem ac_refines_fwd : refines_fwd (ac_iface false dims axis stride cs) ac_inv ac_abs.
  Proof.
    constructor.
    - intros s x s' Hi E. apply ac_next_ok; assumption.
    - intros k s Hi. cbn [ac_iface i_nth].
      apply (nth_default_refines _ ac_inv ac_abs ac_next_ok); [exact Hi|].
      pose proof (ac_len_abs s) as H. unfold nlen in H. lia.
    - intros s Hi. apply ac_len_abs.
    - intros s Hi. cbn [ac_iface i_fold].
      apply (fdrain_refines _ ac_inv ac_abs ac_next_ok); [exact Hi|].
      pose proof (ac_len_abs s) as H. unfold nlen in H. lia.
  Qed.

  Theorem ac_refines_split : refines_split (ac_iface false dims axis stride cs) ac_inv ac_abs.
  Proof.
    constructor.
    - intros k s Hi Hk. cbn [ac_iface i_split]. unfold ac_split.
      rewrite <- ac_len_abs in Hk.
      assert (E : (k <=? ac_len cs s) = true) by (apply N.leb_le; exact Hk). rewrite E.
      destruct s as [[base n]|].
      + destruct Hi as [Hn Hp]. cbn [ac_len] in Hk. eexists _, _. split; [reflexivity|].
        rewrite !ac_some_abs. cbn [ac_abs].
        destruct (N.eq_dec k (div_ceil n cs)) as [Ek|Ek].
        * (* everything goes left *)
          assert (Hmid : N.min (cs * k) n = n).
          { pose proof (div_ceil_ge cs Hcs n). subst k. lia. }
          rewrite Hmid, N.sub_diag, chunks_of_zero.
          rewrite ntake_firstn, ndrop_skipn.
          pose proof (chunks_of_len base n) as Hlen. unfold nlen in Hlen.
          rewrite firstn_all2, skipn_all2 by lia.
          split; [reflexivity|split; [reflexivity|]].
          split; apply ac_some_inv; [exact Hp|]. replace 0 with (cs * 0) by lia. apply P_mul.
        * assert (Hlt : cs * k < n) by (apply (div_ceil_le_mul cs Hcs); lia).
          replace (N.min (cs * k) n) with (cs * k) by lia.
          rewrite (chunks_of_split base n k) by lia.
          assert (Hl1 : length (chunks_of base (cs * k)) = N.to_nat k).
          { pose proof (chunks_of_len base (cs * k)) as H. rewrite (div_ceil_mul cs Hcs) in H. unfold nlen in H. lia. }
          rewrite ntake_firstn, ndrop_skipn, firstn_app, skipn_app, Hl1, Nat.sub_diag.
          rewrite firstn_all2, skipn_all2 by lia. cbn [firstn skipn app]. rewrite app_nil_r.
          split; [reflexivity|split; [reflexivity|]].
          split; apply ac_some_inv; [apply P_mul|apply P_sub; [exact Hp|lia]].
      + eexists _, _. split; [reflexivity|]. cbn [ac_abs ntake ndrop ac_inv]. auto.
    - intros k s Hi Hk. cbn [ac_iface i_split]. unfold ac_split. rewrite <- ac_len_abs in Hk.
      assert (E : (k <=? ac_len cs s) = false) by (apply N.leb_gt; exact Hk). rewrite E. reflexivity.
  Qed.
End Chunks.

(* next_back: only when the chunk size divides the remaining axis size *)
Section ChunksBack.
  Context (dims : list dim) (axis : nat) (stride cs : N) (Hcs : 1 <= cs).
  Definition divides (n : N) : Prop := n mod cs = 0.

  Lemma divides_mul k : divides (cs * k).
  Proof. unfold divides. rewrite N.mul_comm. apply N.mod_mul. lia. Qed.
  Lemma divides_sub n k : divides n -> cs * k <= n -> divides (n - cs * k).
  Proof.
    unfold divides. intros H Hk. apply N.mod_divide in H; [|lia]. destruct H as [q Hq]. subst n.
    replace (q * cs - cs * k) with ((q - k) * cs) by nia. apply N.mod_mul. lia.
  Qed.

  Theorem ac_refines_back : refines_back (ac_iface false dims axis stride cs) (ac_inv divides) (ac_abs dims axis stride cs).
  Proof.
    intros s x s' Hi E. cbn [ac_iface i_back] in E.
    destruct s as [[base n]|]; cbn [ac_inv ac_back ac_abs] in *; injection E as Ex Es; subst x s'.
    - destruct Hi as [Hn Hd]. unfold divides in Hd.
      apply N.mod_divide in Hd; [|lia]. destruct Hd as [q Hq].
      assert (Hq1 : 1 <= q) by nia.
      assert (Hmin : N.min cs n = cs) by nia. rewrite Hmin.
      assert (Hsplit : chunks_of dims axis stride cs base n =
                       chunks_of dims axis stride cs base (n - cs) ++ [ac_item dims axis stride (base + (n - cs) * stride) cs]).
      { rewrite chunks_of_split with (k := q - 1) by (try exact Hcs; nia).
        replace (cs * (q - 1)) with (n - cs) by nia. f_equal.
        replace (n - (n - cs)) with cs by nia.
        rewrite chunks_of_step by (try exact Hcs; lia).
        rewrite N.min_id, N.sub_diag, chunks_of_zero. reflexivity. }
      rewrite Hsplit, rev_app_distr. cbn [rev app hd_error tl]. rewrite rev_involutive, ac_some_abs.
      split; [reflexivity|split; [reflexivity|]].
      apply ac_some_inv. replace (n - cs) with (n - cs * 1) by lia. apply divides_sub; [|lia].
      + unfold divides. subst n. apply N.mod_mul. lia.
      + exact Hcs.
    - cbn. auto.
  Qed.
End ChunksBack.

(* the forward chunks of a fresh iterator are the specified chunks *)
Lemma spec_chunks_abs dims axis cs : 1 <= cs ->
  let d := nth axis dims (0, 0) in
  spec_chunks dims axis cs = ac_abs dims axis (dstride d) cs (ac_new (dsize d)).
Proof.
  intros Hcs d. unfold ac_new. rewrite ac_some_abs. unfold spec_chunks, chunks_of. fold d.
  - apply map_ext. intros c. unfold chunk_item, ac_item. rewrite N.add_0_l. reflexivity.
  - exact Hcs.
Qed.

Theorem chunks_history : forall h dims axis cs, 1 <= cs ->
  let d := nth axis dims (0, 0) in
  has_back h = false \/ dsize d mod cs = 0 ->
  run_impl (ac_iface false dims axis (dstride d) cs) h (ac_new (dsize d)) = run_spec h (spec_chunks dims axis cs).
Proof.
  intros h dims axis cs Hcs d Hb. rewrite (spec_chunks_abs dims axis cs Hcs). fold d.
  destruct Hb as [Hb|Hd].
  - apply (history_refines_gen _ (ac_inv (fun _ => True)) (ac_abs dims axis (dstride d) cs)).
    + apply ac_refines_fwd; auto.
    + apply ac_some_inv. exact I.
    + left. exact Hb.
    + right. apply ac_refines_split; auto.
  - apply (history_refines_gen _ (ac_inv (divides cs)) (ac_abs dims axis (dstride d) cs)).
    + apply ac_refines_fwd; [exact Hcs|apply divides_mul; exact Hcs|apply divides_sub; exact Hcs].
    + apply ac_some_inv. exact Hd.
    + right. apply ac_refines_back. exact Hcs.
    + right. apply ac_refines_split; [exact Hcs|apply divides_mul; exact Hcs|apply divides_sub; exact Hcs].
Qed.
