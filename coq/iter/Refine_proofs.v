(* C07 -- Offsets (Range fast path / Indexing path) refines the deque of row-major offsets;
   Iter, Lanes, InnerIter by composition; AxisIter and Lane directly. *)
From RV Require Import Prelude.
From Tensor Require Import Overlap.
From Iter Require Import ModelSpec ModelIter Spec_proofs Rm_proofs Offsets_proofs Fold_proofs.
Open Scope N_scope.

(* ------------------------------------------------------------------ Offsets *)
Definition off_inv (o : Offsets) : Prop :=
  match o with ORange a b => a <= b | OIndexing s => ob_inv s end.
Definition off_abs (o : Offsets) : list N :=
  match o with ORange a b => nrange a (N.to_nat (b - a)) | OIndexing s => ob_abs s end.

Lemma off_len o : off_inv o -> offsets_len o = nlen (off_abs o).
Proof.
  destruct o as [a b|s]; cbn [off_inv off_abs offsets_len]; intros H.
  - rewrite nlen_nrange. lia.
  - rewrite ob_abs_len. reflexivity.
Qed.

Theorem offsets_refines_fwd : refines_fwd (offsets_iface false) off_inv off_abs.
Proof.
  constructor.
  - (* next *)
    intros [a b|s] x o' Hi E; cbn [offsets_iface i_next offsets_next off_inv off_abs] in *.
    + destruct (a <? b) eqn:Eab; inversion E; subst; clear E.
      * apply N.ltb_lt in Eab. replace (N.to_nat (b - a)) with (S (N.to_nat (b - (a + 1)))) by lia.
        cbn [nrange hd_error tl off_abs off_inv]. rewrite N.add_1_r. split; [reflexivity|split; [reflexivity|lia]].
      * apply N.ltb_ge in Eab. cbn [off_abs off_inv]. replace (b - a) with 0 by lia. cbn. auto.
    + destruct (ob_next s) as [y s'] eqn:En. inversion E; subst.
      destruct (ob_next_refines _ _ _ Hi En) as (Hx & Ha & Hi'). cbn [off_abs off_inv]. auto.
  - (* nth *)
    intros k [a b|s] Hi; cbn [offsets_iface i_nth offsets_nth off_inv off_abs] in *.
    + destruct (a + k <? b) eqn:E.
      * apply N.ltb_lt in E. eexists _, _. split; [reflexivity|].
        rewrite ndrop_nrange by lia.
        replace (N.to_nat (b - a) - N.to_nat k)%nat with (S (N.to_nat (b - (a + k + 1)))) by lia.
        cbn [nrange hd_error tl off_abs off_inv]. rewrite N.add_1_r.
        split; [reflexivity|split; [reflexivity|lia]].
      * apply N.ltb_ge in E. eexists _, _. split; [reflexivity|].
        rewrite ndrop_all by (rewrite nlen_nrange; lia).
        cbn [hd_error tl off_abs off_inv]. rewrite N.sub_diag. cbn. split; [reflexivity|split; [reflexivity|lia]].
    + destruct (ob_step_by_refines s k Hi) as (Ha & Hi2).
      destruct (ob_next (ob_step_by s k)) as [y s'] eqn:En.
      destruct (ob_next_refines _ _ _ Hi2 En) as (Hx & Ha' & Hi').
      eexists _, _. split; [reflexivity|]. cbn [off_abs off_inv]. rewrite <- Ha. auto.
  - (* len *)
    intros o Hi. apply off_len. exact Hi.
  - (* fold *)
    intros [a b|s] Hi; cbn [offsets_iface i_fold offsets_fold off_abs off_inv] in *.
    + reflexivity.
    + apply ob_fold_refines. exact Hi.
Qed.

Theorem offsets_refines_split : refines_split (offsets_iface false) off_inv off_abs.
Proof.
  constructor.
  - (* split, in range *)
    intros k [a b|s] Hi Hk; cbn [offsets_iface i_split off_inv off_abs] in *; unfold offsets_split.
    + rewrite nlen_nrange in Hk. cbn [offsets_len].
      assert (E : (k <=? b - a) = true) by (apply N.leb_le; lia). rewrite E.
      eexists _, _. split; [reflexivity|]. cbn [off_abs off_inv].
      rewrite ntake_nrange, ndrop_nrange by lia.
      split; [f_equal; lia|split; [f_equal; lia|lia]].
    + rewrite ob_abs_len in Hk. cbn [offsets_len].
      assert (E : (k <=? ob_len s) = true) by (apply N.leb_le; lia). rewrite E.
      destruct (ob_split_refines k s Hi) as [Hok _].
      destruct (Hok Hk) as (l & r & Es & Hl & Hr & Il & Ir). rewrite Es.
      exists (OIndexing l), (OIndexing r). cbn [off_abs off_inv]. auto.
  - (* split, out of range *)
    intros k o Hi Hk. cbn [offsets_iface i_split]. unfold offsets_split.
    rewrite <- (off_len o Hi) in Hk.
    assert (E : (k <=? offsets_len o) = false) by (apply N.leb_gt; exact Hk). rewrite E. reflexivity.
Qed.

Theorem offsets_refines_back : refines_back (offsets_iface false) off_inv off_abs.
Proof.
  intros [a b|s] x o' Hi E; cbn [offsets_iface i_back offsets_back off_inv off_abs] in *.
  - destruct (a <? b) eqn:Eab; inversion E; subst; clear E.
    + apply N.ltb_lt in Eab. replace (N.to_nat (b - a)) with (S (N.to_nat (b - 1 - a))) by lia.
      rewrite nrange_snoc, rev_app_distr. cbn [rev app hd_error tl off_abs off_inv]. rewrite rev_involutive.
      split; [f_equal; lia|split; [reflexivity|lia]].
    + apply N.ltb_ge in Eab. cbn [off_abs off_inv]. replace (b - a) with 0 by lia. cbn. auto.
  - destruct (ob_next_back s) as [y s'] eqn:En. inversion E; subst.
    destruct (ob_next_back_refines _ _ _ Hi En) as (Hx & Ha & Hi'). cbn [off_abs off_inv]. auto.
Qed.

Theorem offsets_new_inv dims : off_inv (offsets_new dims).
Proof.
  unfold offsets_new. destruct (Overlap.is_contiguous false (flip_dims dims)); cbn [off_inv].
  - lia.
  - apply ob_new_inv.
Qed.

(* a fresh iterator stands for all element offsets of the layout in row-major order, on
   either path *)
Theorem offsets_new_abs dims : off_abs (offsets_new dims) = rm dims.
Proof.
  unfold offsets_new. destruct (Overlap.is_contiguous false (flip_dims dims)) eqn:E; cbn [off_abs].
  - rewrite N.sub_0_r. symmetry. apply contiguous_range. exact E.
  - apply ob_new_abs.
Qed.

Theorem offsets_nth_refines : forall k o, off_inv o -> exists x o',
  offsets_nth k o = (x, o') /\
  x = hd_error (ndrop k (off_abs o)) /\ off_abs o' = tl (ndrop k (off_abs o)) /\ off_inv o'.
Proof.
  intros k o Hi. destruct (r_nth _ _ _ offsets_refines_fwd k o Hi) as (x & o' & E & R).
  exists x, o'. split; [|exact R]. cbn [offsets_iface i_nth] in E. inversion E. reflexivity.
Qed.

Theorem offsets_split_refines_full : forall k o, off_inv o ->
  (k <= nlen (off_abs o) -> exists l r, offsets_split k o = Some (l, r) /\
      off_abs l = ntake k (off_abs o) /\ off_abs r = ndrop k (off_abs o) /\
      off_abs l ++ off_abs r = off_abs o /\ nlen (off_abs l) = k /\ off_inv l /\ off_inv r) /\
  (nlen (off_abs o) < k -> offsets_split k o = None).
Proof.
  intros k o Hi. split.
  - intros Hk. destruct (r_split_ok _ _ _ offsets_refines_split k o Hi Hk) as (l & r & E & Hl & Hr & Il & Ir).
    exists l, r. split; [exact E|]. split; [exact Hl|]. split; [exact Hr|].
    split; [rewrite Hl, Hr; apply ntake_ndrop|]. split; [rewrite Hl; apply nlen_ntake; exact Hk|]. split; assumption.
  - apply (r_split_panic _ _ _ offsets_refines_split); exact Hi.
Qed.

(* the main theorem for Offsets, i.e. for Iter / IterMut up to the data access *)
Theorem offsets_history : forall h dims,
  run_impl (offsets_iface false) h (offsets_new dims) = run_spec h (rm dims).
Proof.
  intros h dims. rewrite <- offsets_new_abs.
  apply (history_refines (offsets_iface false) off_inv off_abs);
    [apply offsets_refines_fwd|apply offsets_refines_split|apply offsets_refines_back|apply offsets_new_inv].
Qed.

(* ------------------------------------------------------------------ Iter / Lanes / InnerIter *)
Theorem iter_history : forall h shape strides, length shape = length strides ->
  run_impl (map_iface single (offsets_iface false)) h (offsets_new (dims_of shape strides)) =
  run_spec h (map single (spec_iter shape strides)).
Proof.
  intros h shape strides Hl. unfold spec_iter, dims_of. rewrite logical_offsets_rm by exact Hl.
  rewrite <- offsets_new_abs.
  apply (history_refines (map_iface single (offsets_iface false)) off_inv (fun s => map single (off_abs s))).
  - apply map_refines_fwd, offsets_refines_fwd.
  - apply map_refines_split, offsets_refines_split.
  - apply map_refines_back, offsets_refines_back.
  - apply offsets_new_inv.
Qed.

Theorem lanes_history : forall h dims d,
  run_impl (lanes_iface false (nth d dims (0, 0))) h (lanes_new dims d) = run_spec h (spec_lanes dims d).
Proof.
  intros h dims d. unfold lanes_iface, spec_lanes, lanes_new.
  set (ld := nth d dims (0, 0)).
  destruct (is_empty dims) eqn:E.
  - replace (@nil (list N)) with (map (lane_elems ld) (off_abs (offsets_new dims)))
      by (rewrite offsets_new_abs, (rm_zero _ E); reflexivity).
    apply (history_refines _ off_inv (fun s => map (lane_elems ld) (off_abs s))).
    + apply map_refines_fwd, offsets_refines_fwd.
    + apply map_refines_split, offsets_refines_split.
    + apply map_refines_back, offsets_refines_back.
    + apply offsets_new_inv.
  - rewrite <- offsets_new_abs.
    apply (history_refines _ off_inv (fun s => map (lane_elems ld) (off_abs s))).
    + apply map_refines_fwd, offsets_refines_fwd.
    + apply map_refines_split, offsets_refines_split.
    + apply map_refines_back, offsets_refines_back.
    + apply offsets_new_inv.
Qed.

Lemma min_data_len_zero dims : min_data_len dims = 0 -> is_empty dims = true.
Proof.
  unfold min_data_len. fold (is_empty dims). destruct (is_empty dims); [reflexivity|lia].
Qed.

Lemma map_const_nil {A B} (l1 l2 : list A) : length l1 = length l2 ->
  map (fun _ => @nil B) l1 = map (fun _ => @nil B) l2.
Proof.
  revert l2; induction l1 as [|x l1 IH]; intros [|y l2] H; try discriminate; [reflexivity|].
  cbn [map]. f_equal. apply IH. cbn [length] in H. lia.
Qed.

Lemma prod_sizes_zero_strides l : prod_sizes (map (fun d => (dsize d, 0)) l) = prod_sizes l.
Proof. induction l as [|d r IH]; [reflexivity|]. cbn [map]. rewrite !prod_sizes_cons, IH. reflexivity. Qed.

Theorem inner_history : forall h dims n,
  (let (o, inner) := inner_new dims n in run_impl (inner_iface false inner) h o) = run_spec h (spec_inner dims n).
Proof.
  intros h dims n. unfold inner_new, inner_iface, spec_inner.
  set (n_outer := (length dims - n)%nat). set (outer := firstn n_outer dims). set (inner := skipn n_outer dims).
  set (outer' := if min_data_len inner =? 0 then map (fun d => (dsize d, 0)) outer else outer).
  assert (Hsame : map (fun o => view_elems o inner) (rm outer) = map (fun o => view_elems o inner) (rm outer')).
  { unfold outer'. destruct (min_data_len inner =? 0) eqn:E; [|reflexivity].
    apply N.eqb_eq in E. apply min_data_len_zero in E.
    assert (Hv : forall o, view_elems o inner = []) by (intros o; unfold view_elems; rewrite (rm_zero _ E); reflexivity).
    rewrite (map_ext _ (fun _ => []) Hv), (map_ext (fun o => view_elems o inner) (fun _ => []) Hv).
    apply map_const_nil.
    apply Nat2N.inj. fold (nlen (rm outer)). fold (nlen (rm (map (fun d => (dsize d, 0)) outer))).
    rewrite !rm_length, prod_sizes_zero_strides. reflexivity. }
  rewrite Hsame, <- offsets_new_abs.
  apply (history_refines _ off_inv (fun s => map (fun o => view_elems o inner) (off_abs s))).
  - apply map_refines_fwd, offsets_refines_fwd.
  - apply map_refines_split, offsets_refines_split.
  - apply map_refines_back, offsets_refines_back.
  - apply offsets_new_inv.
Qed.

(* ------------------------------------------------------------------ AxisIter *)
Section AxisIter.
  Context (rest : list dim) (stride : N).

  Definition ai_inv (s : AxisIterSt) : Prop := ai_index s <= ai_end s /\ ai_end s <= ai_size s.
  Definition ai_abs (s : AxisIterSt) : list (list N) :=
    map (ai_item rest stride s) (nrange (ai_index s) (N.to_nat (ai_end s - ai_index s))).

  Lemma ai_item_base s s' i : ai_base s' = ai_base s -> ai_item rest stride s' i = ai_item rest stride s i.
  Proof. unfold ai_item. intros ->. reflexivity. Qed.

  Lemma ai_next_ok s x s' : ai_inv s -> ai_next rest stride s = (x, s') ->
    x = hd_error (ai_abs s) /\ ai_abs s' = tl (ai_abs s) /\ ai_inv s'.
  Proof.
    unfold ai_next, ai_inv, ai_abs. intros [H1 H2] E.
    destruct (ai_end s <=? ai_index s) eqn:Ee; injection E as Ex Es; subst x s'.
    - apply N.leb_le in Ee. replace (ai_end s - ai_index s) with 0 by lia. cbn. auto.
    - apply N.leb_gt in Ee. cbn [ai_index ai_end ai_size].
      replace (N.to_nat (ai_end s - ai_index s)) with (S (N.to_nat (ai_end s - (ai_index s + 1)))) by lia.
      cbn [nrange map hd_error tl]. rewrite N.add_1_r.
      split; [reflexivity|split; [|lia]].
      apply map_ext. intros i. apply ai_item_base. reflexivity.
  Qed.

  Lemma ai_back_ok s x s' : ai_inv s -> ai_back rest stride s = (x, s') ->
    x = hd_error (rev (ai_abs s)) /\ ai_abs s' = rev (tl (rev (ai_abs s))) /\ ai_inv s'.
  Proof.
    unfold ai_back, ai_inv, ai_abs. intros [H1 H2] E.
    destruct (ai_end s <=? ai_index s) eqn:Ee; injection E as Ex Es; subst x s'.
    - apply N.leb_le in Ee. replace (ai_end s - ai_index s) with 0 by lia. cbn. auto.
    - apply N.leb_gt in Ee. cbn [ai_index ai_end ai_size].
      replace (N.to_nat (ai_end s - ai_index s)) with (S (N.to_nat (ai_end s - 1 - ai_index s))) by lia.
      rewrite nrange_snoc, map_app, rev_app_distr. cbn [map rev app hd_error tl]. rewrite rev_involutive.
      split; [do 2 f_equal; lia|split; [|lia]].
      apply map_ext. intros i. apply ai_item_base. reflexivity.
  Qed.

  Theorem ai_refines_fwd : refines_fwd (ai_iface false rest stride) ai_inv ai_abs.
  Proof.
    constructor.
    - intros s x s' Hi E. apply ai_next_ok; assumption.
    - intros k s Hi. cbn [ai_iface i_nth].
      apply (nth_default_refines (ai_next rest stride) ai_inv ai_abs ai_next_ok); [exact Hi|].
      unfold ai_abs, ai_len. rewrite map_length, nrange_length. lia.
    - intros s Hi. cbn [ai_iface i_len]. unfold ai_len, ai_abs. rewrite nlen_map, nlen_nrange. lia.
    - intros s Hi. cbn [ai_iface i_fold]. reflexivity.
  Qed.

  Theorem ai_refines_split : refines_split (ai_iface false rest stride) ai_inv ai_abs.
  Proof.
    constructor.
    - intros k s [H1 H2] Hk. cbn [ai_iface i_split]. unfold ai_split, ai_len.
      unfold ai_abs in Hk. rewrite nlen_map, nlen_nrange in Hk.
      assert (E : (k <=? ai_end s - ai_index s) = true) by (apply N.leb_le; lia). rewrite E.
      eexists _, _. split; [reflexivity|]. unfold ai_abs, ai_inv. cbn [ai_index ai_end ai_size ai_base].
      rewrite ntake_map, ndrop_map, ntake_nrange, ndrop_nrange by lia.
      split; [|split; [|split; lia]].
      + replace (N.to_nat (ai_index s + k - ai_index s)) with (N.to_nat k) by lia.
        apply map_ext. intros i. apply ai_item_base. reflexivity.
      + rewrite N.sub_0_r.
        replace (N.to_nat (ai_end s - ai_index s) - N.to_nat k)%nat with (N.to_nat (ai_end s - (ai_index s + k))) by lia.
        rewrite (nrange_0_shift (ai_index s + k)), map_map. apply map_ext. intros i.
        unfold ai_item. cbn [ai_base]. f_equal. lia.
    - intros k s [H1 H2] Hk. cbn [ai_iface i_split]. unfold ai_split, ai_len.
      unfold ai_abs in Hk. rewrite nlen_map, nlen_nrange in Hk.
      assert (E : (k <=? ai_end s - ai_index s) = false) by (apply N.leb_gt; lia). rewrite E. reflexivity.
  Qed.

  Theorem ai_refines_back : refines_back (ai_iface false rest stride) ai_inv ai_abs.
  Proof. intros s x s' Hi E. apply ai_back_ok; assumption. Qed.
End AxisIter.

Theorem axis_iter_history : forall h dims axis,
  let d := nth axis dims (0, 0) in
  run_impl (ai_iface false (remove_nth axis dims) (dstride d)) h (ai_new (dsize d)) = run_spec h (spec_axis_iter dims axis).
Proof.
  intros h dims axis d.
  assert (Habs : spec_axis_iter dims axis = ai_abs (remove_nth axis dims) (dstride d) (ai_new (dsize d))).
  { unfold spec_axis_iter, ai_abs, ai_new. fold d. cbn [ai_index ai_end]. rewrite N.sub_0_r.
    apply map_ext. intros i. unfold ai_item. cbn [ai_base]. f_equal. rewrite N.add_0_l. apply N.mul_comm. }
  rewrite Habs.
  apply (history_refines _ (ai_inv) (ai_abs (remove_nth axis dims) (dstride d)));
    [apply ai_refines_fwd|apply ai_refines_split|apply ai_refines_back|].
  unfold ai_inv, ai_new. cbn [ai_index ai_end ai_size]. lia.
Qed.

(* ------------------------------------------------------------------ Lane / LaneMut *)
Section Lane.
  Context (ld : dim) (start : N).

  Definition ln_inv (s : LaneSt) : Prop := ln_index s <= ln_end s /\ ln_end s < two64.
  Definition ln_abs (s : LaneSt) : list N :=
    map (fun i => start + i * dstride ld) (nrange (ln_index s) (N.to_nat (ln_end s - ln_index s))).

  Lemma lane_next_ok s x s' : ln_inv s -> lane_next ld start s = (x, s') ->
    x = hd_error (ln_abs s) /\ ln_abs s' = tl (ln_abs s) /\ ln_inv s'.
  Proof.
    unfold lane_next, ln_inv, ln_abs. intros [H1 H2] E.
    destruct (ln_index s <? ln_end s) eqn:Ee; injection E as Ex Es; subst x s'.
    - apply N.ltb_lt in Ee. cbn [ln_index ln_end].
      replace (N.to_nat (ln_end s - ln_index s)) with (S (N.to_nat (ln_end s - (ln_index s + 1)))) by lia.
      cbn [nrange map hd_error tl]. rewrite N.add_1_r. split; [reflexivity|split; [reflexivity|lia]].
    - apply N.ltb_ge in Ee. replace (ln_end s - ln_index s) with 0 by lia. cbn. auto.
  Qed.

  Theorem lane_refines_fwd mutable : refines_fwd (lane_iface mutable ld start) ln_inv ln_abs.
  Proof.
    constructor.
    - intros s x s' Hi E. apply lane_next_ok; assumption.
    - intros k s Hi. cbn [lane_iface i_nth]. destruct mutable.
      + (* LaneMut::nth: saturating_add + min, then next *)
        destruct Hi as [H1 H2]. unfold lanemut_nth.
        set (s1 := {| ln_index := N.min (N.min (ln_index s + k) u64_max) (ln_end s); ln_end := ln_end s |}).
        assert (Hi1 : ln_inv s1) by (unfold ln_inv, s1; cbn [ln_index ln_end]; lia).
        destruct (lane_next ld start s1) as [x s'] eqn:E.
        destruct (lane_next_ok _ _ _ Hi1 E) as (Hx & Ha & Hi').
        exists x, s'. split; [reflexivity|].
        assert (Hd : ndrop k (ln_abs s) = ln_abs s1).
        { unfold ln_abs, s1. cbn [ln_index ln_end]. rewrite ndrop_map. f_equal.
          unfold u64_max. unfold two64 in H2.
          destruct (N.le_gt_cases k (ln_end s - ln_index s)) as [Hk|Hk].
          - rewrite ndrop_nrange by lia. f_equal; lia.
          - rewrite ndrop_all by (rewrite nlen_nrange; lia).
            replace (ln_end s - N.min (N.min (ln_index s + k) 18446744073709551615) (ln_end s)) with 0 by lia.
            reflexivity. }
        rewrite Hd. auto.
      + apply (nth_default_refines (lane_next ld start) ln_inv ln_abs lane_next_ok); [exact Hi|].
        unfold ln_abs, lane_len. rewrite map_length, nrange_length. lia.
    - intros s Hi. cbn [lane_iface i_len]. unfold lane_len, ln_abs. rewrite nlen_map, nlen_nrange. lia.
    - intros s Hi. cbn [lane_iface i_fold]. reflexivity.
  Qed.

  Theorem lane_refines_back mutable : refines_back (lane_iface mutable ld start) ln_inv ln_abs.
  Proof.
    intros s x s' [H1 H2] E. cbn [lane_iface i_back] in E. unfold lane_back in E. unfold ln_inv, ln_abs.
    destruct (ln_index s <? ln_end s) eqn:Ee; injection E as Ex Es; subst x s'.
    - apply N.ltb_lt in Ee. cbn [ln_index ln_end].
      replace (N.to_nat (ln_end s - ln_index s)) with (S (N.to_nat (ln_end s - 1 - ln_index s))) by lia.
      rewrite nrange_snoc, map_app, rev_app_distr. cbn [map rev app hd_error tl]. rewrite rev_involutive.
      split; [do 3 f_equal; lia|split; [reflexivity|lia]].
    - apply N.ltb_ge in Ee. replace (ln_end s - ln_index s) with 0 by lia. cbn. auto.
  Qed.
End Lane.

(* Lane / LaneMut have no split_at: the theorem covers every split-free history *)
Theorem lane_history : forall h ld start mutable, has_split h = false -> dsize ld < two64 ->
  run_impl (lane_iface mutable ld start) h {| ln_index := 0; ln_end := dsize ld |} = run_spec h (lane_elems ld start).
Proof.
  intros h ld start mutable Hs Hsz.
  assert (Habs : lane_elems ld start = ln_abs ld start {| ln_index := 0; ln_end := dsize ld |}).
  { unfold lane_elems, ln_abs, range0. cbn [ln_index ln_end]. rewrite N.sub_0_r. reflexivity. }
  rewrite Habs.
  apply (history_refines_gen _ ln_inv (ln_abs ld start)).
  - apply lane_refines_fwd.
  - unfold ln_inv. cbn [ln_index ln_end]. lia.
  - right. apply lane_refines_back.
  - left. exact Hs.
Qed.
