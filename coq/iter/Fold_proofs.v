(* C07 -- OffsetsBase::fold yields exactly the remaining offsets, in order. *)
From RV Require Import Prelude.
From Tensor Require Import Overlap.
From Iter Require Import ModelSpec ModelIter Spec_proofs Rm_proofs Offsets_proofs.
Open Scope N_scope.

(* rows a0 .. a0+n of an (.. x w) grid, row by row, are the linear indices a0*w .. (a0+n)*w *)
Lemma rows_flat (g : N -> N -> N) w : w <> 0 -> forall n a0,
  flat_map (fun a => map (g a) (nrange 0 (N.to_nat w))) (nrange a0 n) =
  map (fun k => g (k / w) (k mod w)) (nrange (a0 * w) (n * N.to_nat w)).
Proof.
  intros Hw. induction n as [|n IH]; intros a0; [reflexivity|].
  cbn [nrange flat_map]. rewrite IH. cbn [Nat.mul]. rewrite nrange_app, map_app. f_equal.
  - rewrite (nrange_0_shift (a0 * w)), map_map. apply map_ext_in. intros b Hb.
    apply In_nrange in Hb. replace (a0 * w + b) with (b + a0 * w) by lia.
    rewrite N.div_add, N.mod_add by exact Hw. rewrite N.div_small, N.mod_small by lia. reflexivity.
  - f_equal. f_equal. lia.
Qed.

Lemma row_first (g : N -> N -> N) w a b n : b + N.of_nat n <= w ->
  map (g a) (nrange b n) = map (fun k => g (k / w) (k mod w)) (nrange (a * w + b) n).
Proof.
  intros H. replace (a * w + b) with (b + a * w) by lia.
  rewrite (nrange_shift b (a * w)), map_map. apply map_ext_in. intros x Hx. apply In_nrange in Hx.
  assert (Hw : w <> 0) by lia.
  replace (a * w + x) with (x + a * w) by lia.
  rewrite N.div_add, N.mod_add by exact Hw. rewrite N.div_small, N.mod_small by lia. reflexivity.
Qed.

Definition inner_of (s : OffsetsBase) : list IterPos := [ob_inner0 s; ob_inner1 s].

Lemma T_inner s : T (inner_of s) = pos_size (ob_inner0 s) * pos_size (ob_inner1 s).
Proof. unfold inner_of. cbn [T]. lia. Qed.
Lemma linr_inner s : linr (inner_of s) = pos_index (ob_inner0 s) * pos_size (ob_inner1 s) + pos_index (ob_inner1 s).
Proof. unfold inner_of. cbn [linr T]. lia. Qed.

Lemma Forall_app_inv {A} (P : A -> Prop) a b : Forall P (a ++ b) -> Forall P a /\ Forall P b.
Proof. intros H. apply Forall_app in H. exact H. Qed.

(* one pass of the two inner loops = the linear indices from the current one up to the end of
   the current outer position *)
Lemma fold_cands_spec s : Forall wf (ob_all s) -> ob_outer_offset s = sum_offsets (ob_outer s) ->
  fold_cands s = map (offs (ob_all s))
                     (nrange (linr (ob_all s)) (N.to_nat (T (inner_of s) - linr (inner_of s)))).
Proof.
  intros W O. unfold ob_all in W. apply Forall_app_inv in W as [Wo Wi].
  inversion Wi as [|? ? W0 Wi']; subst. inversion Wi' as [|? ? W1 _]; subst.
  pose proof (wf_index_lt _ W0) as H0. pose proof (wf_index_lt _ W1) as H1.
  set (p0 := ob_inner0 s) in *. set (p1 := ob_inner1 s) in *.
  set (w := pos_size p1) in *. set (h := pos_size p0) in *.
  set (i0 := pos_index p0) in *. set (i1 := pos_index p1) in *.
  set (g := fun a b => ob_outer_offset s + (a * p_stride p0 + b * p_stride p1)).
  assert (Hw : w <> 0) by lia.
  (* the right-hand side, pointwise *)
  set (base := linr (ob_outer s) * (h * w)).
  assert (Hoffs : forall k', k' < h * w -> offs (ob_all s) (base + k') = g (k' / w) (k' mod w)).
  { intros k' Hk'. unfold ob_all. rewrite offs_app. fold p0 p1.
    assert (ET : T [p0; p1] = h * w) by (cbn [T]; fold h w; lia). rewrite ET.
    replace (base + k') with (k' + linr (ob_outer s) * (h * w)) by (unfold base; lia).
    rewrite N.div_add by nia. rewrite (N.div_small k') by exact Hk'.
    rewrite N.add_0_l, (offs_linr _ Wo), <- O.
    rewrite <- ET, offs_add_mul. cbn [offs T]. fold h w.
    rewrite N.mul_1_r, N.div_1_r. unfold g.
    assert (Hq : k' / w < h) by (apply N.div_lt_upper_bound; lia).
    rewrite (N.mod_small (k' / w)) by exact Hq. lia. }
  unfold fold_cands. fold p0 p1 i0 i1 w h.
  assert (Hh : N.to_nat (h - i0) = S (N.to_nat (h - i0 - 1))) by lia.
  rewrite Hh. cbn [nrange flat_map]. rewrite N.eqb_refl.
  (* later rows start at column 0 *)
  assert (Hrows : flat_map (fun a => map (fun b => ob_outer_offset s + (a * p_stride p0 + b * p_stride p1))
                                         (nrange (if a =? i0 then i1 else 0) (N.to_nat (w - (if a =? i0 then i1 else 0)))))
                           (nrange (N.succ i0) (N.to_nat (h - i0 - 1)))
                  = flat_map (fun a => map (g a) (nrange 0 (N.to_nat w))) (nrange (N.succ i0) (N.to_nat (h - i0 - 1)))).
  { apply flat_map_ext_in. intros a Ha. apply In_nrange in Ha.
    destruct (a =? i0) eqn:E; [apply N.eqb_eq in E; lia|]. rewrite N.sub_0_r. reflexivity. }
  rewrite Hrows, (rows_flat g w Hw).
  fold (g i0). rewrite (row_first g w i0 i1) by lia.
  rewrite <- map_app.
  assert (EL : linr (ob_all s) = (i0 * w + i1) + base).
  { unfold ob_all. rewrite linr_app. fold p0 p1. cbn [linr T]. fold h w i0 i1. unfold base. lia. }
  assert (ETi : T (inner_of s) = h * w) by (rewrite T_inner; reflexivity).
  assert (ELi : linr (inner_of s) = i0 * w + i1) by (rewrite linr_inner; reflexivity).
  rewrite ETi, ELi, EL.
  rewrite (nrange_shift (i0 * w + i1) base), map_map.
  replace (N.to_nat (h * w - (i0 * w + i1))) with (N.to_nat (w - i1) + N.to_nat (h - i0 - 1) * N.to_nat w)%nat by nia.
  rewrite (nrange_app (i0 * w + i1) (N.to_nat (w - i1))).
  replace (i0 * w + i1 + N.of_nat (N.to_nat (w - i1))) with (N.succ i0 * w) by lia.
  apply map_ext_in. intros k Hk. apply in_app_or in Hk.
  symmetry. apply Hoffs.
  destruct Hk as [Hk|Hk]; apply In_nrange in Hk; nia.
Qed.

Lemma cands_count s : Forall wf (ob_all s) -> 1 <= T (inner_of s) - linr (inner_of s).
Proof.
  intros W. unfold ob_all in W. apply Forall_app_inv in W as [_ Wi].
  pose proof (linr_lt _ Wi). unfold inner_of. lia.
Qed.

Theorem ob_fold_loop_refines : forall fuel s, ob_core s -> ob_len s <> 0 ->
  (N.to_nat (ob_len s) < fuel)%nat -> ob_fold_loop fuel s = Some (ob_abs s).
Proof.
  induction fuel as [|f IH]; intros s (W & O & B) Hl Hf; [lia|].
  cbn [ob_fold_loop]. rewrite (fold_cands_spec s W O).
  pose proof (cands_count s W) as Hn.
  set (n := T (inner_of s) - linr (inner_of s)) in *.
  rewrite nlen_map, nlen_nrange, N2Nat.id.
  destruct (ob_len s <=? n) eqn:E.
  - apply N.leb_le in E. rewrite ntake_map, ntake_nrange by lia. reflexivity.
  - apply N.leb_gt in E.
    (* the outer positions *)
    pose proof W as W2. unfold ob_all in W2. apply Forall_app_inv in W2 as [Wo Wi].
    inversion Wi as [|? ? W0 Wi']; subst. inversion Wi' as [|? ? W1 _]; subst.
    destruct (step_outer (ob_outer s)) as [o' adv] eqn:Es.
    destruct (step_outer_spec _ Wo _ _ Es) as (Wo' & So' & Lo').
    pose proof (T_shape _ _ So') as TSo.
    assert (ETall : T (ob_all s) = T (ob_outer s) * T (inner_of s)) by (unfold ob_all; rewrite T_app; reflexivity).
    assert (ELall : linr (ob_all s) = linr (ob_outer s) * T (inner_of s) + linr (inner_of s))
      by (unfold ob_all; rewrite linr_app; reflexivity).
    pose proof (linr_lt _ Wi) as Hli. fold (inner_of s) in Hli.
    pose proof (linr_lt _ Wo') as Hlo'.
    destruct adv.
    + (* continue with the next outer position *)
      set (s2 := {| ob_len := ob_len s - n; ob_inner_offset := ob_inner_offset s;
                    ob_inner0 := pos_set_index (ob_inner0 s) 0; ob_inner1 := pos_set_index (ob_inner1 s) 0;
                    ob_outer_offset := sum_offsets o'; ob_outer := o' |}).
      destruct (pos_set_index_spec (ob_inner0 s) 0) as (Wa & Sa & Ia); [lia|].
      destruct (pos_set_index_spec (ob_inner1 s) 0) as (Wb & Sb & Ib); [lia|].
      assert (Sall : map shp (ob_all s2) = map shp (ob_all s)).
      { unfold ob_all, s2. cbn [ob_outer ob_inner0 ob_inner1]. rewrite !map_app, So'. cbn [map]. rewrite Sa, Sb. reflexivity. }
      pose proof (T_shape _ _ Sall) as TSall.
      assert (Wall : Forall wf (ob_all s2)).
      { unfold ob_all, s2. cbn [ob_outer ob_inner0 ob_inner1]. apply Forall_app. split; [exact Wo'|].
        constructor; [exact Wa|constructor; [exact Wb|constructor]]. }
      assert (Tin2 : T (inner_of s2) = T (inner_of s)).
      { apply T_shape. unfold inner_of, s2. cbn [ob_inner0 ob_inner1 map]. rewrite Sa, Sb. reflexivity. }
      assert (EL2 : linr (ob_all s2) = linr (ob_all s) + n).
      { unfold ob_all at 1. rewrite linr_app. fold (inner_of s2). rewrite Tin2.
        unfold inner_of at 2. unfold s2 at 2 3. cbn [ob_inner0 ob_inner1 ob_outer linr].
        rewrite Ia, Ib. unfold s2. cbn [ob_outer]. rewrite ELall. unfold n. nia. }
      rewrite (IH s2).
      * f_equal. unfold ob_abs. rewrite EL2.
        replace (N.to_nat (ob_len s)) with (N.to_nat n + N.to_nat (ob_len s2))%nat by (unfold s2; cbn [ob_len]; lia).
        rewrite nrange_app, map_app, N2Nat.id. f_equal.
        apply map_ext. intros k. apply offs_shape. exact Sall.
      * split; [exact Wall|split; [reflexivity|]]. rewrite EL2, TSall. unfold s2. cbn [ob_len]. lia.
      * unfold s2. cbn [ob_len]. lia.
      * unfold s2. cbn [ob_len]. lia.
    + (* no further outer position: impossible while len exceeds this pass *)
      exfalso. unfold n in *. nia.
Qed.

Theorem ob_fold_refines s : ob_inv s -> ob_fold s = Some (ob_abs s).
Proof.
  intros [Hc _]. unfold ob_fold. destruct (ob_len s =? 0) eqn:E.
  - apply N.eqb_eq in E. unfold ob_abs. rewrite E. reflexivity.
  - apply N.eqb_neq in E. apply ob_fold_loop_refines; [exact Hc|exact E|lia].
Qed.
