(* C07 -- Tensor iterators yield exactly the logical elements in order.
   Statements only; every proof is `exact <lemma>`.

   Reading guide.  [rm dims] / [logical_offsets shape strides] is the list of storage offsets of
   all logical elements in row-major order.  [run_spec h l] is what a consumption history h
   (a tree over next / next_back / nth k / fold / rev-drain / rayon / split_at k) observes on
   the deque l: yielded items and len() after every step.  [run_impl I h s] is what the
   executable model of the Rust iterator observes.  The model is rten-tensor/src/iterators.rs
   and iterators/parallel.rs after the three fix: commits of branch verif-iter; [model_obs true]
   is the code before them. *)
From RV Require Import Prelude.
From Tensor Require Import Overlap.
From Iter Require Import ModelSpec ModelIter Spec_proofs Rm_proofs Offsets_proofs Fold_proofs
  Refine_proofs Chunks_proofs Case_proofs.
From Coq Require Import Permutation.
Open Scope N_scope.

(* ---------------------------------------------------------------- the specification *)
(* row-major offsets = image of the logical indices in lexicographic order *)
Theorem C07_logical_order : forall shape strides, length shape = length strides ->
  logical_offsets shape strides = rm (combine shape strides).
Proof. exact logical_offsets_rm. Qed.

(* merge_axes (used by OffsetsBase::new) changes neither the order nor the count *)
Theorem C07_merge_axes_preserves_order : forall dims,
  rm (merge_axes dims) = rm dims /\ prod_sizes (merge_axes dims) = prod_sizes dims.
Proof. exact merge_axes_preserves_order. Qed.

(* the contiguous fast path (Range 0..min_data_len) is the row-major sequence *)
Theorem C07_contiguous_fast_path : forall dims,
  Overlap.is_contiguous false (flip_dims dims) = true -> rm dims = range0 (min_data_len dims).
Proof. exact contiguous_range. Qed.

(* ---------------------------------------------------------------- Offsets refines a deque *)
(* new_abs: a fresh iterator (either path) stands for all offsets in row-major order *)
Theorem C07_new_abs : forall dims,
  off_inv (offsets_new dims) /\ off_abs (offsets_new dims) = rm dims.
Proof. exact (fun dims => conj (offsets_new_inv dims) (offsets_new_abs dims)). Qed.

(* next_refines: pop front *)
Theorem C07_next_refines : forall o x o', off_inv o -> offsets_next o = (x, o') ->
  x = hd_error (off_abs o) /\ off_abs o' = tl (off_abs o) /\ off_inv o'.
Proof. exact (r_next _ _ _ offsets_refines_fwd). Qed.

(* next_back_refines: pop back (the fixed code) *)
Theorem C07_next_back_refines : forall o x o', off_inv o -> offsets_back false o = (x, o') ->
  x = hd_error (rev (off_abs o)) /\ off_abs o' = rev (tl (rev (off_abs o))) /\ off_inv o'.
Proof. exact offsets_refines_back. Qed.

(* nth_refines: drop k, then pop front *)
Theorem C07_nth_refines : forall k o, off_inv o -> exists x o',
  offsets_nth k o = (x, o') /\
  x = hd_error (ndrop k (off_abs o)) /\ off_abs o' = tl (ndrop k (off_abs o)) /\ off_inv o'.
Proof. exact offsets_nth_refines. Qed.

(* len_exact *)
Theorem C07_len_exact : forall o, off_inv o -> offsets_len o = nlen (off_abs o).
Proof. exact off_len. Qed.

(* split_refines: abs l ++ abs r = abs s and |abs l| = k; panics exactly when k > len *)
Theorem C07_split_refines : forall k o, off_inv o ->
  (k <= nlen (off_abs o) -> exists l r, offsets_split k o = Some (l, r) /\
      off_abs l = ntake k (off_abs o) /\ off_abs r = ndrop k (off_abs o) /\
      off_abs l ++ off_abs r = off_abs o /\ nlen (off_abs l) = k /\ off_inv l /\ off_inv r) /\
  (nlen (off_abs o) < k -> offsets_split k o = None).
Proof. exact offsets_split_refines_full. Qed.

(* fold_refines: fold / for_each visits exactly the remaining offsets in order *)
Theorem C07_fold_refines : forall o, off_inv o -> offsets_fold o = Some (off_abs o).
Proof. exact (r_fold _ _ _ offsets_refines_fwd). Qed.

(* ---------------------------------------------------------------- main theorem *)
(* Any iterator model whose operations refine a deque refines it on every finite history
   tree.  (next_back and split_at are separate hypotheses so that the theorem also serves
   iterators without split_at, and chunk iterators without next_back.) *)
Theorem C07_history_refines_deque :
  forall (St A : Type) (I : iface St A) (Inv : St -> Prop) (abs : St -> list A),
  refines_fwd I Inv abs ->
  forall h s, Inv s ->
  (has_back h = false \/ refines_back I Inv abs) ->
  (has_split h = false \/ refines_split I Inv abs) ->
  run_impl I h s = run_spec h (abs s).
Proof. exact (@history_refines_gen). Qed.

(* Iter / IterMut: every history over a fresh element iterator observes the deque of the
   logical elements *)
Theorem C07_iter_history : forall h shape strides, length shape = length strides ->
  run_impl (map_iface single (offsets_iface false)) h (offsets_new (dims_of shape strides)) =
  run_spec h (map single (logical_offsets shape strides)).
Proof. exact iter_history. Qed.

(* Lanes / LanesMut *)
Theorem C07_lanes_history : forall h dims d,
  run_impl (lanes_iface false (nth d dims (0, 0))) h (lanes_new dims d) = run_spec h (spec_lanes dims d).
Proof. exact lanes_history. Qed.

(* Lane / LaneMut (no split_at) *)
Theorem C07_lane_history : forall h ld start mutable, has_split h = false -> dsize ld < two64 ->
  run_impl (lane_iface mutable ld start) h {| ln_index := 0; ln_end := dsize ld |} = run_spec h (lane_elems ld start).
Proof. exact lane_history. Qed.

(* InnerIter / InnerIterMut *)
Theorem C07_inner_history : forall h dims n,
  (let (o, inner) := inner_new dims n in run_impl (inner_iface false inner) h o) = run_spec h (spec_inner dims n).
Proof. exact inner_history. Qed.

(* AxisIter / AxisIterMut (with the fixed split_at) *)
Theorem C07_axis_iter_history : forall h dims axis,
  let d := nth axis dims (0, 0) in
  run_impl (ai_iface false (remove_nth axis dims) (dstride d)) h (ai_new (dsize d)) = run_spec h (spec_axis_iter dims axis).
Proof. exact axis_iter_history. Qed.

(* AxisChunks / AxisChunksMut (with the fixed split_at): all histories without next_back; all
   histories when the chunk size divides the axis size *)
Theorem C07_chunks_history : forall h dims axis cs, 1 <= cs ->
  let d := nth axis dims (0, 0) in
  has_back h = false \/ dsize d mod cs = 0 ->
  run_impl (ac_iface false dims axis (dstride d) cs) h (ac_new (dsize d)) = run_spec h (spec_chunks dims axis cs).
Proof. exact chunks_history. Qed.

(* All kinds at once, in the vocabulary of the correspondence check: on every valid case the
   model's observations are the deque specification's ... *)
Theorem C07_model_meets_spec : forall c, valid_case c -> model_obs false c = spec_obs c.
Proof. exact model_meets_spec. Qed.
(* ... hence an implementation run that agrees with the model satisfies the specification *)
Theorem C07_agree_implies_spec : forall c, valid_case c -> agree c = true -> c_obs c = spec_obs c.
Proof. exact agree_implies_spec. Qed.

(* ---------------------------------------------------------------- each element exactly once *)
(* on the deque: every item is yielded exactly once or left unconsumed (skipped by nth,
   dropped with the iterator, lost to a panicking split) *)
Theorem C07_spec_exactly_once : forall (A : Type) h (l : list A),
  Permutation (yielded (run_spec h l) ++ unconsumed h l) l.
Proof. exact (@spec_exactly_once). Qed.

(* a history that drains every branch yields every item exactly once *)
Theorem C07_drained_exactly_once : forall (A : Type) h (l : list A),
  drains h = true -> splits_ok h l = true -> Permutation (yielded (run_spec h l)) l.
Proof. exact (@spec_drained_exactly_once). Qed.

(* row-major from the front, reverse from the back *)
Theorem C07_front_order : forall (A : Type) n (l : list A), (n <= length l)%nat ->
  yielded (run_spec (nexts n HEnd) l) = firstn n l.
Proof. exact (@spec_front_order). Qed.
Theorem C07_back_order : forall (A : Type) n (l : list A), (n <= length l)%nat ->
  yielded (run_spec (backs n HEnd) l) = firstn n (rev l).
Proof. exact (@spec_back_order). Qed.

(* for the element iterator of the model *)
Theorem C07_iter_exactly_once : forall h shape strides, length shape = length strides ->
  Permutation
    (yielded (run_impl (offsets_iface false) h (offsets_new (dims_of shape strides)))
     ++ unconsumed h (logical_offsets shape strides))
    (logical_offsets shape strides).
Proof. exact iter_exactly_once. Qed.

(* *Mut: over a layout the overlap check accepts (C08) no history yields an offset twice *)
Theorem C07_itermut_at_most_once : forall shape strides h, length shape = length strides ->
  may_have_internal_overlap false shape strides = false ->
  NoDup (yielded (run_impl (offsets_iface false) h (offsets_new (dims_of shape strides)))).
Proof. exact itermut_at_most_once. Qed.

(* ---------------------------------------------------------------- refutations *)
(* F3, code before the fix: next_back does not refine pop-back; an element is yielded twice *)
Theorem C07_next_back_refuted :
  exists c, valid_case c /\ model_obs true c <> spec_obs c /\ ~ NoDup (yielded (model_obs true c)).
Proof. exact next_back_refuted. Qed.

(* AxisIter(Mut)::split_at before the fix *)
Theorem C07_axis_iter_split_refuted :
  exists c, valid_case c /\ model_obs true c <> spec_obs c /\ ~ NoDup (yielded (model_obs true c)).
Proof. exact axis_iter_split_refuted. Qed.

(* AxisChunks(Mut)::split_at before the fix *)
Theorem C07_axis_chunks_split_refuted :
  (valid_case (chunks_split_case 0) /\ model_obs true (chunks_split_case 0) <> spec_obs (chunks_split_case 0)) /\
  (valid_case (chunks_split_case 3) /\ model_obs true (chunks_split_case 3) = OPanic /\
   spec_obs (chunks_split_case 3) <> OPanic).
Proof. exact axis_chunks_split_refuted. Qed.

(* known finding C07-F2 (current code): next_back over a ragged chunked axis *)
Theorem C07_chunks_ragged_back_refuted :
  model_obs false chunks_back_case <> spec_obs chunks_back_case /\
  Permutation (concat (yielded (model_obs false chunks_back_case))) (logical_offsets [7; 2] [2; 1]).
Proof. exact chunks_ragged_back_refuted. Qed.

(* ---------------------------------------------------------------- non-vacuity *)
(* the F3 history on the fixed model: next, next, next_back yields 0, 4, 23 *)
Example C07_nonvacuous_f3_fixed :
  valid_case f3_case /\
  model_obs false f3_case =
    OStep (Some [0]) 23 (OStep (Some [4]) 22 (OStep (Some [23]) 21
      (OFold (map single [8; 12; 16; 20; 1; 5; 9; 13; 17; 21; 2; 6; 10; 14; 18; 22; 3; 7; 11; 15; 19])))).
Proof. split; [split; [reflexivity|exact I]|vm_compute; reflexivity]. Qed.

(* a history tree with a split on a partially consumed non-contiguous iterator *)
Example C07_nonvacuous_split :
  let c := {| c_kind := KIter; c_mut := true; c_shape := [4; 2; 3]; c_strides := [1; 12; 4]; c_a := 0; c_b := 0;
              c_hist := HNext (HBack (HSplit 5 (HNth 1 HRFold) (HBack HFold))); c_obs := OEnd 0; c_mut_ok := true |} in
  valid_case c /\ drains (c_hist c) = false /\ model_obs false c = spec_obs c /\
  may_have_internal_overlap false (c_shape c) (c_strides c) = false.
Proof. cbv zeta. split; [split; [reflexivity|exact I]|]. split; [reflexivity|]. split; vm_compute; reflexivity. Qed.
