(* C07 -- list lemmas, the generic refinement theorem (any iterator model that refines a
   deque on each operation refines it on every history tree) and the deque-level
   consequences (each item at most / exactly once). *)
From RV Require Import Prelude.
From Iter Require Import ModelSpec.
From Coq Require Import Permutation.
Open Scope N_scope.

(* ------------------------------------------------------------------ nrange *)
Lemma nrange_length a n : length (nrange a n) = n.
Proof. revert a; induction n; intros; cbn [nrange length]; auto. Qed.

Lemma nrange_app a n m : nrange a (n + m) = nrange a n ++ nrange (a + N.of_nat n) m.
Proof.
  revert a; induction n as [|n IH]; intros a.
  - cbn [nrange Nat.add app]. change (N.of_nat 0) with 0. rewrite N.add_0_r. reflexivity.
  - cbn [Nat.add nrange app]. rewrite IH.
    replace (N.succ a + N.of_nat n) with (a + N.of_nat (S n)) by lia. reflexivity.
Qed.

Lemma nrange_snoc a n : nrange a (S n) = nrange a n ++ [a + N.of_nat n].
Proof. replace (S n) with (n + 1)%nat by lia. rewrite nrange_app. reflexivity. Qed.

Lemma nrange_shift a b n : nrange (a + b) n = map (N.add b) (nrange a n).
Proof.
  revert a; induction n as [|n IH]; intros a; cbn [nrange map]; [reflexivity|].
  f_equal; [lia|]. rewrite <- IH. f_equal. lia.
Qed.

Lemma In_nrange x a n : In x (nrange a n) <-> a <= x < a + N.of_nat n.
Proof.
  revert a; induction n as [|n IH]; intros a; cbn [nrange In].
  - split; [tauto|lia].
  - rewrite IH. lia.
Qed.

Lemma In_range0 x n : In x (range0 n) <-> x < n.
Proof. unfold range0. rewrite In_nrange. lia. Qed.

Lemma range0_succ n : range0 (N.succ n) = range0 n ++ [n].
Proof.
  unfold range0. rewrite N2Nat.inj_succ, nrange_snoc. rewrite N2Nat.id. reflexivity.
Qed.

Lemma nrange_nth_tl a n : tl (nrange a n) = nrange (a + 1) (pred n).
Proof. destruct n; cbn [nrange tl pred]; [reflexivity|]. f_equal. lia. Qed.

(* ------------------------------------------------------------------ ndrop / ntake / nlen *)
Lemma nlen_nil {A} : nlen (@nil A) = 0. Proof. reflexivity. Qed.
Lemma nlen_cons {A} (x : A) l : nlen (x :: l) = nlen l + 1.
Proof. unfold nlen. cbn [length]. lia. Qed.
Lemma nlen_app {A} (a b : list A) : nlen (a ++ b) = nlen a + nlen b.
Proof. unfold nlen. rewrite app_length. lia. Qed.
Lemma nlen_map {A B} (f : A -> B) l : nlen (map f l) = nlen l.
Proof. unfold nlen. rewrite map_length. reflexivity. Qed.
Lemma nlen_rev {A} (l : list A) : nlen (rev l) = nlen l.
Proof. unfold nlen. rewrite rev_length. reflexivity. Qed.
Lemma nlen_nrange a n : nlen (nrange a n) = N.of_nat n.
Proof. unfold nlen. rewrite nrange_length. reflexivity. Qed.
Lemma nlen_zero {A} (l : list A) : nlen l = 0 -> l = [].
Proof. destruct l; [reflexivity|]. rewrite nlen_cons. lia. Qed.

Lemma ndrop_0 {A} (l : list A) : ndrop 0 l = l.
Proof. destruct l; reflexivity. Qed.
Lemma ntake_0 {A} (l : list A) : ntake 0 l = [].
Proof. destruct l; reflexivity. Qed.
Lemma ndrop_succ {A} k (x : A) l : ndrop (N.succ k) (x :: l) = ndrop k l.
Proof.
  cbn [ndrop]. destruct (N.succ k =? 0) eqn:E; [apply N.eqb_eq in E; lia|].
  rewrite N.pred_succ. reflexivity.
Qed.
Lemma ntake_succ {A} k (x : A) l : ntake (N.succ k) (x :: l) = x :: ntake k l.
Proof.
  cbn [ntake]. destruct (N.succ k =? 0) eqn:E; [apply N.eqb_eq in E; lia|].
  rewrite N.pred_succ. reflexivity.
Qed.

Lemma ndrop_skipn {A} k (l : list A) : ndrop k l = skipn (N.to_nat k) l.
Proof.
  revert k; induction l as [|x l IH]; intros k.
  - cbn [ndrop]. rewrite skipn_nil. reflexivity.
  - destruct (N.eq_dec k 0) as [->|Hk]; [reflexivity|].
    replace k with (N.succ (N.pred k)) by lia. rewrite ndrop_succ, N2Nat.inj_succ. cbn [skipn]. apply IH.
Qed.
Lemma ntake_firstn {A} k (l : list A) : ntake k l = firstn (N.to_nat k) l.
Proof.
  revert k; induction l as [|x l IH]; intros k.
  - cbn [ntake]. rewrite firstn_nil. reflexivity.
  - destruct (N.eq_dec k 0) as [->|Hk]; [reflexivity|].
    replace k with (N.succ (N.pred k)) by lia. rewrite ntake_succ, N2Nat.inj_succ. cbn [firstn]. f_equal. apply IH.
Qed.

Lemma ntake_ndrop {A} k (l : list A) : ntake k l ++ ndrop k l = l.
Proof. rewrite ntake_firstn, ndrop_skipn. apply firstn_skipn. Qed.

Lemma nlen_ntake {A} k (l : list A) : k <= nlen l -> nlen (ntake k l) = k.
Proof.
  unfold nlen. intros H. rewrite ntake_firstn, firstn_length. lia.
Qed.
Lemma nlen_ndrop {A} k (l : list A) : nlen (ndrop k l) = nlen l - k.
Proof. unfold nlen. rewrite ndrop_skipn, skipn_length. lia. Qed.

Lemma ndrop_all {A} k (l : list A) : nlen l <= k -> ndrop k l = [].
Proof. intros H. apply nlen_zero. rewrite nlen_ndrop. lia. Qed.

Lemma ndrop_map {A B} (f : A -> B) k l : ndrop k (map f l) = map f (ndrop k l).
Proof. rewrite !ndrop_skipn. apply skipn_map. Qed.
Lemma ntake_map {A B} (f : A -> B) k l : ntake k (map f l) = map f (ntake k l).
Proof. rewrite !ntake_firstn. apply firstn_map. Qed.

Lemma ndrop_ndrop {A} a b (l : list A) : ndrop a (ndrop b l) = ndrop (a + b) l.
Proof.
  revert b; induction l as [|x l IH]; intros b.
  - cbn [ndrop]. reflexivity.
  - destruct (N.eq_dec b 0) as [->|Hb]; [rewrite ndrop_0, N.add_0_r; reflexivity|].
    replace b with (N.succ (N.pred b)) by lia. rewrite ndrop_succ, IH.
    replace (a + N.succ (N.pred b)) with (N.succ (a + N.pred b)) by lia. rewrite ndrop_succ. reflexivity.
Qed.

Lemma ntake_nrange k a n : k <= N.of_nat n -> ntake k (nrange a n) = nrange a (N.to_nat k).
Proof.
  intros H. rewrite ntake_firstn.
  replace n with (N.to_nat k + (n - N.to_nat k))%nat at 1 by lia.
  rewrite nrange_app, firstn_app, nrange_length, Nat.sub_diag. cbn [firstn].
  rewrite app_nil_r, firstn_all2; [reflexivity|rewrite nrange_length; lia].
Qed.
Lemma ndrop_nrange k a n : k <= N.of_nat n -> ndrop k (nrange a n) = nrange (a + k) (n - N.to_nat k).
Proof.
  intros H. rewrite ndrop_skipn.
  replace n with (N.to_nat k + (n - N.to_nat k))%nat at 1 by lia.
  rewrite nrange_app, skipn_app, nrange_length, Nat.sub_diag. cbn [skipn].
  rewrite skipn_all2; [|rewrite nrange_length; lia]. cbn [app]. f_equal. lia.
Qed.

Lemma hd_error_map {A B} (f : A -> B) l : hd_error (map f l) = omap f (hd_error l).
Proof. destruct l; reflexivity. Qed.
Lemma tl_map {A B} (f : A -> B) l : tl (map f l) = map f (tl l).
Proof. destruct l; reflexivity. Qed.

(* ------------------------------------------------------------------ refinement *)
Fixpoint has_split (h : hist) : bool :=
  match h with
  | HEnd | HFold | HPar | HRFold => false
  | HBack h' | HNext h' | HNth _ h' => has_split h'
  | HSplit _ _ _ => true
  end.
Fixpoint has_back (h : hist) : bool :=
  match h with
  | HEnd | HFold | HPar => false
  | HRFold => true
  | HBack _ => true
  | HNext h' | HNth _ h' => has_back h'
  | HSplit _ a b => has_back a || has_back b
  end.

Section Refine.
  Context {St A : Type} (I : iface St A) (Inv : St -> Prop) (abs : St -> list A).

  (* every operation except next_back acts on the abstraction as on a deque *)
  Record refines_fwd : Prop := {
    r_next : forall s x s', Inv s -> i_next I s = (x, s') ->
             x = hd_error (abs s) /\ abs s' = tl (abs s) /\ Inv s';
    r_nth : forall k s, Inv s -> exists x s', i_nth I k s = Some (x, s') /\
             x = hd_error (ndrop k (abs s)) /\ abs s' = tl (ndrop k (abs s)) /\ Inv s';
    r_len : forall s, Inv s -> i_len I s = nlen (abs s);
    r_fold : forall s, Inv s -> i_fold I s = Some (abs s);
  }.
  (* split_at k cuts the deque after k items; it panics exactly when k > len *)
  Record refines_split : Prop := {
    r_split_ok : forall k s, Inv s -> k <= nlen (abs s) -> exists l r, i_split I k s = Some (l, r) /\
             abs l = ntake k (abs s) /\ abs r = ndrop k (abs s) /\ Inv l /\ Inv r;
    r_split_panic : forall k s, Inv s -> nlen (abs s) < k -> i_split I k s = None;
  }.
  Definition refines_back : Prop :=
    forall s x s', Inv s -> i_back I s = (x, s') ->
      x = hd_error (rev (abs s)) /\ abs s' = rev (tl (rev (abs s))) /\ Inv s'.

  Lemma rdrain_refines : refines_back -> forall fuel s, Inv s -> (length (abs s) < fuel)%nat ->
    rdrain I fuel s = Some (rev (abs s)).
  Proof.
    intros RB. induction fuel as [|f IH]; intros s Hi Hl; [lia|].
    cbn [rdrain]. destruct (i_back I s) as [x s'] eqn:E.
    destruct (RB _ _ _ Hi E) as (Hx & Ha & Hi').
    destruct (rev (abs s)) as [|y t] eqn:Er.
    - cbn [hd_error] in Hx. subst x. reflexivity.
    - cbn [hd_error] in Hx. subst x. cbn [tl] in Ha.
      rewrite IH; [| assumption |].
      + rewrite Ha, rev_involutive. reflexivity.
      + rewrite Ha, rev_length.
        assert (length (rev (abs s)) = S (length t)) by (rewrite Er; reflexivity).
        rewrite rev_length in H. lia.
  Qed.

  (* MAIN THEOREM: induction over arbitrary finite history trees *)
  Theorem history_refines_gen : refines_fwd ->
    forall h s, Inv s -> (has_back h = false \/ refines_back) -> (has_split h = false \/ refines_split) ->
    run_impl I h s = run_spec h (abs s).
  Proof.
    intros RF. induction h as [|h IH|h IH|k h IH| | | |k a IHa b IHb]; intros s Hi Hb Hs; cbn [run_impl run_spec].
    - rewrite (r_len RF); auto.
    - destruct (i_next I s) as [x s'] eqn:E.
      destruct (r_next RF _ _ _ Hi E) as (Hx & Ha & Hi').
      rewrite (IH s' Hi'); [|destruct Hb as [Hb|Hb]; [left; exact Hb|right; exact Hb]|exact Hs].
      rewrite (r_len RF _ Hi'), Ha.
      destruct (abs s) as [|y t]; cbn [hd_error tl] in *; subst x; reflexivity.
    - destruct Hb as [Hb|RB]; [cbn [has_back] in Hb; discriminate|].
      destruct (i_back I s) as [x s'] eqn:E.
      destruct (RB _ _ _ Hi E) as (Hx & Ha & Hi').
      rewrite (IH s' Hi'); [|right; exact RB|exact Hs].
      rewrite (r_len RF _ Hi'), Ha.
      destruct (rev (abs s)) as [|y t]; cbn [hd_error tl] in *; subst x; cbn [rev].
      + reflexivity.
      + rewrite nlen_rev. reflexivity.
    - destruct (r_nth RF k s Hi) as (x & s' & E & Hx & Ha & Hi').
      rewrite E, (IH s' Hi'); [|destruct Hb as [Hb|Hb]; [left; exact Hb|right; exact Hb]|exact Hs].
      rewrite (r_len RF _ Hi'), Ha, Hx. reflexivity.
    - rewrite (r_fold RF); auto.
    - destruct Hb as [Hb|RB]; [cbn [has_back] in Hb; discriminate|].
      rewrite (rdrain_refines RB); auto.
      rewrite (r_len RF _ Hi). unfold nlen. rewrite Nat2N.id. lia.
    - rewrite (r_fold RF); auto.
    - destruct Hs as [Hs|RS]; [cbn [has_split] in Hs; discriminate|].
      destruct (k <=? nlen (abs s)) eqn:Ek.
      + apply N.leb_le in Ek.
        destruct (r_split_ok RS k s Hi Ek) as (l & r & E & Hl & Hr & Il & Ir).
        rewrite E, (IHa l Il), (IHb r Ir), Hl, Hr; [reflexivity| | | |]; try (right; exact RS).
        * destruct Hb as [Hb|Hb]; [left|right; exact Hb].
          cbn [has_back] in Hb. apply orb_false_iff in Hb. tauto.
        * destruct Hb as [Hb|Hb]; [left|right; exact Hb].
          cbn [has_back] in Hb. apply orb_false_iff in Hb. tauto.
      + apply N.leb_gt in Ek. rewrite (r_split_panic RS k s Hi Ek). reflexivity.
  Qed.

  Corollary history_refines : refines_fwd -> refines_split -> refines_back ->
    forall h s, Inv s -> run_impl I h s = run_spec h (abs s).
  Proof. intros RF RS RB h s Hi. apply history_refines_gen; auto. Qed.
End Refine.

(* default nth / fold, derived from a next that pops the front *)
Section Defaults.
  Context {St A : Type} (next : St -> option A * St) (Inv : St -> Prop) (abs : St -> list A).
  Hypothesis next_ok : forall s x s', Inv s -> next s = (x, s') ->
    x = hd_error (abs s) /\ abs s' = tl (abs s) /\ Inv s'.

  Lemma nth_default_refines : forall fuel k s, Inv s -> (length (abs s) < fuel)%nat ->
    exists x s', nth_default next fuel k s = Some (x, s') /\
      x = hd_error (ndrop k (abs s)) /\ abs s' = tl (ndrop k (abs s)) /\ Inv s'.
  Proof.
    induction fuel as [|f IH]; intros k s Hi Hl; [lia|].
    cbn [nth_default]. destruct (k =? 0) eqn:Ek.
    - apply N.eqb_eq in Ek. subst k. destruct (next s) as [x s'] eqn:E.
      destruct (next_ok _ _ _ Hi E) as (Hx & Ha & Hi'). exists x, s'. rewrite ndrop_0. auto.
    - apply N.eqb_neq in Ek. destruct (next s) as [x s'] eqn:E.
      destruct (next_ok _ _ _ Hi E) as (Hx & Ha & Hi').
      destruct (abs s) as [|y t] eqn:Eabs; cbn [hd_error tl] in *; subst x.
      + exists None, s'. cbn [ndrop hd_error tl]. rewrite Ha. auto.
      + destruct (IH (N.pred k) s' Hi') as (x & s2 & E2 & Hx2 & Ha2 & Hi2).
        { rewrite Ha. cbn [length] in Hl. lia. }
        assert (Hd : ndrop k (y :: t) = ndrop (N.pred k) t).
        { replace k with (N.succ (N.pred k)) at 1 by lia. apply ndrop_succ. }
        exists x, s2. rewrite E2, Hd, <- Ha. auto.
  Qed.

  Lemma fdrain_refines : forall fuel s, Inv s -> (length (abs s) < fuel)%nat ->
    fdrain next fuel s = Some (abs s).
  Proof.
    induction fuel as [|f IH]; intros s Hi Hl; [lia|].
    cbn [fdrain]. destruct (next s) as [x s'] eqn:E.
    destruct (next_ok _ _ _ Hi E) as (Hx & Ha & Hi').
    destruct (abs s) as [|y t] eqn:Eabs; cbn [hd_error tl] in *; subst x; [reflexivity|].
    rewrite IH; [rewrite Ha; reflexivity|exact Hi'|rewrite Ha; cbn [length] in Hl; lia].
  Qed.
End Defaults.

(* refinement is preserved when items are mapped (Lanes over LaneRanges over Offsets ...) *)
Section MapRefine.
  Context {St A B : Type} (I : iface St A) (Inv : St -> Prop) (abs : St -> list A) (f : A -> B).

  Lemma map_refines_fwd : refines_fwd I Inv abs -> refines_fwd (map_iface f I) Inv (fun s => map f (abs s)).
  Proof.
    intros RF. constructor.
    - intros s x s' Hi E. cbn [map_iface i_next] in E.
      destruct (i_next I s) as [y t] eqn:E'. inversion E; subst.
      destruct (r_next _ _ _ RF _ _ _ Hi E') as (Hx & Ha & Hi').
      rewrite hd_error_map, tl_map, Hx, Ha. auto.
    - intros k s Hi. destruct (r_nth _ _ _ RF k s Hi) as (x & s' & E & Hx & Ha & Hi').
      exists (omap f x), s'. cbn [map_iface i_nth]. rewrite E.
      rewrite ndrop_map, hd_error_map, tl_map, Hx, Ha. auto.
    - intros s Hi. cbn [map_iface i_len]. rewrite nlen_map. apply (r_len _ _ _ RF); auto.
    - intros s Hi. cbn [map_iface i_fold]. rewrite (r_fold _ _ _ RF); auto.
  Qed.

  Lemma map_refines_split : refines_split I Inv abs -> refines_split (map_iface f I) Inv (fun s => map f (abs s)).
  Proof.
    intros RS. constructor.
    - intros k s Hi Hk. rewrite nlen_map in Hk.
      destruct (r_split_ok _ _ _ RS k s Hi Hk) as (l & r & E & Hl & Hr & Il & Ir).
      exists l, r. cbn [map_iface i_split]. rewrite ntake_map, ndrop_map, Hl, Hr. auto.
    - intros k s Hi Hk. rewrite nlen_map in Hk. cbn [map_iface i_split].
      apply (r_split_panic _ _ _ RS); auto.
  Qed.

  Lemma map_refines_back : refines_back I Inv abs -> refines_back (map_iface f I) Inv (fun s => map f (abs s)).
  Proof.
    intros RB s x s' Hi E. cbn [map_iface i_back] in E.
    destruct (i_back I s) as [y t] eqn:E'. inversion E; subst.
    destruct (RB _ _ _ Hi E') as (Hx & Ha & Hi').
    rewrite <- map_rev, hd_error_map, tl_map, <- map_rev, Hx, Ha. auto.
  Qed.
End MapRefine.

(* ------------------------------------------------------------------ deque-level facts *)
(* all items an observation shows as yielded, left half before right half *)
Fixpoint yielded {A} (o : obs A) : list A :=
  match o with
  | OEnd _ | OPanic | OStuck => []
  | OStep (Some x) _ r => x :: yielded r
  | OStep None _ r => yielded r
  | OFold l => l
  | OSplit a b => yielded a ++ yielded b
  end.

(* the items of [l] a history leaves unyielded: skipped by nth, still in the iterator when
   it is dropped, or lost when split_at panics *)
Fixpoint unconsumed {A} (h : hist) (l : list A) : list A :=
  match h with
  | HEnd => l
  | HNext h' => unconsumed h' (tl l)
  | HBack h' => unconsumed h' (rev (tl (rev l)))
  | HNth k h' => ntake k l ++ unconsumed h' (tl (ndrop k l))
  | HFold | HRFold | HPar => []
  | HSplit k a b => if k <=? nlen l then unconsumed a (ntake k l) ++ unconsumed b (ndrop k l) else l
  end.

Lemma rev_tl_rev_snoc {A} (t : list A) y : rev (tl (rev (t ++ [y]))) = t.
Proof. rewrite rev_app_distr. cbn [rev app tl]. apply rev_involutive. Qed.

(* Every item of the deque is accounted for exactly once: yielded or unconsumed. *)
Theorem spec_exactly_once {A} : forall h (l : list A),
  Permutation (yielded (run_spec h l) ++ unconsumed h l) l.
Proof.
  induction h as [|h IH|h IH|k h IH| | | |k a IHa b IHb]; intros l; cbn [run_spec unconsumed].
  - cbn [yielded app]. reflexivity.
  - destruct l as [|x t]; cbn [yielded tl app].
    + apply IH.
    + constructor. apply IH.
  - destruct (rev l) as [|x t] eqn:E; cbn [yielded tl].
    + assert (l = []) by (rewrite <- (rev_involutive l), E; reflexivity). subst l. apply IH.
    + assert (El : l = rev t ++ [x]) by (rewrite <- (rev_involutive l), E; reflexivity).
      rewrite El. cbn [app]. apply Permutation_cons_app. rewrite app_nil_r. apply IH.
  - pose proof (ntake_ndrop k l) as E.
    remember (ntake k l) as t. remember (ndrop k l) as d. rewrite <- E. clear E Heqt Heqd.
    destruct d as [|x d']; cbn [hd_error tl yielded].
    + rewrite app_nil_r. rewrite Permutation_app_swap_app.
      rewrite <- (app_nil_r t) at 2. apply Permutation_app_head. apply IH.
    + cbn [app]. apply Permutation_cons_app. rewrite Permutation_app_swap_app.
      apply Permutation_app_head. apply IH.
  - cbn [yielded]. rewrite app_nil_r. reflexivity.
  - cbn [yielded]. rewrite app_nil_r. symmetry. apply Permutation_rev.
  - cbn [yielded]. rewrite app_nil_r. reflexivity.
  - destruct (k <=? nlen l); cbn [yielded app]; [|reflexivity].
    pose proof (ntake_ndrop k l) as E.
    remember (ntake k l) as t. remember (ndrop k l) as d. rewrite <- E. clear E Heqt Heqd.
    specialize (IHa t). specialize (IHb d).
    apply Permutation_trans with ((yielded (run_spec a t) ++ unconsumed a t) ++ (yielded (run_spec b d) ++ unconsumed b d));
      [|apply Permutation_app; assumption].
    rewrite <- !app_assoc. apply Permutation_app_head. apply Permutation_app_swap_app.
Qed.

(* a history that drains every branch and neither skips nor over-splits yields everything *)
Fixpoint drains (h : hist) : bool :=
  match h with
  | HEnd => false
  | HNext h' | HBack h' => drains h'
  | HNth _ _ => false
  | HFold | HRFold | HPar => true
  | HSplit _ a b => drains a && drains b
  end.
Fixpoint splits_ok {A} (h : hist) (l : list A) : bool :=
  match h with
  | HEnd | HFold | HRFold | HPar => true
  | HNext h' => splits_ok h' (tl l)
  | HBack h' => splits_ok h' (rev (tl (rev l)))
  | HNth k h' => splits_ok h' (tl (ndrop k l))
  | HSplit k a b => (k <=? nlen l) && splits_ok a (ntake k l) && splits_ok b (ndrop k l)
  end.

Lemma drains_unconsumed {A} : forall h (l : list A), drains h = true -> splits_ok h l = true -> unconsumed h l = [].
Proof.
  induction h as [|h IH|h IH|k h IH| | | |k a IHa b IHb]; intros l Hd Hs; cbn [drains splits_ok unconsumed] in *;
    try discriminate; auto.
  apply andb_true_iff in Hd as [Da Db]. apply andb_true_iff in Hs as [Hs Sb]. apply andb_true_iff in Hs as [Hk Sa].
  rewrite Hk, IHa, IHb; auto.
Qed.

Corollary spec_drained_exactly_once {A} h (l : list A) :
  drains h = true -> splits_ok h l = true -> Permutation (yielded (run_spec h l)) l.
Proof.
  intros Hd Hs. pose proof (spec_exactly_once h l) as P.
  rewrite (drains_unconsumed h l Hd Hs), app_nil_r in P. exact P.
Qed.

Lemma NoDup_app_l {A} (a b : list A) : NoDup (a ++ b) -> NoDup a.
Proof.
  induction a as [|x a IH]; cbn [app]; intros H; [constructor|].
  inversion H; subst. constructor; [|auto].
  intros Hin. apply H2. apply in_or_app. left. exact Hin.
Qed.

(* at most once: if the deque holds no duplicates then no history yields one *)
Corollary spec_at_most_once {A} h (l : list A) : NoDup l -> NoDup (yielded (run_spec h l)).
Proof.
  intros Hn. pose proof (spec_exactly_once h l) as P.
  apply Permutation_sym in P. apply (Permutation_NoDup P) in Hn.
  apply NoDup_app_l in Hn. exact Hn.
Qed.

(* forward-only consumption yields a prefix, in order; backward-only the reversed suffix *)
Fixpoint nexts (n : nat) (h : hist) : hist := match n with O => h | S m => HNext (nexts m h) end.
Fixpoint backs (n : nat) (h : hist) : hist := match n with O => h | S m => HBack (backs m h) end.

Lemma spec_front_order {A} n (l : list A) : (n <= length l)%nat ->
  yielded (run_spec (nexts n HEnd) l) = firstn n l.
Proof.
  revert l; induction n as [|n IH]; intros l H; cbn [nexts run_spec yielded firstn]; [reflexivity|].
  destruct l as [|x t]; cbn [length] in H; [lia|]. cbn [yielded firstn]. f_equal. apply IH. lia.
Qed.

Lemma spec_back_order {A} n (l : list A) : (n <= length l)%nat ->
  yielded (run_spec (backs n HEnd) l) = firstn n (rev l).
Proof.
  revert l; induction n as [|n IH]; intros l H; cbn [backs run_spec yielded firstn]; [reflexivity|].
  destruct (rev l) as [|x t] eqn:E.
  - assert (l = []) by (rewrite <- (rev_involutive l), E; reflexivity). subst l. cbn [length] in H. lia.
  - cbn [yielded firstn]. f_equal. rewrite IH.
    + rewrite rev_involutive. reflexivity.
    + rewrite rev_length. assert (length (rev l) = S (length t)) by (rewrite E; reflexivity).
      rewrite rev_length in H0. lia.
Qed.
