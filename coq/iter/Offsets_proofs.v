(* C07 -- OffsetsBase refines a deque of storage offsets.

   Abstraction: the positions form a mixed-radix counter with value [linr]; the iterator
   stands for the offsets of linear indices  linr .. linr+len-1.  *)
From RV Require Import Prelude.
From Tensor Require Import Overlap.
From Iter Require Import ModelSpec ModelIter Spec_proofs Rm_proofs.
Open Scope N_scope.

(* ------------------------------------------------------------------ positions *)
Definition wf (p : IterPos) : Prop :=
  p_remaining p <= p_max p /\ p_offset p = pos_index p * p_stride p.
Definition shp (p : IterPos) : N * N := (p_max p, p_stride p).

Fixpoint T (l : list IterPos) : N :=
  match l with [] => 1 | p :: r => pos_size p * T r end.
Fixpoint linr (l : list IterPos) : N :=
  match l with [] => 0 | p :: r => pos_index p * T r + linr r end.
Fixpoint offs (l : list IterPos) (k : N) : N :=
  match l with [] => 0 | p :: r => offs r k + ((k / T r) mod pos_size p) * p_stride p end.

Lemma pos_size_pos p : 1 <= pos_size p. Proof. unfold pos_size. lia. Qed.
Lemma T_pos l : 1 <= T l.
Proof. induction l as [|p r IH]; cbn [T]; [lia|]. pose proof (pos_size_pos p). nia. Qed.

Lemma lin_pair l : fold_right lin_step (0, 1) l = (linr l, T l).
Proof.
  induction l as [|p r IH]; [reflexivity|]. cbn [fold_right]. rewrite IH. cbn [lin_step linr T].
  f_equal; lia.
Qed.
Lemma lin_linr l : lin l = linr l.
Proof. unfold lin. rewrite lin_pair. reflexivity. Qed.

Lemma oli_pair k l : fold_right (oli_step k) (0, 1) l = (offs l k, T l).
Proof.
  induction l as [|p r IH]; [reflexivity|]. cbn [fold_right]. rewrite IH. cbn [oli_step offs T].
  f_equal; lia.
Qed.
Lemma oli_offs l k : oli l k = offs l k.
Proof. unfold oli. rewrite oli_pair. reflexivity. Qed.

Lemma T_app a b : T (a ++ b) = T a * T b.
Proof. induction a as [|p a IH]; cbn [app T]; [lia|]. rewrite IH. lia. Qed.
Lemma linr_app a b : linr (a ++ b) = linr a * T b + linr b.
Proof. induction a as [|p a IH]; cbn [app linr]; [lia|]. rewrite IH, T_app. lia. Qed.
Lemma sum_offsets_cons p r : sum_offsets (p :: r) = p_offset p + sum_offsets r.
Proof. reflexivity. Qed.
Lemma sum_offsets_nil : sum_offsets [] = 0.
Proof. reflexivity. Qed.
Lemma sum_offsets_app a b : sum_offsets (a ++ b) = sum_offsets a + sum_offsets b.
Proof.
  induction a as [|p a IH]; cbn [app]; [rewrite sum_offsets_nil; lia|].
  rewrite !sum_offsets_cons, IH. lia.
Qed.

Lemma T_shape l l' : map shp l = map shp l' -> T l = T l'.
Proof.
  revert l'; induction l as [|p r IH]; intros [|p' r'] H; try discriminate; [reflexivity|].
  cbn [map] in H. inversion H. cbn [T]. unfold pos_size. rewrite (IH r') by assumption. congruence.
Qed.
Lemma offs_shape l l' k : map shp l = map shp l' -> offs l k = offs l' k.
Proof.
  revert l'; induction l as [|p r IH]; intros [|p' r'] H; try discriminate; [reflexivity|].
  cbn [map] in H. inversion H. cbn [offs]. unfold pos_size.
  rewrite (IH r') by assumption. rewrite (T_shape r r') by assumption. congruence.
Qed.

Lemma wf_index_lt p : wf p -> pos_index p < pos_size p.
Proof. unfold wf, pos_index, pos_size. lia. Qed.

Lemma linr_lt l : Forall wf l -> linr l < T l.
Proof.
  induction 1 as [|p r Hp Hr IH]; cbn [linr T]; [lia|].
  apply wf_index_lt in Hp. nia.
Qed.

Lemma offs_add_mul l : forall k j, offs l (k + j * T l) = offs l k.
Proof.
  induction l as [|p r IH]; intros k j; [reflexivity|]. cbn [offs T].
  pose proof (T_pos r). pose proof (pos_size_pos p).
  replace (j * (pos_size p * T r)) with ((j * pos_size p) * T r) by lia.
  rewrite IH, N.div_add by lia. rewrite N.mod_add by lia. reflexivity.
Qed.

Lemma offs_linr l : Forall wf l -> offs l (linr l) = sum_offsets l.
Proof.
  induction 1 as [|p r Hp Hr IH]; [reflexivity|]. rewrite sum_offsets_cons. cbn [offs linr].
  pose proof (T_pos r). pose proof (linr_lt r Hr).
  replace (pos_index p * T r + linr r) with (linr r + pos_index p * T r) by lia.
  rewrite offs_add_mul, IH, N.div_add by lia. rewrite (N.div_small (linr r)) by lia.
  rewrite N.add_0_l, N.mod_small by (apply wf_index_lt; exact Hp).
  destruct Hp as [_ Ho]. rewrite Ho. lia.
Qed.

Lemma offs_app a b k : offs (a ++ b) k = offs a (k / T b) + offs b k.
Proof.
  induction a as [|p a IH]; cbn [app offs]; [lia|].
  rewrite IH, T_app. pose proof (T_pos a). pose proof (T_pos b).
  rewrite N.div_div by lia. replace (T b * T a) with (T a * T b) by lia. lia.
Qed.

(* ------------------------------------------------------------------ single steps *)
Lemma pos_step_spec p p' ok : wf p -> pos_step p = (p', ok) ->
  wf p' /\ shp p' = shp p /\ pos_index p' + pos_size p * (if ok then 0 else 1) = pos_index p + 1.
Proof.
  unfold wf, pos_step, pos_index, pos_size, shp. intros [H1 H2] E.
  destruct (p_remaining p =? 0) eqn:Er; inversion E; subst; clear E; cbn [p_remaining p_offset p_stride p_max].
  - apply N.eqb_eq in Er. split; [split; lia|split; [reflexivity|lia]].
  - apply N.eqb_neq in Er. split; [split; [lia|]|split; [reflexivity|lia]].
    rewrite H2. replace (p_max p - (p_remaining p - 1)) with (p_max p - p_remaining p + 1) by lia. lia.
Qed.

Lemma pos_step_offset p p' : pos_step p = (p', true) -> p_offset p' = p_offset p + p_stride p.
Proof.
  unfold pos_step. destruct (p_remaining p =? 0); intros E; inversion E; reflexivity.
Qed.
Lemma pos_step_reset p p' : pos_step p = (p', false) -> p_offset p' = 0.
Proof.
  unfold pos_step. destruct (p_remaining p =? 0); intros E; inversion E; reflexivity.
Qed.

Lemma step_outer_spec l : Forall wf l -> forall l' adv, step_outer l = (l', adv) ->
  Forall wf l' /\ map shp l' = map shp l /\ linr l' + T l * (if adv then 0 else 1) = linr l + 1.
Proof.
  induction 1 as [|p r Hp Hr IH]; intros l' adv E; cbn [step_outer] in E.
  - inversion E; subst. cbn [linr T map]. split; [constructor|split; [reflexivity|lia]].
  - destruct (step_outer r) as [r' adv'] eqn:Er.
    destruct (IH r' adv' eq_refl) as (W & S & L).
    pose proof (T_shape _ _ S) as TS.
    destruct adv'.
    + inversion E; subst. cbn [map linr T]. rewrite S, TS. split; [constructor; assumption|split; [reflexivity|lia]].
    + destruct (pos_step p) as [p' ok] eqn:Ep. inversion E; subst.
      destruct (pos_step_spec _ _ _ Hp Ep) as (W' & S' & L').
      cbn [map linr T]. rewrite S, S', TS. split; [constructor; assumption|split; [reflexivity|]].
      destruct adv; nia.
Qed.

Lemma pos_set_index_spec p i : i <= p_max p ->
  wf (pos_set_index p i) /\ shp (pos_set_index p i) = shp p /\ pos_index (pos_set_index p i) = i.
Proof.
  intros H. unfold wf, pos_set_index, pos_index, shp. cbn [p_remaining p_offset p_stride p_max].
  replace (p_max p - (p_max p - i)) with i by lia. split; [split; [lia|reflexivity]|split; reflexivity].
Qed.

Lemma sb_spec p c p' c' : wf p -> sb p c = (p', c') ->
  wf p' /\ shp p' = shp p /\ pos_index p' + pos_size p * c' = pos_index p + c.
Proof.
  intros Hp E. unfold sb in E. destruct (c =? 0) eqn:Ec.
  - apply N.eqb_eq in Ec. inversion E; subst. split; [exact Hp|split; [reflexivity|lia]].
  - inversion E; subst; clear E. pose proof (pos_size_pos p) as Hs.
    set (ni := pos_index p + c).
    assert (Hm : ni mod pos_size p <= p_max p).
    { pose proof (N.mod_lt ni (pos_size p)). unfold pos_size in *. lia. }
    destruct (pos_set_index_spec p _ Hm) as (W & S & I).
    split; [exact W|split; [exact S|]]. rewrite I.
    pose proof (N.div_mod ni (pos_size p)). lia.
Qed.

Lemma sb_list_spec l : Forall wf l -> forall c l' c', sb_list l c = (l', c') ->
  Forall wf l' /\ map shp l' = map shp l /\ linr l' + T l * c' = linr l + c.
Proof.
  induction 1 as [|p r Hp Hr IH]; intros c l' c' E; cbn [sb_list] in E.
  - inversion E; subst. cbn [linr T map]. split; [constructor|split; [reflexivity|lia]].
  - destruct (sb_list r c) as [r' c1] eqn:Er. destruct (sb p c1) as [p' c2] eqn:Ep.
    inversion E; subst.
    destruct (IH _ _ _ Er) as (W & S & L). destruct (sb_spec _ _ _ _ Hp Ep) as (W' & S' & L').
    pose proof (T_shape _ _ S) as TS.
    cbn [map linr T]. rewrite S, S', TS. split; [constructor; assumption|split; [reflexivity|]]. nia.
Qed.

Lemma step_outer_app a b :
  step_outer (a ++ b) =
  let (b', adv) := step_outer b in
  if adv then (a ++ b', true) else let (a', adv') := step_outer a in (a' ++ b', adv').
Proof.
  induction a as [|p a IH]; cbn [app step_outer].
  - destruct (step_outer b) as [b' adv]. destruct adv; reflexivity.
  - rewrite IH. destruct (step_outer b) as [b' adv]. destruct adv; [reflexivity|].
    destruct (step_outer a) as [a' adv']. destruct adv'; [reflexivity|].
    destruct (pos_step p); reflexivity.
Qed.

Lemma sb_list_app a b c :
  sb_list (a ++ b) c =
  let (b', c1) := sb_list b c in let (a', c2) := sb_list a c1 in (a' ++ b', c2).
Proof.
  induction a as [|p a IH]; cbn [app sb_list].
  - destruct (sb_list b c); reflexivity.
  - rewrite IH. destruct (sb_list b c) as [b' c1]. destruct (sb_list a c1) as [a' c2].
    destruct (sb p c2); reflexivity.
Qed.

(* ------------------------------------------------------------------ invariant, abstraction *)
Definition ob_core (s : OffsetsBase) : Prop :=
  Forall wf (ob_all s) /\
  ob_outer_offset s = sum_offsets (ob_outer s) /\
  linr (ob_all s) + ob_len s <= T (ob_all s).
Definition ob_inv (s : OffsetsBase) : Prop :=
  ob_core s /\ ob_inner_offset s = p_offset (ob_inner0 s) + p_offset (ob_inner1 s).

Definition ob_abs (s : OffsetsBase) : list N :=
  map (offs (ob_all s)) (nrange (linr (ob_all s)) (N.to_nat (ob_len s))).

Lemma ob_abs_len s : nlen (ob_abs s) = ob_len s.
Proof. unfold ob_abs. rewrite nlen_map, nlen_nrange. lia. Qed.

Lemma sum_offsets_all s :
  sum_offsets (ob_all s) = sum_offsets (ob_outer s) + (p_offset (ob_inner0 s) + p_offset (ob_inner1 s)).
Proof. unfold ob_all. rewrite sum_offsets_app, !sum_offsets_cons, sum_offsets_nil. lia. Qed.

(* the current offset is the image of the current linear index *)
Lemma ob_current s : ob_inv s -> ob_outer_offset s + ob_inner_offset s = offs (ob_all s) (linr (ob_all s)).
Proof.
  intros [(W & O & _) I]. rewrite offs_linr by exact W. rewrite sum_offsets_all, O, I. reflexivity.
Qed.

(* ------------------------------------------------------------------ next *)
Lemma ob_next_all s x s' : ob_len s <> 0 -> ob_next s = (x, s') ->
  x = Some (ob_outer_offset s + ob_inner_offset s) /\
  ob_all s' = fst (step_outer (ob_all s)) /\
  ob_len s' = ob_len s - 1.
Proof.
  intros Hl E. unfold ob_next in E. apply N.eqb_neq in Hl. rewrite Hl in E.
  unfold ob_all at 2. rewrite step_outer_app. cbn [step_outer].
  destruct (pos_step (ob_inner1 s)) as [i1 ok1] eqn:E1.
  destruct ok1.
  - inversion E; subst; clear E. cbn [fst]. split; [reflexivity|split; reflexivity].
  - destruct (pos_step (ob_inner0 s)) as [i0 ok0] eqn:E0.
    destruct ok0.
    + inversion E; subst; clear E. cbn [fst]. split; [reflexivity|split; reflexivity].
    + destruct (step_outer (ob_outer s)) as [o' adv] eqn:Eo.
      inversion E; subst; clear E. cbn [fst]. split; [reflexivity|split; reflexivity].
Qed.

Lemma ob_next_caches s x s' : ob_inv s -> ob_len s <> 0 -> ob_next s = (x, s') ->
  ob_outer_offset s' = sum_offsets (ob_outer s') /\
  ob_inner_offset s' = p_offset (ob_inner0 s') + p_offset (ob_inner1 s').
Proof.
  intros [(W & O & _) I] Hl E. unfold ob_next in E. apply N.eqb_neq in Hl. rewrite Hl in E.
  destruct (pos_step (ob_inner1 s)) as [i1 ok1] eqn:E1.
  destruct ok1.
  - inversion E; subst; clear E. cbn [ob_outer_offset ob_outer ob_inner_offset ob_inner0 ob_inner1].
    rewrite (pos_step_offset _ _ E1). split; [exact O|lia].
  - destruct (pos_step (ob_inner0 s)) as [i0 ok0] eqn:E0.
    destruct ok0.
    + inversion E; subst; clear E. cbn [ob_outer_offset ob_outer ob_inner_offset ob_inner0 ob_inner1].
      rewrite (pos_step_reset _ _ E1). split; [exact O|lia].
    + destruct (step_outer (ob_outer s)) as [o' adv] eqn:Eo.
      inversion E; subst; clear E. cbn [ob_outer_offset ob_outer ob_inner_offset ob_inner0 ob_inner1].
      rewrite (pos_step_reset _ _ E1). split; [reflexivity|lia].
Qed.

Theorem ob_next_refines s x s' : ob_inv s -> ob_next s = (x, s') ->
  x = hd_error (ob_abs s) /\ ob_abs s' = tl (ob_abs s) /\ ob_inv s'.
Proof.
  intros Hi E. destruct (N.eq_dec (ob_len s) 0) as [Hz|Hnz].
  - unfold ob_next in E. rewrite Hz in E. cbn in E. inversion E; subst.
    unfold ob_abs. rewrite Hz. cbn. auto.
  - destruct (ob_next_all _ _ _ Hnz E) as (Hx & Ha & Hl).
    destruct (ob_next_caches _ _ _ Hi Hnz E) as (Co & Ci).
    pose proof (ob_current s Hi) as Hc.
    destruct Hi as [(W & O & B) I].
    destruct (step_outer (ob_all s)) as [l' adv] eqn:Es. cbn [fst] in Ha.
    destruct (step_outer_spec _ W _ _ Es) as (W' & S' & L').
    pose proof (T_shape _ _ S') as TS. pose proof (linr_lt _ W') as Hlt.
    assert (Hlen : N.to_nat (ob_len s) = S (N.to_nat (ob_len s'))) by lia.
    unfold ob_abs. rewrite Hlen. cbn [nrange map hd_error tl]. rewrite Ha.
    split; [rewrite Hx, Hc; reflexivity|].
    destruct adv.
    + (* no wrap-around: the counter advanced by one *)
      assert (El : linr l' = N.succ (linr (ob_all s))) by lia.
      split.
      * rewrite El. apply map_ext. intros k. apply offs_shape. exact S'.
      * split; [|exact Ci]. split; [rewrite Ha; exact W'|split; [exact Co|rewrite Ha, TS; lia]].
    + (* the counter wrapped to 0: this was the last element *)
      assert (El : ob_len s' = 0) by lia.
      rewrite El. cbn [N.to_nat nrange map]. split; [reflexivity|].
      split; [|exact Ci]. split; [rewrite Ha; exact W'|split; [exact Co|rewrite Ha, TS; lia]].
Qed.

(* ------------------------------------------------------------------ step_by *)
Lemma ob_step_by_all s n :
  ob_all (ob_step_by s n) = fst (sb_list (ob_all s) (N.min n (ob_len s))) /\
  ob_len (ob_step_by s n) = ob_len s - N.min n (ob_len s) /\
  ob_outer_offset (ob_step_by s n) = sum_offsets (ob_outer (ob_step_by s n)) /\
  ob_inner_offset (ob_step_by s n) = p_offset (ob_inner0 (ob_step_by s n)) + p_offset (ob_inner1 (ob_step_by s n)).
Proof.
  unfold ob_step_by. unfold ob_all at 2. rewrite sb_list_app. cbn [sb_list].
  destruct (sb (ob_inner1 s) (N.min n (ob_len s))) as [i1 c1].
  destruct (sb (ob_inner0 s) c1) as [i0 c0].
  destruct (sb_list (ob_outer s) c0) as [o c]. cbn [fst ob_all ob_len ob_outer ob_inner0 ob_inner1 ob_outer_offset ob_inner_offset].
  split; [reflexivity|split; [reflexivity|split; reflexivity]].
Qed.

Lemma map_nrange_ext (f g : N -> N) a n : (forall k, f k = g k) -> map f (nrange a n) = map g (nrange a n).
Proof. intros H. apply map_ext. exact H. Qed.

Theorem ob_step_by_refines s n : ob_inv s ->
  ob_abs (ob_step_by s n) = ndrop n (ob_abs s) /\ ob_inv (ob_step_by s n).
Proof.
  intros [(W & O & B) I].
  destruct (ob_step_by_all s n) as (Ha & Hl & Co & Ci).
  set (m := N.min n (ob_len s)) in *.
  destruct (sb_list (ob_all s) m) as [l' c] eqn:Es. cbn [fst] in Ha.
  destruct (sb_list_spec _ W _ _ _ Es) as (W' & S' & L').
  pose proof (T_shape _ _ S') as TS. pose proof (linr_lt _ W') as Hlt. pose proof (T_pos (ob_all s)) as Tp.
  assert (Hdrop : ndrop n (ob_abs s) = map (offs (ob_all s)) (nrange (linr (ob_all s) + m) (N.to_nat (ob_len s - m)))).
  { unfold ob_abs. rewrite ndrop_map. f_equal.
    destruct (N.le_gt_cases n (ob_len s)) as [Hn|Hn].
    - rewrite ndrop_nrange by lia. replace m with n by lia. f_equal. lia.
    - rewrite ndrop_all by (rewrite nlen_nrange; lia).
      replace (ob_len s - m) with 0 by lia. reflexivity. }
  rewrite Hdrop. unfold ob_abs. rewrite Ha, Hl.
  destruct (N.eq_dec c 0) as [Hc|Hc].
  - assert (El : linr l' = linr (ob_all s) + m) by nia.
    split.
    + rewrite El. apply map_ext. intros k. apply offs_shape. exact S'.
    + split; [|exact Ci]. split; [rewrite Ha; exact W'|split; [exact Co|rewrite Ha, Hl, TS; lia]].
  - (* carry out of the top dimension: everything was consumed *)
    assert (Hc1 : c = 1) by nia. subst c.
    assert (Em : ob_len s - m = 0) by nia.
    rewrite Em. cbn [N.to_nat nrange map]. split; [reflexivity|].
    split; [|exact Ci]. split; [rewrite Ha; exact W'|split; [exact Co|rewrite Ha, Hl, TS, Em; lia]].
Qed.

(* ------------------------------------------------------------------ next_back (fixed) *)
Lemma ob_set_len_all s n : ob_all (ob_set_len s n) = ob_all s.
Proof. reflexivity. Qed.

Theorem ob_next_back_refines s x s' : ob_inv s -> ob_next_back s = (x, s') ->
  x = hd_error (rev (ob_abs s)) /\ ob_abs s' = rev (tl (rev (ob_abs s))) /\ ob_inv s'.
Proof.
  intros Hi E. unfold ob_next_back in E.
  destruct (ob_len s =? 0) eqn:Ez.
  - apply N.eqb_eq in Ez. inversion E; subst. unfold ob_abs. rewrite Ez. cbn. auto.
  - apply N.eqb_neq in Ez. inversion E; subst; clear E.
    destruct Hi as [(W & O & B) I].
    assert (Hlen : N.to_nat (ob_len s) = S (N.to_nat (ob_len s - 1))) by lia.
    unfold ob_abs. rewrite ob_set_len_all. cbn [ob_set_len ob_len].
    rewrite Hlen, nrange_snoc, map_app, rev_app_distr. cbn [map rev app hd_error tl].
    rewrite rev_involutive. split; [|split].
    + unfold ob_oli, ob_front. rewrite oli_offs, lin_linr. do 2 f_equal. lia.
    + reflexivity.
    + split; [|exact I]. split; [exact W|split; [exact O|cbn [ob_set_len ob_len]; rewrite ob_set_len_all; lia]].
Qed.

(* ------------------------------------------------------------------ split_at *)
Theorem ob_split_refines k s : ob_inv s ->
  (k <= ob_len s -> exists l r, ob_split k s = Some (l, r) /\
      ob_abs l = ntake k (ob_abs s) /\ ob_abs r = ndrop k (ob_abs s) /\ ob_inv l /\ ob_inv r) /\
  (ob_len s < k -> ob_split k s = None).
Proof.
  intros Hi. unfold ob_split. split; intros Hk.
  - apply N.leb_le in Hk. rewrite Hk. apply N.leb_le in Hk.
    destruct (ob_step_by_refines s k Hi) as (Hr & Ir).
    eexists _, _. split; [reflexivity|]. split; [|split; [exact Hr|split; [|exact Ir]]].
    + unfold ob_truncate, ob_abs. rewrite ob_set_len_all. cbn [ob_set_len ob_len].
      rewrite ntake_map. f_equal. rewrite ntake_nrange by lia. f_equal. lia.
    + destruct Hi as [(W & O & B) I]. unfold ob_truncate.
      split; [|exact I]. split; [exact W|split; [exact O|rewrite ob_set_len_all; cbn [ob_set_len ob_len]; lia]].
  - apply N.leb_gt in Hk. rewrite Hk. reflexivity.
Qed.

(* ------------------------------------------------------------------ new *)
Lemma wf_mk_pos d : wf (mk_pos d).
Proof. unfold wf, mk_pos, pos_new, pos_index. cbn [p_remaining p_offset p_stride p_max]. lia. Qed.
Lemma index_mk_pos d : pos_index (mk_pos d) = 0.
Proof. unfold mk_pos, pos_new, pos_index. cbn [p_remaining p_max]. lia. Qed.
Lemma offset_mk_pos d : p_offset (mk_pos d) = 0. Proof. reflexivity. Qed.
Lemma size_mk_pos d : dsize d <> 0 -> pos_size (mk_pos d) = dsize d.
Proof. unfold mk_pos, pos_new, pos_size. cbn [p_max]. lia. Qed.

Lemma linr_new dims : linr (map mk_pos dims) = 0.
Proof. induction dims as [|d r IH]; cbn [map linr]; [reflexivity|]. rewrite IH, index_mk_pos. lia. Qed.
Lemma sum_offsets_new dims : sum_offsets (map mk_pos dims) = 0.
Proof.
  induction dims as [|d r IH]; [reflexivity|]. cbn [map]. rewrite sum_offsets_cons, IH. reflexivity.
Qed.
Lemma T_new dims : is_empty dims = false -> T (map mk_pos dims) = prod_sizes dims.
Proof.
  induction dims as [|d r IH]; intros H; [reflexivity|].
  cbn [is_empty existsb] in H. apply orb_false_iff in H as [H1 H2]. apply N.eqb_neq in H1.
  cbn [map T]. rewrite prod_sizes_cons, size_mk_pos, IH by assumption. reflexivity.
Qed.
Lemma offs_new dims k : is_empty dims = false -> offs (map mk_pos dims) k = doffs dims k.
Proof.
  induction dims as [|d r IH]; intros H; [reflexivity|].
  cbn [is_empty existsb] in H. apply orb_false_iff in H as [H1 H2]. apply N.eqb_neq in H1.
  cbn [map offs doffs]. rewrite IH, T_new, size_mk_pos by assumption. reflexivity.
Qed.

(* split2 only pads with unit axes in front *)
Definition pad2 (l : list dim) : list dim :=
  match l with
  | [] => [(1, 0); (1, 0)]
  | [a] => [(1, 0); a]
  | _ => l
  end.

Lemma split2_pad2 l : let '(o, a, b) := split2 l in o ++ [a; b] = pad2 l.
Proof.
  induction l as [|x r IH]; [reflexivity|].
  destruct r as [|y r']; [reflexivity|].
  destruct r' as [|z r'']; [reflexivity|].
  change (split2 (x :: y :: z :: r'')) with (let '(o, a, b) := split2 (y :: z :: r'') in (x :: o, a, b)).
  destruct (split2 (y :: z :: r'')) as [[o a] b]. cbn [pad2] in *. cbn [app]. rewrite IH. reflexivity.
Qed.

Lemma rm_pad2 l : rm (pad2 l) = rm l.
Proof. destruct l as [|a [|b r]]; cbn [pad2]; rewrite ?rm_unit; reflexivity. Qed.
Lemma prod_pad2 l : prod_sizes (pad2 l) = prod_sizes l.
Proof.
  destruct l as [|a [|b r]]; cbn [pad2]; [reflexivity| |reflexivity].
  rewrite (prod_sizes_cons (1, 0)). change (dsize (1, 0)) with 1. lia.
Qed.
Lemma is_empty_pad2 l : is_empty (pad2 l) = is_empty l.
Proof. destruct l as [|a [|b r]]; reflexivity. Qed.

Lemma ob_new_all dims :
  ob_all (ob_new dims) = map mk_pos (pad2 (merge_axes dims)) /\
  ob_len (ob_new dims) = prod_sizes (merge_axes dims) /\
  ob_inner_offset (ob_new dims) = 0 /\ ob_outer_offset (ob_new dims) = 0.
Proof.
  unfold ob_new. pose proof (split2_pad2 (merge_axes dims)) as H.
  destruct (split2 (merge_axes dims)) as [[o a] b].
  cbn [ob_all ob_len ob_outer ob_inner0 ob_inner1 ob_inner_offset ob_outer_offset].
  rewrite <- H, map_app. split; [reflexivity|split; [reflexivity|split; reflexivity]].
Qed.

Theorem ob_new_inv dims : ob_inv (ob_new dims).
Proof.
  destruct (ob_new_all dims) as (Ha & Hl & Hi & Ho).
  assert (Hall : forall l, Forall wf (map mk_pos l)).
  { induction l; cbn [map]; constructor; [apply wf_mk_pos|assumption]. }
  split; [split; [|split]|].
  - rewrite Ha. apply Hall.
  - rewrite Ho. unfold ob_new. destruct (split2 (merge_axes dims)) as [[o a] b]. cbn [ob_outer].
    rewrite sum_offsets_new. reflexivity.
  - rewrite Ha, Hl, linr_new, N.add_0_l.
    destruct (is_empty (pad2 (merge_axes dims))) eqn:E.
    + rewrite is_empty_pad2 in E. apply is_empty_prod in E. rewrite E. pose proof (T_pos (map mk_pos (pad2 (merge_axes dims)))). lia.
    + rewrite T_new, prod_pad2 by exact E. lia.
  - rewrite Hi. unfold ob_new. destruct (split2 (merge_axes dims)) as [[o a] b]. reflexivity.
Qed.

(* a fresh iterator stands for all offsets of the layout, in row-major order *)
Theorem ob_new_abs dims : ob_abs (ob_new dims) = rm dims.
Proof.
  destruct (ob_new_all dims) as (Ha & Hl & _ & _).
  destruct (merge_axes_preserves_order dims) as [Hrm Hprod].
  unfold ob_abs. rewrite Ha, Hl, linr_new. fold (range0 (prod_sizes (merge_axes dims))).
  destruct (is_empty (merge_axes dims)) eqn:E.
  - rewrite <- Hrm. rewrite (rm_zero _ E). apply is_empty_prod in E. rewrite E. reflexivity.
  - rewrite <- Hrm, <- rm_pad2, rm_doffs, prod_pad2. apply map_ext. intros k.
    apply offs_new. rewrite is_empty_pad2. exact E.
Qed.
