(* C07 -- executable model of rten-tensor/src/iterators.rs (+ iterators/parallel.rs).

   IterPos, OffsetsBase (new via merge_axes, next, step_outer_pos, step_by,
   offset_from_linear_index, linear_index, next_back, truncate, split_at, fold), Offsets
   (contiguous Range fast path / Indexing path), LaneRanges+Lanes, Lane/LaneMut,
   InnerIterBase+InnerIter, AxisIter, AxisChunks and their SplitIterator impls.

   usize arithmetic is modelled exactly (N): every intermediate value is bounded by
   the layout's min_data_len or its element count, which fit usize for any view that exists
   (C06).  `x - y` below is N's truncated subtraction; every use is either Rust's
   saturating_sub or guarded so that y <= x (proved in the invariants).

   The functions suffixed _orig are the code before the `fix:` commits on branch verif-iter;
   they are kept for the refutation witnesses.  Executable definitions only. *)
From RV Require Import Prelude.
From Tensor Require Import Overlap.
From Iter Require Import ModelSpec.
Open Scope N_scope.

(* ------------------------------------------------------------------ IterPos *)
Record IterPos := { p_remaining : N; p_offset : N; p_stride : N; p_max : N }.

(* IterPos::from_size_stride: remaining = size.saturating_sub(1) *)
Definition pos_new (size stride : N) : IterPos :=
  {| p_remaining := size - 1; p_offset := 0; p_stride := stride; p_max := size - 1 |}.

(* IterPos::step *)
Definition pos_step (p : IterPos) : IterPos * bool :=
  if p_remaining p =? 0
  then ({| p_remaining := p_max p; p_offset := 0; p_stride := p_stride p; p_max := p_max p |}, false)
  else ({| p_remaining := p_remaining p - 1; p_offset := p_offset p + p_stride p;
           p_stride := p_stride p; p_max := p_max p |}, true).

Definition pos_size (p : IterPos) : N := p_max p + 1.
Definition pos_index (p : IterPos) : N := p_max p - p_remaining p.
Definition pos_set_index (p : IterPos) (i : N) : IterPos :=
  {| p_remaining := p_max p - i; p_offset := i * p_stride p; p_stride := p_stride p; p_max := p_max p |}.

(* ------------------------------------------------------------------ merge_axes *)
(* [merged] is the SmallVec with its most recently pushed entry at the head, i.e. already in
   the order the final `merged.reverse()` produces (outermost first). *)
Fixpoint merge_loop (rdims : list dim) (merged : list dim) : list dim :=
  match rdims with
  | [] => merged
  | o :: r =>
      match merged with
      | i :: m =>
          if (dsize o =? 1) || (dstride o =? dstride i * dsize i)
          then merge_loop r ((dsize i * dsize o, dstride i) :: m)
          else merge_loop r (o :: merged)
      | [] => merged
      end
  end.
Definition merge_axes (dims : list dim) : list dim :=
  match rev dims with
  | [] => []
  | d :: r => merge_loop r [d]
  end.

(* ------------------------------------------------------------------ OffsetsBase *)
Record OffsetsBase := {
  ob_len : N;
  ob_inner_offset : N;
  ob_inner0 : IterPos;
  ob_inner1 : IterPos;
  ob_outer_offset : N;
  ob_outer : list IterPos;
}.

(* the last INNER_NDIM = 2 merged dims become inner_pos (padded in front with (1,0)),
   the others outer_pos *)
Fixpoint split2 (l : list dim) : list dim * dim * dim :=
  match l with
  | [] => ([], (1, 0), (1, 0))
  | [a] => ([], (1, 0), a)
  | [a; b] => ([], a, b)
  | x :: r => let '(o, a, b) := split2 r in (x :: o, a, b)
  end.

Definition mk_pos (d : dim) : IterPos := pos_new (dsize d) (dstride d).

Definition ob_new (dims : list dim) : OffsetsBase :=
  let merged := merge_axes dims in
  let '(o, a, b) := split2 merged in
  {| ob_len := prod_sizes merged;
     ob_inner_offset := 0;
     ob_inner0 := mk_pos a;
     ob_inner1 := mk_pos b;
     ob_outer_offset := 0;
     ob_outer := map mk_pos o |}.

Definition sum_offsets (l : list IterPos) : N := fold_right (fun p acc => p_offset p + acc) 0 l.

(* step_outer_pos: `for dim in outer_pos.rev() { if dim.step() break }`; returns the new
   positions and whether some dimension advanced (= !done) *)
Fixpoint step_outer (l : list IterPos) : list IterPos * bool :=
  match l with
  | [] => ([], false)
  | p :: r =>
      let (r', adv) := step_outer r in
      if adv then (p :: r', true)
      else let (p', ok) := pos_step p in (p' :: r', ok)
  end.

(* all positions, outermost first: `pos(dim)` for dim in 0..ndim() *)
Definition ob_all (s : OffsetsBase) : list IterPos := ob_outer s ++ [ob_inner0 s; ob_inner1 s].

(* Iterator::next *)
Definition ob_next (s : OffsetsBase) : option N * OffsetsBase :=
  if ob_len s =? 0 then (None, s)
  else
    let offset := ob_outer_offset s + ob_inner_offset s in
    let len' := ob_len s - 1 in
    let io := ob_inner_offset s + p_stride (ob_inner1 s) in
    let (i1, ok1) := pos_step (ob_inner1 s) in
    if ok1
    then (Some offset, {| ob_len := len'; ob_inner_offset := io; ob_inner0 := ob_inner0 s;
                          ob_inner1 := i1; ob_outer_offset := ob_outer_offset s;
                          ob_outer := ob_outer s |})
    else
      let (i0, ok0) := pos_step (ob_inner0 s) in
      if ok0
      then (Some offset, {| ob_len := len'; ob_inner_offset := p_offset i0; ob_inner0 := i0;
                            ob_inner1 := i1; ob_outer_offset := ob_outer_offset s;
                            ob_outer := ob_outer s |})
      else
        let (o', _) := step_outer (ob_outer s) in
        (Some offset, {| ob_len := len'; ob_inner_offset := p_offset i0; ob_inner0 := i0;
                         ob_inner1 := i1; ob_outer_offset := sum_offsets o'; ob_outer := o' |}).

(* one iteration of step_by's loop (with its `if remaining == 0 break`) *)
Definition sb (p : IterPos) (remaining : N) : IterPos * N :=
  if remaining =? 0 then (p, 0)
  else let ni := pos_index p + remaining in
       (pos_set_index p (ni mod pos_size p), ni / pos_size p).
Fixpoint sb_list (l : list IterPos) (remaining : N) : list IterPos * N :=
  match l with
  | [] => ([], remaining)
  | p :: r => let (r', c) := sb_list r remaining in
              let (p', c') := sb p c in (p' :: r', c')
  end.

(* OffsetsBase::step_by *)
Definition ob_step_by (s : OffsetsBase) (n : N) : OffsetsBase :=
  let remaining := N.min n (ob_len s) in
  let (i1, c1) := sb (ob_inner1 s) remaining in
  let (i0, c0) := sb (ob_inner0 s) c1 in
  let (o, _) := sb_list (ob_outer s) c0 in
  {| ob_len := ob_len s - remaining;
     ob_inner_offset := p_offset i0 + p_offset i1;
     ob_inner0 := i0; ob_inner1 := i1;
     ob_outer_offset := sum_offsets o; ob_outer := o |}.

(* offset_from_linear_index: `for dim in (0..ndim).rev()` with (offset, shape_product) *)
Definition oli_step (index : N) (p : IterPos) (acc : N * N) : N * N :=
  let (offset, shape_product) := acc in
  (offset + ((index / shape_product) mod pos_size p) * p_stride p, shape_product * pos_size p).
Definition oli (l : list IterPos) (index : N) : N := fst (fold_right (oli_step index) (0, 1) l).
Definition ob_oli (s : OffsetsBase) (index : N) : N := oli (ob_all s) index.

(* linear_index (added by the fix): linear index of the element `next` would yield *)
Definition lin_step (p : IterPos) (acc : N * N) : N * N :=
  let (index, shape_product) := acc in
  (index + pos_index p * shape_product, shape_product * pos_size p).
Definition lin (l : list IterPos) : N := fst (fold_right lin_step (0, 1) l).
Definition ob_front (s : OffsetsBase) : N := lin (ob_all s).

Definition ob_set_len (s : OffsetsBase) (len : N) : OffsetsBase :=
  {| ob_len := len; ob_inner_offset := ob_inner_offset s; ob_inner0 := ob_inner0 s;
     ob_inner1 := ob_inner1 s; ob_outer_offset := ob_outer_offset s; ob_outer := ob_outer s |}.

(* DoubleEndedIterator::next_back, before the fix: index = len - 1 *)
Definition ob_next_back_orig (s : OffsetsBase) : option N * OffsetsBase :=
  if ob_len s =? 0 then (None, s)
  else (Some (ob_oli s (ob_len s - 1)), ob_set_len s (ob_len s - 1)).
(* after the fix: index = linear_index() + len - 1 *)
Definition ob_next_back (s : OffsetsBase) : option N * OffsetsBase :=
  if ob_len s =? 0 then (None, s)
  else (Some (ob_oli s (ob_front s + ob_len s - 1)), ob_set_len s (ob_len s - 1)).

(* truncate *)
Definition ob_truncate (s : OffsetsBase) (len : N) : OffsetsBase := ob_set_len s (N.min (ob_len s) len).

(* SplitIterator::split_at; None = `assert!(self.len >= index)` fails *)
Definition ob_split (index : N) (s : OffsetsBase) : option (OffsetsBase * OffsetsBase) :=
  if index <=? ob_len s then Some (ob_truncate s index, ob_step_by s index) else None.

(* Iterator::fold.  One pass over the two inner `for` loops yields [fold_cands]; the pass
   is cut short when len reaches 0 (`break 'outer`). *)
Definition fold_cands (s : OffsetsBase) : list N :=
  let i0 := pos_index (ob_inner0 s) in
  let i1 := pos_index (ob_inner1 s) in
  flat_map (fun a =>
      let start := if a =? i0 then i1 else 0 in
      map (fun b => ob_outer_offset s + (a * p_stride (ob_inner0 s) + b * p_stride (ob_inner1 s)))
          (nrange start (N.to_nat (pos_size (ob_inner1 s) - start))))
    (nrange i0 (N.to_nat (pos_size (ob_inner0 s) - i0))).
Fixpoint ob_fold_loop (fuel : nat) (s : OffsetsBase) : option (list N) :=
  match fuel with
  | O => None
  | S f =>
      let cands := fold_cands s in
      if ob_len s <=? nlen cands then Some (ntake (ob_len s) cands)
      else
        let (o', adv) := step_outer (ob_outer s) in
        if adv
        then match ob_fold_loop f {| ob_len := ob_len s - nlen cands;
                                     ob_inner_offset := ob_inner_offset s;
                                     ob_inner0 := pos_set_index (ob_inner0 s) 0;
                                     ob_inner1 := pos_set_index (ob_inner1 s) 0;
                                     ob_outer_offset := sum_offsets o'; ob_outer := o' |} with
             | Some l => Some (cands ++ l)
             | None => None
             end
        else Some cands
  end.
Definition ob_fold (s : OffsetsBase) : option (list N) :=
  if ob_len s =? 0 then Some [] else ob_fold_loop (S (N.to_nat (ob_len s))) s.

(* ------------------------------------------------------------------ Offsets *)
Inductive Offsets := ORange (a b : N) | OIndexing (s : OffsetsBase).

(* Layout::min_data_len *)
Definition min_data_len (dims : list dim) : N :=
  if existsb (fun d => dsize d =? 0) dims then 0
  else fold_right (fun d acc => (dsize d - 1) * dstride d + acc) 0 dims + 1.

(* is_contiguous is the function modelled (and tied to the code) for C08; its dims are
   (stride, size) *)
Definition flip_dims (dims : list dim) : list Overlap.dim := map (fun d => (dstride d, dsize d)) dims.
Definition offsets_new (dims : list dim) : Offsets :=
  if Overlap.is_contiguous false (flip_dims dims) then ORange 0 (min_data_len dims)
  else OIndexing (ob_new dims).

Definition offsets_next (o : Offsets) : option N * Offsets :=
  match o with
  | ORange a b => if a <? b then (Some a, ORange (a + 1) b) else (None, o)
  | OIndexing s => let (x, s') := ob_next s in (x, OIndexing s')
  end.
Definition offsets_back (orig : bool) (o : Offsets) : option N * Offsets :=
  match o with
  | ORange a b => if a <? b then (Some (b - 1), ORange a (b - 1)) else (None, o)
  | OIndexing s => let (x, s') := (if orig then ob_next_back_orig s else ob_next_back s) in (x, OIndexing s')
  end.
Definition offsets_len (o : Offsets) : N :=
  match o with ORange a b => b - a | OIndexing s => ob_len s end.
(* Range::nth: `if let Some(plus_n) = start.checked_add(n) && plus_n < end`; Indexing:
   step_by(n) then next() *)
Definition offsets_nth (k : N) (o : Offsets) : option N * Offsets :=
  match o with
  | ORange a b => if a + k <? b then (Some (a + k), ORange (a + k + 1) b) else (None, ORange b b)
  | OIndexing s => let (x, s') := ob_next (ob_step_by s k) in (x, OIndexing s')
  end.
Definition offsets_split (k : N) (o : Offsets) : option (Offsets * Offsets) :=
  if k <=? offsets_len o then
    match o with
    | ORange a b => Some (ORange a (a + k), ORange (a + k) b)
    | OIndexing s =>
        match ob_split k s with
        | Some (l, r) => Some (OIndexing l, OIndexing r)
        | None => None
        end
    end
  else None.
Definition offsets_fold (o : Offsets) : option (list N) :=
  match o with
  | ORange a b => Some (nrange a (N.to_nat (b - a)))
  | OIndexing s => ob_fold s
  end.

Definition offsets_iface (orig : bool) : iface Offsets N := {|
  i_next := offsets_next;
  i_back := offsets_back orig;
  i_nth := fun k o => Some (offsets_nth k o);
  i_len := offsets_len;
  i_split := offsets_split;
  i_fold := offsets_fold;
|}.

(* ------------------------------------------------------------------ layout helpers *)
Fixpoint remove_nth {A} (n : nat) (l : list A) : list A :=
  match l with
  | [] => []
  | x :: r => match n with O => r | S m => x :: remove_nth m r end
  end.
Fixpoint set_nth {A} (n : nat) (v : A) (l : list A) : list A :=
  match l with
  | [] => []
  | x :: r => match n with O => v :: r | S m => x :: set_nth m v r end
  end.
Definition is_empty (dims : list dim) : bool := existsb (fun d => dsize d =? 0) dims.

(* elements (storage offsets) of the sub-view with layout [dims] starting at [base] *)
Definition view_elems (base : N) (dims : list dim) : list N := map (N.add base) (rm dims).

(* ------------------------------------------------------------------ Lanes / Lane *)
(* LaneRanges::new + Lanes: offsets over the other dims (or over the whole, empty, layout) *)
Definition lanes_new (dims : list dim) (d : nat) : Offsets :=
  if is_empty dims then offsets_new dims else offsets_new (remove_nth d dims).
(* the Lane built from lane_offsets(start, size, stride) with layout [size],[stride] *)
Definition lane_elems (ld : dim) (start : N) : list N :=
  map (fun i => start + i * dstride ld) (range0 (dsize ld)).
Definition lanes_iface (orig : bool) (ld : dim) : iface Offsets (list N) :=
  map_iface (lane_elems ld) (offsets_iface orig).

(* Lane / LaneMut: index, end over a 1-D view *)
Record LaneSt := { ln_index : N; ln_end : N }.
Definition lane_next (ld : dim) (start : N) (s : LaneSt) : option N * LaneSt :=
  if ln_index s <? ln_end s
  then (Some (start + ln_index s * dstride ld), {| ln_index := ln_index s + 1; ln_end := ln_end s |})
  else (None, s).
Definition lane_back (ld : dim) (start : N) (s : LaneSt) : option N * LaneSt :=
  if ln_index s <? ln_end s
  then (Some (start + (ln_end s - 1) * dstride ld), {| ln_index := ln_index s; ln_end := ln_end s - 1 |})
  else (None, s).
Definition lane_len (s : LaneSt) : N := ln_end s - ln_index s.
(* LaneMut::nth: index = index.saturating_add(nth).min(end); next() *)
Definition lanemut_nth (ld : dim) (start : N) (k : N) (s : LaneSt) : option N * LaneSt :=
  lane_next ld start {| ln_index := N.min (N.min (ln_index s + k) u64_max) (ln_end s); ln_end := ln_end s |}.
Definition lane_iface (mutable : bool) (ld : dim) (start : N) : iface LaneSt N := {|
  i_next := lane_next ld start;
  i_back := lane_back ld start;
  i_nth := fun k s =>
    if mutable then Some (lanemut_nth ld start k s)
    else nth_default (lane_next ld start) (S (N.to_nat (lane_len s))) k s;
  i_len := lane_len;
  i_split := fun _ _ => None;
  i_fold := fun s => Some (map (fun i => start + i * dstride ld) (nrange (ln_index s) (N.to_nat (lane_len s))));
|}.

(* ------------------------------------------------------------------ InnerIter *)
(* InnerIterBase::new_impl: offsets over the outer dims; outer strides zeroed when the inner
   views are empty *)
Definition inner_new (dims : list dim) (n_inner : nat) : Offsets * list dim :=
  let n_outer := (length dims - n_inner)%nat in
  let outer := firstn n_outer dims in
  let inner := skipn n_outer dims in
  let outer' := if min_data_len inner =? 0 then map (fun d => (dsize d, 0)) outer else outer in
  (offsets_new outer', inner).
Definition inner_iface (orig : bool) (inner : list dim) : iface Offsets (list N) :=
  map_iface (fun o => view_elems o inner) (offsets_iface orig).

(* ------------------------------------------------------------------ AxisIter *)
(* view = parent layout with the axis resized to ai_size, starting at ai_base *)
Record AxisIterSt := { ai_base : N; ai_size : N; ai_index : N; ai_end : N }.
Definition ai_new (size : N) : AxisIterSt := {| ai_base := 0; ai_size := size; ai_index := 0; ai_end := size |}.
(* view.index_axis(axis, i): the elements of the slice *)
Definition ai_item (rest : list dim) (stride : N) (s : AxisIterSt) (i : N) : list N :=
  view_elems (ai_base s + stride * i) rest.
Definition ai_next (rest : list dim) (stride : N) (s : AxisIterSt) : option (list N) * AxisIterSt :=
  if ai_end s <=? ai_index s then (None, s)
  else (Some (ai_item rest stride s (ai_index s)),
        {| ai_base := ai_base s; ai_size := ai_size s; ai_index := ai_index s + 1; ai_end := ai_end s |}).
Definition ai_back (rest : list dim) (stride : N) (s : AxisIterSt) : option (list N) * AxisIterSt :=
  if ai_end s <=? ai_index s then (None, s)
  else (Some (ai_item rest stride s (ai_end s - 1)),
        {| ai_base := ai_base s; ai_size := ai_size s; ai_index := ai_index s; ai_end := ai_end s - 1 |}).
Definition ai_len (s : AxisIterSt) : N := ai_end s - ai_index s.
(* before the fix: view.split_at(axis, index) and two fresh iterators (index/end ignored);
   panics when index > view.size(axis) *)
Definition ai_split_orig (stride : N) (k : N) (s : AxisIterSt) : option (AxisIterSt * AxisIterSt) :=
  if k <=? ai_size s
  then Some ({| ai_base := ai_base s; ai_size := k; ai_index := 0; ai_end := k |},
             {| ai_base := ai_base s + k * stride; ai_size := ai_size s - k; ai_index := 0; ai_end := ai_size s - k |})
  else None.
(* after the fix: assert!(index <= len); split the view at self.index + index *)
Definition ai_split (stride : N) (k : N) (s : AxisIterSt) : option (AxisIterSt * AxisIterSt) :=
  if k <=? ai_len s
  then let mid := ai_index s + k in
       Some ({| ai_base := ai_base s; ai_size := mid; ai_index := ai_index s; ai_end := mid |},
             {| ai_base := ai_base s + mid * stride; ai_size := ai_size s - mid; ai_index := 0; ai_end := ai_end s - mid |})
  else None.
Definition ai_iface (orig : bool) (rest : list dim) (stride : N) : iface AxisIterSt (list N) := {|
  i_next := ai_next rest stride;
  i_back := ai_back rest stride;
  i_nth := fun k s => nth_default (ai_next rest stride) (S (N.to_nat (ai_len s))) k s;
  i_len := ai_len;
  i_split := if orig then ai_split_orig stride else ai_split stride;
  i_fold := fun s => Some (map (ai_item rest stride s) (nrange (ai_index s) (N.to_nat (ai_len s))));
|}.

(* ------------------------------------------------------------------ AxisChunks *)
(* remainder: Option<view>; the view is the parent layout with the axis resized to `size`,
   starting at `base` *)
Definition ChunksSt := option (N * N).   (* (base, size along the axis) *)
Definition ac_some (base size : N) : ChunksSt := if 0 <? size then Some (base, size) else None.
Definition ac_new (size : N) : ChunksSt := ac_some 0 size.
Definition ac_item (dims : list dim) (axis : nat) (stride : N) (base len : N) : list N :=
  view_elems base (set_nth axis (len, stride) dims).
Definition ac_next (dims : list dim) (axis : nat) (stride cs : N) (s : ChunksSt) : option (list N) * ChunksSt :=
  match s with
  | None => (None, None)
  | Some (base, n) =>
      let m := N.min cs n in
      (Some (ac_item dims axis stride base m), ac_some (base + m * stride) (n - m))
  end.
Definition ac_back (dims : list dim) (axis : nat) (stride cs : N) (s : ChunksSt) : option (list N) * ChunksSt :=
  match s with
  | None => (None, None)
  | Some (base, n) =>
      let m := N.min cs n in
      (Some (ac_item dims axis stride (base + (n - m) * stride) m), ac_some base (n - m))
  end.
Definition div_ceil (a b : N) : N := (a + b - 1) / b.
Definition ac_len (cs : N) (s : ChunksSt) : N :=
  match s with None => 0 | Some (_, n) => div_ceil n cs end.
(* before the fix: remainder.split_at(axis, chunk_size * index), both halves kept as Some even
   when empty; panics (inside split_at) when chunk_size * index > size *)
Definition ac_split_orig (stride cs : N) (k : N) (s : ChunksSt) : option (ChunksSt * ChunksSt) :=
  match s with
  | None => Some (None, None)
  | Some (base, n) =>
      if cs * k <=? n then Some (Some (base, cs * k), Some (base + cs * k * stride, n - cs * k)) else None
  end.
(* after the fix: assert!(index <= len); split at min(chunk_size * index, size); an empty half
   becomes None *)
Definition ac_split (stride cs : N) (k : N) (s : ChunksSt) : option (ChunksSt * ChunksSt) :=
  if k <=? ac_len cs s then
    match s with
    | None => Some (None, None)
    | Some (base, n) =>
        let mid := N.min (cs * k) n in
        Some (ac_some base mid, ac_some (base + mid * stride) (n - mid))
    end
  else None.
Definition ac_iface (orig : bool) (dims : list dim) (axis : nat) (stride cs : N) : iface ChunksSt (list N) := {|
  i_next := ac_next dims axis stride cs;
  i_back := ac_back dims axis stride cs;
  i_nth := fun k s => nth_default (ac_next dims axis stride cs) (S (S (N.to_nat (ac_len cs s)))) k s;
  i_len := ac_len cs;
  i_split := if orig then ac_split_orig stride cs else ac_split stride cs;
  (* fold is not overridden; an (unfixed) empty-but-Some remainder yields one extra chunk *)
  i_fold := fun s => fdrain (ac_next dims axis stride cs) (S (S (N.to_nat (ac_len cs s)))) s;
|}.

(* ------------------------------------------------------------------ specification items *)
(* What each kind of iterator must yield, written directly from the layout (no iterator
   state): the deque specification [run_spec] is run on these lists. *)
Definition dims_of (shape strides : list N) : list dim := combine shape strides.

Definition spec_iter (shape strides : list N) : list N := logical_offsets shape strides.
Definition spec_lanes (dims : list dim) (d : nat) : list (list N) :=
  if is_empty dims then []
  else map (lane_elems (nth d dims (0, 0))) (rm (remove_nth d dims)).
Definition spec_inner (dims : list dim) (n_inner : nat) : list (list N) :=
  let n_outer := (length dims - n_inner)%nat in
  map (fun o => view_elems o (skipn n_outer dims)) (rm (firstn n_outer dims)).
Definition spec_axis_iter (dims : list dim) (axis : nat) : list (list N) :=
  let d := nth axis dims (0, 0) in
  map (fun i => view_elems (i * dstride d) (remove_nth axis dims)) (range0 (dsize d)).
(* chunk boundaries along an axis of size n: [0,cs), [cs,2cs), ... the last one shorter *)
Fixpoint chunk_ranges (fuel : nat) (start n cs : N) : list (N * N) :=
  match fuel with
  | O => []
  | S f => if n =? 0 then [] else let m := N.min cs n in (start, m) :: chunk_ranges f (start + m) (n - m) cs
  end.
Definition spec_chunks (dims : list dim) (axis : nat) (cs : N) : list (list N) :=
  let d := nth axis dims (0, 0) in
  map (fun c => view_elems (fst c * dstride d) (set_nth axis (snd c, dstride d) dims))
      (chunk_ranges (N.to_nat (dsize d)) 0 (dsize d) cs).

(* ------------------------------------------------------------------ correspondence case *)
Inductive kind := KIter | KLanes | KLane | KInner | KAxisIter | KChunks.
Record case := {
  c_kind : kind; c_mut : bool;
  c_shape : list N; c_strides : list N;
  c_a : N; c_b : N;                (* dim / inner dims / axis ; lane number / chunk size *)
  c_hist : hist;
  c_obs : obs (list N);            (* what the implementation did *)
  c_mut_ok : bool;                 (* every element handed out through &mut at most once *)
}.

Definition single (x : N) : list N := [x].

(* what the model does; [orig] selects the code before the fix: commits *)
Definition model_obs (orig : bool) (c : case) : obs (list N) :=
  let dims := dims_of (c_shape c) (c_strides c) in
  let a := N.to_nat (c_a c) in
  match c_kind c with
  | KIter => run_impl (map_iface single (offsets_iface orig)) (c_hist c) (offsets_new dims)
  | KLanes => run_impl (lanes_iface orig (nth a dims (0, 0))) (c_hist c) (lanes_new dims a)
  | KLane =>
      let ld := nth a dims (0, 0) in
      (* Lanes::nth(b) (not overridden) = b+1 calls of next on a fresh Lanes *)
      let o := lanes_new dims a in
      match nth_default offsets_next (S (N.to_nat (offsets_len o))) (c_b c) o with
      | Some (Some start, _) =>
          run_impl (map_iface single (lane_iface (c_mut c) ld start)) (c_hist c)
                   {| ln_index := 0; ln_end := dsize ld |}
      | _ => OStuck
      end
  | KInner => let (o, inner) := inner_new dims a in run_impl (inner_iface orig inner) (c_hist c) o
  | KAxisIter =>
      let d := nth a dims (0, 0) in
      run_impl (ai_iface orig (remove_nth a dims) (dstride d)) (c_hist c) (ai_new (dsize d))
  | KChunks =>
      let d := nth a dims (0, 0) in
      run_impl (ac_iface orig dims a (dstride d) (c_b c)) (c_hist c) (ac_new (dsize d))
  end.

Definition spec_items (c : case) : list (list N) :=
  let dims := dims_of (c_shape c) (c_strides c) in
  let a := N.to_nat (c_a c) in
  match c_kind c with
  | KIter => map single (spec_iter (c_shape c) (c_strides c))
  | KLanes => spec_lanes dims a
  | KLane => map single (nth (N.to_nat (c_b c)) (spec_lanes dims a) [])
  | KInner => spec_inner dims a
  | KAxisIter => spec_axis_iter dims a
  | KChunks => spec_chunks dims a (c_b c)
  end.
Definition spec_obs (c : case) : obs (list N) := run_spec (c_hist c) (spec_items c).

(* model (of the fixed code) = implementation *)
Definition agree (c : case) : bool := obs_eqb (model_obs false c) (c_obs c).
(* model of the code before the fixes = implementation (used against an unfixed tree) *)
Definition agree_orig (c : case) : bool := obs_eqb (model_obs true c) (c_obs c).
(* the property oracle: the implementation's observations are those of the deque
   specification over the logical items, and no element was handed out twice through &mut *)
Definition prop_ok (c : case) : bool := obs_eqb (spec_obs c) (c_obs c) && c_mut_ok c.
Definition show (c : case) := (model_obs false c, spec_obs c).
