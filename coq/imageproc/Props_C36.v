(* C36 -- Contour tracing and drawing stay on the image.
   Only statements; every proof is `exact <lemma>`.  Models: Draw.v, Contours.v. *)
From RV Require Import Prelude.
From ImageProc Require Import Draw Draw_proofs DrawCases DrawCases_proofs Contours Contours_proofs Contours_bounded.
Open Scope Z_scope.

(* ---------------- drawing (all inputs) ---------------- *)

(* (1) every point yielded by the line iterator lies in the bounding box of the end points *)
Theorem C36_bresham_in_bbox : forall s e p,
  In p (bresham_points s e) ->
  Z.min (py s) (py e) <= py p <= Z.max (py s) (py e) /\
  Z.min (px s) (px e) <= px p <= Z.max (px s) (px e).
Proof. exact bresham_in_bbox. Qed.

(* (2) the yielded points followed by the end point start at the start point, end at the end
   point, are 8-connected (consecutive points are at Chebyshev distance 1), and there are
   max(|dx|,|dy|) of them (the end point itself is not yielded) *)
Theorem C36_bresham_endpoints : forall s e,
  let full := bresham_points s e ++ [e] in
  hd_error full = Some s /\ last full s = e /\ chain full /\
  length (bresham_points s e) = Z.to_nat (Z.max (Z.abs (px e - px s)) (Z.abs (py e - py s))).
Proof. exact bresham_endpoints. Qed.

(* (3) draw_line with width 1 never panics and writes only pixels that are inside the image
   and inside the bounding box of the line -- for ANY end points (also far outside the image)
   and any image size (also empty images) *)
Theorem C36_draw_line_in_image : forall h w s e,
  0 <= h -> 0 <= w ->
  exists l, draw_line1 h w s e = Writes l /\
    forall p, In p l ->
      (0 <= py p < h /\ 0 <= px p < w) /\
      (Z.min (py s) (py e) <= py p <= Z.max (py s) (py e) /\
       Z.min (px s) (px e) <= px p <= Z.max (px s) (px e)).
Proof. exact draw_line_in_image_spec. Qed.

(* (4) fill_rect never panics and writes exactly the pixels of rect /\ image *)
Theorem C36_fill_rect_writes : forall h w r,
  exists l, fill_rect h w r = Writes l /\
    forall p, In p l <->
      ((r_top r <= py p < r_bottom r /\ r_left r <= px p < r_right r) /\
       (0 <= py p < h /\ 0 <= px p < w)).
Proof. exact fill_rect_writes_spec. Qed.

(* (5) stroke_rect never panics; it writes only pixels of rect /\ image that are not in the
   rect shrunk by the border width, and nothing for width <= 0 *)
Theorem C36_stroke_rect_writes : forall h w r wd,
  exists l, stroke_rect h w r wd = Writes l /\
    forall p, In p l ->
      (0 <= py p < h /\ 0 <= px p < w) /\
      (r_top r <= py p < r_bottom r /\ r_left r <= px p < r_right r) /\
      ~ (r_top r + wd <= py p < r_bottom r - wd /\ r_left r + wd <= px p < r_right r - wd) /\
      0 < wd.
Proof. exact stroke_rect_writes_spec. Qed.

(* (6) draw_polygon with width 1 never panics; every written pixel is inside the image and
   inside the bounding box of one edge, whose end points are vertices of the polygon *)
Theorem C36_draw_polygon_in_image : forall h w pts,
  0 <= h -> 0 <= w ->
  exists l, draw_polygon1 h w pts = Writes l /\
    forall p, In p l ->
      (0 <= py p < h /\ 0 <= px p < w) /\
      exists a b, In a pts /\ In b pts /\
        Z.min (py a) (py b) <= py p <= Z.max (py a) (py b) /\
        Z.min (px a) (px b) <= px p <= Z.max (px a) (px b).
Proof. exact draw_polygon_in_image_spec. Qed.

(* (6b) the link between the model and the oracle of the correspondence check: whatever a
   modelled primitive (fill_rect, stroke_rect, draw_line / draw_polygon / Painter with width 0
   or 1) does, for ANY shape and image size, it is not a panic and passes `writes_ok`: every
   written pixel is inside the image and inside the bounds of the shape *)
Theorem C36_model_satisfies_oracle : forall h w pr out,
  0 <= h -> 0 <= w -> model_draw h w pr = Some out ->
  exists l, out = Writes l /\ writes_ok h w pr l = true.
Proof. exact model_satisfies_oracle. Qed.

(* (6c) what the oracle applied to the implementation's outcome means *)
Theorem C36_oracle_spec : forall c,
  prop_ok_draw c = true <->
  exists l, d_impl c = Some l /\ d_guard c = true /\
    forall p, In p l -> (0 <= py p < d_h c /\ 0 <= px p < d_w c) /\ in_bounds (d_prim c) p = true.
Proof. exact prop_ok_draw_spec. Qed.

(* non-vacuity: a line that leaves the image, a rect that leaves the image *)
Example C36_nonvacuous_draw :
  draw_line1 4 4 (1, -3) (2, 9) = Writes [(1, 0); (1, 1); (2, 2)] /\
  fill_rect 3 3 (from_tlbr (-1) 1 2 7) = Writes [(0, 1); (0, 2); (1, 1); (1, 2)] /\
  draw_line1 4 4 (-5, 0) (-1, 3) = Writes [].
Proof. repeat split; vm_compute; reflexivity. Qed.

(* ---------------- contours (bounded: every mask of at most 4 rows and 4 columns) ---------------- *)

(* (7) For ALL binary masks with at most 4 rows and at most 4 columns (all 74 963 of them, by
   exhaustive evaluation inside the kernel, the enumeration being proved complete), and both
   retrieval modes: border following terminates (the fuel is not exhausted) without a panic;
   every point of every returned contour is a foreground pixel that has a background pixel or
   the outside of the image among its 8 neighbours; and every foreground pixel p has a contour
   that stays inside p's 8-connected component and passes through every row-/column-extreme
   pixel of that component (an outer contour).
   The unbounded statement (Suzuki-Abe correctness for all image sizes) is NOT attempted. *)
Theorem C36_contours_ok_le_4x4 : forall (m : mask) (w : nat) (md : mode),
  (length m <= 4)%nat -> (w <= 4)%nat -> (forall r, In r m -> length r = w) ->
  exists cs, find_contours m md = Ok cs /\
    (forall C p, In C cs -> In p C ->
       fgb m p = true /\ exists q, In q (neighbors p) /\ fgb m q <> true) /\
    (forall p, fgb m p = true -> exists C, In C cs /\
       (forall q, In q C -> conn m p q) /\
       (forall q, extreme m p q -> In q C)).
Proof. exact contours_ok_le_4x4. Qed.

(* (8) the oracle applied to the implementation's output in the correspondence check is sound
   for masks of ANY size: what it accepts satisfies the specification above *)
Theorem C36_contours_checker_sound : forall (m : mask) (cs : list (list point)),
  (forall r, In r m -> Z.of_nat (length r) = mask_w m) ->
  contours_ok_b m ListMode cs = true ->
  (forall C p, In C cs -> In p C ->
     fgb m p = true /\ exists q, In q (neighbors p) /\ fgb m q <> true) /\
  (forall p, fgb m p = true -> exists C, In C cs /\
     (forall q, In q C -> conn m p q) /\
     (forall q, extreme m p q -> In q C)).
Proof. exact contours_checker_sound. Qed.

(* non-vacuity: a ring with a hole (List mode), two diagonal pixels are one component, a
   hook-shaped component *)
Example C36_nonvacuous_contours :
  find_contours [[true;true;true];[true;false;true];[true;true;true]] ListMode
    = Ok [[(0,0);(1,0);(2,0);(2,1);(2,2);(1,2);(0,2);(0,1)]] /\
  find_contours [[true;false];[false;true]] External = Ok [[(0,0);(1,1)]] /\
  find_contours [[false;true;false;true];[false;false;false;true]] ListMode = Ok [[(0,1)];[(0,3);(1,3)]].
Proof. repeat split; vm_compute; reflexivity. Qed.
