(* C36: bounded-exhaustive sweep of all masks of every size h x w with h, w <= 4 except 4x4,
   both retrieval modes.  Evaluated once by the kernel's VM at Qed. *)
From RV Require Import Prelude.
From ImageProc Require Import Draw Contours.
Lemma sweep_small : check_small_sizes = true.
Proof. vm_cast_no_check (eq_refl true). Qed.
