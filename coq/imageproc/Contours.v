(* C36 (contour half) -- executable model of rten-imageproc/src/contours.rs
   (find_nonzero_neighbor, find_contours = Suzuki-Abe border following with the paper's NBD
   collapsed to +/-2) and an independent checker of the property on a result.

   Border following is a `loop` in Rust; here it takes fuel, and running out of fuel is a
   distinct outcome (OutOfFuel), as are the panics (`unwrap` on None, index out of range,
   `Point::coord` on a negative coordinate).

   Only definitions here; proofs are in Contours_proofs.v. *)
From RV Require Import Prelude.
From ImageProc Require Import Draw.
Open Scope Z_scope.

Definition peqb (p q : point) : bool := (py p =? py q) && (px p =? px q).
Definition memb (p : point) (l : list point) : bool := existsb (peqb p) l.
Definition translate (p : point) (dy dx : Z) : point := (py p + dy, px p + dx).

(* ------------------------------------------------------------------ *)
(* working grid of i8 labels: rows of cells *)
Definition grid := list (list Z).

Definition gget (g : grid) (p : point) : option Z :=
  if (py p <? 0) || (px p <? 0) then None
  else match nth_error g (Z.to_nat (py p)) with
       | Some row => nth_error row (Z.to_nat (px p))
       | None => None
       end.

Fixpoint set_nth {A} (n : nat) (v : A) (l : list A) : list A :=
  match l, n with
  | [], _ => []
  | _ :: r, O => v :: r
  | x :: r, S k => x :: set_nth k v r
  end.

Definition gset (g : grid) (p : point) (v : Z) : grid :=
  match nth_error g (Z.to_nat (py p)) with
  | Some row => set_nth (Z.to_nat (py p)) (set_nth (Z.to_nat (px p)) v row) g
  | None => g
  end.

(* the binary input mask: rows of booleans *)
Definition mask := list (list bool).
Definition b2z (b : bool) : Z := if b then 1 else 0.
Definition mask_w (m : mask) : Z := match m with [] => 0 | r :: _ => Z.of_nat (length r) end.
Definition mask_h (m : mask) : Z := Z.of_nat (length m).

(* zero padding of 1 around the mask, values clamped to {0,1} *)
Definition padded (m : mask) : grid :=
  let w := Z.to_nat (mask_w m) in
  let zrow := repeat 0 (w + 2) in
  zrow :: map (fun r => 0 :: map b2z r ++ [0]) m ++ [zrow].

Inductive res (A : Type) := Ok (a : A) | Panicked | OutOfFuel.
Arguments Ok {A} a. Arguments Panicked {A}. Arguments OutOfFuel {A}.

(* Point::neighbors: clockwise, starting from the point directly above *)
Definition neighbors (p : point) : list point :=
  [ translate p (-1) 0; translate p (-1) 1; translate p 0 1; translate p 1 1;
    translate p 1 0; translate p 1 (-1); translate p 0 (-1); translate p (-1) (-1) ].

Fixpoint position (p : point) (l : list point) : option nat :=
  match l with
  | [] => None
  | q :: r => if peqb p q then Some O else option_map S (position p r)
  end.

Definition next_idx (clockwise : bool) (i : nat) : nat :=
  if clockwise then Nat.modulo (i + 1) 8 else match i with O => 7%nat | S k => k end.

Fixpoint fnn_loop (fuel : nat) (g : grid) (nbrs : list point) (cw : bool) (idx : nat)
  : res (option point) :=
  match fuel with
  | O => Ok None
  | S f =>
      let q := nth idx nbrs (0, 0) in
      match gget g q with
      | None => Panicked
      | Some v => if v =? 0 then fnn_loop f g nbrs cw (next_idx cw idx) else Ok (Some q)
      end
  end.

(* find_nonzero_neighbor(mask, center, start, dir, skip_first) *)
Definition find_nonzero_neighbor (g : grid) (center start : point) (cw skip_first : bool)
  : res (option point) :=
  let nbrs := neighbors center in
  match position start nbrs with
  | None => Panicked                          (* .position(..).unwrap() *)
  | Some i => fnn_loop 8 g nbrs cw (if skip_first then next_idx cw i else i)
  end.

Definition opt_is (o : option point) (p : point) : bool :=
  match o with Some q => peqb q p | None => false end.

(* the inner `loop` that follows one border; [border] is accumulated in reverse *)
Fixpoint follow (fuel : nat) (g : grid) (border : list point)
         (start_point start_neighbor current prev : point) : res (grid * list point) :=
  match fuel with
  | O => OutOfFuel
  | S f =>
      match find_nonzero_neighbor g current prev false true with
      | Panicked => Panicked
      | OutOfFuel => OutOfFuel
      | Ok next_point =>
          match gget g (translate current 0 1), gget g current with
          | Some r, Some c =>
              let '(g', border') :=
                if r =? 0 then (gset g current (-2), current :: border)
                else if c =? 1 then (gset g current 2, current :: border)
                else (g, border) in
              if opt_is next_point start_point && peqb current start_neighbor then Ok (g', border')
              else match next_point with
                   | None => Panicked                 (* next_point.unwrap() *)
                   | Some np => follow f g' border' start_point start_neighbor np current
                   end
          | _, _ => Panicked
          end
      end
  end.

Inductive mode := External | ListMode.

Record scan := { s_g : grid; s_contours : list (list point) (* reversed *); s_last : Z }.

Definition unpad (l : list point) : list point := map (fun p => translate p (-1) (-1)) l.

(* body of the `for x` loop at padded coordinates (y, x) *)
Definition cell (fuel : nat) (md : mode) (st : scan) (sp : point) : res scan :=
  let g := s_g st in
  match gget g sp, gget g (translate sp 0 (-1)), gget g (translate sp 0 1) with
  | Some current, Some prev, Some next =>
      if current =? 0 then Ok st
      else
        let start_neighbor :=
          match md with
          | External =>
              if (s_last st <=? 0) && (prev =? 0) && (current =? 1) then Some (translate sp 0 (-1)) else None
          | ListMode =>
              if (prev =? 0) && (current =? 1) then Some (translate sp 0 (-1))
              else if (current >=? 1) && (next =? 0) then Some (translate sp 0 1)
              else None
          end in
        let after :=
          match start_neighbor with
          | None => Ok (g, s_contours st)
          | Some sn =>
              match find_nonzero_neighbor g sp sn true false with
              | Panicked => Panicked
              | OutOfFuel => OutOfFuel
              | Ok (Some sn2) =>
                  match follow fuel g [] sp sn2 sp sn2 with
                  | Ok (g', b) => Ok (g', unpad (rev b) :: s_contours st)
                  | Panicked => Panicked
                  | OutOfFuel => OutOfFuel
                  end
              | Ok None => Ok (gset g sp (-2), unpad [sp] :: s_contours st)
              end
          end in
        match after with
        | Ok (g', cs) =>
            match gget g' sp with
            | Some v => Ok {| s_g := g'; s_contours := cs; s_last := v |}
            | None => Panicked
            end
        | Panicked => Panicked
        | OutOfFuel => OutOfFuel
        end
  | _, _, _ => Panicked
  end.

Fixpoint scan_cells (fuel : nat) (md : mode) (st : scan) (cells : list point) : res scan :=
  match cells with
  | [] => Ok st
  | c :: r => match cell fuel md st c with
              | Ok st' => scan_cells fuel md st' r
              | Panicked => Panicked
              | OutOfFuel => OutOfFuel
              end
  end.

Fixpoint scan_rows (fuel : nat) (md : mode) (w : Z) (st : scan) (ys : list Z) : res scan :=
  match ys with
  | [] => Ok st
  | y :: r =>
      let st0 := {| s_g := s_g st; s_contours := s_contours st; s_last := 0 |} in
      match scan_cells fuel md st0 (map (fun x => (y, x)) (zrange 1 (w + 1))) with
      | Ok st' => scan_rows fuel md w st' r
      | Panicked => Panicked
      | OutOfFuel => OutOfFuel
      end
  end.

Definition follow_fuel (m : mask) : nat := Z.to_nat (4 * (mask_h m + 2) * (mask_w m + 2) + 16).

Definition find_contours_fuel (fuel : nat) (m : mask) (md : mode) : res (list (list point)) :=
  match scan_rows fuel md (mask_w m) {| s_g := padded m; s_contours := []; s_last := 0 |}
                  (zrange 1 (mask_h m + 1)) with
  | Ok st => Ok (rev (s_contours st))
  | Panicked => Panicked
  | OutOfFuel => OutOfFuel
  end.

Definition find_contours (m : mask) (md : mode) : res (list (list point)) :=
  find_contours_fuel (follow_fuel m) m md.

(* ================================================================== *)
(* Independent checker of the property on a list of contours           *)

(* foreground test on the original (unpadded) mask; false outside the image *)
Definition fgb (m : mask) (p : point) : bool :=
  if (py p <? 0) || (px p <? 0) then false
  else match nth_error m (Z.to_nat (py p)) with
       | Some row => nth (Z.to_nat (px p)) row false
       | None => false
       end.

Definition nbrs4 (p : point) : list point :=
  [ translate p (-1) 0; translate p 0 1; translate p 1 0; translate p 0 (-1) ].

(* a foreground pixel with a background pixel (or the outside of the image) among its 8 neighbours *)
Definition border_b (m : mask) (p : point) : bool :=
  fgb m p && existsb (fun q => negb (fgb m q)) (neighbors p).

(* worklist flood fill: [seen] is the result *)
Fixpoint flood (nb : point -> list point) (ok : point -> bool)
         (fuel : nat) (stack seen : list point) : list point :=
  match fuel with
  | O => seen
  | S f =>
      match stack with
      | [] => seen
      | p :: st =>
          let fresh := fold_left (fun acc q => if ok q && negb (memb q (acc ++ seen)) then q :: acc else acc)
                                 (nb p) [] in
          flood nb ok f (fresh ++ st) (fresh ++ seen)
      end
  end.

Definition npix (m : mask) : nat := Z.to_nat ((mask_h m + 2) * (mask_w m + 2)).

(* 8-connected foreground component containing the foreground pixel p *)
Definition component (m : mask) (p : point) : list point :=
  flood neighbors (fgb m) (S (npix m)) [p] [p].

Definition mask_pixels (m : mask) : list point := all_pixels (mask_h m) (mask_w m).

(* all components, each listed once (seeded at its first pixel in raster order) *)
Definition components (m : mask) : list (list point) :=
  rev (fold_left (fun acc p => if fgb m p && negb (existsb (memb p) acc) then component m p :: acc else acc)
                 (mask_pixels m) []).

(* K is closed under foreground 8-adjacency *)
Definition closed_b (m : mask) (K : list point) : bool :=
  forallb (fun p => forallb (fun q => implb (fgb m q) (memb q K)) (neighbors p)) K.

(* q is the left-most or right-most pixel of K in its row, or top-/bottom-most in its column *)
Definition extreme_b (K : list point) (q : point) : bool :=
  negb (existsb (fun r => (py r =? py q) && (px r <? px q)) K) ||
  negb (existsb (fun r => (py r =? py q) && (px q <? px r)) K) ||
  negb (existsb (fun r => (px r =? px q) && (py r <? py q)) K) ||
  negb (existsb (fun r => (px r =? px q) && (py q <? py r)) K).

(* C is an outer contour of component K: it stays inside K and passes through every
   row-/column-extreme pixel of K (those are on K's outer border) *)
Definition outer_contour_b (K C : list point) : bool :=
  forallb (fun q => memb q K) C && forallb (fun q => implb (extreme_b K q) (memb q C)) K.

(* background cells (including one ring outside the image) 4-connected to the outside *)
Definition in_frame (m : mask) (p : point) : bool :=
  (-1 <=? py p) && (py p <=? mask_h m) && (-1 <=? px p) && (px p <=? mask_w m).
Definition exterior (m : mask) : list point :=
  flood nbrs4 (fun q => in_frame m q && negb (fgb m q)) (S (npix m)) [(-1, -1)] [(-1, -1)].
(* K touches the exterior background: it is not nested inside a hole of another component *)
Definition outermost_b (ext K : list point) : bool :=
  existsb (fun p => existsb (fun q => memb q ext) (nbrs4 p)) K.

Definition points_ok_b (m : mask) (cs : list (list point)) : bool :=
  forallb (fun C => forallb (border_b m) C) cs.

(* [comps]: the components of m; [need K]: must K have an outer contour? *)
Definition valid_b (m : mask) (comps : list (list point)) (need : list point -> bool)
           (cs : list (list point)) : bool :=
  points_ok_b m cs &&
  forallb (closed_b m) comps &&
  forallb (fun K => implb (need K) (existsb (outer_contour_b K) cs)) comps.

(* List mode: every component.  External mode ("outer-most contours only"): every component
   that touches the exterior background, i.e. is not nested inside a hole of another one. *)
Definition contours_ok_b (m : mask) (md : mode) (cs : list (list point)) : bool :=
  match md with
  | ListMode => valid_b m (components m) (fun _ => true) cs
  | External => let ext := exterior m in valid_b m (components m) (outermost_b ext) cs
  end.

(* ================================================================== *)
(* correspondence cases *)
Inductive cimpl := CDone (cs : list (list point)) | CPanic | CTimeout.
Record ccase := { c_mask : mask; c_mode : mode; c_impl : cimpl }.

Fixpoint list_eqb {A} (eqb : A -> A -> bool) (a b : list A) : bool :=
  match a, b with
  | [], [] => true
  | x :: r, y :: s => eqb x y && list_eqb eqb r s
  | _, _ => false
  end.

Definition agree_contours (c : ccase) : bool :=
  match find_contours (c_mask c) (c_mode c), c_impl c with
  | Ok cs, CDone cs' => list_eqb (list_eqb peqb) cs cs'
  | Panicked, CPanic => true
  | OutOfFuel, CTimeout => true
  | _, _ => false
  end.

Definition prop_ok_contours (c : ccase) : bool :=
  match c_impl c with
  | CDone cs => contours_ok_b (c_mask c) (c_mode c) cs
  | _ => false
  end.

Definition show_contours (c : ccase) :=
  (find_contours (c_mask c) (c_mode c), components (c_mask c),
   match c_impl c with CDone cs => (points_ok_b (c_mask c) cs, contours_ok_b (c_mask c) (c_mode c) cs) | _ => (false, false) end).

(* ================================================================== *)
(* enumeration of all masks of a given size, for the bounded theorem *)
Fixpoint all_rows (w : nat) : list (list bool) :=
  match w with
  | O => [[]]
  | S k => flat_map (fun r => [false :: r; true :: r]) (all_rows k)
  end.
Fixpoint all_masks (h w : nat) : list mask :=
  match h with
  | O => [[]]
  | S k => flat_map (fun m => map (fun r => r :: m) (all_rows w)) (all_masks k w)
  end.

(* on these sizes no component is nested in a hole, so External must cover every component too *)
Definition check_mask (m : mask) : bool :=
  let comps := components m in
  match find_contours m ListMode, find_contours m External with
  | Ok cl, Ok ce => valid_b m comps (fun _ => true) cl && valid_b m comps (fun _ => true) ce
  | _, _ => false
  end.

Definition check_size (h w : nat) : bool := forallb check_mask (all_masks h w).

Definition sizes_le (n : nat) : list (nat * nat) :=
  flat_map (fun h => map (fun w => (h, w)) (seq 0 (S n))) (seq 0 (S n)).
Definition check_all_le (n : nat) : bool :=
  forallb (fun hw => check_size (fst hw) (snd hw)) (sizes_le n).

(* the h+1 x w masks whose first row is taken from [rs]; all_masks (S h) w is
   masks_with_first (all_rows w) h w by definition.  Used to split the 4x4 sweep into
   independently checked quarters. *)
Definition masks_with_first (rs : list (list bool)) (h w : nat) : list mask :=
  flat_map (fun m => map (fun r => r :: m) rs) (all_masks h w).
Definition rows4_chunk (i : nat) : list (list bool) := firstn 4 (skipn (4 * i) (all_rows 4)).
Definition check_44_chunk (i : nat) : bool := forallb check_mask (masks_with_first (rows4_chunk i) 3 4).
Definition is_44 (hw : nat * nat) : bool := Nat.eqb (fst hw) 4 && Nat.eqb (snd hw) 4.
Definition check_small_sizes : bool :=
  forallb (fun hw => check_size (fst hw) (snd hw)) (filter (fun hw => negb (is_44 hw)) (sizes_le 4)).
