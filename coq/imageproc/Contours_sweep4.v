(* C36: bounded-exhaustive sweep, quarter 4 of the 4x4 masks (first row in rows4_chunk 3),
   both retrieval modes.  Evaluated once by the kernel's VM at Qed. *)
From RV Require Import Prelude.
From ImageProc Require Import Draw Contours.
Lemma sweep_44_3 : check_44_chunk 3 = true.
Proof. vm_cast_no_check (eq_refl true). Qed.
