(* C35 -- executable models of rten-imageproc/src/poly_algos.rs and the property oracles.

   simplify_polyline / simplify_polygon (Douglas-Peucker): modelled over an ABSTRACT point type
   and an ABSTRACT distance type D with a comparison `leb` (the f32 `Line::distance`, `>=` and
   `>` of the code).  The correspondence check instantiates points with indices into the
   polyline and `dist` with a table of the implementation's own f32 distances (bit patterns of
   non-negative floats, which are ordered like the floats), so the model replays exactly the
   comparisons the implementation made.

   convex_hull (Graham scan): the sort keys (f32 cosine and length) are replayed from the
   implementation's own float expressions; the scan's orientation test is modelled over Z
   (exact).  The f32 test `ac.cross_product_norm(bc) > 0.` is exact whenever all coordinate
   differences and their pairwise products are integers below 2^24 -- in particular on the
   integer coordinates |c| <= 2^11 used by the check.

   min_area_rect: float geometry, no model; only the oracle [rect_contains_all].

   Only definitions here; proofs are in Poly_proofs.v. *)
From RV Require Import Prelude.
From Coq Require Import QArith.
Open Scope Z_scope.

(* ================================================================== *)
(* Douglas-Peucker over abstract distances                             *)
Section Simplify.
  Context {A D : Type}.
  Variable dist : A -> A -> A -> D.      (* dist a b p = Line(a,b).distance(p) *)
  Variable leb : D -> D -> bool.         (* x <= y *)
  Variable zero : D.

  (* .enumerate().fold((0, 0.), |(max_i, max_dist), (i, &point)| if dist >= max_dist {(i+1, dist)} ..) *)
  Fixpoint furthest (a b : A) (inner : list A) (i : nat) (acc : nat * D) : nat * D :=
    match inner with
    | [] => acc
    | p :: r =>
        let d := dist a b p in
        furthest a b r (S i) (if leb (snd acc) d then (S i, d) else acc)
    end.

  (* simplify_polyline_internal; the recursion is on sub-slices, hence the fuel; None = fuel
     exhausted (non-termination would be a defect, kept distinct from every result) *)
  Fixpoint simp (fuel : nat) (pts : list A) (eps : D) (keep_last : bool) : option (list A) :=
    match fuel with
    | O => None
    | S f =>
        match pts with
        | [] => Some []
        | [p] => Some [p]
        | first :: rest =>
            let lst := last rest first in
            let inner := removelast rest in
            let '(mi, md) := furthest first lst inner 0 (0%nat, zero) in
            if negb (leb md eps) then                     (* max_dist > epsilon *)
              match simp f (firstn (mi + 1) pts) eps false, simp f (skipn mi pts) eps keep_last with
              | Some l1, Some l2 => Some (l1 ++ l2)
              | _, _ => None
              end
            else Some (first :: if keep_last then [lst] else [])
        end
    end.

  Inductive sres := SOk (l : list A) | SPanic | SFuel.

  (* pub fn simplify_polyline: assert!(epsilon >= 0.) *)
  Definition simplify_polyline (pts : list A) (eps : D) : sres :=
    if leb zero eps then
      match simp (S (length pts)) pts eps true with Some l => SOk l | None => SFuel end
    else SPanic.

  (* pub fn simplify_polygon (after fix F55: empty input returns an empty polygon) *)
  Definition simplify_polygon (pts : list A) (eps : D) : sres :=
    match pts with
    | [] => SOk []
    | p0 :: _ =>
        match simplify_polyline (pts ++ [p0]) eps with
        | SOk l => SOk (removelast l)
        | r => r
        end
    end.
End Simplify.

(* ================================================================== *)
(* Graham scan                                                          *)
Definition pt := (Z * Z)%type.        (* (x, y) *)
Definition ptx (p : pt) : Z := fst p.
Definition pty (p : pt) : Z := snd p.
Definition pt_eqb (p q : pt) : bool := (ptx p =? ptx q) && (pty p =? pty q).

(* orient a b c > 0  <->  the code's  ac.cross_product_norm(bc) > 0  with ac = c-a, bc = c-b *)
Definition orient (a b c : pt) : Z :=
  (ptx b - ptx a) * (pty c - pty a) - (pty b - pty a) * (ptx c - ptx a).
Definition turn (prev2 prev p : pt) : Z :=
  (ptx p - ptx prev2) * (pty p - pty prev) - (pty p - pty prev2) * (ptx p - ptx prev).

(* while hull.len() >= 2 { if turn_dir > 0 { break }; hull.pop() }  -- stack, top first *)
Fixpoint settle (st : list pt) (p : pt) : list pt :=
  match st with
  | prev :: ((prev2 :: _) as rest) => if turn prev2 prev p >? 0 then st else settle rest p
  | _ => st
  end.
Definition scan (sorted : list pt) : list pt :=
  rev (fold_left (fun st p => p :: settle st p) sorted []).

(* sort_by (stable) on the replayed keys (angle key, then distance key), as insertion sort *)
Definition keyed := (pt * (Z * Z))%type.
Definition key_ltb (a b : keyed) : bool :=
  let '(_, (ka, da)) := a in let '(_, (kb, db)) := b in
  if ka =? kb then da <? db else ka <? kb.
(* x goes before the first element that is not strictly smaller: inserting the elements from
   the right end then keeps equal keys in input order (= a stable sort) *)
Fixpoint insert_k (x : keyed) (l : list keyed) : list keyed :=
  match l with
  | [] => [x]
  | y :: r => if key_ltb y x then y :: insert_k x r else x :: l
  end.
(* Vec::dedup_by_key on the point: drop an element equal to its predecessor *)
Fixpoint dedup (l : list pt) : list pt :=
  match l with
  | a :: ((b :: _) as r) => if pt_eqb a b then dedup r else a :: dedup r
  | _ => l
  end.
Definition stable_sort_k (l : list keyed) : list keyed := fold_right insert_k [] l.

(* min_by((-y, x)): largest y, then smallest x; the first such point *)
Definition lower_left (p q : pt) : bool := (pty q <? pty p) || ((pty p =? pty q) && (ptx p <? ptx q)).
Definition min_point (pts : list pt) : option pt :=
  match pts with
  | [] => None
  | p0 :: r => Some (fold_left (fun best p => if lower_left p best then p else best) r p0)
  end.

(* fix F56: of several points in the same direction from the lowest point keep the furthest.
   Vec::dedup_by(same_bucket): [a] is the last retained element, [b] the candidate. *)
Definition same_ray (mn a b : pt) : bool :=
  negb (pt_eqb a mn) &&
  ((ptx a - ptx mn) * (pty b - pty mn) - (pty a - pty mn) * (ptx b - ptx mn) =? 0) &&
  (0 <? (ptx a - ptx mn) * (ptx b - ptx mn) + (pty a - pty mn) * (pty b - pty mn)).
Definition d2 (p q : pt) : Z := (ptx p - ptx q) * (ptx p - ptx q) + (pty p - pty q) * (pty p - pty q).
Fixpoint ray_dedup_from (mn a : pt) (rest : list pt) : list pt :=
  match rest with
  | [] => [a]
  | b :: r =>
      if same_ray mn a b then ray_dedup_from mn (if d2 mn a <? d2 mn b then b else a) r
      else a :: ray_dedup_from mn b r
  end.
Definition ray_dedup (mn : pt) (l : list pt) : list pt :=
  match l with [] => [] | a :: r => ray_dedup_from mn a r end.

Definition convex_hull (pts : list pt) (keys : list (Z * Z)) : list pt :=
  match min_point pts with
  | None => []
  | Some mn => scan (ray_dedup mn (dedup (map fst (stable_sort_k (combine pts keys)))))
  end.

(* ================================================================== *)
(* Property oracles (exact integer / rational arithmetic)               *)
Definition mem_pt (p : pt) (l : list pt) : bool := existsb (pt_eqb p) l.

Definition cyc_edges (h : list pt) : list (pt * pt) :=
  match h with [] => [] | p0 :: r => combine h (r ++ [p0]) end.

Definition in_bbox_of (h : list pt) (p : pt) : bool :=
  existsb (fun q => ptx q <=? ptx p) h && existsb (fun q => ptx p <=? ptx q) h &&
  existsb (fun q => pty q <=? pty p) h && existsb (fun q => pty p <=? pty q) h.

(* hull uses only input points; every input point is on the inner side of (or on) every edge
   line, and inside the hull's bounding box (settles the all-collinear case); non-empty input
   gives a non-empty hull *)
Definition hull_ok (pts hull : list pt) : bool :=
  forallb (fun q => mem_pt q pts) hull &&
  forallb (fun e => forallb (fun p => 0 <=? orient (fst e) (snd e) p) pts) (cyc_edges hull) &&
  forallb (in_bbox_of hull) pts &&
  (match pts with [] => true | _ => match hull with [] => false | _ => true end end).

(* greedy subsequence test on values *)
Fixpoint subseqb (out pts : list pt) : bool :=
  match out, pts with
  | [], _ => true
  | _ :: _, [] => false
  | o :: orest, p :: prest => if pt_eqb o p then subseqb orest prest else subseqb out prest
  end.

Definition sq (z : Z) : Z := z * z.
Definition dist2 (p q : pt) : Z := sq (ptx p - ptx q) + sq (pty p - pty q).
(* distance(p, segment ab) <= e/64 ?   (exact: squared quantities over Z) *)
Definition near_segment (e : Z) (a b p : pt) : bool :=
  let l2 := dist2 a b in
  let t := (ptx p - ptx a) * (ptx b - ptx a) + (pty p - pty a) * (pty b - pty a) in
  if (l2 =? 0) || (t <=? 0) then dist2 p a * 4096 <=? e * e
  else if l2 <=? t then dist2 p b * 4096 <=? e * e
  else sq (orient a b p) * 4096 <=? e * e * l2.

Definition consecutive (l : list pt) : list (pt * pt) :=
  match l with [] => [] | _ :: r => combine l r end.

(* eps = eps4/4; tolerance for f32 rounding of the distances: 1/64 *)
Definition simplify_ok (closed : bool) (pts : list pt) (eps4 : Z) (out : list pt) : bool :=
  let e := 16 * eps4 + 1 in
  let outline := match out with
                 | [a] => [(a, a)]
                 | _ => consecutive out ++ (if closed then match out with a :: _ => [(last out a, a)] | [] => [] end else [])
                 end in
  subseqb out pts &&
  (match pts, out with
   | [], [] => true
   | p0 :: _, o0 :: _ => pt_eqb p0 o0 && (closed || pt_eqb (last pts p0) (last out o0))
   | _, _ => false
   end) &&
  forallb (fun p => mem_pt p out || existsb (fun s => near_segment e (fst s) (snd s) p) outline) pts.

(* ---- min_area_rect: f32 values as dyadic rationals (m, e) = m * 2^e ---- *)
Definition dy2q (d : Z * Z) : Q :=
  let '(m, e) := d in
  if 0 <=? e then inject_Z (m * 2 ^ e) else Qmake m (Z.to_pos (2 ^ (- e))).
Definition dy_finite (d : Z * Z) : bool := snd d <? 1000.

Record rrect := { rr_cx : Z * Z; rr_cy : Z * Z; rr_ux : Z * Z; rr_uy : Z * Z; rr_w : Z * Z; rr_h : Z * Z }.

Definition qabs_le (a b : Q) : bool := Qle_bool a b && Qle_bool (Qopp b) a.   (* |a| <= b *)

(* every point lies in the rectangle, with tolerance 1/512 on each half-extent
   (RotatedRect::contains: projections on the up axis and on its perpendicular) *)
Definition rect_contains_all (r : rrect) (pts : list pt) : bool :=
  forallb dy_finite [rr_cx r; rr_cy r; rr_ux r; rr_uy r; rr_w r; rr_h r] &&
  let cx := dy2q (rr_cx r) in let cy := dy2q (rr_cy r) in
  let ux := dy2q (rr_ux r) in let uy := dy2q (rr_uy r) in
  let hw := Qplus (Qmult (dy2q (rr_w r)) (1 # 2)) (1 # 512) in
  let hh := Qplus (Qmult (dy2q (rr_h r)) (1 # 2)) (1 # 512) in
  forallb (fun p =>
    let vx := Qminus (inject_Z (ptx p)) cx in
    let vy := Qminus (inject_Z (pty p)) cy in
    (* up = (ux, uy); perpendicular(up) = { x: uy, y: -ux } *)
    qabs_le (Qplus (Qmult vx ux) (Qmult vy uy)) hh &&
    qabs_le (Qminus (Qmult vx uy) (Qmult vy ux)) hw) pts.

(* ================================================================== *)
(* correspondence cases *)
Inductive case :=
| CHull (pts : list pt) (keys : list (Z * Z)) (impl : option (list pt))
| CSimp (closed : bool) (pts : list pt) (eps4 : Z)
        (epsbits : Z)                                     (* eps4/4 as f32, same encoding as tbl *)
        (tbl : list ((Z * Z * Z) * Z))             (* ((i, j, k), bits of dist(P_i P_j, P_k)) *)
        (impl : option (list pt))
| CRect (pts : list pt) (impl : option (option rrect)).  (* outer None = panic *)

Fixpoint list_eqb_pt (a b : list pt) : bool :=
  match a, b with
  | [], [] => true
  | x :: r, y :: s => pt_eqb x y && list_eqb_pt r s
  | _, _ => false
  end.

Definition tbl_dist (tbl : list ((Z * Z * Z) * Z)) (i j k : nat) : Z :=
  match find (fun e => let '((a, b), c) := fst e in (a =? Z.of_nat i) && (b =? Z.of_nat j) && (c =? Z.of_nat k)) tbl with
  | Some e => snd e
  | None => -1           (* never needed on a faithful table; makes the model disagree if it is *)
  end.

Definition model_simp (closed : bool) (pts : list pt) (epsbits : Z) (tbl : list ((Z * Z * Z) * Z))
  : @sres nat :=
  let idx := seq 0 (length pts) in
  if closed then simplify_polygon (tbl_dist tbl) Z.leb 0 idx epsbits
  else simplify_polyline (tbl_dist tbl) Z.leb 0 idx epsbits.

Definition agree (c : case) : bool :=
  match c with
  | CHull pts keys (Some h) => list_eqb_pt (convex_hull pts keys) h
  | CHull _ _ None => false
  | CSimp closed pts eps4 epsbits tbl impl =>
      match model_simp closed pts epsbits tbl, impl with
      | SOk l, Some out =>
          list_eqb_pt (map (fun i => nth i pts (0, 0)) l) out
      | SPanic, None => true
      | _, _ => false
      end
  | CRect _ _ => true
  end.

Definition prop_ok (c : case) : bool :=
  match c with
  | CHull pts _ (Some h) => hull_ok pts h
  | CSimp closed pts eps4 _ _ (Some out) => simplify_ok closed pts eps4 out
  | CRect pts (Some (Some r)) => match pts with [] => false | _ => rect_contains_all r pts end
  | CRect pts (Some None) => match pts with [] => true | _ => false end
  | _ => false
  end.

Definition show (c : case) :=
  match c with
  | CHull pts keys impl => (Some (convex_hull pts keys), None, impl)
  | CSimp closed pts eps4 epsbits tbl impl => (None, Some (model_simp closed pts epsbits tbl), impl)
  | CRect _ _ => (None, None, None)
  end.
