(* C36: bounded-exhaustive sweep, quarter 3 of the 4x4 masks (first row in rows4_chunk 2),
   both retrieval modes.  Evaluated once by the kernel's VM at Qed. *)
From RV Require Import Prelude.
From ImageProc Require Import Draw Contours.
Lemma sweep_44_2 : check_44_chunk 2 = true.
Proof. vm_cast_no_check (eq_refl true). Qed.
