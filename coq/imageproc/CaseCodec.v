(* C36: compact encodings of correspondence cases (only to keep the generated cases_*.v files
   small: Coq spends most of its time parsing them).  Decoders only; the harness encodes. *)
From RV Require Import Prelude.
From ImageProc Require Import Draw DrawCases Contours.
Open Scope Z_scope.

(* bit y*w+x of [bits] = pixel (y, x) of an h x w bitmap *)
Definition mask_of_bits (h w bits : Z) : mask :=
  map (fun y => map (fun x => Z.testbit bits (y * w + x)) (zrange 0 w)) (zrange 0 h).

Definition points_of_bits (h w bits : Z) : list point :=
  filter (fun p => Z.testbit bits (py p * w + px p)) (all_pixels h w).

(* a contour as one number: sentinel 1, then one byte y*16+x per point, first point most
   significant (coordinates 0..15; the harness falls back to the plain form otherwise) *)
Fixpoint dec_contour_fuel (fuel : nat) (v : Z) (acc : list point) : list point :=
  match fuel with
  | O => acc
  | S f => if v <=? 1 then acc
           else dec_contour_fuel f (v / 256) (((v mod 256) / 16, v mod 16) :: acc)
  end.
Definition dec_contour (v : Z) : list point :=
  dec_contour_fuel (Z.to_nat (Z.log2 v / 8 + 2)) v [].

Definition mkc (h w bits : Z) (md : mode) (cs : list Z) : ccase :=
  {| c_mask := mask_of_bits h w bits; c_mode := md; c_impl := CDone (map dec_contour cs) |}.
Definition mkc_plain (h w bits : Z) (md : mode) (imp : cimpl) : ccase :=
  {| c_mask := mask_of_bits h w bits; c_mode := md; c_impl := imp |}.

Definition mkd (h w : Z) (pr : prim) (bits : Z) (guard : bool) : dcase :=
  {| d_h := h; d_w := w; d_prim := pr; d_impl := Some (points_of_bits h w bits); d_guard := guard |}.
Definition mkd_panic (h w : Z) (pr : prim) : dcase :=
  {| d_h := h; d_w := w; d_prim := pr; d_impl := None; d_guard := true |}.

Example codec_roundtrip :
  dec_contour 0x1001021 = [(0,0); (1,0); (2,1)] /\
  mask_of_bits 2 3 0x21 = [[true; false; false]; [false; false; true]] /\
  points_of_bits 2 3 0x21 = [(0,0); (1,2)].
Proof. repeat split; vm_compute; reflexivity. Qed.
