(* C36: assembly of the bounded theorem from the sweep lemmas (Contours_sweep0..4.v). *)
From RV Require Import Prelude.
From ImageProc Require Import Draw Draw_proofs Contours Contours_proofs
     Contours_sweep0 Contours_sweep1 Contours_sweep2 Contours_sweep3 Contours_sweep4.
Open Scope Z_scope.

Lemma in_masks_with_first rs h w m :
  In m (masks_with_first rs h w) <-> exists r m', m = r :: m' /\ In r rs /\ In m' (all_masks h w).
Proof.
  unfold masks_with_first. rewrite in_flat_map. split.
  - intros (m' & Hm' & Hin). apply in_map_iff in Hin. destruct Hin as (r & <- & Hr). eauto.
  - intros (r & m' & -> & Hr & Hm'). exists m'. split; [exact Hm'|].
    apply in_map_iff. exists r. split; [reflexivity|exact Hr].
Qed.

Lemma all_rows4_chunks :
  all_rows 4 = rows4_chunk 0 ++ rows4_chunk 1 ++ rows4_chunk 2 ++ rows4_chunk 3.
Proof. reflexivity. Qed.

Lemma check_size_44 : check_size 4 4 = true.
Proof.
  unfold check_size. apply forallb_forall. intros m Hm.
  change (all_masks 4 4) with (masks_with_first (all_rows 4) 3 4) in Hm.
  apply in_masks_with_first in Hm. destruct Hm as (r & m' & -> & Hr & Hm').
  rewrite all_rows4_chunks in Hr. rewrite !in_app_iff in Hr.
  assert (Hgen : forall i, check_44_chunk i = true -> In r (rows4_chunk i) -> check_mask (r :: m') = true).
  { intros i Hc Hi. unfold check_44_chunk in Hc. rewrite forallb_forall in Hc. apply Hc.
    apply in_masks_with_first. eauto. }
  destruct Hr as [Hr|[Hr|[Hr|Hr]]].
  - exact (Hgen 0%nat sweep_44_0 Hr).
  - exact (Hgen 1%nat sweep_44_1 Hr).
  - exact (Hgen 2%nat sweep_44_2 Hr).
  - exact (Hgen 3%nat sweep_44_3 Hr).
Qed.

(* the bounded-exhaustive sweep: all 0..4 x 0..4 sizes, all masks, both modes *)
Lemma check_size_le_4 h w : (h <= 4)%nat -> (w <= 4)%nat -> check_size h w = true.
Proof.
  intros Hh Hw. destruct (is_44 (h, w)) eqn:E.
  - unfold is_44 in E. cbn [fst snd] in E. apply andb_true_iff in E. destruct E as [E1 E2].
    apply Nat.eqb_eq in E1. apply Nat.eqb_eq in E2. subst. exact check_size_44.
  - pose proof sweep_small as H. unfold check_small_sizes in H. rewrite forallb_forall in H.
    apply (H (h, w)). apply filter_In. split; [apply in_sizes_le; assumption|]. rewrite E. reflexivity.
Qed.

Lemma check_mask_le_4x4 m w :
  (length m <= 4)%nat -> (w <= 4)%nat -> (forall r, In r m -> length r = w) -> check_mask m = true.
Proof.
  intros Hh Hw Hr. pose proof (check_size_le_4 (length m) w Hh Hw) as H.
  unfold check_size in H. rewrite forallb_forall in H.
  apply H. apply all_masks_complete; [reflexivity|exact Hr].
Qed.

Lemma rectangular_of m w : (forall r, In r m -> length r = w) -> rectangular m.
Proof.
  intros H r Hr. unfold mask_w. destruct m as [|r0 m]; [destruct Hr|].
  rewrite (H r Hr), (H r0 (or_introl eq_refl)). reflexivity.
Qed.

Definition contours_valid (m : mask) (cs : list (list point)) : Prop :=
  (forall C p, In C cs -> In p C -> border_px m p) /\
  (forall p, fg m p -> exists C, In C cs /\ outer_contour m p C).

Lemma contours_ok_le_4x4 m w md :
  (length m <= 4)%nat -> (w <= 4)%nat -> (forall r, In r m -> length r = w) ->
  exists cs, find_contours m md = Ok cs /\ contours_valid m cs.
Proof.
  intros Hh Hw Hr. pose proof (check_mask_le_4x4 m w Hh Hw Hr) as Hc.
  pose proof (rectangular_of m w Hr) as Hrect.
  unfold check_mask in Hc.
  destruct (find_contours m ListMode) as [cl| |] eqn:El; try discriminate.
  destruct (find_contours m External) as [ce| |] eqn:Ee; try discriminate.
  apply andb_true_iff in Hc. destruct Hc as [Hl He].
  assert (Hgen : forall cs, valid_b m (components m) (fun _ => true) cs = true -> contours_valid m cs).
  { intros cs Hv. destruct (valid_b_sound m _ cs Hrect Hv) as [H1 H2]. split; [exact H1|].
    intros p Hp. destruct (components_cover m p Hrect Hp) as (K & HK & HpK).
    apply (H2 p K Hp HK HpK eq_refl). }
  destruct md.
  - exists ce. split; [exact Ee|apply Hgen; exact He].
  - exists cl. split; [exact El|apply Hgen; exact Hl].
Qed.

(* soundness of the oracle used on the implementation's output, for masks of any size *)
Lemma contours_checker_sound m cs :
  rectangular m -> contours_ok_b m ListMode cs = true -> contours_valid m cs.
Proof.
  intros Hrect Hv. unfold contours_ok_b in Hv.
  destruct (valid_b_sound m _ cs Hrect Hv) as [H1 H2]. split; [exact H1|].
  intros p Hp. destruct (components_cover m p Hrect Hp) as (K & HK & HpK).
  apply (H2 p K Hp HK HpK eq_refl).
Qed.

Lemma contours_checker_sound_external m cs :
  rectangular m -> contours_ok_b m External cs = true ->
  (forall C p, In C cs -> In p C -> border_px m p) /\
  (forall p K, fg m p -> In K (components m) -> In p K -> outermost_b (exterior m) K = true ->
     exists C, In C cs /\ outer_contour m p C).
Proof. intros Hrect Hv. unfold contours_ok_b in Hv. apply (valid_b_sound m _ cs Hrect Hv). Qed.
