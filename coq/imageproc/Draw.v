(* C36 (drawing half) -- executable model of rten-imageproc/src/drawing.rs over Z.

   Modelled (as the code stands after the four `fix:` commits F50-F53 on branch
   verif-imageproc): clamp_to_bounds, BreshamPoints::{new,next}, draw_line (width 1),
   fill_rect, stroke_rect, draw_polygon (width 1), Polygon::edges.
   Not modelled: draw_line with width > 1 (RotatedRect corners are f32 geometry, FillIter);
   those are only checked against the bounds oracle [prop_ok_draw].

   Integers: Rust uses i32.  The model uses unbounded Z; this is exact as long as no i32
   operation overflows, which holds when |coordinate| <= 2^30, stroke width <= 2^30 and the
   image has at most 2^30 rows/columns (BreshamPoints doubles differences of *clamped*
   coordinates, which lie in [0, dim)).  Inputs beyond that are outside the model.

   Only definitions here; proofs are in Draw_proofs.v; the correspondence cases and the
   property oracle are in DrawCases.v. *)
From RV Require Import Prelude.
Open Scope Z_scope.

(* Point::from_yx(y, x) *)
Definition point := (Z * Z)%type.
Definition py (p : point) : Z := fst p.
Definition px (p : point) : Z := snd p.

(* i32::clamp(lo, hi) (lo <= hi at every call site) *)
Definition clampZ (v lo hi : Z) : Z := if v <? lo then lo else if hi <? v then hi else v.

(* fn clamp_to_bounds(p, height, width):
     p.y.clamp(0, height.saturating_sub(1).max(0)), p.x.clamp(0, width.saturating_sub(1).max(0)) *)
Definition clamp_to_bounds (p : point) (h w : Z) : point :=
  (clampZ (py p) 0 (Z.max (h - 1) 0), clampZ (px p) 0 (Z.max (w - 1) 0)).

(* ---- BreshamPoints ---- *)
Record bstate := {
  b_cur : point;      (* next point to return *)
  b_rem : Z;          (* remaining_steps *)
  b_dx : Z;           (* twice |dx| *)
  b_dy : Z;           (* twice |dy| *)
  b_err : Z;
  b_xs : Z;           (* x_step = signum *)
  b_ys : Z
}.

Definition bresham_new (s e : point) : bstate :=
  let dx := Z.abs (px e - px s) in
  let dy := Z.abs (py e - py s) in
  {| b_cur := s; b_rem := Z.max dx dy; b_dx := dx * 2; b_dy := dy * 2;
     b_err := if dx >=? dy then dy * 2 - dx else dx * 2 - dy;
     b_xs := Z.sgn (px e - px s); b_ys := Z.sgn (py e - py s) |}.

(* the state update of Iterator::next (the returned item is b_cur of the old state) *)
Definition bresham_step (st : bstate) : bstate :=
  let '(y, x) := b_cur st in
  let rem := b_rem st - 1 in
  if b_xs st =? 0 then
    {| b_cur := (y + b_ys st, x); b_rem := rem; b_dx := b_dx st; b_dy := b_dy st;
       b_err := b_err st; b_xs := b_xs st; b_ys := b_ys st |}
  else if b_ys st =? 0 then
    {| b_cur := (y, x + b_xs st); b_rem := rem; b_dx := b_dx st; b_dy := b_dy st;
       b_err := b_err st; b_xs := b_xs st; b_ys := b_ys st |}
  else if b_dx st >=? b_dy st then
    let '(y1, e1) := if b_err st >=? 0 then (y + b_ys st, b_err st - b_dx st) else (y, b_err st) in
    {| b_cur := (y1, x + b_xs st); b_rem := rem; b_dx := b_dx st; b_dy := b_dy st;
       b_err := e1 + b_dy st; b_xs := b_xs st; b_ys := b_ys st |}
  else
    let '(x1, e1) := if b_err st >=? 0 then (x + b_xs st, b_err st - b_dy st) else (x, b_err st) in
    {| b_cur := (y + b_ys st, x1); b_rem := rem; b_dx := b_dx st; b_dy := b_dy st;
       b_err := e1 + b_dx st; b_xs := b_xs st; b_ys := b_ys st |}.

(* n calls of next(): the yielded points and the final state *)
Fixpoint bresham_iter (n : nat) (st : bstate) : list point * bstate :=
  match n with
  | O => ([], st)
  | S k => let '(l, st') := bresham_iter k (bresham_step st) in (b_cur st :: l, st')
  end.

(* `for p in BreshamPoints::new(line)`: next() returns None when remaining_steps == 0 *)
Definition bresham_run (s e : point) : list point * bstate :=
  let st := bresham_new s e in bresham_iter (Z.to_nat (b_rem st)) st.
Definition bresham_points (s e : point) : list point := fst (bresham_run s e).

(* ---- writes ---- *)
Inductive outcome := Writes (l : list point) | Panic.

Definition in_image (h w : Z) (p : point) : bool :=
  (0 <=? py p) && (py p <? h) && (0 <=? px p) && (px p <? w).

(* `image[p.coord()] = value` for each point in turn; Point::coord asserts non-negative
   coordinates and tensor indexing checks each index against the dimension: anything
   outside the image is a panic (a distinct outcome, never silently dropped). *)
Definition write_all (h w : Z) (ps : list point) : outcome :=
  if forallb (in_image h w) ps then Writes ps else Panic.

Definition seq_out (a b : outcome) : outcome :=
  match a, b with Writes l1, Writes l2 => Writes (l1 ++ l2) | _, _ => Panic end.

(* ---- draw_line, width = 1 ---- *)
Definition bbox_misses_image (h w : Z) (s e : point) : bool :=
  (h =? 0) || (w =? 0) ||
  (Z.max (py s) (py e) <? 0) || (Z.min (py s) (py e) >=? h) ||
  (Z.max (px s) (px e) <? 0) || (Z.min (px s) (px e) >=? w).

Definition draw_line1 (h w : Z) (s e : point) : outcome :=
  if bbox_misses_image h w s e then Writes []
  else write_all h w (bresham_points (clamp_to_bounds s h w) (clamp_to_bounds e h w)).

(* ---- rectangles ---- *)
Record rect := { r_top : Z; r_left : Z; r_bottom : Z; r_right : Z }.
Definition from_tlbr t l b r := {| r_top := t; r_left := l; r_bottom := b; r_right := r |}.
(* Rect::clamp = Rect::intersection *)
Definition rect_clamp (a b : rect) : rect :=
  from_tlbr (Z.max (r_top a) (r_top b)) (Z.max (r_left a) (r_left b))
            (Z.min (r_bottom a) (r_bottom b)) (Z.min (r_right a) (r_right b)).
Definition in_rect (r : rect) (p : point) : bool :=
  (r_top r <=? py p) && (py p <? r_bottom r) && (r_left r <=? px p) && (px p <? r_right r).

(* lo..hi *)
Definition zrange (lo hi : Z) : list Z :=
  map (fun i => lo + Z.of_nat i) (seq 0 (Z.to_nat (hi - lo))).
Definition rect_points (r : rect) : list point :=
  flat_map (fun y => map (fun x => (y, x)) (zrange (r_left r) (r_right r))) (zrange (r_top r) (r_bottom r)).

(* all pixels of an h x w image in raster order *)
Definition all_pixels (h w : Z) : list point := rect_points (from_tlbr 0 0 h w).

Definition fill_rect (h w : Z) (r : rect) : outcome :=
  write_all h w (rect_points (rect_clamp r (from_tlbr 0 0 h w))).

Definition stroke_parts (r : rect) (wd : Z) : list rect :=
  [ rect_clamp (from_tlbr (r_top r) (r_left r) (r_bottom r) (r_left r + wd)) r;
    rect_clamp (from_tlbr (r_top r) (r_left r + wd) (r_top r + wd) (r_right r - wd)) r;
    rect_clamp (from_tlbr (r_top r) (r_right r - wd) (r_bottom r) (r_right r)) r;
    rect_clamp (from_tlbr (r_bottom r - wd) (r_left r + wd) (r_bottom r) (r_right r - wd)) r ].

(* the rect shrunk by the border width on every side: what a stroke leaves untouched *)
Definition stroke_inner (r : rect) (wd : Z) : rect :=
  from_tlbr (r_top r + wd) (r_left r + wd) (r_bottom r - wd) (r_right r - wd).

Definition stroke_rect (h w : Z) (r : rect) (wd : Z) : outcome :=
  fold_left (fun acc part => seq_out acc (fill_rect h w part)) (stroke_parts r wd) (Writes []).

(* ---- polygons ---- *)
(* Polygon::edges: points.iter().zip(points.iter().cycle().skip(1)) *)
Definition edges (pts : list point) : list (point * point) :=
  match pts with
  | [] => []
  | p0 :: rest => combine pts (rest ++ [p0])
  end.

Definition draw_polygon1 (h w : Z) (pts : list point) : outcome :=
  fold_left (fun acc e => seq_out acc (draw_line1 h w (fst e) (snd e))) (edges pts) (Writes []).
