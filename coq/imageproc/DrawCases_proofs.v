(* C36: the drawing model satisfies the property oracle for ALL inputs, and the oracle means
   what it says (reflection). *)
From RV Require Import Prelude.
From ImageProc Require Import Draw Draw_proofs DrawCases.
Require Import ZifyBool.
Open Scope Z_scope.

Lemma in_bounds_line s e p : in_bbox s e p -> in_line_bounds s e 1 p = true.
Proof. unfold in_bbox, in_line_bounds, line_margin. cbn. lia. Qed.

Lemma writes_ok_intro h w pr l :
  (forall p, In p l -> in_image h w p = true /\ in_bounds pr p = true) -> writes_ok h w pr l = true.
Proof.
  intros H. unfold writes_ok. apply forallb_forall. intros p Hp.
  destruct (H p Hp) as [H1 H2]. rewrite H1, H2. reflexivity.
Qed.

(* whatever the modelled primitives write passes the oracle: never a panic, only pixels inside
   the image and inside the bounds of the shape -- for all shapes and all image sizes *)
Lemma model_satisfies_oracle h w pr out :
  0 <= h -> 0 <= w -> model_draw h w pr = Some out ->
  exists l, out = Writes l /\ writes_ok h w pr l = true.
Proof.
  intros Hh Hw. destruct pr as [r|r wd|s e wd|pts wd|pts wd]; cbn [model_draw].
  - intros E. inversion E; subst out. clear E.
    destruct (fill_rect_writes h w r) as (l & El & H). exists l. split; [exact El|].
    apply writes_ok_intro. intros p Hp. apply H in Hp. cbn [in_bounds]. tauto.
  - intros E. inversion E; subst out. clear E.
    destruct (stroke_rect_writes h w r wd) as (l & El & H). exists l. split; [exact El|].
    apply writes_ok_intro. intros p Hp. destruct (H p Hp) as (Hi & Hr & Hn & Hwd).
    split; [exact Hi|]. cbn [in_bounds]. rewrite Hr, Hn. cbn. lia.
  - destruct (wd =? 0) eqn:E0.
    { intros E. inversion E. exists []. split; reflexivity. }
    destruct (wd =? 1) eqn:E1; [|discriminate].
    intros E. inversion E; subst out. clear E.
    destruct (draw_line_in_image h w s e Hh Hw) as (l & El & H). exists l. split; [exact El|].
    apply writes_ok_intro. intros p Hp. destruct (H p Hp) as [Hi Hb]. split; [exact Hi|].
    cbn [in_bounds]. assert (wd = 1) by lia. subst wd. rewrite (in_bounds_line _ _ _ Hb). reflexivity.
  - destruct (wd =? 0) eqn:E0.
    { intros E. inversion E. exists []. split; reflexivity. }
    destruct (wd =? 1) eqn:E1; [|discriminate].
    intros E. inversion E; subst out. clear E.
    destruct (draw_polygon_in_image h w pts Hh Hw) as (l & El & H). exists l. split; [exact El|].
    apply writes_ok_intro. intros p Hp. destruct (H p Hp) as [Hi (ed & He & Hb)]. split; [exact Hi|].
    cbn [in_bounds]. assert (wd = 1) by lia. subst wd.
    assert (Ex : existsb (fun e0 => in_line_bounds (fst e0) (snd e0) 1 p) (edges pts) = true).
    { apply existsb_exists. exists ed. split; [exact He|apply in_bounds_line; exact Hb]. }
    rewrite Ex. reflexivity.
  - destruct (wd =? 0) eqn:E0.
    { intros E. inversion E. exists []. split; reflexivity. }
    destruct (wd =? 1) eqn:E1; [|discriminate].
    intros E. inversion E; subst out. clear E.
    destruct (draw_polygon_in_image h w pts Hh Hw) as (l & El & H). exists l. split; [exact El|].
    apply writes_ok_intro. intros p Hp. destruct (H p Hp) as [Hi (ed & He & Hb)]. split; [exact Hi|].
    cbn [in_bounds]. assert (wd = 1) by lia. subst wd.
    assert (Ex : existsb (fun e0 => in_line_bounds (fst e0) (snd e0) 1 p) (edges pts) = true).
    { apply existsb_exists. exists ed. split; [exact He|apply in_bounds_line; exact Hb]. }
    rewrite Ex. reflexivity.
Qed.

(* reflection: what the oracle accepts *)
Lemma prop_ok_draw_spec c :
  prop_ok_draw c = true <->
  exists l, d_impl c = Some l /\ d_guard c = true /\
    forall p, In p l -> (0 <= py p < d_h c /\ 0 <= px p < d_w c) /\ in_bounds (d_prim c) p = true.
Proof.
  unfold prop_ok_draw, writes_ok. destruct (d_impl c) as [l|]; split.
  - intros H. apply andb_true_iff in H. destruct H as [Hg Hf]. rewrite forallb_forall in Hf.
    exists l. split; [reflexivity|]. split; [exact Hg|]. intros p Hp. specialize (Hf p Hp).
    apply andb_true_iff in Hf. destruct Hf as [H1 H2]. split; [apply in_image_spec; exact H1|exact H2].
  - intros (l' & E & Hg & Hf). inversion E; subst l'. rewrite Hg. cbn. apply forallb_forall.
    intros p Hp. destruct (Hf p Hp) as [H1 H2]. apply in_image_spec in H1. rewrite H1, H2. reflexivity.
  - discriminate.
  - intros (l' & E & _). discriminate.
Qed.
