(* C35 -- Polygon algorithms return geometrically valid results.
   Only statements; every proof is `exact <lemma>`.  Model: Poly.v. *)
From RV Require Import Prelude.
From ImageProc Require Import Poly Poly_proofs.
Open Scope Z_scope.

(* ---------- polygon simplification (Douglas-Peucker), all inputs ----------
   The point type A, the distance type D, the distance function and the comparison are
   abstract: the theorems hold for EVERY distance function and every total, transitive
   comparison (f32 `<=` on non-NaN values is one).  `zero` is the 0.0 the fold starts from. *)
Section Simplify.
  Context {A D : Type}.
  Variable dist : A -> A -> A -> D.
  Variable leb : D -> D -> bool.
  Variable zero : D.
  Hypothesis leb_total : forall a b, leb a b = false -> leb b a = true.
  Hypothesis leb_trans : forall a b c, leb a b = true -> leb b c = true -> leb a c = true.

  (* (1) simplify_polyline: the recursion terminates (the fuel is never exhausted); it panics
     exactly when epsilon < 0 (the assert); otherwise the result is a subsequence of the input,
     starts with the first and ends with the last input point, and every input point is either
     kept or within epsilon of a segment between two consecutive kept points *)
  Theorem C35_simplify_polyline : forall (pts : list A) (eps : D),
    if leb zero eps then
      exists out, simplify_polyline dist leb zero pts eps = SOk out /\
        subseq out pts /\
        hd_error out = hd_error pts /\
        (forall d, pts <> [] -> last out d = last pts d) /\
        (forall p, In p pts ->
           In p out \/ exists a b, In (a, b) (pairs out) /\ leb (dist a b p) eps = true)
    else simplify_polyline dist leb zero pts eps = SPanic.
  Proof. exact (simplify_polyline_spec dist leb zero leb_total leb_trans). Qed.

  (* (2) simplify_polygon: same for the closed outline (the last kept point joins the first) *)
  Theorem C35_simplify_polygon : forall (pts : list A) (eps : D),
    if leb zero eps then
      exists out, simplify_polygon dist leb zero pts eps = SOk out /\
        subseq out pts /\
        hd_error out = hd_error pts /\
        (forall p, In p pts ->
           In p (out ++ firstn 1 out) \/
           exists a b, In (a, b) (pairs (out ++ firstn 1 out)) /\ leb (dist a b p) eps = true)
    else pts = [] \/ simplify_polygon dist leb zero pts eps = SPanic.
  Proof. exact (simplify_polygon_spec dist leb zero leb_total leb_trans). Qed.
End Simplify.

(* ---------- convex hull (Graham scan), all inputs, ANY sort keys ---------- *)

(* (3) the hull uses only input points *)
Theorem C35_hull_subset_of_input : forall pts keys p,
  In p (convex_hull pts keys) -> In p pts.
Proof. exact hull_subset_of_input. Qed.

(* (4) every three consecutive hull vertices make a strict left turn (exact orientation test
   over Z): the chain is locally convex, without collinear or repeated consecutive vertices.
   Global convexity and containment of all input points depend on the f32 sort keys and are
   NOT proved; they are checked exactly on the implementation's output by hull_ok. *)
Theorem C35_hull_chain_left_turns : forall pts keys l1 a b c l2,
  convex_hull pts keys = l1 ++ a :: b :: c :: l2 -> orient a b c > 0.
Proof. exact hull_chain_left_turns. Qed.

(* (5) the oracle applied to the implementation's hull is sound: what it accepts uses only
   input points, has every input point on the inner side of (or on) every edge line in the
   hull's own vertex order (so the vertex cycle is convex and the intersection of its edge
   half-planes contains every input point) and inside the hull's bounding box *)
Theorem C35_hull_oracle_sound : forall pts hull,
  hull_ok pts hull = true ->
  (forall q, In q hull -> In q pts) /\
  (forall a b p, In (a, b) (cyc_edges hull) -> In p pts -> 0 <= orient a b p) /\
  (forall p, In p pts -> exists q1 q2 q3 q4, In q1 hull /\ In q2 hull /\ In q3 hull /\ In q4 hull /\
      ptx q1 <= ptx p <= ptx q2 /\ pty q3 <= pty p <= pty q4) /\
  (pts <> [] -> hull <> []).
Proof. exact hull_ok_sound. Qed.

(* (6) the oracle applied to the implementation's simplification is sound: what it accepts is
   a subsequence of the input with the same first point in which every input point is kept or
   within (eps4/4 + 1/64) of the segment between two output points (exact squared distances) *)
Theorem C35_simplify_oracle_sound : forall closed pts eps4 out,
  simplify_ok closed pts eps4 out = true ->
  subseq out pts /\ hd_error out = hd_error pts /\
  forall p, In p pts ->
    In p out \/ exists a b, In a out /\ In b out /\ near_segment (16 * eps4 + 1) a b p = true.
Proof. exact simplify_ok_sound. Qed.

(* non-vacuity: a polyline that is simplified (integer distances squared as D), the F56
   input with exact keys, the oracle rejects the pre-fix hull of that input *)
Example C35_nonvacuous :
  simplify_polyline (fun a b p : Z * Z => Z.abs (orient a b p)) Z.leb 0
                    [(0,0); (1,0); (2,1); (3,0); (4,0)] 2 = SOk [(0,0); (2,1); (4,0)] /\
  hull_ok [(0,3); (-1,2); (-3,0); (-2,0); (-3,-3); (4,-4); (2,2)]
          [(0,3); (-3,0); (-3,-3); (4,-4); (2,2)] = true /\
  hull_ok [(0,3); (-1,2); (-3,0); (-2,0); (-3,-3); (4,-4); (2,2)]
          [(0,3); (-1,2); (-2,0); (-3,-3); (4,-4); (2,2)] = false.
Proof. repeat split; vm_compute; reflexivity. Qed.
