(* Proofs about the polygon algorithm models (C35). *)
From RV Require Import Prelude.
From ImageProc Require Import Poly.
Require Import ZifyBool.
Open Scope Z_scope.

(* ------------------------------------------------------------------ *)
(* subsequences and consecutive pairs *)
Inductive subseq {A} : list A -> list A -> Prop :=
| sub_nil l : subseq [] l
| sub_take x l1 l2 : subseq l1 l2 -> subseq (x :: l1) (x :: l2)
| sub_skip x l1 l2 : subseq l1 l2 -> subseq l1 (x :: l2).

Lemma subseq_refl {A} (l : list A) : subseq l l.
Proof. induction l; constructor; auto. Qed.

Lemma subseq_app {A} (a b c d : list A) : subseq a b -> subseq c d -> subseq (a ++ c) (b ++ d).
Proof.
  intros H1 H2. induction H1; cbn.
  - induction l; cbn; [exact H2|constructor; exact IHl].
  - constructor; exact IHsubseq.
  - constructor; exact IHsubseq.
Qed.

Lemma subseq_In {A} (a b : list A) x : subseq a b -> In x a -> In x b.
Proof. induction 1; intros Hx; cbn in *; [destruct Hx| |]; intuition. Qed.

(* consecutive pairs of a polyline *)
Fixpoint pairs {A} (l : list A) : list (A * A) :=
  match l with
  | a :: ((b :: _) as r) => (a, b) :: pairs r
  | _ => []
  end.

Lemma pairs_app_l {A} (l r : list A) x e : In e (pairs (l ++ [x])) -> In e (pairs (l ++ x :: r)).
Proof.
  induction l as [|a l IH]; cbn [app]; intros H.
  - destruct H.
  - destruct l as [|b l].
    + cbn in *. destruct H as [H|[]]. left; exact H.
    + cbn [app pairs] in *. destruct H as [H|H]; [left; exact H|right; apply IH; exact H].
Qed.

Lemma pairs_app_r {A} (l r : list A) e : In e (pairs r) -> In e (pairs (l ++ r)).
Proof.
  induction l as [|a l IH]; cbn [app]; intros H; [exact H|].
  specialize (IH H). destruct (l ++ r) eqn:E; [destruct IH|]. cbn [pairs]. right. exact IH.
Qed.

(* ------------------------------------------------------------------ *)
Section SimplifyProofs.
  Context {A D : Type}.
  Variable dist : A -> A -> A -> D.
  Variable leb : D -> D -> bool.
  Variable zero : D.
  (* the distances met are totally ordered (no NaN) *)
  Hypothesis leb_total : forall a b, leb a b = false -> leb b a = true.
  Hypothesis leb_trans : forall a b c, leb a b = true -> leb b c = true -> leb a c = true.

  Notation furthest := (furthest dist leb).
  Notation simp := (simp dist leb zero).

  Lemma leb_refl x : leb x x = true.
  Proof. destruct (leb x x) eqn:E; [reflexivity|]. pose proof (leb_total _ _ E). congruence. Qed.

  Lemma furthest_idx a b inner : forall i acc,
    furthest a b inner i acc = acc \/
    (i < fst (furthest a b inner i acc) <= i + length inner)%nat.
  Proof.
    induction inner as [|p r IH]; intros i acc; cbn [Poly.furthest]; [left; reflexivity|].
    destruct (IH (S i) (if leb (snd acc) (dist a b p) then (S i, dist a b p) else acc)) as [E|E].
    - rewrite E. destruct (leb (snd acc) (dist a b p)); [right; cbn; lia|left; reflexivity].
    - right. cbn [length]. lia.
  Qed.

  Lemma furthest_max a b inner : forall i acc,
    leb (snd acc) (snd (furthest a b inner i acc)) = true /\
    forall p, In p inner -> leb (dist a b p) (snd (furthest a b inner i acc)) = true.
  Proof.
    induction inner as [|p r IH]; intros i acc; cbn [Poly.furthest].
    - split; [apply leb_refl|intros p []].
    - set (acc' := if leb (snd acc) (dist a b p) then (S i, dist a b p) else acc).
      destruct (IH (S i) acc') as [H1 H2].
      assert (Hacc : leb (snd acc) (snd acc') = true /\ leb (dist a b p) (snd acc') = true).
      { unfold acc'. destruct (leb (snd acc) (dist a b p)) eqn:E; cbn [snd].
        - split; [exact E|apply leb_refl].
        - split; [apply leb_refl|apply leb_total; exact E]. }
      destruct Hacc as [Ha Hp]. split.
      + eapply leb_trans; eauto.
      + intros q [<-|Hq]; [eapply leb_trans; eauto|apply H2; exact Hq].
  Qed.

  (* a polyline with at least two points: first :: inner ++ [lst] *)
  Lemma split_rest (first : A) (rest : list A) :
    rest <> [] -> rest = removelast rest ++ [last rest first].
  Proof. intros H. apply app_removelast_last. exact H. Qed.

  Lemma pivot_split (first lst : A) inner mi :
    (0 < mi <= length inner)%nat ->
    exists inner1 pivot inner2,
      inner = inner1 ++ pivot :: inner2 /\
      firstn (mi + 1) (first :: inner ++ [lst]) = first :: inner1 ++ [pivot] /\
      skipn mi (first :: inner ++ [lst]) = pivot :: inner2 ++ [lst].
  Proof.
    intros Hmi. destruct mi as [|k]; [lia|].
    assert (Hk : (k < length inner)%nat) by lia.
    destruct (nth_error inner k) as [pivot|] eqn:En; [|apply nth_error_None in En; lia].
    apply nth_error_split in En. destruct En as (inner1 & inner2 & -> & Hl).
    exists inner1, pivot, inner2. split; [reflexivity|]. subst k. split.
    - replace (S (length inner1) + 1)%nat with (S (S (length inner1))) by lia.
      cbn [app]. rewrite firstn_cons. f_equal.
      replace ((inner1 ++ pivot :: inner2) ++ [lst]) with ((inner1 ++ [pivot]) ++ (inner2 ++ [lst]))
        by (rewrite <- !app_assoc; reflexivity).
      rewrite firstn_app, app_length. cbn [length].
      rewrite firstn_all2 by (rewrite app_length; cbn; lia).
      replace (S (length inner1) - (length inner1 + 1))%nat with 0%nat by lia.
      cbn [firstn]. rewrite app_nil_r. reflexivity.
    - cbn [app]. rewrite skipn_cons.
      replace ((inner1 ++ pivot :: inner2) ++ [lst]) with (inner1 ++ (pivot :: inner2 ++ [lst]))
        by (rewrite <- !app_assoc; reflexivity).
      rewrite skipn_app. rewrite skipn_all2 by lia.
      replace (length inner1 - length inner1)%nat with 0%nat by lia. reflexivity.
  Qed.

  (* ---- termination: fuel greater than the length is always enough ---- *)
  Lemma simp_fuel eps : leb zero eps = true ->
    forall fuel pts kl, (length pts < fuel)%nat -> simp fuel pts eps kl <> None.
  Proof.
    intros Heps. induction fuel as [|f IH]; intros pts kl Hlen; [lia|].
    cbn [Poly.simp]. destruct pts as [|first rest]; [discriminate|].
    destruct rest as [|r0 rest']; [discriminate|].
    set (rest := r0 :: rest') in *.
    set (lst := last rest first). set (inner := removelast rest).
    assert (Hrest : rest = inner ++ [lst]) by (apply split_rest; discriminate).
    destruct (furthest first lst inner 0 (0%nat, zero)) as [mi md] eqn:Ef.
    destruct (negb (leb md eps)) eqn:Egt; [|discriminate].
    destruct (furthest_idx first lst inner 0 (0%nat, zero)) as [E|E].
    { rewrite Ef in E. inversion E; subst. rewrite Heps in Egt. discriminate. }
    rewrite Ef in E. cbn [fst] in E.
    assert (Hl : length (first :: rest) = S (S (length inner))).
    { rewrite Hrest. cbn [length]. rewrite app_length. cbn. lia. }
    assert (H1 : simp f (firstn (mi + 1) (first :: rest)) eps false <> None).
    { apply IH. rewrite firstn_length. lia. }
    assert (H2 : simp f (skipn mi (first :: rest)) eps kl <> None).
    { apply IH. rewrite skipn_length. lia. }
    destruct (simp f (firstn (mi + 1) (first :: rest)) eps false); [|congruence].
    destruct (simp f (skipn mi (first :: rest)) eps kl); [discriminate|congruence].
  Qed.

  (* ---- the shape of a result ---- *)
  (* out = first :: mid ++ (lst if keep_last), mid a subsequence of the inner points, and every
     inner point is kept or within eps of a segment of the kept outline *)
  Definition covered (eps : D) (outline : list A) (p : A) : Prop :=
    In p outline \/ exists a b, In (a, b) (pairs outline) /\ leb (dist a b p) eps = true.

  Lemma simp_shape eps : leb zero eps = true ->
    forall fuel first inner lst kl out,
    simp fuel (first :: inner ++ [lst]) eps kl = Some out ->
    exists mid,
      out = first :: mid ++ (if kl then [lst] else []) /\
      subseq mid inner /\
      forall p, In p inner -> covered eps (first :: mid ++ [lst]) p.
  Proof.
    intros Heps. induction fuel as [|f IH]; intros first inner lst kl out Hs; [discriminate|].
    cbn [Poly.simp] in Hs.
    destruct (inner ++ [lst]) as [|r0 rest'] eqn:Erest; [destruct inner; discriminate|].
    rewrite <- Erest in Hs.
    assert (Hlast : last (inner ++ [lst]) first = lst) by apply last_last.
    assert (Hrl : removelast (inner ++ [lst]) = inner) by apply removelast_last.
    rewrite Hlast, Hrl in Hs.
    destruct (furthest first lst inner 0 (0%nat, zero)) as [mi md] eqn:Ef.
    destruct (negb (leb md eps)) eqn:Egt.
    - (* recursive case: the pivot index is at least 1 *)
      destruct (furthest_idx first lst inner 0 (0%nat, zero)) as [E|E].
      { rewrite Ef in E. inversion E; subst. rewrite Heps in Egt. discriminate. }
      rewrite Ef in E. cbn [fst] in E.
      destruct (pivot_split first lst inner mi ltac:(lia)) as (inner1 & pivot & inner2 & Ei & Ef1 & Es1).
      rewrite Ef1, Es1 in Hs.
      destruct (simp f (first :: inner1 ++ [pivot]) eps false) as [l1|] eqn:E1; [|discriminate].
      destruct (simp f (pivot :: inner2 ++ [lst]) eps kl) as [l2|] eqn:E2; [|discriminate].
      inversion Hs; subst out. clear Hs.
      destruct (IH _ _ _ _ _ E1) as (mid1 & -> & Hsub1 & Hcov1).
      destruct (IH _ _ _ _ _ E2) as (mid2 & -> & Hsub2 & Hcov2).
      exists (mid1 ++ pivot :: mid2). split; [|split].
      + cbn [app]. rewrite app_nil_r. rewrite <- !app_assoc. reflexivity.
      + subst inner. apply subseq_app; [exact Hsub1|]. constructor. exact Hsub2.
      + intros p Hp. subst inner. apply in_app_iff in Hp.
        assert (Eo : first :: (mid1 ++ pivot :: mid2) ++ [lst] = (first :: mid1) ++ pivot :: (mid2 ++ [lst])).
        { cbn [app]. rewrite <- !app_assoc. reflexivity. }
        unfold covered. rewrite Eo.
        destruct Hp as [Hp|[<-|Hp]].
        * destruct (Hcov1 p Hp) as [Hin|(a & b & Hab & Hd)].
          -- left. change (first :: mid1 ++ [pivot]) with ((first :: mid1) ++ [pivot]) in Hin.
             apply in_app_iff in Hin. apply in_app_iff. destruct Hin as [Hin|[<-|[]]]; [left; exact Hin|right; left; reflexivity].
          -- right. exists a, b. split; [|exact Hd].
             change (first :: mid1 ++ [pivot]) with ((first :: mid1) ++ [pivot]) in Hab.
             apply pairs_app_l. exact Hab.
        * left. apply in_app_iff. right. left. reflexivity.
        * destruct (Hcov2 p Hp) as [Hin|(a & b & Hab & Hd)].
          -- left. apply in_app_iff. right. exact Hin.
          -- right. exists a, b. split; [|exact Hd]. apply pairs_app_r. exact Hab.
    - (* base case: keep the two end points *)
      inversion Hs; subst out. clear Hs. exists []. split; [reflexivity|]. split; [constructor|].
      intros p Hp. right. exists first, lst. split; [left; reflexivity|].
      destruct (furthest_max first lst inner 0 (0%nat, zero)) as [_ Hmax].
      rewrite Ef in Hmax. cbn [snd] in Hmax.
      eapply leb_trans; [apply Hmax; exact Hp|].
      destruct (leb md eps); [reflexivity|discriminate].
  Qed.
End SimplifyProofs.

(* ------------------------------------------------------------------ *)
(* The public functions *)
Section SimplifyTop.
  Context {A D : Type}.
  Variable dist : A -> A -> A -> D.
  Variable leb : D -> D -> bool.
  Variable zero : D.
  Hypothesis leb_total : forall a b, leb a b = false -> leb b a = true.
  Hypothesis leb_trans : forall a b c, leb a b = true -> leb b c = true -> leb a c = true.

  Notation simplify_polyline := (simplify_polyline dist leb zero).
  Notation simplify_polygon := (simplify_polygon dist leb zero).
  Notation covered := (covered dist leb).

  (* simplify_polyline: never runs out of fuel (= the recursion terminates), panics exactly
     when epsilon < 0, and otherwise returns a subsequence that keeps the first and the last
     point and covers every input point within epsilon *)
  Lemma simplify_polyline_spec pts eps :
    if leb zero eps then
      exists out, simplify_polyline pts eps = SOk out /\
        subseq out pts /\
        hd_error out = hd_error pts /\
        (forall d, pts <> [] -> last out d = last pts d) /\
        (forall p, In p pts -> covered eps out p)
    else simplify_polyline pts eps = SPanic.
  Proof.
    unfold Poly.simplify_polyline. destruct (leb zero eps) eqn:Heps; [|reflexivity].
    pose proof (simp_fuel dist leb zero eps Heps (S (length pts)) pts true ltac:(lia)) as Hf.
    destruct (simp dist leb zero (S (length pts)) pts eps true) as [out|] eqn:Es; [|congruence].
    exists out. split; [reflexivity|].
    destruct pts as [|first rest].
    { cbn in Es. inversion Es; subst. split; [constructor|]. split; [reflexivity|]. split; [intros d Hne; congruence|intros p []]. }
    destruct rest as [|r0 rest'].
    { cbn in Es. inversion Es; subst. split; [apply subseq_refl|]. split; [reflexivity|].
      split; [reflexivity|]. intros p Hp. left. exact Hp. }
    set (rest := r0 :: rest') in *.
    assert (Hrest : rest = removelast rest ++ [last rest first]) by (apply split_rest; discriminate).
    set (inner := removelast rest) in *. set (lst := last rest first) in *.
    rewrite Hrest in Es.
    destruct (simp_shape dist leb zero leb_total leb_trans eps Heps _ _ _ _ _ _ Es) as (mid & -> & Hsub & Hcov).
    rewrite Hrest. split; [|split; [reflexivity|split]].
    - constructor. apply subseq_app; [exact Hsub|apply subseq_refl].
    - intros d _. change (first :: mid ++ [lst]) with ((first :: mid) ++ [lst]).
      change (first :: inner ++ [lst]) with ((first :: inner) ++ [lst]). rewrite !last_last. reflexivity.
    - intros p [<-|Hp]; [left; left; reflexivity|].
      apply in_app_iff in Hp. destruct Hp as [Hp|[<-|[]]]; [apply Hcov; exact Hp|].
      left. right. apply in_app_iff. right. left. reflexivity.
  Qed.

  (* simplify_polygon: as above for the closed outline; keeps the first point *)
  Lemma simplify_polygon_spec pts eps :
    if leb zero eps then
      exists out, simplify_polygon pts eps = SOk out /\
        subseq out pts /\
        hd_error out = hd_error pts /\
        (forall p, In p pts -> covered eps (out ++ firstn 1 out) p)
    else pts = [] \/ simplify_polygon pts eps = SPanic.
  Proof.
    unfold Poly.simplify_polygon. destruct pts as [|p0 inner].
    { destruct (leb zero eps); [|left; reflexivity]. exists []. split; [reflexivity|]. split; [constructor|]. split; [reflexivity|intros p []]. }
    pose proof (simplify_polyline_spec ((p0 :: inner) ++ [p0]) eps) as Hs.
    destruct (leb zero eps) eqn:Heps.
    - unfold Poly.simplify_polyline in *. rewrite Heps in *.
      destruct Hs as (out & Eo & _).
      destruct (simp dist leb zero (S (length ((p0 :: inner) ++ [p0]))) ((p0 :: inner) ++ [p0]) eps true) as [l|] eqn:Es; [|discriminate].
      inversion Eo; subst out. clear Eo.
      cbn [app] in Es.
      destruct (simp_shape dist leb zero leb_total leb_trans eps Heps _ _ _ _ _ _ Es) as (mid & -> & Hsub & Hcov).
      exists (p0 :: mid). split.
      { f_equal. change (p0 :: mid ++ [p0]) with ((p0 :: mid) ++ [p0]). apply removelast_last. }
      split; [constructor; exact Hsub|]. split; [reflexivity|].
      intros p [<-|Hp]; [left; left; reflexivity|].
      cbn [firstn app]. apply Hcov. exact Hp.
    - right. rewrite Hs. reflexivity.
  Qed.
End SimplifyTop.

(* ================================================================== *)
(* Graham scan *)
Lemma turn_orient a b c : turn a b c = orient a b c.
Proof. unfold turn, orient. ring. Qed.

Lemma settle_suffix st p : exists pre, st = pre ++ settle st p.
Proof.
  induction st as [|prev st IH]; [exists []; reflexivity|].
  cbn [settle]. destruct st as [|prev2 rest]; [exists []; reflexivity|].
  destruct (turn prev2 prev p >? 0); [exists []; reflexivity|].
  destruct IH as (pre & E). exists (prev :: pre). cbn [app]. f_equal. exact E.
Qed.

Lemma settle_incl st p x : In x (settle st p) -> In x st.
Proof. destruct (settle_suffix st p) as (pre & E). intros H. rewrite E. apply in_app_iff. right. exact H. Qed.

Lemma scan_fold_incl l : forall st x,
  In x (fold_left (fun st p => p :: settle st p) l st) -> In x st \/ In x l.
Proof.
  induction l as [|p l IH]; intros st x H; cbn [fold_left] in H; [left; exact H|].
  apply IH in H. destruct H as [[<-|H]|H].
  - right. left. reflexivity.
  - left. eapply settle_incl; eauto.
  - right. right. exact H.
Qed.

Lemma scan_incl l x : In x (scan l) -> In x l.
Proof. unfold scan. rewrite <- in_rev. intros H. apply scan_fold_incl in H. destruct H as [[]|H]; exact H. Qed.

Lemma dedup_incl l x : In x (dedup l) -> In x l.
Proof.
  revert x. induction l as [|a l IH]; intros x H; [exact H|].
  cbn [dedup] in H. destruct l as [|b r]; [exact H|].
  destruct (pt_eqb a b); [right; apply IH; exact H|].
  destruct H as [<-|H]; [left; reflexivity|right; apply IH; exact H].
Qed.

Lemma ray_dedup_from_incl mn : forall rest a x, In x (ray_dedup_from mn a rest) -> x = a \/ In x rest.
Proof.
  induction rest as [|b r IH]; intros a x H; cbn [ray_dedup_from] in H.
  - destruct H as [<-|[]]. left; reflexivity.
  - destruct (same_ray mn a b).
    + apply IH in H. destruct (d2 mn a <? d2 mn b); destruct H as [->|H]; auto; right; [left|right|right]; auto.
    + destruct H as [<-|H]; [left; reflexivity|]. apply IH in H. destruct H as [->|H]; right; [left|right]; auto.
Qed.

Lemma ray_dedup_incl mn l x : In x (ray_dedup mn l) -> In x l.
Proof.
  unfold ray_dedup. destruct l as [|a r]; [intros []|]. intros H.
  apply ray_dedup_from_incl in H. destruct H as [->|H]; [left; reflexivity|right; exact H].
Qed.

Lemma insert_k_incl x l y : In y (insert_k x l) -> y = x \/ In y l.
Proof.
  induction l as [|z r IH]; cbn [insert_k]; intros H.
  - destruct H as [<-|[]]. left; reflexivity.
  - destruct (key_ltb z x).
    + destruct H as [<-|H]; [right; left; reflexivity|]. apply IH in H. destruct H; [left|right; right]; auto.
    + destruct H as [<-|H]; [left; reflexivity|right; exact H].
Qed.

Lemma stable_sort_incl l y : In y (stable_sort_k l) -> In y l.
Proof.
  unfold stable_sort_k. induction l as [|x r IH]; cbn [fold_right]; intros H; [exact H|].
  apply insert_k_incl in H. destruct H as [->|H]; [left; reflexivity|right; apply IH; exact H].
Qed.

(* the hull uses only input points -- for ANY sort keys *)
Lemma hull_subset_of_input pts keys p : In p (convex_hull pts keys) -> In p pts.
Proof.
  unfold convex_hull. destruct (min_point pts); [|intros []]. intros H.
  apply scan_incl, ray_dedup_incl, dedup_incl in H.
  apply in_map_iff in H. destruct H as ((q & k) & <- & H). apply stable_sort_incl in H.
  apply in_combine_l in H. exact H.
Qed.

(* stack invariant of the scan (top first): every three consecutive entries c, b, a satisfy
   turn a b c > 0 *)
Fixpoint good (st : list pt) : Prop :=
  match st with
  | c :: ((b :: ((a :: _) as r2)) as r1) => turn a b c > 0 /\ good r1
  | _ => True
  end.

Lemma good_tail x st : good (x :: st) -> good st.
Proof. destruct st as [|b [|a r]]; cbn; tauto. Qed.

Lemma good_suffix pre st : good (pre ++ st) -> good st.
Proof. induction pre as [|x pre IH]; [auto|]. cbn [app]. intros H. apply IH. eapply good_tail; eauto. Qed.

Lemma settle_good st p : good st -> good (p :: settle st p).
Proof.
  induction st as [|prev st IH]; intros Hg; [exact I|].
  cbn [settle]. destruct st as [|prev2 rest]; [exact I|].
  destruct (turn prev2 prev p >? 0) eqn:E.
  - cbn [good]. split; [lia|exact Hg].
  - apply IH. eapply good_tail; eauto.
Qed.

Lemma scan_fold_good l : forall st, good st -> good (fold_left (fun st p => p :: settle st p) l st).
Proof. induction l as [|p l IH]; intros st Hg; cbn [fold_left]; [exact Hg|]. apply IH. apply settle_good. exact Hg. Qed.

Lemma good_middle : forall pre c b a post, good (pre ++ c :: b :: a :: post) -> turn a b c > 0.
Proof. intros pre c b a post H. apply good_suffix in H. cbn in H. tauto. Qed.

(* every three consecutive hull points make a strict left turn (orientation > 0): the hull
   chain is locally convex and has no collinear or repeated consecutive vertices -- for ANY
   sort keys.  (The closing triples through the first point are not covered.) *)
Lemma hull_chain_left_turns pts keys l1 a b c l2 :
  convex_hull pts keys = l1 ++ a :: b :: c :: l2 -> orient a b c > 0.
Proof.
  unfold convex_hull. destruct (min_point pts) as [mn|]; [|destruct l1; discriminate].
  set (sorted := ray_dedup mn (dedup (map fst (stable_sort_k (combine pts keys))))).
  unfold scan. intros H.
  pose proof (scan_fold_good sorted [] I) as Hg.
  set (st := fold_left (fun st p => p :: settle st p) sorted []) in *.
  assert (Est : st = rev (l1 ++ a :: b :: c :: l2)) by (rewrite <- H, rev_involutive; reflexivity).
  rewrite rev_app_distr in Est. cbn [rev] in Est. rewrite <- !app_assoc in Est. cbn [app] in Est.
  rewrite Est in Hg. apply good_middle in Hg. rewrite turn_orient in Hg. exact Hg.
Qed.

(* ------------------------------------------------------------------ *)
(* reflection of the oracles applied to the implementation's output *)
Lemma pt_eqb_eq p q : pt_eqb p q = true <-> p = q.
Proof.
  destruct p as [a b], q as [c d]. unfold pt_eqb; cbn. split.
  - intros H. f_equal; lia.
  - intros H. inversion H; subst. lia.
Qed.

Lemma mem_pt_In p l : mem_pt p l = true <-> In p l.
Proof.
  unfold mem_pt. rewrite existsb_exists. split.
  - intros (x & Hx & E). apply pt_eqb_eq in E. subst. exact Hx.
  - intros H. exists p. split; [exact H|apply pt_eqb_eq; reflexivity].
Qed.

(* what hull_ok accepts: only input points; every input point on the inner side of (or on)
   the line through every hull edge, in the hull's own vertex order (so the hull is convex and
   its half-plane intersection contains every input point), and within the hull's bounding box *)
Lemma hull_ok_sound pts hull :
  hull_ok pts hull = true ->
  (forall q, In q hull -> In q pts) /\
  (forall a b p, In (a, b) (cyc_edges hull) -> In p pts -> 0 <= orient a b p) /\
  (forall p, In p pts -> exists q1 q2 q3 q4, In q1 hull /\ In q2 hull /\ In q3 hull /\ In q4 hull /\
      ptx q1 <= ptx p <= ptx q2 /\ pty q3 <= pty p <= pty q4) /\
  (pts <> [] -> hull <> []).
Proof.
  unfold hull_ok. rewrite !andb_true_iff. intros (((H1 & H2) & H3) & H4).
  rewrite forallb_forall in H1, H2, H3. split; [|split; [|split]].
  - intros q Hq. apply mem_pt_In. apply H1. exact Hq.
  - intros a b p He Hp. specialize (H2 (a, b) He). rewrite forallb_forall in H2.
    specialize (H2 p Hp). cbn [fst snd] in H2. lia.
  - intros p Hp. specialize (H3 p Hp). unfold in_bbox_of in H3.
    rewrite !andb_true_iff in H3. destruct H3 as (((Ha & Hb) & Hc) & Hd).
    apply existsb_exists in Ha, Hb, Hc, Hd.
    destruct Ha as (q1 & ? & ?), Hb as (q2 & ? & ?), Hc as (q3 & ? & ?), Hd as (q4 & ? & ?).
    exists q1, q2, q3, q4. repeat split; try assumption; lia.
  - intros Hne. destruct pts; [congruence|]. destruct hull; [discriminate|discriminate].
Qed.

Lemma subseqb_sound out : forall pts, subseqb out pts = true -> subseq out pts.
Proof.
  induction out as [|o orest IHo]; intros pts H; [constructor|].
  induction pts as [|p prest IHp]; [discriminate|].
  cbn [subseqb] in H. destruct (pt_eqb o p) eqn:E.
  - apply pt_eqb_eq in E. subst. constructor. apply IHo. exact H.
  - constructor. apply IHp. exact H.
Qed.

Lemma last_In {A} (l : list A) d : l <> [] -> In (last l d) l.
Proof.
  induction l as [|a l IH]; [congruence|]. intros _. destruct l as [|b r]; [left; reflexivity|].
  right. apply IH. discriminate.
Qed.

(* what simplify_ok accepts: a subsequence of the input with the same first point, in which
   every input point is kept or passes the exact near_segment test against a segment of the
   output outline *)
Lemma simplify_ok_sound closed pts eps4 out :
  simplify_ok closed pts eps4 out = true ->
  subseq out pts /\ hd_error out = hd_error pts /\
  forall p, In p pts ->
    In p out \/ exists a b, In a out /\ In b out /\ near_segment (16 * eps4 + 1) a b p = true.
Proof.
  unfold simplify_ok. rewrite !andb_true_iff. intros ((Hs & Hf) & Hc).
  split; [apply subseqb_sound; exact Hs|]. split.
  - destruct pts as [|p0 pr], out as [|o0 or]; try discriminate; [reflexivity|].
    apply andb_true_iff in Hf. destruct Hf as [Hf _]. apply pt_eqb_eq in Hf. subst. reflexivity.
  - intros p Hp. rewrite forallb_forall in Hc. specialize (Hc p Hp).
    apply orb_true_iff in Hc. destruct Hc as [Hc|Hc]; [left; apply mem_pt_In; exact Hc|].
    right. apply existsb_exists in Hc. destruct Hc as ((a & b) & Hab & Hn). cbn [fst snd] in Hn.
    exists a, b. split; [|split; [|exact Hn]].
    + destruct out as [|o0 [|o1 or]]; [cbn in Hab; destruct closed; destruct Hab|destruct Hab as [E|[]]; inversion E; left; reflexivity|].
      apply in_app_iff in Hab. destruct Hab as [Hab|Hab].
      * unfold consecutive in Hab. apply in_combine_l in Hab. exact Hab.
      * destruct closed; [|destruct Hab]. destruct Hab as [E|[]]. injection E as Ea Eb.
        rewrite <- Ea. right. change (In (last (o1 :: or) o0) (o1 :: or)). apply last_In. discriminate.
    + destruct out as [|o0 [|o1 or]]; [cbn in Hab; destruct closed; destruct Hab|destruct Hab as [E|[]]; inversion E; left; reflexivity|].
      apply in_app_iff in Hab. destruct Hab as [Hab|Hab].
      * unfold consecutive in Hab. apply in_combine_r in Hab. right. exact Hab.
      * destruct closed; [|destruct Hab]. destruct Hab as [E|[]]. injection E as Ea Eb.
        rewrite <- Eb. left. reflexivity.
Qed.
