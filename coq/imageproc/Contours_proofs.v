(* Proofs about the contour model and the contour checker (C36). *)
From RV Require Import Prelude.
From ImageProc Require Import Draw Draw_proofs Contours.
Require Import ZifyBool.
Open Scope Z_scope.

(* ------------------------------------------------------------------ *)
(* Specification vocabulary *)
Definition fg (m : mask) (p : point) : Prop := fgb m p = true.
Definition adj8 (p q : point) : Prop := In q (neighbors p).

(* q is reachable from p through 8-adjacent foreground pixels *)
Inductive conn (m : mask) : point -> point -> Prop :=
| conn_refl p : fg m p -> conn m p p
| conn_step p q r : conn m p q -> adj8 q r -> fg m r -> conn m p r.

(* a foreground pixel with a background pixel, or the outside of the image, among its 8 neighbours *)
Definition border_px (m : mask) (p : point) : Prop :=
  fg m p /\ exists q, adj8 p q /\ ~ fg m q.

(* q is left-most or right-most in its row, or top-/bottom-most in its column, within the
   component of p *)
Definition extreme (m : mask) (p q : point) : Prop :=
  conn m p q /\
  ((forall r, conn m p r -> py r = py q -> px q <= px r) \/
   (forall r, conn m p r -> py r = py q -> px r <= px q) \/
   (forall r, conn m p r -> px r = px q -> py q <= py r) \/
   (forall r, conn m p r -> px r = px q -> py r <= py q)).

(* C is an outer contour of the component of p *)
Definition outer_contour (m : mask) (p : point) (C : list point) : Prop :=
  (forall q, In q C -> conn m p q) /\ (forall q, extreme m p q -> In q C).

Definition rectangular (m : mask) : Prop := forall r, In r m -> Z.of_nat (length r) = mask_w m.

(* ------------------------------------------------------------------ *)
Lemma peqb_eq p q : peqb p q = true <-> p = q.
Proof.
  destruct p as [a b], q as [c d]. unfold peqb; cbn. split.
  - intros H. f_equal; lia.
  - intros H. inversion H; subst. lia.
Qed.

Lemma memb_In p l : memb p l = true <-> In p l.
Proof.
  unfold memb. rewrite existsb_exists. split.
  - intros (x & Hx & E). apply peqb_eq in E. subst. exact Hx.
  - intros H. exists p. split; [exact H|apply peqb_eq; reflexivity].
Qed.

Lemma adj8_sym p q : adj8 p q -> adj8 q p.
Proof.
  unfold adj8, neighbors, translate. destruct p as [y x]. cbn [In py px fst snd].
  intros H. repeat (destruct H as [H|H]; [subst q; cbn [py px fst snd];
    repeat (first [ left; f_equal; lia | right ]) | ]). destruct H.
Qed.

Lemma conn_fg m p q : conn m p q -> fg m p /\ fg m q.
Proof. induction 1; tauto. Qed.

Lemma conn_trans m p q r : conn m p q -> conn m q r -> conn m p r.
Proof.
  intros H1 H2. induction H2 as [q Hq|q x y Hqx IH Hadj Hy]; [exact H1|].
  apply conn_step with x; [apply IH; exact H1|exact Hadj|exact Hy].
Qed.

Lemma conn_sym m p q : conn m p q -> conn m q p.
Proof.
  induction 1 as [p Hp|p q r Hpq IH Hadj Hr].
  - apply conn_refl. exact Hp.
  - apply conn_trans with q; [|exact IH].
    eapply conn_step; [apply conn_refl; exact Hr|apply adj8_sym; exact Hadj|].
    apply (conn_fg _ _ _ Hpq).
Qed.

(* ------------------------------------------------------------------ *)
(* flood fill: everything it returns satisfies any invariant preserved by admissible steps *)
Lemma fresh_spec nb_p ok seen : forall acc x,
  In x (fold_left (fun acc q => if ok q && negb (memb q (acc ++ seen)) then q :: acc else acc) nb_p acc) ->
  In x acc \/ (In x nb_p /\ ok x = true).
Proof.
  induction nb_p as [|q r IH]; intros acc x H; cbn [fold_left] in H; [left; exact H|].
  apply IH in H. destruct H as [H|[H1 H2]].
  - destruct (ok q && negb (memb q (acc ++ seen))) eqn:E.
    + destruct H as [->|H]; [right; split; [left; reflexivity|]|left; exact H].
      apply andb_true_iff in E. tauto.
    + left; exact H.
  - right. split; [right; exact H1|exact H2].
Qed.

Lemma flood_inv nb ok (P : point -> Prop) :
  (forall p q, P p -> In q (nb p) -> ok q = true -> P q) ->
  forall fuel stack seen,
    (forall x, In x stack -> P x) -> (forall x, In x seen -> P x) ->
    forall x, In x (flood nb ok fuel stack seen) -> P x.
Proof.
  intros Hstep. induction fuel as [|f IH]; intros stack seen Hst Hse x Hx; cbn [flood] in Hx.
  - apply Hse; exact Hx.
  - destruct stack as [|p st]; [apply Hse; exact Hx|].
    revert Hx. apply IH.
    + intros y Hy. apply in_app_iff in Hy. destruct Hy as [Hy|Hy].
      * apply fresh_spec in Hy. destruct Hy as [[]|[Hy1 Hy2]].
        apply (Hstep p); [apply Hst; left; reflexivity|exact Hy1|exact Hy2].
      * apply Hst. right. exact Hy.
    + intros y Hy. apply in_app_iff in Hy. destruct Hy as [Hy|Hy].
      * apply fresh_spec in Hy. destruct Hy as [[]|[Hy1 Hy2]].
        apply (Hstep p); [apply Hst; left; reflexivity|exact Hy1|exact Hy2].
      * apply Hse. exact Hy.
Qed.

Lemma flood_keeps_seen nb ok : forall fuel stack seen x,
  In x seen -> In x (flood nb ok fuel stack seen).
Proof.
  induction fuel as [|f IH]; intros stack seen x Hx; cbn [flood]; [exact Hx|].
  destruct stack as [|p st]; [exact Hx|]. apply IH. apply in_app_iff. right. exact Hx.
Qed.

Lemma component_sound m s q : fg m s -> In q (component m s) -> conn m s q.
Proof.
  intros Hs. unfold component.
  apply (flood_inv neighbors (fgb m) (conn m s)).
  - intros p r Hp Hr Hok. eapply conn_step; [exact Hp|exact Hr|exact Hok].
  - intros x [<-|[]]. apply conn_refl. exact Hs.
  - intros x [<-|[]]. apply conn_refl. exact Hs.
Qed.

Lemma component_seed m s : In s (component m s).
Proof. unfold component. apply flood_keeps_seen. left. reflexivity. Qed.

(* a set that is closed under foreground adjacency contains the whole component *)
Lemma closed_complete m K p q :
  closed_b m K = true -> In p K -> conn m p q -> In q K.
Proof.
  intros Hc Hp Hconn. induction Hconn as [p _|p q r Hpq IH Hadj Hr]; [exact Hp|].
  specialize (IH Hp). unfold closed_b in Hc. rewrite forallb_forall in Hc.
  specialize (Hc q IH). rewrite forallb_forall in Hc. specialize (Hc r Hadj).
  unfold fg in Hr. rewrite Hr in Hc. cbn in Hc. apply memb_In. exact Hc.
Qed.

(* ------------------------------------------------------------------ *)
(* components: every foreground pixel is in one, each one is `component m s` of a fg seed *)
Definition comp_step (m : mask) (acc : list (list point)) (p : point) : list (list point) :=
  if fgb m p && negb (existsb (memb p) acc) then component m p :: acc else acc.

Lemma comp_fold m : forall l acc,
  (forall K, In K acc -> exists s, fg m s /\ K = component m s) ->
  let r := fold_left (comp_step m) l acc in
  (forall K, In K r -> exists s, fg m s /\ K = component m s) /\
  (forall K, In K acc -> In K r) /\
  (forall p, In p l -> fg m p -> exists K, In K r /\ In p K).
Proof.
  induction l as [|p l IH]; intros acc Hacc; cbn [fold_left].
  - split; [exact Hacc|]. split; [auto|]. intros p [].
  - assert (Hacc' : forall K, In K (comp_step m acc p) -> exists s, fg m s /\ K = component m s).
    { unfold comp_step. destruct (fgb m p && negb (existsb (memb p) acc)) eqn:E; [|exact Hacc].
      intros K [<-|HK]; [|apply Hacc; exact HK]. exists p. split; [|reflexivity].
      apply andb_true_iff in E. apply E. }
    destruct (IH (comp_step m acc p) Hacc') as (H1 & H2 & H3).
    split; [exact H1|]. split.
    + intros K HK. apply H2. unfold comp_step.
      destruct (fgb m p && negb (existsb (memb p) acc)); [right|]; exact HK.
    + intros q [<-|Hq] Hfg; [|apply H3; assumption].
      unfold fg in Hfg.
      destruct (existsb (memb p) acc) eqn:E.
      * pose proof E as E'. apply existsb_exists in E'. destruct E' as (K & HK & Hm). apply memb_In in Hm.
        exists K. split; [|exact Hm]. apply H2. unfold comp_step. rewrite Hfg, E. cbn.
        exact HK.
      * exists (component m p). split; [|apply component_seed].
        apply H2. unfold comp_step. rewrite Hfg, E. cbn. left. reflexivity.
Qed.

Lemma components_eq m : components m = rev (fold_left (comp_step m) (mask_pixels m) []).
Proof. reflexivity. Qed.

Lemma fg_in_pixels m p : rectangular m -> fg m p -> In p (mask_pixels m).
Proof.
  intros Hrect Hfg. unfold mask_pixels, all_pixels. apply in_rect_points.
  unfold fg, fgb in Hfg. unfold in_rect, from_tlbr, mask_h; cbn.
  destruct ((py p <? 0) || (px p <? 0)) eqn:E; [discriminate|].
  destruct (nth_error m (Z.to_nat (py p))) as [row|] eqn:En; [|discriminate].
  assert (Hlt : (Z.to_nat (py p) < length m)%nat) by (apply nth_error_Some; congruence).
  assert (Hrow : Z.of_nat (length row) = mask_w m) by (apply Hrect; eapply nth_error_In; eauto).
  assert (Hx : (Z.to_nat (px p) < length row)%nat).
  { destruct (lt_dec (Z.to_nat (px p)) (length row)) as [|Hn]; [assumption|].
    rewrite nth_overflow in Hfg by lia. discriminate. }
  lia.
Qed.

Lemma components_cover m p :
  rectangular m -> fg m p -> exists K, In K (components m) /\ In p K.
Proof.
  intros Hrect Hfg. rewrite components_eq.
  destruct (comp_fold m (mask_pixels m) []) as (_ & _ & H3); [intros K []|].
  destruct (H3 p (fg_in_pixels m p Hrect Hfg) Hfg) as (K & HK & Hp).
  exists K. split; [apply in_rev in HK; exact HK|exact Hp].
Qed.

Lemma components_sound m K :
  In K (components m) -> exists s, fg m s /\ K = component m s.
Proof.
  rewrite components_eq. intros HK. apply in_rev in HK.
  destruct (comp_fold m (mask_pixels m) []) as (H1 & _ & _); [intros K' []|].
  apply H1. exact HK.
Qed.

(* ------------------------------------------------------------------ *)
(* reflection of the checker's pieces *)
Lemma border_b_spec m p : border_b m p = true -> border_px m p.
Proof.
  unfold border_b, border_px, fg. intros H. apply andb_true_iff in H. destruct H as [H1 H2].
  split; [exact H1|]. apply existsb_exists in H2. destruct H2 as (q & Hq & Hn).
  exists q. split; [exact Hq|]. destruct (fgb m q); [discriminate|]. discriminate.
Qed.

Lemma extreme_b_complete m p K q :
  (forall x, In x K -> conn m p x) -> extreme m p q -> extreme_b K q = true.
Proof.
  intros HK (Hq & Hex). unfold extreme_b.
  destruct Hex as [H|[H|[H|H]]].
  - assert (E : existsb (fun r => (py r =? py q) && (px r <? px q)) K = false).
    { destruct (existsb _ K) eqn:E; [|reflexivity]. exfalso.
      apply existsb_exists in E. destruct E as (r & Hr & Hc).
      specialize (H r (HK r Hr)). lia. }
    rewrite E. reflexivity.
  - assert (E : existsb (fun r => (py r =? py q) && (px q <? px r)) K = false).
    { destruct (existsb _ K) eqn:E; [|reflexivity]. exfalso.
      apply existsb_exists in E. destruct E as (r & Hr & Hc).
      specialize (H r (HK r Hr)). lia. }
    rewrite E. rewrite orb_true_r. reflexivity.
  - assert (E : existsb (fun r => (px r =? px q) && (py r <? py q)) K = false).
    { destruct (existsb _ K) eqn:E; [|reflexivity]. exfalso.
      apply existsb_exists in E. destruct E as (r & Hr & Hc).
      specialize (H r (HK r Hr)). lia. }
    rewrite E. rewrite !orb_true_r. reflexivity.
  - assert (E : existsb (fun r => (px r =? px q) && (py q <? py r)) K = false).
    { destruct (existsb _ K) eqn:E; [|reflexivity]. exfalso.
      apply existsb_exists in E. destruct E as (r & Hr & Hc).
      specialize (H r (HK r Hr)). lia. }
    rewrite E. rewrite !orb_true_r. reflexivity.
Qed.

(* the checker is sound: what it accepts satisfies the specification *)
Lemma valid_b_sound m need cs :
  rectangular m ->
  valid_b m (components m) need cs = true ->
  (forall C p, In C cs -> In p C -> border_px m p) /\
  (forall p K, fg m p -> In K (components m) -> In p K -> need K = true ->
     exists C, In C cs /\ outer_contour m p C).
Proof.
  intros Hrect Hv. unfold valid_b in Hv.
  apply andb_true_iff in Hv. destruct Hv as [Hv Hneed].
  apply andb_true_iff in Hv. destruct Hv as [Hpts Hclosed].
  split.
  - intros C p HC Hp. unfold points_ok_b in Hpts. rewrite forallb_forall in Hpts.
    specialize (Hpts C HC). rewrite forallb_forall in Hpts. apply border_b_spec. apply Hpts. exact Hp.
  - intros p K Hfg HK Hp Hn.
    rewrite forallb_forall in Hneed. specialize (Hneed K HK). rewrite Hn in Hneed. cbn in Hneed.
    apply existsb_exists in Hneed. destruct Hneed as (C & HC & Hoc).
    rewrite forallb_forall in Hclosed. specialize (Hclosed K HK).
    destruct (components_sound m K HK) as (s & Hs & EK).
    assert (Hsound : forall x, In x K -> conn m p x).
    { intros x Hx. rewrite EK in Hx, Hp.
      apply conn_trans with s; [apply conn_sym; apply component_sound; assumption|].
      apply component_sound; assumption. }
    assert (Hcomplete : forall x, conn m p x -> In x K).
    { intros x Hx. eapply closed_complete; eauto. }
    exists C. split; [exact HC|].
    unfold outer_contour_b in Hoc. apply andb_true_iff in Hoc. destruct Hoc as [Hsub Hext].
    rewrite forallb_forall in Hsub. rewrite forallb_forall in Hext.
    split.
    + intros q Hq. apply Hsound. apply memb_In. apply Hsub. exact Hq.
    + intros q Hq. pose proof (extreme_b_complete m p K q Hsound Hq) as Eb.
      destruct Hq as [Hq _]. specialize (Hext q (Hcomplete q Hq)). rewrite Eb in Hext.
      cbn in Hext. apply memb_In. exact Hext.
Qed.

(* ------------------------------------------------------------------ *)
(* the enumeration of masks is complete *)
Lemma all_rows_complete w : forall r, length r = w -> In r (all_rows w).
Proof.
  induction w as [|w IH]; intros r Hr.
  - destruct r; [left; reflexivity|discriminate].
  - destruct r as [|b r]; [discriminate|]. cbn [all_rows]. apply in_flat_map.
    exists r. split; [apply IH; cbn in Hr; lia|]. destruct b; cbn; auto.
Qed.

Lemma all_masks_complete h w : forall m,
  length m = h -> (forall r, In r m -> length r = w) -> In m (all_masks h w).
Proof.
  induction h as [|h IH]; intros m Hm Hr.
  - destruct m; [left; reflexivity|discriminate].
  - destruct m as [|r m]; [discriminate|]. cbn [all_masks]. apply in_flat_map.
    exists m. split.
    + apply IH; [cbn in Hm; lia|]. intros r' Hr'. apply Hr. right. exact Hr'.
    + apply in_map_iff. exists r. split; [reflexivity|]. apply all_rows_complete. apply Hr. left. reflexivity.
Qed.

Lemma in_sizes_le n h w : (h <= n)%nat -> (w <= n)%nat -> In (h, w) (sizes_le n).
Proof.
  intros Hh Hw. unfold sizes_le. apply in_flat_map. exists h. split; [apply in_seq; lia|].
  apply in_map_iff. exists w. split; [reflexivity|apply in_seq; lia].
Qed.

