(* C36 (drawing half) -- correspondence cases and the property oracle for the drawing
   primitives.  Only definitions; the link between the model and the oracle is proved in
   DrawCases_proofs.v. *)
From RV Require Import Prelude.
From ImageProc Require Import Draw.
Open Scope Z_scope.

Inductive prim :=
| PFillRect (r : rect)
| PStrokeRect (r : rect) (width : Z)
| PLine (s e : point) (width : Z)
| PPolygon (pts : list point) (width : Z)
| PPainter (pts : list point) (width : Z).   (* Painter::draw_polygon, every colour channel *)

(* d_impl: None = the call panicked; Some l = the pixels of the h x w view whose value changed
   (row-major order).  d_guard: the harness draws into a view that is the centre of a larger
   tensor; true iff nothing outside the view changed. *)
Record dcase := { d_h : Z; d_w : Z; d_prim : prim; d_impl : option (list point); d_guard : bool }.

(* the model, where there is one *)
Definition model_draw (h w : Z) (pr : prim) : option outcome :=
  match pr with
  | PFillRect r => Some (fill_rect h w r)
  | PStrokeRect r wd => Some (stroke_rect h w r wd)
  | PLine s e wd => if wd =? 0 then Some (Writes []) else if wd =? 1 then Some (draw_line1 h w s e) else None
  | PPolygon pts wd | PPainter pts wd =>
      if wd =? 0 then Some (Writes []) else if wd =? 1 then Some (draw_polygon1 h w pts) else None
  end.

(* sets of pixels are compared as bit sets (bit y*w+x) *)
Definition bit_of (w : Z) (p : point) : Z := Z.shiftl 1 (py p * w + px p).
Definition bits_of (w : Z) (ps : list point) : Z := fold_left (fun acc p => Z.lor acc (bit_of w p)) ps 0.

Definition agree_draw (c : dcase) : bool :=
  match model_draw (d_h c) (d_w c) (d_prim c), d_impl c with
  | None, _ => true
  | Some Panic, None => true
  | Some (Writes l), Some l' => bits_of (d_w c) l =? bits_of (d_w c) l'
  | _, _ => false
  end.

(* ---- the property oracle: "only modify pixels inside the image and inside the shape's bounds" ---- *)
(* bounds of a line of width wd: bounding box of the end points, grown by (wd+1)/2 + 1 for
   wide lines (half the width for the perpendicular offset, 1 for the truncation of the f32
   corners to i32) *)
Definition line_margin (wd : Z) : Z := if wd <=? 1 then 0 else (wd + 1) / 2 + 1.
Definition in_line_bounds (s e : point) (wd : Z) (p : point) : bool :=
  let m := line_margin wd in
  (Z.min (py s) (py e) - m <=? py p) && (py p <=? Z.max (py s) (py e) + m) &&
  (Z.min (px s) (px e) - m <=? px p) && (px p <=? Z.max (px s) (px e) + m).

Definition in_bounds (pr : prim) (p : point) : bool :=
  match pr with
  | PFillRect r => in_rect r p
  | PStrokeRect r wd => in_rect r p && negb (in_rect (stroke_inner r wd) p) && (0 <? wd)
  | PLine s e wd => in_line_bounds s e wd p && (0 <? wd)
  | PPolygon pts wd | PPainter pts wd =>
      existsb (fun e => in_line_bounds (fst e) (snd e) wd p) (edges pts) && (0 <? wd)
  end.

(* every changed pixel is inside the image and inside the bounds of the shape *)
Definition writes_ok (h w : Z) (pr : prim) (l : list point) : bool :=
  forallb (fun p => in_image h w p && in_bounds pr p) l.

Definition prop_ok_draw (c : dcase) : bool :=
  match d_impl c with
  | None => false                                    (* a panic is not "drawing the visible part" *)
  | Some l => d_guard c && writes_ok (d_h c) (d_w c) (d_prim c) l
  end.

Definition show_draw (c : dcase) :=
  (model_draw (d_h c) (d_w c) (d_prim c), d_impl c).
