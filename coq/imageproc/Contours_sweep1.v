(* C36: bounded-exhaustive sweep, quarter 1 of the 4x4 masks (first row in rows4_chunk 0),
   both retrieval modes.  Evaluated once by the kernel's VM at Qed. *)
From RV Require Import Prelude.
From ImageProc Require Import Draw Contours.
Lemma sweep_44_0 : check_44_chunk 0 = true.
Proof. vm_cast_no_check (eq_refl true). Qed.
