(* Proofs about the drawing model (C36). *)
From RV Require Import Prelude.
From ImageProc Require Import Draw.
Require Import ZifyBool.
Open Scope Z_scope.

(* ------------------------------------------------------------------ *)
(* Error-term arithmetic of the Bresenham iteration, on plain counters:
   d = |delta| along the major axis, e = |delta| along the minor axis,
   k = steps taken, j = minor-axis steps taken. *)
Definition ainv (d e k j err : Z) : Prop :=
  0 <= j /\ err = 2 * e * (k + 1) - d - 2 * d * j /\ 2 * e - 2 * d <= err < 2 * e.

Lemma ainv_init d e : 1 <= d -> ainv d e 0 0 (2 * e - d).
Proof. unfold ainv; lia. Qed.

Lemma ainv_step_ge d e k j err :
  0 <= e <= d -> ainv d e k j err -> 0 <= err -> ainv d e (k + 1) (j + 1) (err - 2 * d + 2 * e).
Proof. unfold ainv; intros He (Hj & Herr & Hb) Hge. repeat split; try lia. Qed.

Lemma ainv_step_lt d e k j err :
  0 <= e <= d -> ainv d e k j err -> err < 0 -> ainv d e (k + 1) j (err + 2 * e).
Proof. unfold ainv; intros He (Hj & Herr & Hb) Hlt. repeat split; try lia. Qed.

Lemma ainv_bound d e k j err :
  0 <= e <= d -> 1 <= d -> ainv d e k j err -> 0 <= k <= d -> 0 <= j <= e /\ (k = d -> j = e).
Proof.
  unfold ainv; intros He Hd (Hj & Herr & Hb) Hk. subst err.
  assert (H1 : 2 * d * j <= 2 * e * k + d) by lia.
  assert (H2 : 2 * e * k - d < 2 * d * j) by lia.
  assert (H3 : e * k <= e * d) by nia.
  split; [split; [lia|nia]|].
  intros ->. nia.
Qed.

Ltac spl := repeat match goal with |- _ /\ _ => split end.

(* ------------------------------------------------------------------ *)
(* Generic invariant rule for n calls of next() *)
Lemma iter_inv (P : Z -> bstate -> Prop) n : forall i st,
  P i st ->
  (forall j st', i <= j < i + Z.of_nat n -> P j st' -> P (j + 1) (bresham_step st')) ->
  P (i + Z.of_nat n) (snd (bresham_iter n st)) /\
  Forall (fun p => exists j st', i <= j < i + Z.of_nat n /\ P j st' /\ p = b_cur st')
         (fst (bresham_iter n st)).
Proof.
  induction n as [|n IH]; intros i st HP Hstep; cbn [bresham_iter].
  - cbn [fst snd]. replace (i + Z.of_nat 0) with i by lia. split; [exact HP|constructor].
  - destruct (bresham_iter n (bresham_step st)) as [l fin] eqn:E.
    specialize (IH (i + 1) (bresham_step st)). rewrite E in IH. cbn [fst snd] in *.
    destruct IH as [Hfin Hall].
    + apply Hstep; [lia|exact HP].
    + intros j st' Hj. apply Hstep. lia.
    + split.
      * replace (i + Z.of_nat (S n)) with (i + 1 + Z.of_nat n) by lia. exact Hfin.
      * constructor.
        -- exists i, st. repeat split; try lia. exact HP.
        -- eapply Forall_impl; [|exact Hall]. cbv beta.
           intros p (j & st' & Hj & HPj & ->). exists j, st'. repeat split; try lia. exact HPj.
Qed.

Lemma iter_length n : forall st, length (fst (bresham_iter n st)) = n.
Proof.
  induction n as [|n IH]; intros st; cbn [bresham_iter]; [reflexivity|].
  specialize (IH (bresham_step st)). destruct (bresham_iter n (bresham_step st)). cbn in *. lia.
Qed.

(* ------------------------------------------------------------------ *)
(* The four shapes of a run.  s = start point, xs/ys = signum steps. *)
Section Run.
  Variables (s : point) (xs ys : Z).

  Definition vert (d : Z) (i : Z) (st : bstate) : Prop :=
    b_cur st = (py s + ys * i, px s) /\ b_rem st = d - i /\ b_xs st = 0 /\ b_ys st = ys.

  Definition horiz (d : Z) (i : Z) (st : bstate) : Prop :=
    b_cur st = (py s, px s + xs * i) /\ b_rem st = d - i /\ b_xs st = xs /\ b_ys st = 0.

  Definition xmaj (d e : Z) (i : Z) (st : bstate) : Prop :=
    exists j, b_cur st = (py s + ys * j, px s + xs * i) /\ b_rem st = d - i /\
              b_dx st = 2 * d /\ b_dy st = 2 * e /\ b_xs st = xs /\ b_ys st = ys /\
              ainv d e i j (b_err st).

  Definition ymaj (d e : Z) (i : Z) (st : bstate) : Prop :=
    exists j, b_cur st = (py s + ys * i, px s + xs * j) /\ b_rem st = d - i /\
              b_dx st = 2 * e /\ b_dy st = 2 * d /\ b_xs st = xs /\ b_ys st = ys /\
              ainv d e i j (b_err st).

  Lemma vert_step d i st : vert d i st -> vert d (i + 1) (bresham_step st).
  Proof.
    destruct st as [[cy cx] rem dx dy err sx sy]. unfold vert, bresham_step; cbn.
    intros (Hc & Hr & Hx & Hy). inversion Hc; subst. cbn. spl; try lia. f_equal; lia.
  Qed.

  Lemma horiz_step d i st : xs <> 0 -> horiz d i st -> horiz d (i + 1) (bresham_step st).
  Proof.
    destruct st as [[cy cx] rem dx dy err sx sy]. unfold horiz, bresham_step; cbn.
    intros Hxs (Hc & Hr & Hx & Hy). inversion Hc; subst.
    destruct (xs =? 0) eqn:E0; [lia|]. cbn. spl; try lia. f_equal; lia.
  Qed.

  Lemma xmaj_step d e i st :
    xs <> 0 -> ys <> 0 -> 0 <= e <= d -> xmaj d e i st -> xmaj d e (i + 1) (bresham_step st).
  Proof.
    destruct st as [[cy cx] rem dx dy err sx sy]. unfold xmaj, bresham_step; cbn.
    intros Hxs Hys He (j & Hc & Hr & Hdx & Hdy & Hx & Hy & Ha). inversion Hc; subst.
    destruct (xs =? 0) eqn:E0; [lia|]. destruct (ys =? 0) eqn:E1; [lia|].
    destruct (2 * d >=? 2 * e) eqn:E2; [|lia].
    destruct (err >=? 0) eqn:E3; cbn.
    - exists (j + 1). spl; try lia. { f_equal; lia. }
      apply ainv_step_ge; [lia|exact Ha|lia].
    - exists j. spl; try lia. { f_equal; lia. }
      apply ainv_step_lt; [lia|exact Ha|lia].
  Qed.

  Lemma ymaj_step d e i st :
    xs <> 0 -> ys <> 0 -> 0 <= e < d -> ymaj d e i st -> ymaj d e (i + 1) (bresham_step st).
  Proof.
    destruct st as [[cy cx] rem dx dy err sx sy]. unfold ymaj, bresham_step; cbn.
    intros Hxs Hys He (j & Hc & Hr & Hdx & Hdy & Hx & Hy & Ha). inversion Hc; subst.
    destruct (xs =? 0) eqn:E0; [lia|]. destruct (ys =? 0) eqn:E1; [lia|].
    destruct (2 * e >=? 2 * d) eqn:E2; [lia|].
    destruct (err >=? 0) eqn:E3; cbn.
    - exists (j + 1). spl; try lia. { f_equal; lia. }
      apply ainv_step_ge; [lia|exact Ha|lia].
    - exists j. spl; try lia. { f_equal; lia. }
      apply ainv_step_lt; [lia|exact Ha|lia].
  Qed.
End Run.

(* ------------------------------------------------------------------ *)
Definition in_bbox (s e p : point) : Prop :=
  Z.min (py s) (py e) <= py p <= Z.max (py s) (py e) /\
  Z.min (px s) (px e) <= px p <= Z.max (px s) (px e).

(* every yielded point is in the bounding box of the end points, and the cursor ends on
   the end point *)
Lemma bresham_run_spec s e :
  Forall (in_bbox s e) (fst (bresham_run s e)) /\ b_cur (snd (bresham_run s e)) = e.
Proof.
  destruct s as [sy sx], e as [ey ex]. unfold bresham_run.
  set (st0 := bresham_new (sy, sx) (ey, ex)).
  set (dx := Z.abs (ex - sx)). set (dy := Z.abs (ey - sy)).
  set (xs := Z.sgn (ex - sx)). set (ys := Z.sgn (ey - sy)).
  assert (Hrem : b_rem st0 = Z.max dx dy) by reflexivity.
  assert (Hn : Z.of_nat (Z.to_nat (b_rem st0)) = Z.max dx dy) by (rewrite Hrem; subst dx dy; lia).
  destruct (Z.eq_dec xs 0) as [Hx0|Hx0].
  { (* vertical (or empty) *)
    assert (Hdx : dx = 0) by (subst dx xs; lia).
    pose proof (iter_inv (vert (sy, sx) ys dy) (Z.to_nat (b_rem st0)) 0 st0) as H.
    destruct H as [Hfin Hall].
    - unfold vert, st0, bresham_new; cbn. fold dx dy xs ys. spl; try lia. f_equal; lia.
    - intros j st' _. apply vert_step.
    - rewrite Hn in *. split.
      + eapply Forall_impl; [|exact Hall]. cbv beta.
        intros p (j & st' & Hj & (Hc & _) & ->). rewrite Hc. unfold in_bbox; cbn.
        subst dx dy xs ys. split; [nia|lia].
      + destruct Hfin as (Hc & _). rewrite Hc. cbn. subst dx dy xs ys. f_equal; [nia|lia]. }
  destruct (Z.eq_dec ys 0) as [Hy0|Hy0].
  { (* horizontal *)
    assert (Hdy : dy = 0) by (subst dy ys; lia).
    pose proof (iter_inv (horiz (sy, sx) xs dx) (Z.to_nat (b_rem st0)) 0 st0) as H.
    destruct H as [Hfin Hall].
    - unfold horiz, st0, bresham_new; cbn. fold dx dy xs ys. spl; try lia. f_equal; lia.
    - intros j st' _. apply horiz_step. exact Hx0.
    - rewrite Hn in *. split.
      + eapply Forall_impl; [|exact Hall]. cbv beta.
        intros p (j & st' & Hj & (Hc & _) & ->). rewrite Hc. unfold in_bbox; cbn.
        subst dx dy xs ys. split; [lia|nia].
      + destruct Hfin as (Hc & _). rewrite Hc. cbn. subst dx dy xs ys. f_equal; [lia|nia]. }
  assert (Hdx1 : 1 <= dx) by (subst dx xs; lia).
  assert (Hdy1 : 1 <= dy) by (subst dy ys; lia).
  destruct (Z_le_gt_dec dy dx) as [Hmaj|Hmaj].
  { (* x-major *)
    pose proof (iter_inv (xmaj (sy, sx) xs ys dx dy) (Z.to_nat (b_rem st0)) 0 st0) as H.
    destruct H as [Hfin Hall].
    - unfold xmaj, st0, bresham_new; cbn. fold dx dy xs ys. exists 0.
      destruct (dx >=? dy) eqn:E; [|lia].
      spl; try lia. { f_equal; lia. }
      replace (dy * 2 - dx) with (2 * dy - dx) by lia. apply ainv_init; lia.
    - intros j st' _. apply xmaj_step; lia.
    - rewrite Hn in *. replace (Z.max dx dy) with dx in * by lia. split.
      + eapply Forall_impl; [|exact Hall]. cbv beta.
        intros p (k & st' & Hk & (j & Hc & _ & _ & _ & _ & _ & Ha) & ->). rewrite Hc.
        destruct (ainv_bound dx dy k j _ ltac:(lia) Hdx1 Ha ltac:(lia)) as [Hj _].
        unfold in_bbox; cbn. subst dx dy xs ys. split; nia.
      + destruct Hfin as (j & Hc & _ & _ & _ & _ & _ & Ha). rewrite Hc.
        destruct (ainv_bound dx dy _ j _ ltac:(lia) Hdx1 Ha ltac:(lia)) as [_ Hj].
        rewrite (Hj ltac:(lia)). cbn. subst dx dy xs ys. f_equal; nia. }
  { (* y-major *)
    pose proof (iter_inv (ymaj (sy, sx) xs ys dy dx) (Z.to_nat (b_rem st0)) 0 st0) as H.
    destruct H as [Hfin Hall].
    - unfold ymaj, st0, bresham_new; cbn. fold dx dy xs ys. exists 0.
      destruct (dx >=? dy) eqn:E; [lia|].
      spl; try lia. { f_equal; lia. }
      replace (dx * 2 - dy) with (2 * dx - dy) by lia. apply ainv_init; lia.
    - intros j st' _. apply ymaj_step; lia.
    - rewrite Hn in *. replace (Z.max dx dy) with dy in * by lia. split.
      + eapply Forall_impl; [|exact Hall]. cbv beta.
        intros p (k & st' & Hk & (j & Hc & _ & _ & _ & _ & _ & Ha) & ->). rewrite Hc.
        destruct (ainv_bound dy dx k j _ ltac:(lia) Hdy1 Ha ltac:(lia)) as [Hj _].
        unfold in_bbox; cbn. subst dx dy xs ys. split; nia.
      + destruct Hfin as (j & Hc & _ & _ & _ & _ & _ & Ha). rewrite Hc.
        destruct (ainv_bound dy dx _ j _ ltac:(lia) Hdy1 Ha ltac:(lia)) as [_ Hj].
        rewrite (Hj ltac:(lia)). cbn. subst dx dy xs ys. f_equal; nia. }
Qed.

Lemma bresham_in_bbox s e p : In p (bresham_points s e) -> in_bbox s e p.
Proof.
  intros H. pose proof (proj1 (bresham_run_spec s e)) as HF.
  rewrite Forall_forall in HF. apply HF. exact H.
Qed.

(* ------------------------------------------------------------------ *)
(* 8-connectedness: each step moves to one of the 8 neighbours *)
Definition cheb (p q : point) : Z := Z.max (Z.abs (py p - py q)) (Z.abs (px p - px q)).

Fixpoint chain (l : list point) : Prop :=
  match l with
  | a :: (b :: _) as r => cheb a b = 1 /\ chain r
  | _ => True
  end.

Definition unit_steps (st : bstate) : Prop :=
  -1 <= b_xs st <= 1 /\ -1 <= b_ys st <= 1 /\ (b_xs st <> 0 \/ b_ys st <> 0).

Lemma step_cheb st :
  unit_steps st -> cheb (b_cur st) (b_cur (bresham_step st)) = 1 /\ unit_steps (bresham_step st).
Proof.
  destruct st as [[cy cx] rem dx dy err sx sy]. unfold unit_steps, bresham_step, cheb; cbn.
  intros (Hx & Hy & Hne).
  destruct (sx =? 0) eqn:E0; cbn; [split; lia|].
  destruct (sy =? 0) eqn:E1; cbn; [split; lia|].
  destruct (dx >=? dy); destruct (err >=? 0); cbn; split; lia.
Qed.

Lemma iter_chain n : forall st, unit_steps st ->
  chain (fst (bresham_iter n st) ++ [b_cur (snd (bresham_iter n st))]) /\
  hd_error (fst (bresham_iter n st) ++ [b_cur (snd (bresham_iter n st))]) = Some (b_cur st).
Proof.
  induction n as [|n IH]; intros st Hu; cbn [bresham_iter].
  - cbn. auto.
  - destruct (step_cheb st Hu) as [Hc Hu'].
    specialize (IH (bresham_step st) Hu').
    destruct (bresham_iter n (bresham_step st)) as [l fin]. cbn [fst snd] in *.
    destruct IH as [Hch Hhd]. split; [|reflexivity].
    cbn [app]. destruct (l ++ [b_cur fin]) as [|q r] eqn:El.
    + destruct l; discriminate.
    + cbn in Hhd. inversion Hhd; subst q. cbn [chain]. split; [exact Hc|exact Hch].
Qed.

(* start, end, 8-connected, number of points *)
Lemma bresham_endpoints s e :
  let full := bresham_points s e ++ [e] in
  hd_error full = Some s /\ last full s = e /\ chain full /\
  length (bresham_points s e) = Z.to_nat (Z.max (Z.abs (px e - px s)) (Z.abs (py e - py s))).
Proof.
  cbv zeta. unfold bresham_points.
  pose proof (proj2 (bresham_run_spec s e)) as Hend.
  assert (Hlen : length (fst (bresham_run s e)) =
                 Z.to_nat (Z.max (Z.abs (px e - px s)) (Z.abs (py e - py s)))).
  { unfold bresham_run. rewrite iter_length. reflexivity. }
  split; [|split; [apply last_last|split; [|exact Hlen]]].
  - destruct (fst (bresham_run s e)) as [|p l] eqn:El.
    + (* no steps: s = e *)
      cbn. cbn in Hlen. destruct s as [sy sx], e as [ey ex]; cbn in *.
      f_equal. f_equal; lia.
    + assert (Hu : unit_steps (bresham_new s e)).
      { unfold unit_steps, bresham_new; cbn.
        destruct (Z.eq_dec (px e) (px s)); destruct (Z.eq_dec (py e) (py s)); try lia.
        exfalso. unfold bresham_run in El.
        replace (b_rem (bresham_new s e)) with 0 in El by (unfold bresham_new; cbn; lia).
        cbn in El. discriminate. }
      pose proof (proj2 (iter_chain (Z.to_nat (b_rem (bresham_new s e))) _ Hu)) as Hhd.
      fold (bresham_run s e) in Hhd. rewrite El in Hhd. cbn in Hhd. cbn. exact Hhd.
  - destruct (Z.eq_dec (px e) (px s)) as [Hx|Hx]; [destruct (Z.eq_dec (py e) (py s)) as [Hy|Hy]|].
    + unfold bresham_run. replace (b_rem (bresham_new s e)) with 0 by (unfold bresham_new; cbn; lia).
      cbn. exact I.
    + assert (Hu : unit_steps (bresham_new s e)) by (unfold unit_steps, bresham_new; cbn; lia).
      pose proof (proj1 (iter_chain (Z.to_nat (b_rem (bresham_new s e))) _ Hu)) as Hch.
      fold (bresham_run s e) in Hch. rewrite Hend in Hch. exact Hch.
    + assert (Hu : unit_steps (bresham_new s e)) by (unfold unit_steps, bresham_new; cbn; lia).
      pose proof (proj1 (iter_chain (Z.to_nat (b_rem (bresham_new s e))) _ Hu)) as Hch.
      fold (bresham_run s e) in Hch. rewrite Hend in Hch. exact Hch.
Qed.

(* ------------------------------------------------------------------ *)
(* clamp_to_bounds *)
Lemma clamp_in_image p h w : 0 < h -> 0 < w -> in_image h w (clamp_to_bounds p h w) = true.
Proof.
  intros Hh Hw. destruct p as [y x]. unfold in_image, clamp_to_bounds, clampZ; cbn.
  destruct (y <? 0) eqn:A; destruct (Z.max (h - 1) 0 <? y) eqn:B;
  destruct (x <? 0) eqn:C; destruct (Z.max (w - 1) 0 <? x) eqn:D; cbn; lia.
Qed.

Lemma in_image_spec h w p :
  in_image h w p = true <-> 0 <= py p < h /\ 0 <= px p < w.
Proof. unfold in_image. lia. Qed.

Lemma write_all_ok h w ps :
  (forall p, In p ps -> in_image h w p = true) -> write_all h w ps = Writes ps.
Proof.
  intros H. unfold write_all.
  assert (E : forallb (in_image h w) ps = true) by (apply forallb_forall; exact H).
  rewrite E. reflexivity.
Qed.

(* the clamped end point stays inside the bounding box of the original line as soon as that
   box meets the image *)
Lemma clamp_in_bbox h w s e :
  bbox_misses_image h w s e = false ->
  in_bbox s e (clamp_to_bounds s h w) /\ in_bbox s e (clamp_to_bounds e h w).
Proof.
  destruct s as [sy sx], e as [ey ex].
  unfold bbox_misses_image, in_bbox, clamp_to_bounds, clampZ; cbn. intros H.
  destruct (sy <? 0) eqn:A1; destruct (Z.max (h - 1) 0 <? sy) eqn:A2;
  destruct (sx <? 0) eqn:A3; destruct (Z.max (w - 1) 0 <? sx) eqn:A4;
  destruct (ey <? 0) eqn:B1; destruct (Z.max (h - 1) 0 <? ey) eqn:B2;
  destruct (ex <? 0) eqn:B3; destruct (Z.max (w - 1) 0 <? ex) eqn:B4; cbn; lia.
Qed.

Lemma in_bbox_mono s e s' e' p :
  in_bbox s e s' -> in_bbox s e e' -> in_bbox s' e' p -> in_bbox s e p.
Proof. unfold in_bbox. lia. Qed.

(* draw_line (width 1): never panics, writes only pixels of the image that lie inside the
   bounding box of the (unclamped) line -- for ANY end points and any image size *)
Lemma draw_line_in_image h w s e :
  0 <= h -> 0 <= w ->
  exists l, draw_line1 h w s e = Writes l /\
            forall p, In p l -> in_image h w p = true /\ in_bbox s e p.
Proof.
  intros Hh Hw. unfold draw_line1.
  destruct (bbox_misses_image h w s e) eqn:Hm.
  - exists []. split; [reflexivity|]. intros p [].
  - assert (Hpos : 0 < h /\ 0 < w) by (unfold bbox_misses_image in Hm; lia).
    destruct Hpos as [Hh1 Hw1].
    set (s' := clamp_to_bounds s h w). set (e' := clamp_to_bounds e h w).
    assert (Hin : forall p, In p (bresham_points s' e') -> in_image h w p = true /\ in_bbox s e p).
    { intros p Hp. apply bresham_in_bbox in Hp.
      destruct (clamp_in_bbox h w s e Hm) as [Hs He]. fold s' in Hs. fold e' in He.
      split; [|exact (in_bbox_mono _ _ _ _ _ Hs He Hp)].
      pose proof (clamp_in_image s h w Hh1 Hw1) as Is. pose proof (clamp_in_image e h w Hh1 Hw1) as Ie.
      fold s' in Is. fold e' in Ie. rewrite in_image_spec in *. unfold in_bbox in Hp. lia. }
    exists (bresham_points s' e'). split; [|exact Hin].
    apply write_all_ok. intros p Hp. apply Hin. exact Hp.
Qed.

(* ------------------------------------------------------------------ *)
(* rectangles *)
Lemma in_zrange lo hi v : In v (zrange lo hi) <-> lo <= v < hi.
Proof.
  unfold zrange. rewrite in_map_iff. split.
  - intros (i & <- & Hi). apply in_seq in Hi. lia.
  - intros H. exists (Z.to_nat (v - lo)). split; [lia|]. apply in_seq. lia.
Qed.

Lemma in_rect_points r p : In p (rect_points r) <-> in_rect r p = true.
Proof.
  unfold rect_points, in_rect. rewrite in_flat_map. destruct p as [y x]; cbn. split.
  - intros (y' & Hy & Hx). apply in_map_iff in Hx. destruct Hx as (x' & E & Hx).
    inversion E; subst. apply in_zrange in Hy. apply in_zrange in Hx. lia.
  - intros H. exists y. split; [apply in_zrange; lia|].
    apply in_map_iff. exists x. split; [reflexivity|apply in_zrange; lia].
Qed.

Lemma in_rect_clamp a b p : in_rect (rect_clamp a b) p = in_rect a p && in_rect b p.
Proof. unfold in_rect, rect_clamp; cbn. lia. Qed.

Lemma in_rect_image h w p : in_rect (from_tlbr 0 0 h w) p = in_image h w p.
Proof. unfold in_rect, in_image; cbn. lia. Qed.

(* fill_rect never panics and writes exactly rect /\ image *)
Lemma fill_rect_writes h w r :
  exists l, fill_rect h w r = Writes l /\
            forall p, In p l <-> (in_rect r p = true /\ in_image h w p = true).
Proof.
  unfold fill_rect. set (l := rect_points (rect_clamp r (from_tlbr 0 0 h w))).
  assert (Hl : forall p, In p l <-> in_rect r p = true /\ in_image h w p = true).
  { intros p. unfold l. rewrite in_rect_points, in_rect_clamp, in_rect_image.
    rewrite andb_true_iff. reflexivity. }
  exists l. split; [|exact Hl]. apply write_all_ok. intros p Hp. apply Hl. exact Hp.
Qed.

Lemma seq_out_writes a b la lb : a = Writes la -> b = Writes lb -> seq_out a b = Writes (la ++ lb).
Proof. intros -> ->. reflexivity. Qed.

(* stroke_rect never panics and writes only pixels of image /\ rect that are within `wd` of
   one of the rect's sides (nothing when wd <= 0) *)
Lemma stroke_rect_writes h w r wd :
  exists l, stroke_rect h w r wd = Writes l /\
            forall p, In p l ->
              in_image h w p = true /\ in_rect r p = true /\
              in_rect (stroke_inner r wd) p = false /\ 0 < wd.
Proof.
  unfold stroke_rect, stroke_parts. cbn [fold_left].
  destruct (fill_rect_writes h w (rect_clamp (from_tlbr (r_top r) (r_left r) (r_bottom r) (r_left r + wd)) r)) as (l1 & E1 & H1).
  destruct (fill_rect_writes h w (rect_clamp (from_tlbr (r_top r) (r_left r + wd) (r_top r + wd) (r_right r - wd)) r)) as (l2 & E2 & H2).
  destruct (fill_rect_writes h w (rect_clamp (from_tlbr (r_top r) (r_right r - wd) (r_bottom r) (r_right r)) r)) as (l3 & E3 & H3).
  destruct (fill_rect_writes h w (rect_clamp (from_tlbr (r_bottom r - wd) (r_left r + wd) (r_bottom r) (r_right r - wd)) r)) as (l4 & E4 & H4).
  rewrite E1, E2, E3, E4. cbn [seq_out app].
  exists (l1 ++ l2 ++ l3 ++ l4). split; [rewrite <- !app_assoc; reflexivity|].
  intros p Hp. rewrite !in_app_iff in Hp.
  destruct Hp as [Hp|[Hp|[Hp|Hp]]];
    [apply H1 in Hp|apply H2 in Hp|apply H3 in Hp|apply H4 in Hp];
    destruct Hp as [Hr Hi]; rewrite in_rect_clamp in Hr;
    (split; [exact Hi|]); revert Hr; unfold in_rect, stroke_inner; cbn; lia.
Qed.

(* ------------------------------------------------------------------ *)
(* polygons: every write is inside the image and inside the bounding box of one edge *)
Lemma fold_lines h w : forall es acc,
  0 <= h -> 0 <= w ->
  exists l, fold_left (fun a e => seq_out a (draw_line1 h w (fst e) (snd e))) es (Writes acc) = Writes (acc ++ l) /\
            forall p, In p l -> in_image h w p = true /\ exists e, In e es /\ in_bbox (fst e) (snd e) p.
Proof.
  induction es as [|e es IH]; intros acc Hh Hw; cbn [fold_left].
  - exists []. rewrite app_nil_r. split; [reflexivity|]. intros p [].
  - destruct (draw_line_in_image h w (fst e) (snd e) Hh Hw) as (l1 & E1 & H1).
    rewrite E1. cbn [seq_out].
    destruct (IH (acc ++ l1) Hh Hw) as (l2 & E2 & H2). rewrite E2.
    exists (l1 ++ l2). split; [rewrite app_assoc; reflexivity|].
    intros p Hp. apply in_app_iff in Hp. destruct Hp as [Hp|Hp].
    + destruct (H1 p Hp) as [Hi Hb]. split; [exact Hi|]. exists e. split; [left; reflexivity|exact Hb].
    + destruct (H2 p Hp) as [Hi (e' & He' & Hb)]. split; [exact Hi|].
      exists e'. split; [right; exact He'|exact Hb].
Qed.

Lemma draw_polygon_in_image h w pts :
  0 <= h -> 0 <= w ->
  exists l, draw_polygon1 h w pts = Writes l /\
            forall p, In p l -> in_image h w p = true /\
                                exists e, In e (edges pts) /\ in_bbox (fst e) (snd e) p.
Proof.
  intros Hh Hw. unfold draw_polygon1.
  destruct (fold_lines h w (edges pts) [] Hh Hw) as (l & E & H).
  exists l. split; [exact E|exact H].
Qed.

(* edges only join vertices of the polygon *)
Lemma edges_vertices pts e : In e (edges pts) -> In (fst e) pts /\ In (snd e) pts.
Proof.
  unfold edges. destruct pts as [|p0 rest]; [intros []|].
  intros H. destruct e as [a b]. split.
  - apply in_combine_l in H. exact H.
  - apply in_combine_r in H. apply in_app_iff in H. cbn in *. destruct H as [H|[H|[]]]; auto.
Qed.

(* ------------------------------------------------------------------ *)
(* the statements of Props_C36.v, with the boolean tests spelled out *)
Lemma draw_line_in_image_spec h w s e :
  0 <= h -> 0 <= w ->
  exists l, draw_line1 h w s e = Writes l /\
    forall p, In p l ->
      (0 <= py p < h /\ 0 <= px p < w) /\
      (Z.min (py s) (py e) <= py p <= Z.max (py s) (py e) /\
       Z.min (px s) (px e) <= px p <= Z.max (px s) (px e)).
Proof.
  intros Hh Hw. destruct (draw_line_in_image h w s e Hh Hw) as (l & E & H).
  exists l. split; [exact E|]. intros p Hp. destruct (H p Hp) as [Hi Hb].
  split; [apply in_image_spec; exact Hi|exact Hb].
Qed.

Lemma fill_rect_writes_spec h w r :
  exists l, fill_rect h w r = Writes l /\
    forall p, In p l <->
      ((r_top r <= py p < r_bottom r /\ r_left r <= px p < r_right r) /\
       (0 <= py p < h /\ 0 <= px p < w)).
Proof.
  destruct (fill_rect_writes h w r) as (l & E & H).
  exists l. split; [exact E|]. intros p. rewrite H, in_image_spec.
  unfold in_rect. rewrite !andb_true_iff, !Z.leb_le, !Z.ltb_lt. tauto.
Qed.

Lemma stroke_rect_writes_spec h w r wd :
  exists l, stroke_rect h w r wd = Writes l /\
    forall p, In p l ->
      (0 <= py p < h /\ 0 <= px p < w) /\
      (r_top r <= py p < r_bottom r /\ r_left r <= px p < r_right r) /\
      ~ (r_top r + wd <= py p < r_bottom r - wd /\ r_left r + wd <= px p < r_right r - wd) /\
      0 < wd.
Proof.
  destruct (stroke_rect_writes h w r wd) as (l & E & H).
  exists l. split; [exact E|]. intros p Hp. destruct (H p Hp) as (Hi & Hr & Hn & Hw).
  split; [apply in_image_spec; exact Hi|].
  revert Hr Hn. unfold in_rect, stroke_inner; cbn.
  rewrite !andb_true_iff, !andb_false_iff, !Z.leb_le, !Z.ltb_lt, !Z.leb_gt, !Z.ltb_ge. lia.
Qed.

Lemma draw_polygon_in_image_spec h w pts :
  0 <= h -> 0 <= w ->
  exists l, draw_polygon1 h w pts = Writes l /\
    forall p, In p l ->
      (0 <= py p < h /\ 0 <= px p < w) /\
      exists a b, In a pts /\ In b pts /\
        Z.min (py a) (py b) <= py p <= Z.max (py a) (py b) /\
        Z.min (px a) (px b) <= px p <= Z.max (px a) (px b).
Proof.
  intros Hh Hw. destruct (draw_polygon_in_image h w pts Hh Hw) as (l & E & H).
  exists l. split; [exact E|]. intros p Hp. destruct (H p Hp) as (Hi & (e & He & Hb)).
  split; [apply in_image_spec; exact Hi|].
  destruct (edges_vertices pts e He) as [Ha Hb']. exists (fst e), (snd e). auto.
Qed.
