(* Bpe::encode_piece (ids) = the string-level GPT-2/CLIP reference read through the
   vocabulary, when no two strings share an id. *)
From RV Require Import Prelude.
From Bpe Require Import ModelBpe Ref_proofs Merge_proofs.
Open Scope N_scope.

Lemma list_eqb_spec {A} (e : A -> A -> bool) :
  (forall x y, e x y = true <-> x = y) -> forall a b, list_eqb e a b = true <-> a = b.
Proof.
  intros He. induction a as [|x a IH]; intros [|y b]; cbn [list_eqb]; try (split; [discriminate|discriminate]).
  - tauto.
  - rewrite andb_true_iff, He, IH. split; [intros [-> ->]; reflexivity|intros H; inversion H; auto].
Qed.

Lemma str_eqb_spec a b : str_eqb a b = true <-> a = b.
Proof. apply list_eqb_spec. exact N.eqb_eq. Qed.

Lemma str_eqb_refl a : str_eqb a a = true.
Proof. apply str_eqb_spec. reflexivity. Qed.

Definition vmap (v : vocab) (s : str) : tok := match v_get v s with Some i => i | None => 0 end.
Definition in_vocab (v : vocab) (s : str) : Prop := v_get v s <> None.

Lemma vmap_get v s : in_vocab v s -> v_get v s = Some (vmap v s).
Proof. unfold in_vocab, vmap. destruct (v_get v s); congruence. Qed.

Lemma vmap_inj v : vocab_inj v -> forall x y, in_vocab v x -> in_vocab v y -> vmap v x = vmap v y -> x = y.
Proof.
  intros Hinj x y Hx Hy E. apply vmap_get in Hx, Hy. rewrite E in Hx. eapply Hinj; eassumption.
Qed.

Lemma all_some_nth {A B} (g : A -> option B) (l : list A) r dA dB :
  all_some (map g l) = Some r -> forall i, (i < length l)%nat -> g (nth i l dA) = Some (nth i r dB).
Proof.
  revert r. induction l as [|x l IH]; intros r H i Hi; [cbn in Hi; lia|].
  cbn [map all_some] in H. destruct (g x) as [y|] eqn:G; [|discriminate].
  destruct (all_some (map g l)) as [r'|]; [|discriminate]. inversion H; subst.
  destruct i as [|i]; cbn [nth]; [exact G|]. apply IH; [reflexivity|cbn [length] in Hi; lia].
Qed.

Lemma byte_tbl_length : length byte_to_char_tbl = 256%nat.
Proof. reflexivity. Qed.

(* the id table is the string table read through the vocabulary *)
Lemma id_table_str_table v : forall merges tbl,
  id_table v merges = Some tbl ->
  tbl = map (f3 (vmap v)) (str_table merges) /\ Forall (P3 (in_vocab v)) (str_table merges).
Proof.
  unfold id_table. induction merges as [|[sa sb] r IH]; intros tbl H.
  - cbn in H. inversion H. split; [reflexivity|constructor].
  - cbn [map all_some] in H. unfold id_entry at 1 in H. cbn [fst snd] in H.
    destruct (v_get v sa) as [ia|] eqn:Ea; [|discriminate].
    destruct (v_get v sb) as [ib|] eqn:Eb; [|discriminate].
    destruct (v_get v (sa ++ sb)) as [im|] eqn:Em; [|discriminate].
    destruct (all_some (map (id_entry v) r)) as [tbl'|] eqn:HT; [|discriminate].
    inversion H; subst tbl. destruct (IH _ eq_refl) as [IH1 IH2].
    unfold str_table. cbn [map fst snd]. fold (str_table r). split.
    + unfold f3 at 1, vmap. cbn [fst snd]. rewrite Ea, Eb, Em, IH1. reflexivity.
    + constructor; [|exact IH2]. unfold P3, in_vocab. cbn [fst snd]. rewrite Ea, Eb, Em.
      repeat split; discriminate.
Qed.

Lemma exists_last_or_nil {A} (l : list A) : l = [] \/ exists p x, l = p ++ [x].
Proof.
  destruct l as [|a l]; [left; reflexivity|right].
  destruct (@exists_last _ (a :: l)) as [p [x E]]; [discriminate|]. exists p, x. exact E.
Qed.

Lemma init_word_none piece : init_word None piece = map (fun b => [byte_to_char b]) piece.
Proof. reflexivity. Qed.

Lemma init_word_some sfx p lastb :
  init_word (Some sfx) (p ++ [lastb]) = map (fun b => [byte_to_char b]) p ++ [byte_to_char lastb :: sfx].
Proof.
  unfold init_word. rewrite map_app. cbn [map]. rewrite rev_unit, rev_involutive. reflexivity.
Qed.

Lemma set_last_eow_snoc et p lastb ts x :
  set_last_eow et (p ++ [lastb]) (ts ++ [x]) = ts ++ [nth (N.to_nat lastb) et 0].
Proof. unfold set_last_eow. rewrite !rev_unit, rev_involutive. reflexivity. Qed.

Section Encode.
  Variable o : opts.
  Variable b : bpe.
  Hypothesis Hnew : bpe_new o = inl b.
  Hypothesis Hinj : vocab_inj (spec_vocab o).
  Hypothesis Hlen : N.of_nat (length (o_merges o)) <= 4294967296.

  Let v := spec_vocab o.

  Lemma new_facts :
    exists mm b2t,
      build_merge_map v (o_merges o) 0 [] = Some mm /\
      all_some (map (fun c : N => v_get v [c]) byte_to_char_tbl) = Some b2t /\
      b_merges b = mm /\ b_b2t b = b2t /\ b_ignore b = o_ignore o /\
      b_vocab b = (if o_ignore o then Some v else None) /\ b_vocab_all b = v /\ b_added b = o_added o /\
      match norm_eow (o_eow o) with
      | None => b_eow b = None
      | Some sfx => exists et, all_some (map (fun c : N => v_get v (c :: sfx)) byte_to_char_tbl) = Some et
                               /\ b_eow b = Some et
      end.
  Proof.
    unfold bpe_new in Hnew. fold (spec_vocab o) in Hnew. fold v in Hnew.
    destruct (build_merge_map v (o_merges o) 0 []) as [mm|]; [|discriminate].
    destruct (all_some (map (fun c : N => v_get v [c]) byte_to_char_tbl)) as [b2t|]; [|discriminate].
    exists mm, b2t. destruct (norm_eow (o_eow o)) as [sfx|].
    - destruct (all_some (map (fun c : N => v_get v (c :: sfx)) byte_to_char_tbl)) as [et|]; [|discriminate].
      inversion Hnew; subst b. cbn. repeat split; try reflexivity. exists et. split; reflexivity.
    - inversion Hnew; subst b. cbn. repeat split; reflexivity.
  Qed.

  Theorem encode_piece_merges_eq_reference_str piece (e : bool) :
    Forall (fun x => x < 256) piece ->
    let word := init_word (if e then norm_eow (o_eow o) else None) piece in
    exists ids, encode_piece_merges b piece e = Ok ids /\
                map (v_get v) (reference_str (o_merges o) word) = map Some ids.
  Proof.
    intros Hbytes word.
    destruct new_facts as [mm [b2t [HB [H2t [Em [Eb [Ei [_ [_ [_ Heow]]]]]]]]]].
    destruct (build_merge_map_models _ _ _ Hlen HB) as [tbl [HT HM]].
    destruct (id_table_str_table _ _ _ HT) as [Htbl HP3].
    (* byte tokens *)
    assert (Hbyte : forall x, x < 256 -> v_get v [byte_to_char x] = Some (nth (N.to_nat x) b2t 0)).
    { intros x Hx. unfold byte_to_char.
      apply (all_some_nth (fun c : N => v_get v [c]) byte_to_char_tbl b2t 0 0 H2t).
      rewrite byte_tbl_length. lia. }
    assert (Ht0 : map (fun x => nth (N.to_nat x) b2t 0) piece = map (vmap v) (map (fun x => [byte_to_char x]) piece)
                  /\ Forall (in_vocab v) (map (fun x => [byte_to_char x]) piece)).
    { clear word. induction Hbytes as [|x l Hx _ IH]; [split; [reflexivity|constructor]|].
      destruct IH as [IH1 IH2]. cbn [map]. split.
      - f_equal; [|exact IH1]. unfold vmap. rewrite (Hbyte x Hx). reflexivity.
      - constructor; [|exact IH2]. unfold in_vocab. rewrite (Hbyte x Hx). discriminate. }
    destruct Ht0 as [Ht0 HPw0].
    (* the initial token list is the image of the reference's initial word *)
    assert (Ht1 : exists t1, encode_piece_merges b piece e = bpe_merge mm t1 /\ t1 = map (vmap v) word /\ Forall (in_vocab v) word).
    { unfold encode_piece_merges. rewrite Em, Eb. subst word.
      destruct e.
      - destruct (norm_eow (o_eow o)) as [sfx|].
        + destruct Heow as [et [Het Ee]]. rewrite Ee.
          destruct (exists_last_or_nil piece) as [->|[p [lastb ->]]].
          * eexists. split; [reflexivity|]. split; [reflexivity|constructor].
          * rewrite init_word_some. rewrite !map_app in Ht0. cbn [map] in Ht0.
            rewrite !map_app. cbn [map]. rewrite set_last_eow_snoc.
            apply Forall_app in Hbytes. destruct Hbytes as [_ Hl]. inversion Hl as [|? ? Hlb _]; subst.
            rewrite map_app in HPw0. apply Forall_app in HPw0. destruct HPw0 as [HPp _].
            apply app_inj_tail in Ht0. destruct Ht0 as [Ht0 _].
            assert (Hl2 : v_get v (byte_to_char lastb :: sfx) = Some (nth (N.to_nat lastb) et 0)).
            { unfold byte_to_char.
              apply (all_some_nth (fun c : N => v_get v (c :: sfx)) byte_to_char_tbl et 0 0 Het).
              rewrite byte_tbl_length. lia. }
            eexists. split; [reflexivity|]. split.
            -- rewrite Ht0. f_equal. unfold vmap. rewrite Hl2. reflexivity.
            -- apply Forall_app. split; [exact HPp|]. constructor; [|constructor].
               unfold in_vocab. rewrite Hl2. discriminate.
        + rewrite Heow. eexists. split; [reflexivity|]. split; [exact Ht0|exact HPw0].
      - rewrite init_word_none.
        destruct (b_eow b); eexists; (split; [reflexivity|]); (split; [exact Ht0|exact HPw0]). }
    destruct Ht1 as [t1 [He [Et1 HPw]]].
    rewrite He, (bpe_merge_eq_reference mm tbl t1 HM), Htbl, Et1.
    destruct (reference_transport str_eqb N.eqb (vmap v) (in_vocab v) str_eqb_spec N.eqb_eq
                (vmap_inj v Hinj) (str_table (o_merges o)) word HP3 HPw) as [HR HPres].
    exists (map (vmap v) (reference str_eqb (str_table (o_merges o)) word)).
    split; [f_equal; exact HR|].
    unfold reference_str. rewrite map_map.
    clear -HPres. induction HPres as [|s l Hs _ IH]; [reflexivity|].
    cbn [map]. rewrite IH, (vmap_get v s Hs). reflexivity.
  Qed.

  Theorem encode_piece_eq_reference_str :
    o_ignore o = false ->
    forall piece (e : bool), Forall (fun x => x < 256) piece ->
    let word := init_word (if e then norm_eow (o_eow o) else None) piece in
    exists ids, encode_piece b piece e = Ok ids /\
                map (v_get v) (reference_str (o_merges o) word) = map Some ids.
  Proof.
    intros Hign piece e Hb. unfold encode_piece, whole_piece.
    destruct new_facts as [mm [b2t [_ [_ [_ [_ [Ei _]]]]]]]. rewrite Ei, Hign.
    apply encode_piece_merges_eq_reference_str. exact Hb.
  Qed.
End Encode.
