(* C27 -- Byte-level BPE tokenization round-trips and reports consistent offsets.
   Only statements; every proof is `exact <lemma>`. *)
From RV Require Import Prelude.
From Bpe Require Import ModelBpe Ref_proofs Merge_proofs Encode_proofs Roundtrip_proofs Offsets_proofs Vocab_proofs Oracle_proofs.
From Bpe Require ModelC27.
Open Scope N_scope.

(* (1) byte_to_char / char_to_byte are mutually inverse on the 256 bytes (finite part by
       vm_compute over all 256 bytes), char_to_byte knows no other char, and the literal table
       the model computes with is what the code's two passes over is_printable produce *)
Theorem C27_byte_char_bijection :
  (forall b, b < 256 -> char_to_byte (byte_to_char b) = Some b) /\
  (forall c b, char_to_byte c = Some b -> b < 256 /\ byte_to_char b = c) /\
  byte_to_char_tbl = byte_to_char_tbl_spec /\ length byte_to_char_tbl = 256%nat.
Proof. exact byte_char_bijection. Qed.

(* (2) merging never changes the concatenation of the pieces: string level ... *)
Theorem C27_merge_preserves_concat : forall merges word,
  concat (reference_str merges word) = concat word.
Proof. exact merge_preserves_concat. Qed.

(* ... and for the ids bpe_merge returns, under any reading D of ids as byte strings that
   agrees with the table (D merged = D first ++ D second) *)
Theorem C27_bpe_merge_preserves_concat : forall (B : Type) (D : tok -> list B) mm tbl ts r,
  mm_models mm tbl ->
  (forall a b m, In (a, b, m) tbl -> D m = D a ++ D b) ->
  bpe_merge mm ts = Ok r -> flat_map D r = flat_map D ts.
Proof. exact @bpe_merge_preserves_concat. Qed.

(* (3) round trip.  For every Bpe that Bpe::new accepts (so every byte character has a token),
       without end-of-word suffix, whose vocabulary has distinct keys and distinct ids and whose
       added tokens do not contradict it; for EVERY pre-tokenizer that splits its input into
       consecutive valid-UTF-8 chunks (the regex engine is this oracle) and every valid UTF-8
       text: encode succeeds and decoding its ids gives the text back, exactly. *)
Theorem C27_decode_encode : forall o b,
  bpe_new o = inl b -> vocab_inj (spec_vocab o) ->
  N.of_nat (length (o_merges o)) <= 4294967296 ->
  NoDup (map fst (spec_vocab o)) -> added_ok (spec_vocab o) (o_added o) ->
  norm_eow (o_eow o) = None ->
  forall pretok : list N -> list piece,
    (forall text, utf8_valid text = true -> pieces_cover text (pretok text) = true) ->
    forall text, utf8_valid text = true ->
    exists ids offs, tk_encode b text None (pretok text) = Ok (ids, offs) /\ decode b ids = DecOk text.
Proof. exact decode_encode_pretok. Qed.

(* (3'') with the generated default vocabulary (BpeOptions::vocab = None) nothing has to be
         assumed about the vocabulary: any merge list the constructor accepts *)
Theorem C27_decode_encode_default_vocab : forall merges added ig b,
  let o := {| o_merges := merges; o_vocab := None; o_added := added; o_eow := None; o_ignore := ig |} in
  N.of_nat (length merges) + 256 <= 4294967296 ->
  added_ok (build_vocab merges None) added ->
  bpe_new o = inl b ->
  forall pretok : list N -> list piece,
    (forall text, utf8_valid text = true -> pieces_cover text (pretok text) = true) ->
    forall text, utf8_valid text = true ->
    exists ids offs, tk_encode b text None (pretok text) = Ok (ids, offs) /\ decode b ids = DecOk text.
Proof. exact decode_encode_default_vocab. Qed.

(* (3') the same with a normalizer that leaves this text unchanged ("no lossy normalization")
        and whose offset map is defined on the text *)
Theorem C27_decode_encode_normalized : forall o b,
  bpe_new o = inl b -> vocab_inj (spec_vocab o) ->
  N.of_nat (length (o_merges o)) <= 4294967296 ->
  NoDup (map fst (spec_vocab o)) -> added_ok (spec_vocab o) (o_added o) ->
  norm_eow (o_eow o) = None ->
  forall text nm pieces,
    utf8_valid text = true ->
    normalized_text text nm = text ->
    (forall base, base < N.of_nat (length text) -> exists x, map_offset nm base = Ok x) ->
    pieces_cover (normalized_text text nm) pieces = true ->
    exists ids offs, tk_encode b text nm pieces = Ok (ids, offs) /\ decode b ids = DecOk text.
Proof. exact decode_encode. Qed.

(* (4) offsets.  For ANY Bpe model, any text, a splitting pre-tokenizer answer and (if a
       normalizer is configured) an offset map that is non-decreasing, starts at 0 and sends char
       boundaries of the normalized text to char boundaries of the input ([norm_ok]): whatever
       Tokenizer::encode returns, its offsets are one per token plus the input length, are
       non-decreasing, lie on char boundaries within the input, the slices between consecutive
       offsets concatenate to the input, and text_for_token_range(i..i+1) returns the i-th slice *)
Theorem C27_offsets_monotone_boundaries_cover : forall b text nm pieces ids offs,
  norm_ok text nm = true ->
  pieces_cover (normalized_text text nm) pieces = true ->
  tk_encode b text nm pieces = Ok (ids, offs) ->
  match ids with
  | [] => offs = []
  | _ =>
      length offs = S (length ids) /\
      sorted_le offs = true /\
      Forall (fun o => o <= N.of_nat (length text) /\ is_char_boundary text o = true) offs /\
      concat (slices text offs) = text /\
      length (slices text offs) = length ids /\
      forall i, (i < length ids)%nat ->
                exists sl, text_for_token text offs i = Some sl /\ nth_error (slices text offs) i = Some sl
  end.
Proof. exact offsets_monotone_boundaries_cover. Qed.

(* (5) the executable oracle of the correspondence check is sound: offsets and slices it
       accepts are non-decreasing, in range, on char boundaries, one slice per token, and the
       slices concatenate to the input *)
Theorem C27_oracle_sound : forall text ids offs sl,
  ModelC27.offsets_ok text ids offs sl = true ->
  sorted_le offs = true /\
  Forall (fun o => o <= N.of_nat (length text) /\ is_char_boundary text o = true) offs /\
  exists ss, sl = map Some ss /\ length ss = length ids /\ concat ss = text.
Proof. exact c27_offsets_ok_sound. Qed.

(* non-vacuity: "é a" (c3 a9 20 61) split as "é" | " a" with the merge (Ã,©): the two bytes of
   é become one token; three tokens, offsets 0,2,2 and the final 4 *)
Example C27_nonvacuous :
  let o := {| o_merges := [([195], [169])]; o_vocab := None; o_added := [(50256, [60; 62])];
              o_eow := None; o_ignore := false |} in
  let text := [195; 169; 32; 97] in
  let pieces := [(0, [195; 169]); (2, [32; 97])] in
  pieces_cover text pieces = true /\ utf8_valid text = true /\
  exists b, bpe_new o = inl b /\
            tk_encode b text None pieces = Ok ([256; 220; 64], [0; 2; 2; 4]) /\
            decode b [256; 220; 64] = DecOk text /\
            decode b [256; 50256] = DecOk [195; 169; 60; 62] /\
            decode b [162] = DecInvalidUtf8.
Proof.
  cbv zeta. split; [vm_compute; reflexivity|]. split; [vm_compute; reflexivity|].
  destruct (bpe_new _) as [b|e] eqn:E; [|vm_compute in E; discriminate].
  exists b. split; [reflexivity|]. vm_compute in E. inversion E.
  repeat split; vm_compute; reflexivity.
Qed.
