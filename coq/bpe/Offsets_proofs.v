(* C27, part 2: the token offsets Tokenizer::encode reports are non-decreasing, lie on char
   boundaries within the input, and the slices they delimit concatenate to the input --
   for ANY Bpe model, given a splitting pre-tokenizer and (if present) a normalizer whose
   offset map is monotone, starts at 0 and maps char boundaries to char boundaries. *)
From RV Require Import Prelude.
From Bpe Require Import ModelBpe Ref_proofs Merge_proofs Encode_proofs Roundtrip_proofs.
Open Scope N_scope.

(* ---------------- encode_piece keeps a non-empty piece non-empty ---------------- *)
Lemma set_last_eow_nonempty et piece ts : ts <> [] -> set_last_eow et piece ts <> [].
Proof.
  intros Hne. unfold set_last_eow. destruct (rev ts) as [|x r] eqn:E; [exact Hne|].
  destruct (rev piece) as [|lb rp]; [exact Hne|]. destruct (rev r); discriminate.
Qed.

Lemma encode_piece_nonempty b piece e r :
  encode_piece b piece e = Ok r -> piece <> [] -> r <> [].
Proof.
  unfold encode_piece. destruct (whole_piece b piece); [intros H; inversion H; discriminate|].
  unfold encode_piece_merges. intros H Hne.
  match type of H with bpe_merge ?mm ?t1 = _ =>
    destruct (bpe_merge_terminates mm t1) as [_ [r' [Hr [_ Hn]]]]; rewrite Hr in H; inversion H; subst;
    apply Hn end.
  assert (H0 : map (fun x => nth (N.to_nat x) (b_b2t b) 0) piece <> [])
    by (destruct piece; [congruence|discriminate]).
  destruct (b_eow b); [destruct e; [apply set_last_eow_nonempty|]|]; exact H0.
Qed.

(* ---------------- lists of offsets ---------------- *)
Lemma sorted_le_cons a l : sorted_le (a :: l) = true <-> (match l with [] => True | b :: _ => a <= b end) /\ sorted_le l = true.
Proof.
  destruct l as [|b l']; [cbn; tauto|].
  change (sorted_le (a :: b :: l')) with ((a <=? b) && sorted_le (b :: l')).
  rewrite andb_true_iff, N.leb_le. tauto.
Qed.

Lemma sorted_le_repeat_app x k l :
  sorted_le l = true -> Forall (fun o => x <= o) l -> sorted_le (repeat x k ++ l) = true.
Proof.
  intros Hs Hf. induction k as [|k IH]; [exact Hs|].
  cbn [repeat app]. apply sorted_le_cons. split; [|exact IH].
  destruct k as [|k']; cbn [repeat app].
  - destruct l as [|b l']; [exact I|]. inversion Hf; assumption.
  - lia.
Qed.

Lemma sorted_le_snoc l z : sorted_le l = true -> Forall (fun o => o <= z) l -> sorted_le (l ++ [z]) = true.
Proof.
  induction l as [|a l IH]; intros Hs Hf; [reflexivity|].
  apply sorted_le_cons in Hs. destruct Hs as [Hh Hs]. inversion Hf as [|? ? Ha Hf']; subst.
  cbn [app]. apply sorted_le_cons. split; [|apply IH; assumption].
  destruct l as [|b l']; cbn [app]; [exact Ha|exact Hh].
Qed.

Lemma sorted_le_nth : forall l i j a b,
  sorted_le l = true -> (i <= j)%nat -> nth_error l i = Some a -> nth_error l j = Some b -> a <= b.
Proof.
  induction l as [|x l IH]; intros i j a b Hs Hij Ha Hb; [destruct i; discriminate|].
  apply sorted_le_cons in Hs. destruct Hs as [Hh Hs].
  destruct i as [|i], j as [|j]; cbn [nth_error] in *; try lia.
  - inversion Ha; inversion Hb; subst. lia.
  - inversion Ha; subst. destruct l as [|y l']; [destruct j; discriminate|].
    assert (Hyb : y <= b) by (eapply (IH O j); [exact Hs|lia|reflexivity|exact Hb]). lia.
  - eapply IH; [exact Hs| |exact Ha|exact Hb]. lia.
Qed.

(* ---------------- sub-slices ---------------- *)
Lemma firstn_plus {A} (n m : nat) (u : list A) : firstn (n + m) u = firstn n u ++ firstn m (skipn n u).
Proof.
  revert u. induction n as [|n IH]; intros u; [reflexivity|].
  destruct u as [|x u]; [cbn; rewrite firstn_nil; reflexivity|]. cbn. rewrite IH. reflexivity.
Qed.

Lemma skipn_plus {A} (n m : nat) (u : list A) : skipn (n + m) u = skipn m (skipn n u).
Proof.
  revert u. induction n as [|n IH]; intros u; [reflexivity|].
  destruct u as [|x u]; [cbn; rewrite skipn_nil; reflexivity|]. cbn. apply IH.
Qed.

Lemma sub_app text a b c : a <= b -> b <= c -> sub text a b ++ sub text b c = sub text a c.
Proof.
  intros H1 H2. unfold sub.
  replace (N.to_nat (c - a)) with (N.to_nat (b - a) + N.to_nat (c - b))%nat
    by (rewrite <- N2Nat.inj_add; f_equal; lia).
  rewrite firstn_plus. f_equal. f_equal.
  replace (N.to_nat b) with (N.to_nat a + N.to_nat (b - a))%nat
    by (rewrite <- N2Nat.inj_add; f_equal; lia).
  apply skipn_plus.
Qed.

Lemma sub_full text : sub text 0 (N.of_nat (length text)) = text.
Proof. unfold sub. rewrite N.sub_0_r, Nat2N.id. cbn [N.to_nat skipn]. apply firstn_all. Qed.

Lemma slices_eq text s e r : slices text (s :: e :: r) = sub text s e :: slices text (e :: r).
Proof. reflexivity. Qed.

Lemma last_nonempty_indep {A} (l : list A) x y : l <> [] -> last l x = last l y.
Proof.
  induction l as [|a l IH]; [congruence|]. intros _. destruct l as [|a0 l]; [reflexivity|].
  change (last (a :: a0 :: l) x) with (last (a0 :: l) x).
  change (last (a :: a0 :: l) y) with (last (a0 :: l) y). apply IH. discriminate.
Qed.

Lemma last_cons {A} (c : A) r b : last (c :: r) b = last r c.
Proof.
  destruct r as [|a r]; [reflexivity|]. change (last (c :: a :: r) b) with (last (a :: r) b).
  apply last_nonempty_indep. discriminate.
Qed.

Lemma sorted_le_last : forall r b, sorted_le (b :: r) = true -> b <= last r b.
Proof.
  induction r as [|c r IH]; intros b Hs; [cbn; lia|].
  apply sorted_le_cons in Hs. destruct Hs as [Hbc Hs]. rewrite last_cons. specialize (IH c Hs). lia.
Qed.

Lemma concat_slices text : forall offs a,
  sorted_le (a :: offs) = true ->
  concat (slices text (a :: offs)) = sub text a (last offs a).
Proof.
  induction offs as [|b r IH]; intros a Hs.
  - cbn. unfold sub. rewrite N.sub_diag. reflexivity.
  - rewrite slices_eq. cbn [concat]. apply sorted_le_cons in Hs. destruct Hs as [Hab Hs].
    rewrite (IH b Hs).
    pose proof (sorted_le_last r b Hs) as Hbl.
    rewrite sub_app by assumption. rewrite last_cons. reflexivity.
Qed.

Lemma slices_nth text : forall offs i s e,
  nth_error offs i = Some s -> nth_error offs (S i) = Some e ->
  nth_error (slices text offs) i = Some (sub text s e).
Proof.
  induction offs as [|a offs IH]; intros i s e Hs He; [destruct i; discriminate|].
  destruct offs as [|b r]; [destruct i; cbn in He; [discriminate|destruct i; discriminate]|].
  rewrite slices_eq. destruct i as [|i].
  - cbn in Hs, He. inversion Hs; inversion He; subst. reflexivity.
  - cbn [nth_error] in Hs, He |- *. apply IH; assumption.
Qed.

Lemma slices_length text : forall offs, length (slices text offs) = pred (length offs).
Proof.
  induction offs as [|a offs IH]; [reflexivity|]. destruct offs as [|b r]; [reflexivity|].
  rewrite slices_eq. cbn [length pred] in *. rewrite IH. reflexivity.
Qed.

(* ---------------- char boundaries ---------------- *)
Lemma utf8_first_not_cont x r : utf8_valid (x :: r) = true -> cont x = false.
Proof.
  cbn [utf8_valid]. unfold cont, in_rng. intros H.
  destruct (x <? 128) eqn:E0.
  { apply N.ltb_lt in E0. apply andb_false_iff. left. apply N.leb_gt. exact E0. }
  destruct ((194 <=? x) && (x <=? 223)) eqn:E1.
  { apply andb_true_iff in E1. destruct E1 as [E1 _]. apply N.leb_le in E1.
    apply andb_false_iff. right. apply N.leb_gt. lia. }
  destruct ((224 <=? x) && (x <=? 239)) eqn:E2.
  { apply andb_true_iff in E2. destruct E2 as [E2 _]. apply N.leb_le in E2.
    apply andb_false_iff. right. apply N.leb_gt. lia. }
  destruct ((240 <=? x) && (x <=? 244)) eqn:E3; [|discriminate].
  apply andb_true_iff in E3. destruct E3 as [E3 _]. apply N.leb_le in E3.
  apply andb_false_iff. right. apply N.leb_gt. lia.
Qed.

Lemma boundary_at_chunk prefix x r rest :
  utf8_valid (x :: r) = true ->
  is_char_boundary (prefix ++ (x :: r) ++ rest) (N.of_nat (length prefix)) = true.
Proof.
  intros Hv. unfold is_char_boundary. destruct (N.of_nat (length prefix) =? 0); [reflexivity|].
  rewrite Nat2N.id, nth_error_app2 by lia. rewrite Nat.sub_diag. cbn [app nth_error].
  rewrite (utf8_first_not_cont _ _ Hv). reflexivity.
Qed.

Lemma boundary_at_end text : is_char_boundary text (N.of_nat (length text)) = true.
Proof.
  unfold is_char_boundary. destruct (N.of_nat (length text) =? 0); [reflexivity|].
  rewrite Nat2N.id. replace (nth_error text (length text)) with (@None N)
    by (symmetry; apply nth_error_None; lia).
  apply N.eqb_refl.
Qed.

(* ---------------- the offsets of encode_str ---------------- *)
Section Offsets.
  Variable b : bpe.
  Variable text normalized : list N.
  Variable nm : norm.
  Notation total := (N.of_nat (length normalized)).
  Notation len := (N.of_nat (length text)).

  (* what is needed of the normalizer's offset map (trivial when there is no normalizer) *)
  Hypothesis Hmono : forall b1 b2 o1 o2, b1 <= b2 -> b2 < total ->
    map_offset nm b1 = Ok o1 -> map_offset nm b2 = Ok o2 -> o1 <= o2.
  Hypothesis Hbnd : forall base o, base < total -> is_char_boundary normalized base = true ->
    map_offset nm base = Ok o -> o <= len /\ is_char_boundary text o = true.
  Hypothesis Hzero : forall o, 0 < total -> map_offset nm 0 = Ok o -> o = 0.

  Definition off_good (at_ : N) (o : N) : Prop :=
    (exists base, at_ <= base /\ base < total /\ map_offset nm base = Ok o)
    /\ o <= len /\ is_char_boundary text o = true.

  Lemma encode_str_offsets : forall pieces prefix ts offs,
    normalized = prefix ++ concat (map snd pieces) ->
    pieces_from pieces (N.of_nat (length prefix)) = true ->
    encode_str b nm pieces = Ok (ts, offs) ->
    length offs = length ts /\ sorted_le offs = true /\
    Forall (off_good (N.of_nat (length prefix))) offs /\
    (ts <> [] -> exists o0, hd_error offs = Some o0 /\ map_offset nm (N.of_nat (length prefix)) = Ok o0).
  Proof.
    induction pieces as [|[base bytes] r IH]; intros prefix ts offs Hn Hp He.
    - cbn in He. inversion He; subst. repeat split; try reflexivity; [constructor|congruence].
    - cbn [pieces_from] in Hp. apply andb_true_iff in Hp. destruct Hp as [Hp Hr].
      apply andb_true_iff in Hp. destruct Hp as [Hbase Hval]. apply N.eqb_eq in Hbase. subst base.
      cbn [map snd concat] in Hn. cbn [encode_str] in He.
      assert (Hn' : normalized = (prefix ++ bytes) ++ concat (map snd r)) by (rewrite <- app_assoc; exact Hn).
      assert (Hr' : pieces_from r (N.of_nat (length (prefix ++ bytes))) = true)
        by (rewrite app_length, Nat2N.inj_add; exact Hr).
      destruct bytes as [|x bytes'].
      + destruct (encode_str b nm r) as [[ts' offs']| |] eqn:Er; try discriminate.
        cbn in He. inversion He; subst ts offs.
        rewrite app_nil_r in Hn', Hr'. exact (IH prefix ts' offs' Hn' Hr' eq_refl).
      + remember (x :: bytes') as bytes eqn:Eb.
        destruct (encode_piece b bytes true) as [ids| |] eqn:Ep; try discriminate.
        assert (Hids : ids <> []) by (eapply encode_piece_nonempty; [exact Ep|subst bytes; discriminate]).
        destruct ids as [|i0 ids0]; [congruence|].
        rewrite N.add_0_r in He.
        destruct (map_offset nm (N.of_nat (length prefix))) as [off| |] eqn:Eo; try discriminate.
        destruct (encode_str b nm r) as [[ts' offs']| |] eqn:Er; try discriminate.
        inversion He; subst ts offs. clear He.
        destruct (IH (prefix ++ bytes) ts' offs' Hn' Hr' eq_refl) as [Hl [Hs [Hf _]]].
        assert (Hlt : N.of_nat (length prefix) < total).
        { rewrite Hn at 1. rewrite !app_length. subst bytes. cbn [length]. lia. }
        assert (Hgood : off_good (N.of_nat (length prefix)) off).
        { split; [exists (N.of_nat (length prefix)); repeat split; [lia|exact Hlt|exact Eo]|].
          apply (Hbnd (N.of_nat (length prefix))); [exact Hlt| |exact Eo].
          rewrite Hn. subst bytes. apply boundary_at_chunk. exact Hval. }
        assert (Hge : Forall (fun o => off <= o) offs').
        { eapply Forall_impl; [|exact Hf]. intros o [[base [H1 [H2 H3]]] _].
          apply (Hmono (N.of_nat (length prefix)) base); [|exact H2|exact Eo|exact H3].
          rewrite app_length, Nat2N.inj_add in H1. lia. }
        change (off :: repeat off (length ids0) ++ offs') with (repeat off (S (length ids0)) ++ offs').
        repeat split.
        * rewrite app_length, repeat_length, Hl. cbn [length app]. rewrite app_length. reflexivity.
        * apply sorted_le_repeat_app; assumption.
        * apply Forall_app. split.
          -- apply Forall_forall. intros o Hin. apply repeat_spec in Hin. subst o. exact Hgood.
          -- eapply Forall_impl; [|exact Hf]. intros o [[base [H1 [H2 H3]]] H4].
             split; [|exact H4]. exists base. repeat split; [|exact H2|exact H3].
             rewrite app_length, Nat2N.inj_add in H1. lia.
        * intros _. exists off. split; [reflexivity|reflexivity].
  Qed.

  Theorem tk_encode_offsets pieces ids offs :
    pieces_cover normalized pieces = true ->
    tk_encode b text nm pieces = Ok (ids, offs) ->
    match ids with
    | [] => offs = []
    | _ =>
        length offs = S (length ids) /\
        sorted_le offs = true /\
        Forall (fun o => o <= len /\ is_char_boundary text o = true) offs /\
        concat (slices text offs) = text /\
        length (slices text offs) = length ids /\
        forall i, (i < length ids)%nat ->
                  exists sl, text_for_token text offs i = Some sl /\ nth_error (slices text offs) i = Some sl
    end.
  Proof.
    intros Hcov He. unfold pieces_cover in Hcov. apply andb_true_iff in Hcov. destruct Hcov as [Hfrom Hcat].
    apply (list_eqb_spec N.eqb N.eqb_eq) in Hcat.
    unfold tk_encode in He. destruct (encode_str b nm pieces) as [[ts offs0]| |] eqn:Es; try discriminate.
    destruct (encode_str_offsets pieces [] ts offs0 (eq_sym Hcat) Hfrom Es) as [Hl [Hs [Hf Hhd]]].
    destruct ts as [|t0 ts']; [inversion He; subst; reflexivity|].
    inversion He; subst ids offs. clear He.
    destruct (Hhd ltac:(discriminate)) as [o0 [Hh Ho0]]. cbn [length N.of_nat] in Ho0.
    destruct offs0 as [|o0' offs1]; [discriminate|]. cbn in Hh. inversion Hh; subst o0'.
    assert (Htot : 0 < total).
    { inversion Hf as [|? ? [[base [_ [Hb _]]] _] _]; subst. lia. }
    assert (Hz : o0 = 0) by (apply Hzero; assumption). subst o0.
    assert (Hle : Forall (fun o => o <= len) (0 :: offs1))
      by (eapply Forall_impl; [|exact Hf]; intros o [_ [H _]]; exact H).
    assert (Hsorted : sorted_le ((0 :: offs1) ++ [len]) = true) by (apply sorted_le_snoc; assumption).
    assert (Hall : Forall (fun o => o <= len /\ is_char_boundary text o = true) ((0 :: offs1) ++ [len])).
    { apply Forall_app. split.
      - eapply Forall_impl; [|exact Hf]. intros o [_ H]; exact H.
      - constructor; [|constructor]. split; [lia|apply boundary_at_end]. }
    assert (Hlen : length ((0 :: offs1) ++ [len]) = S (length (t0 :: ts')))
      by (rewrite app_length, Hl; cbn [length]; lia).
    split; [exact Hlen|]. split; [exact Hsorted|]. split; [exact Hall|]. split; [|split].
    - pose proof (concat_slices text (offs1 ++ [len]) 0 Hsorted) as Hcs.
      rewrite last_last, sub_full in Hcs. exact Hcs.
    - pose proof (slices_length text ((0 :: offs1) ++ [len])) as Hsl. rewrite Hlen in Hsl. exact Hsl.
    - intros i Hi. set (offs := (0 :: offs1) ++ [len]) in *.
      destruct (nth_error offs i) as [s|] eqn:Ns; [|apply nth_error_None in Ns; lia].
      destruct (nth_error offs (S i)) as [e|] eqn:Ne; [|apply nth_error_None in Ne; lia].
      exists (sub text s e). split; [|apply slices_nth; assumption].
      unfold text_for_token. rewrite Ns.
      replace (Nat.eqb (S i) (length offs)) with false by (symmetry; apply Nat.eqb_neq; lia).
      rewrite Ne. unfold str_get.
      pose proof (sorted_le_nth offs i (S i) s e Hsorted ltac:(lia) Ns Ne) as Hse.
      rewrite Forall_forall in Hall.
      destruct (Hall s (nth_error_In _ _ Ns)) as [_ Hbs]. destruct (Hall e (nth_error_In _ _ Ne)) as [Hee Hbe].
      replace (s <=? e) with true by (symmetry; apply N.leb_le; exact Hse).
      replace (e <=? len) with true by (symmetry; apply N.leb_le; exact Hee).
      rewrite Hbs, Hbe. reflexivity.
  Qed.
End Offsets.

(* ---------------- instances of the normalizer hypotheses ---------------- *)
Lemma map_boundaries_spec text t m : forall k i,
  map_boundaries text t m i k = true ->
  forall j, i <= j -> j < i + N.of_nat k -> is_char_boundary t j = true ->
  exists x, nth_error m (N.to_nat j) = Some x /\ x <= N.of_nat (length text) /\ is_char_boundary text x = true.
Proof.
  induction k as [|k IH]; intros i H j H1 H2 Hb; [lia|].
  cbn [map_boundaries] in H. apply andb_true_iff in H. destruct H as [Hi Hr].
  destruct (N.eq_dec j i) as [->|Hne].
  - rewrite Hb in Hi. destruct (nth_error m (N.to_nat i)) as [x|]; [|discriminate].
    apply andb_true_iff in Hi. destruct Hi as [Hx1 Hx2]. apply N.leb_le in Hx1. exists x. auto.
  - apply (IH (i + 1) Hr j); [lia|lia|exact Hb].
Qed.

Theorem norm_ok_hyps text nm :
  norm_ok text nm = true ->
  let normalized := normalized_text text nm in
  let total := N.of_nat (length normalized) in
  let len := N.of_nat (length text) in
  (forall b1 b2 o1 o2, b1 <= b2 -> b2 < total ->
     map_offset nm b1 = Ok o1 -> map_offset nm b2 = Ok o2 -> o1 <= o2) /\
  (forall base o, base < total -> is_char_boundary normalized base = true ->
     map_offset nm base = Ok o -> o <= len /\ is_char_boundary text o = true) /\
  (forall o, 0 < total -> map_offset nm 0 = Ok o -> o = 0) /\
  (forall base, base < total -> exists x, map_offset nm base = Ok x).
Proof.
  intros H. destruct nm as [[t m]|]; cbn [normalized_text map_offset].
  - cbn [norm_ok] in H. apply andb_true_iff in H. destruct H as [H Hmb].
    apply andb_true_iff in H. destruct H as [H Hz]. apply andb_true_iff in H. destruct H as [Hlen Hs].
    apply Nat.eqb_eq in Hlen. cbv zeta.
    assert (Hb : forall base o, base < N.of_nat (length t) -> is_char_boundary t base = true ->
                 match nth_error m (N.to_nat base) with Some x => Ok x | None => Panic end = Ok o ->
                 o <= N.of_nat (length text) /\ is_char_boundary text o = true).
    { intros base o Hlt Hbd E.
      destruct (map_boundaries_spec text t m (length t) 0 Hmb base ltac:(lia) ltac:(lia) Hbd) as [x' [Hx [Hx1 Hx2]]].
      rewrite Hx in E. inversion E; subst. auto. }
    split; [|split; [exact Hb|split]].
    + intros b1 b2 o1 o2 H12 H2 E1 E2.
      destruct (nth_error m (N.to_nat b1)) as [x1|] eqn:N1; [|discriminate].
      destruct (nth_error m (N.to_nat b2)) as [x2|] eqn:N2; [|discriminate].
      inversion E1; inversion E2; subst. eapply (sorted_le_nth m); [exact Hs| |exact N1|exact N2]. lia.
    + intros o Ht E. cbn [N.to_nat] in E. destruct m as [|x m']; [discriminate|].
      cbn [nth_error] in E. inversion E; subst. apply N.eqb_eq in Hz. exact Hz.
    + intros base Hb'. destruct (nth_error m (N.to_nat base)) as [x|] eqn:N1; [eexists; reflexivity|].
      apply nth_error_None in N1. lia.
  - cbv zeta. split; [|split; [|split]].
    + intros b1 b2 o1 o2 H12 _ E1 E2. inversion E1; inversion E2; subst. exact H12.
    + intros base o Hlt Hbd E. inversion E; subst. split; [lia|exact Hbd].
    + intros o _ E. inversion E; reflexivity.
    + intros base _. eexists; reflexivity.
Qed.

Theorem offsets_monotone_boundaries_cover b text nm pieces ids offs :
  norm_ok text nm = true ->
  pieces_cover (normalized_text text nm) pieces = true ->
  tk_encode b text nm pieces = Ok (ids, offs) ->
  match ids with
  | [] => offs = []
  | _ =>
      length offs = S (length ids) /\
      sorted_le offs = true /\
      Forall (fun o => o <= N.of_nat (length text) /\ is_char_boundary text o = true) offs /\
      concat (slices text offs) = text /\
      length (slices text offs) = length ids /\
      forall i, (i < length ids)%nat ->
                exists sl, text_for_token text offs i = Some sl /\ nth_error (slices text offs) i = Some sl
  end.
Proof.
  intros Hn Hc He. destruct (norm_ok_hyps text nm Hn) as [H1 [H2 [H3 _]]].
  exact (tk_encode_offsets b text (normalized_text text nm) nm H1 H2 H3 pieces ids offs Hc He).
Qed.
