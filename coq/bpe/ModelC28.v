(* C28 correspondence case: one tokenizer configuration, every word over a small alphabet up
   to a length bound (enumerated identically on the Rust side) plus explicit extra words,
   and the token ids `Tokenizer::encode` returned for each of them. *)
From RV Require Import Prelude.
From Bpe Require Import ModelBpe.
Open Scope N_scope.


Record case := {
  m_opts : opts;
  m_new : new_out;                       (* what Bpe::new returned *)
  m_alpha : list (list N);               (* UTF-8 bytes of each alphabet symbol *)
  m_len : nat;
  m_extra : list (list N);               (* further words (UTF-8 bytes) *)
  m_out : list (option (list N));        (* ids per word; None = panic / error / timeout *)
  m_obs : list (N * str)                 (* Model::get_token_str of every id that occurs *)
}.

Fixpoint words_n (alpha : list (list N)) (n : nat) : list (list N) :=
  match n with
  | O => [[]]
  | S k => flat_map (fun s => map (fun w => s ++ w) (words_n alpha k)) alpha
  end.
Definition all_words (alpha : list (list N)) (len : nat) : list (list N) :=
  flat_map (words_n alpha) (seq 0 (S len)).
Definition case_words (c : case) : list (list N) := all_words (m_alpha c) (m_len c) ++ m_extra c.

Definition opt_eqb {A} (e : A -> A -> bool) (a b : option A) : bool :=
  match a, b with
  | Some x, Some y => e x y
  | None, None => true
  | _, _ => false
  end.
Definition ids_eqb : list N -> list N -> bool := list_eqb N.eqb.

(* Tokenizer::encode without a pre-tokenizer: the whole text is the only chunk *)
Definition model_ids (b : bpe) (w : list N) : option (list N) :=
  match tk_encode b w None [(0, w)] with
  | Ok (ids, _) => Some ids
  | _ => None
  end.

Fixpoint obs_get (obs : list (N * str)) (id : N) : option str :=
  match obs with
  | [] => None
  | (id', s) :: r => if id' =? id then Some s else obs_get r id
  end.

Definition agree (c : case) : bool :=
  match bpe_new (m_opts c), m_new c with
  | inl b, NewOk =>
      list_eqb (opt_eqb ids_eqb) (map (model_ids b) (case_words c)) (m_out c)
      && forallb (fun p => opt_eqb N.eqb (v_get (b_vocab_all b) (snd p)) (Some (fst p))) (m_obs c)
  | inr e, NewErr e' => new_err_eqb e e' && match m_out c with [] => true | _ => false end
  | _, _ => false
  end.

(* ---- the property oracle: the implementation's ids, read back through the implementation's
   own id -> string map, are the pieces of the string-level reference, and each id is the
   vocabulary's id of its string ---- *)
Definition ref_pieces_v (sv : vocab) (o : opts) (w : list N) : list str :=
  let whole := if o_ignore o then
                 match v_get sv (map byte_to_char w) with
                 | Some _ => match w with [] => false | _ => true end
                 | None => false
                 end
               else false in
  if whole then [map byte_to_char w]
  else reference_str (o_merges o) (init_word (norm_eow (o_eow o)) w).

Definition ref_pieces (o : opts) (w : list N) : list str := ref_pieces_v (spec_vocab o) o w.

(* [sv] = spec_vocab (m_opts c), computed once per case *)
Definition word_ok_v (sv : vocab) (c : case) (w : list N) (out : option (list N)) : bool :=
  match out with
  | None => false
  | Some ids =>
      match all_some (map (obs_get (m_obs c)) ids) with
      | None => false
      | Some strs =>
          list_eqb str_eqb strs (ref_pieces_v sv (m_opts c) w)
          && forallb (fun p => opt_eqb N.eqb (v_get sv (snd p)) (Some (fst p)))
                     (combine ids strs)
      end
  end.

Definition word_ok (c : case) := word_ok_v (spec_vocab (m_opts c)) c.

Fixpoint forallb2 {A B} (f : A -> B -> bool) (a : list A) (b : list B) : bool :=
  match a, b with
  | [], [] => true
  | x :: a', y :: b' => f x y && forallb2 f a' b'
  | _, _ => false
  end.

Definition prop_ok (c : case) : bool :=
  match m_new c with
  | NewOk => let sv := spec_vocab (m_opts c) in forallb2 (word_ok_v sv c) (case_words c) (m_out c)
  | NewErr _ => true         (* no tokenizer was built: nothing to compare *)
  | _ => false
  end.

(* replay aid: the first word on which something is off, with the three answers *)
Fixpoint first_bad (sv : vocab) (c : case) (b : option bpe) (ws : list (list N)) (outs : list (option (list N)))
  : option (list N * option (list N) * option (list N) * list str) :=
  match ws, outs with
  | w :: ws', o :: outs' =>
      let m := match b with Some b => model_ids b w | None => None end in
      if word_ok_v sv c w o && opt_eqb ids_eqb m o then first_bad sv c b ws' outs'
      else Some (w, m, o, ref_pieces_v sv (m_opts c) w)
  | _, _ => None
  end.
Definition show (c : case) :=
  let b := match bpe_new (m_opts c) with inl b => Some b | inr _ => None end in
  (match bpe_new (m_opts c) with inl _ => NewOk | inr e => NewErr e end,
   first_bad (spec_vocab (m_opts c)) c b (case_words c) (m_out c)).
