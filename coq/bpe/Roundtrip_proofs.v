(* C27, part 1: the byte <-> char tables are mutually inverse, merging preserves the
   concatenation of the pieces, and decode (encode text) = text. *)
From RV Require Import Prelude.
From Bpe Require Import ModelBpe Ref_proofs Merge_proofs Encode_proofs.
Open Scope N_scope.

(* ---------------- tables ---------------- *)
Lemma in_bytes256 b : b < 256 -> In b bytes256.
Proof.
  intros H. unfold bytes256. replace b with (N.of_nat (N.to_nat b)) by apply N2Nat.id.
  apply in_map. apply in_seq. lia.
Qed.

Definition b2c_roundtrip_b (b : N) : bool :=
  match char_to_byte (byte_to_char b) with Some b' => b' =? b | None => false end.

Lemma byte_to_char_to_byte b : b < 256 -> char_to_byte (byte_to_char b) = Some b.
Proof.
  intros H. assert (HA : forallb b2c_roundtrip_b bytes256 = true) by (vm_compute; reflexivity).
  rewrite forallb_forall in HA. specialize (HA b (in_bytes256 b H)). unfold b2c_roundtrip_b in HA.
  destruct (char_to_byte (byte_to_char b)) as [b'|]; [|discriminate]. apply N.eqb_eq in HA. congruence.
Qed.

Lemma c2b_scan_spec : forall tbl b0 c found r,
  c2b_scan tbl b0 c found = Some r ->
  found = Some r \/ exists k, nth_error tbl k = Some c /\ r = b0 + N.of_nat k.
Proof.
  induction tbl as [|ch tbl IH]; intros b0 c found r H; cbn [c2b_scan] in H; [left; exact H|].
  apply IH in H. destruct H as [H|[k [Hk Hr]]].
  - destruct (ch =? c) eqn:E; [|left; exact H].
    inversion H; subst. apply N.eqb_eq in E. subst. right. exists O. split; [reflexivity|lia].
  - right. exists (S k). split; [exact Hk|lia].
Qed.

Lemma char_to_byte_to_char c b : char_to_byte c = Some b -> b < 256 /\ byte_to_char b = c.
Proof.
  unfold char_to_byte. intros H. apply c2b_scan_spec in H. destruct H as [H|[k [Hk Hr]]]; [discriminate|].
  assert (Hlt : (k < length byte_to_char_tbl)%nat) by (apply nth_error_Some; congruence).
  rewrite byte_tbl_length in Hlt. subst b. split; [lia|].
  unfold byte_to_char. rewrite N.add_0_l, Nat2N.id. apply nth_error_nth. exact Hk.
Qed.

Theorem byte_char_bijection :
  (forall b, b < 256 -> char_to_byte (byte_to_char b) = Some b) /\
  (forall c b, char_to_byte c = Some b -> b < 256 /\ byte_to_char b = c) /\
  byte_to_char_tbl = byte_to_char_tbl_spec /\ length byte_to_char_tbl = 256%nat.
Proof.
  split; [exact byte_to_char_to_byte|]. split; [exact char_to_byte_to_char|].
  split; [vm_compute; reflexivity|reflexivity].
Qed.

(* ---------------- merging preserves the concatenation ---------------- *)
Section Concat.
  Context {A B : Type} (eqb : A -> A -> bool) (D : A -> list B).
  Hypothesis eqb_sound : forall x y, eqb x y = true -> x = y.

  Lemma merge_all_flat a b m ts :
    D m = D a ++ D b -> flat_map D (merge_all eqb a b m ts) = flat_map D ts.
  Proof.
    intros Hm. remember (length ts) as n eqn:Hn. revert ts Hn.
    induction n as [n IH] using lt_wf_ind. intros ts Hn.
    destruct ts as [|x [|y r]]; [reflexivity|reflexivity|].
    rewrite merge_all_eq. destruct (eqb x a && eqb y b) eqn:E.
    - apply andb_true_iff in E. destruct E as [E1 E2]. apply eqb_sound in E1, E2. subst x y.
      cbn [flat_map]. rewrite Hm, <- app_assoc. f_equal. f_equal.
      apply (IH (length r)); [subst n; cbn [length]; lia|reflexivity].
    - cbn [flat_map]. f_equal. change (D y ++ flat_map D r) with (flat_map D (y :: r)).
      apply (IH (length (y :: r))); [subst n; cbn [length]; lia|reflexivity].
  Qed.

  Lemma ref_choose_In tbl ts e : ref_choose eqb tbl ts = Some e -> In e tbl.
  Proof.
    induction tbl as [|[[a0 b0] m0] r IH]; cbn [ref_choose]; [discriminate|].
    destruct (negb (in_keys eqb a0 b0 r) && has_pair eqb a0 b0 ts).
    - intros H; inversion H; subst. left; reflexivity.
    - intros H. right. apply IH. exact H.
  Qed.

  Lemma ref_bpe_flat tbl :
    (forall a b m, In (a, b, m) tbl -> D m = D a ++ D b) ->
    forall fuel ts, flat_map D (ref_bpe eqb fuel tbl ts) = flat_map D ts.
  Proof.
    intros HT. induction fuel as [|fuel IH]; intros ts; [reflexivity|].
    cbn [ref_bpe]. destruct (ref_choose eqb tbl ts) as [[[a b] m]|] eqn:E; [|reflexivity].
    rewrite IH. apply merge_all_flat. apply HT. eapply ref_choose_In; eassumption.
  Qed.
End Concat.

Lemma flat_map_id {B} (l : list (list B)) : flat_map (fun x => x) l = concat l.
Proof. induction l as [|x l IH]; [reflexivity|]. cbn. rewrite IH. reflexivity. Qed.

Theorem merge_preserves_concat merges word :
  concat (reference_str merges word) = concat word.
Proof.
  unfold reference_str, reference. rewrite <- !flat_map_id.
  apply (ref_bpe_flat str_eqb (fun x : str => x)).
  - intros x y H. apply str_eqb_spec. exact H.
  - intros a b m Hin. unfold str_table in Hin. apply in_map_iff in Hin.
    destruct Hin as [[sa sb] [E _]]. cbn [fst snd] in E. inversion E; subst. reflexivity.
Qed.

(* the same for the token ids bpe_merge returns, for any reading D of ids as byte strings that
   is compatible with the table *)
Theorem bpe_merge_preserves_concat {B} (D : tok -> list B) mm tbl ts r :
  mm_models mm tbl ->
  (forall a b m, In (a, b, m) tbl -> D m = D a ++ D b) ->
  bpe_merge mm ts = Ok r -> flat_map D r = flat_map D ts.
Proof.
  intros HM HT H. rewrite (bpe_merge_eq_reference mm tbl ts HM) in H. inversion H; subst.
  unfold reference. apply (ref_bpe_flat N.eqb D); [|exact HT].
  intros x y E. apply N.eqb_eq. exact E.
Qed.

(* ---------------- decoding ---------------- *)
Lemma all_some_app_eq {A} (l1 l2 : list (option A)) :
  all_some (l1 ++ l2) =
  match all_some l1, all_some l2 with Some r1, Some r2 => Some (r1 ++ r2) | _, _ => None end.
Proof.
  induction l1 as [|[x|] l1 IH]; cbn [app all_some].
  - destruct (all_some l2); reflexivity.
  - rewrite IH. destruct (all_some l1), (all_some l2); reflexivity.
  - reflexivity.
Qed.

Lemma all_some_app {A} (l1 l2 : list (option A)) r :
  all_some (l1 ++ l2) = Some r <->
  exists r1 r2, all_some l1 = Some r1 /\ all_some l2 = Some r2 /\ r = r1 ++ r2.
Proof.
  rewrite all_some_app_eq. destruct (all_some l1) as [r1|], (all_some l2) as [r2|]; split;
    try discriminate; try (intros [q1 [q2 [G1 [G2 G3]]]]; discriminate).
  - intros H; inversion H; subst. exists r1, r2. auto.
  - intros [q1 [q2 [G1 [G2 G3]]]]. inversion G1; inversion G2; subst. reflexivity.
Qed.

Lemma dec_str_app s1 s2 r :
  dec_str (s1 ++ s2) = Some r <->
  exists r1 r2, dec_str s1 = Some r1 /\ dec_str s2 = Some r2 /\ r = r1 ++ r2.
Proof. unfold dec_str. rewrite map_app. apply all_some_app. Qed.

Lemma dec_str_byte_chars piece :
  Forall (fun x => x < 256) piece -> dec_str (map byte_to_char piece) = Some piece.
Proof.
  induction 1 as [|x l Hx _ IH]; [reflexivity|].
  unfold dec_str in *. cbn [map all_some]. rewrite (byte_to_char_to_byte x Hx), IH. reflexivity.
Qed.

Lemma dec_str_concat : forall strs bytes,
  dec_str (concat strs) = Some bytes ->
  exists bl, map dec_str strs = map Some bl /\ concat bl = bytes.
Proof.
  induction strs as [|s strs IH]; intros bytes H.
  - cbn in H. inversion H. exists []. auto.
  - cbn [concat] in H. apply dec_str_app in H. destruct H as [r1 [r2 [H1 [H2 H3]]]].
    destruct (IH _ H2) as [bl [Hb Hc]]. exists (r1 :: bl). cbn [map concat]. rewrite H1, Hb, Hc. auto.
Qed.

Lemma concat_singletons {X Y} (f : X -> Y) l : concat (map (fun b => [f b]) l) = map f l.
Proof. induction l as [|x l IH]; [reflexivity|]. cbn. rewrite IH. reflexivity. Qed.

(* vocabulary as a finite map with distinct keys and distinct ids *)
Lemma v_get_In v s id : v_get v s = Some id -> In (s, id) v.
Proof.
  induction v as [|[k i] v IH]; cbn [v_get]; [discriminate|].
  destruct (str_eqb k s) eqn:E.
  - intros H; inversion H; subst. apply str_eqb_spec in E. subst. left; reflexivity.
  - intros H. right. apply IH. exact H.
Qed.

Lemma In_v_get v s id : NoDup (map fst v) -> In (s, id) v -> v_get v s = Some id.
Proof.
  induction v as [|[k i] v IH]; intros ND Hin; [destruct Hin|].
  cbn [map fst] in ND. inversion ND as [|? ? Hnot ND']; subst. cbn [v_get].
  destruct Hin as [E|Hin].
  - inversion E; subst. rewrite str_eqb_refl. reflexivity.
  - destruct (str_eqb k s) eqn:E.
    + apply str_eqb_spec in E. subst. exfalso. apply Hnot. apply in_map_iff. exists (s, id). auto.
    + apply IH; assumption.
Qed.

Lemma id_to_str_In v id k : id_to_str v id = Some k -> In (k, id) v.
Proof.
  induction v as [|[k' i] v IH]; cbn [id_to_str]; [discriminate|].
  destruct (i =? id) eqn:E.
  - intros H; inversion H; subst. apply N.eqb_eq in E. subst. left; reflexivity.
  - intros H. right. apply IH. exact H.
Qed.

Lemma In_id_to_str v id s : In (s, id) v -> exists k, id_to_str v id = Some k.
Proof.
  induction v as [|[k' i] v IH]; intros Hin; [destruct Hin|]. cbn [id_to_str].
  destruct (i =? id) eqn:E; [eexists; reflexivity|].
  destruct Hin as [H|H]; [inversion H; subst; rewrite N.eqb_refl in E; discriminate|]. apply IH. exact H.
Qed.

Lemma id_to_str_of_get v s id :
  NoDup (map fst v) -> vocab_inj v -> v_get v s = Some id -> id_to_str v id = Some s.
Proof.
  intros ND Hinj H. pose proof (v_get_In _ _ _ H) as Hin.
  destruct (In_id_to_str _ _ _ Hin) as [k Hk]. rewrite Hk. f_equal.
  apply id_to_str_In in Hk. apply (In_v_get _ _ _ ND) in Hk. eapply Hinj; eassumption.
Qed.

Lemma decode_bytes_app b : forall i1 i2 b1 b2,
  decode_bytes b i1 = DecOk b1 -> decode_bytes b i2 = DecOk b2 ->
  decode_bytes b (i1 ++ i2) = DecOk (b1 ++ b2).
Proof.
  induction i1 as [|id i1 IH]; intros i2 b1 b2 H1 H2.
  - cbn in H1. inversion H1; subst. exact H2.
  - cbn [app decode_bytes] in *.
    destruct (match a_get (b_added b) id with
              | Some s => DecOk s
              | None => match id_to_str (b_vocab_all b) id with
                        | Some enc => match dec_str enc with Some bs => DecOk bs | None => DecPanic end
                        | None => DecInvalidId id
                        end
              end) as [bs| | |]; try discriminate.
    destruct (decode_bytes b i1) as [rest| | |] eqn:E; try discriminate.
    inversion H1; subst. rewrite (IH i2 rest b2 eq_refl H2), app_assoc. reflexivity.
Qed.

(* every byte of valid UTF-8 is below 256 (in fact below 245) *)
Lemma utf8_valid_bytes : forall bs, utf8_valid bs = true -> Forall (fun x => x < 256) bs.
Proof.
  intros bs. remember (length bs) as n eqn:Hn. revert bs Hn.
  induction n as [n IH] using lt_wf_ind. intros bs Hn H.
  destruct bs as [|b0 r]; [constructor|]. cbn [utf8_valid] in H.
  assert (Hrec : forall l, (length l < n)%nat -> utf8_valid l = true -> Forall (fun x => x < 256) l)
    by (intros l Hl Hv; exact (IH (length l) Hl l eq_refl Hv)).
  subst n. cbn [length] in Hrec.
  unfold in_rng, cont in H.
  destruct (b0 <? 128) eqn:E0.
  { apply N.ltb_lt in E0. constructor; [lia|]. apply Hrec; [lia|exact H]. }
  destruct ((194 <=? b0) && (b0 <=? 223)) eqn:E1.
  { destruct r as [|b1 r1]; [discriminate|]. apply andb_true_iff in H. destruct H as [Hc Hv].
    apply andb_true_iff in E1, Hc. destruct E1 as [_ E1], Hc as [_ Hc]. apply N.leb_le in E1, Hc.
    constructor; [lia|]. constructor; [lia|]. apply Hrec; [cbn [length]; lia|exact Hv]. }
  destruct ((224 <=? b0) && (b0 <=? 239)) eqn:E2.
  { destruct r as [|b1 [|b2 r2]]; try discriminate.
    apply andb_true_iff in H. destruct H as [H Hv]. apply andb_true_iff in H. destruct H as [H1 H2].
    apply andb_true_iff in E2, H2. destruct E2 as [_ E2], H2 as [_ H2]. apply N.leb_le in E2, H2.
    assert (Hb1 : b1 < 256).
    { destruct (b0 =? 224); [|destruct (b0 =? 237)]; apply andb_true_iff in H1; destruct H1 as [_ H1];
        apply N.leb_le in H1; lia. }
    constructor; [lia|]. constructor; [exact Hb1|]. constructor; [lia|].
    apply Hrec; [cbn [length]; lia|exact Hv]. }
  destruct ((240 <=? b0) && (b0 <=? 244)) eqn:E3; [|discriminate].
  destruct r as [|b1 [|b2 [|b3 r3]]]; try discriminate.
  apply andb_true_iff in H. destruct H as [H Hv]. apply andb_true_iff in H. destruct H as [H H3].
  apply andb_true_iff in H. destruct H as [H1 H2].
  apply andb_true_iff in E3, H2, H3. destruct E3 as [_ E3], H2 as [_ H2], H3 as [_ H3].
  apply N.leb_le in E3, H2, H3.
  assert (Hb1 : b1 < 256).
  { destruct (b0 =? 240); [|destruct (b0 =? 244)]; apply andb_true_iff in H1; destruct H1 as [_ H1];
      apply N.leb_le in H1; lia. }
  constructor; [lia|]. constructor; [exact Hb1|]. constructor; [lia|]. constructor; [lia|].
  apply Hrec; [cbn [length]; lia|exact Hv].
Qed.

Section RoundTrip.
  Variable o : opts.
  Variable b : bpe.
  Hypothesis Hnew : bpe_new o = inl b.
  Hypothesis Hinj : vocab_inj (spec_vocab o).
  Hypothesis Hlen : N.of_nat (length (o_merges o)) <= 4294967296.
  Hypothesis Hkeys : NoDup (map fst (spec_vocab o)).
  Hypothesis Hadded : added_ok (spec_vocab o) (o_added o).
  Hypothesis Hnoeow : norm_eow (o_eow o) = None.

  Let v := spec_vocab o.

  (* the strings behind the ids encode_piece returns concatenate to the piece's byte chars *)
  Lemma encode_piece_strs piece :
    Forall (fun x => x < 256) piece ->
    exists ids strs, encode_piece b piece true = Ok ids /\
                     map (v_get v) strs = map Some ids /\
                     concat strs = map byte_to_char piece.
  Proof.
    intros Hb. unfold encode_piece.
    destruct (new_facts o b Hnew) as [mm [b2t [_ [_ [_ [_ [Ei [Ev _]]]]]]]].
    destruct (whole_piece b piece) as [id|] eqn:W.
    - unfold whole_piece in W. rewrite Ei, Ev in W.
      destruct (o_ignore o); [|discriminate].
      exists [id], [map byte_to_char piece]. split; [reflexivity|]. cbn [map concat].
      fold v in W. rewrite W, app_nil_r. auto.
    - destruct (encode_piece_merges_eq_reference_str o b Hnew Hinj Hlen piece true Hb) as [ids [He Hm]].
      rewrite Hnoeow in Hm. cbv zeta in Hm.
      exists ids, (reference_str (o_merges o) (init_word None piece)).
      split; [exact He|]. split; [exact Hm|].
      rewrite merge_preserves_concat, init_word_none. apply concat_singletons.
  Qed.

  Lemma decode_ids_of_strs : forall strs ids bl,
    map (v_get v) strs = map Some ids -> map dec_str strs = map Some bl ->
    decode_bytes b ids = DecOk (concat bl).
  Proof.
    destruct (new_facts o b Hnew) as [mm [b2t [_ [_ [_ [_ [_ [_ [Eva [Ead _]]]]]]]]]].
    induction strs as [|s strs IH]; intros ids bl Hv Hd.
    - destruct ids; [|discriminate]. destruct bl; [|discriminate]. reflexivity.
    - destruct ids as [|id ids]; [discriminate|]. destruct bl as [|bs bl]; [discriminate|].
      cbn [map] in Hv, Hd. inversion Hv as [[Hs Hv']]. inversion Hd as [[Hds Hd']].
      cbn [decode_bytes concat]. rewrite Eva, Ead. fold v.
      rewrite (IH _ _ Hv' Hd').
      destruct (a_get (o_added o) id) as [content|] eqn:EA.
      + rewrite (Hadded id content EA s (v_get_In _ _ _ Hs)) in Hds. inversion Hds; subst. reflexivity.
      + rewrite (id_to_str_of_get v s id Hkeys Hinj Hs), Hds. reflexivity.
  Qed.

  Lemma encode_piece_decodes piece :
    Forall (fun x => x < 256) piece ->
    exists ids, encode_piece b piece true = Ok ids /\ decode_bytes b ids = DecOk piece /\
                (piece <> [] -> ids <> []).
  Proof.
    intros Hb. destruct (encode_piece_strs piece Hb) as [ids [strs [He [Hv Hc]]]].
    exists ids. split; [exact He|].
    pose proof (dec_str_byte_chars piece Hb) as Hd. rewrite <- Hc in Hd.
    destruct (dec_str_concat _ _ Hd) as [bl [Hbl Hcat]]. split.
    - rewrite (decode_ids_of_strs strs ids bl Hv Hbl), Hcat. reflexivity.
    - intros Hne Hids. subst ids. destruct strs; [|discriminate]. cbn in Hc.
      destruct piece; [congruence|discriminate].
  Qed.

  (* encode_str over consecutive valid-UTF-8 chunks, with any normalizer map that is defined
     on the chunk starts *)
  Lemma encode_str_decodes nm total : forall pieces at_,
    pieces_from pieces at_ = true ->
    at_ + N.of_nat (length (concat (map snd pieces))) <= total ->
    (forall base, base < total -> exists x, map_offset nm base = Ok x) ->
    exists ts offs, encode_str b nm pieces = Ok (ts, offs) /\
                    decode_bytes b ts = DecOk (concat (map snd pieces)) /\
                    (concat (map snd pieces) <> [] -> ts <> []).
  Proof.
    induction pieces as [|[base bytes] r IH]; intros at_ Hp Htot Hmap.
    - exists [], []. split; [reflexivity|]. split; [reflexivity|]. cbn. congruence.
    - cbn [pieces_from] in Hp. apply andb_true_iff in Hp. destruct Hp as [Hp Hr].
      apply andb_true_iff in Hp. destruct Hp as [Hbase Hval]. apply N.eqb_eq in Hbase. subst base.
      cbn [map snd concat] in Htot |- *. rewrite app_length, Nat2N.inj_add in Htot.
      destruct (IH _ Hr ltac:(lia) Hmap) as [ts' [offs' [He' [Hd' Hne']]]].
      cbn [encode_str]. destruct bytes as [|x bytes'].
      + rewrite He'. exists ts', (repeat 0 0 ++ offs'). cbn [app repeat length].
        split; [reflexivity|]. split; [exact Hd'|exact Hne'].
      + remember (x :: bytes') as bytes eqn:Eb.
        destruct (encode_piece_decodes bytes (utf8_valid_bytes _ Hval)) as [ids [He [Hd Hne]]].
        rewrite He. assert (Hids : ids <> []) by (apply Hne; subst bytes; discriminate).
        destruct ids as [|i0 ids0]; [congruence|].
        rewrite N.add_0_r.
        destruct (Hmap at_) as [off Hoff].
        { subst bytes. cbn [length] in Htot. lia. }
        rewrite Hoff, He'. eexists. eexists. split; [reflexivity|]. split.
        * apply decode_bytes_app; assumption.
        * intros _. discriminate.
  Qed.

  Theorem decode_encode text nm pieces :
    utf8_valid text = true ->
    normalized_text text nm = text ->
    (forall base, base < N.of_nat (length text) -> exists x, map_offset nm base = Ok x) ->
    pieces_cover (normalized_text text nm) pieces = true ->
    exists ids offs, tk_encode b text nm pieces = Ok (ids, offs) /\ decode b ids = DecOk text.
  Proof.
    intros Hvalid Hnorm Hmap Hcov. rewrite Hnorm in Hcov. unfold pieces_cover in Hcov. apply andb_true_iff in Hcov.
    destruct Hcov as [Hfrom Hcat]. apply (list_eqb_spec N.eqb N.eqb_eq) in Hcat.
    destruct (encode_str_decodes nm (N.of_nat (length text)) pieces 0 Hfrom
                ltac:(rewrite Hcat; lia) Hmap) as [ts [offs [He [Hd Hne]]]].
    unfold tk_encode. rewrite He. rewrite Hcat in Hd.
    destruct ts as [|t0 ts'].
    - exists [], []. split; [reflexivity|]. unfold decode. cbn in Hd. inversion Hd as [Ht].
      cbn [decode_bytes]. reflexivity.
    - eexists. eexists. split; [reflexivity|]. unfold decode. rewrite Hd, Hvalid. reflexivity.
  Qed.
End RoundTrip.

(* the pre-tokenizer as an arbitrary function that splits its input *)
Theorem decode_encode_pretok o b :
  bpe_new o = inl b -> vocab_inj (spec_vocab o) ->
  N.of_nat (length (o_merges o)) <= 4294967296 ->
  NoDup (map fst (spec_vocab o)) -> added_ok (spec_vocab o) (o_added o) ->
  norm_eow (o_eow o) = None ->
  forall pretok : list N -> list piece,
    (forall text, utf8_valid text = true -> pieces_cover text (pretok text) = true) ->
    forall text, utf8_valid text = true ->
    exists ids offs, tk_encode b text None (pretok text) = Ok (ids, offs) /\ decode b ids = DecOk text.
Proof.
  intros H1 H2 H3 H4 H5 H6 pretok Hsplit text Hv.
  apply (decode_encode o b H1 H2 H3 H4 H5 H6 text None (pretok text) Hv eq_refl).
  - intros base _. eexists; reflexivity.
  - apply Hsplit. exact Hv.
Qed.
