(* The default vocabulary (BpeOptions::vocab = None, no end-of-word suffix) built by
   build_vocab has pairwise distinct keys and pairwise distinct ids, so it satisfies the
   vocabulary hypotheses of the C27/C28 theorems for every merge list. *)
From RV Require Import Prelude.
From Bpe Require Import ModelBpe Ref_proofs Merge_proofs Encode_proofs Roundtrip_proofs.
Open Scope N_scope.

Definition wf (v : vocab) : Prop := NoDup (map fst v) /\ NoDup (map snd v).

Lemma v_set_In v k id : forall k' i,
  In (k', i) (v_set v k id) -> (k' = k /\ i = id) \/ In (k', i) v.
Proof.
  induction v as [|[k0 i0] r IH]; intros k' i H; cbn [v_set] in H.
  - destruct H as [H|[]]. inversion H; auto.
  - destruct (str_eqb k0 k) eqn:E.
    + destruct H as [H|H].
      * inversion H; subst. apply str_eqb_spec in E. subst. auto.
      * right. right. exact H.
    + destruct H as [H|H]; [right; left; exact H|].
      destruct (IH _ _ H) as [H'|H']; [left; exact H'|right; right; exact H'].
Qed.

Lemma in_map_fst {A B} (l : list (A * B)) k : In k (map fst l) -> exists i, In (k, i) l.
Proof. intros H. apply in_map_iff in H. destruct H as [[k' i] [E H]]. cbn in E. subst. exists i. exact H. Qed.
Lemma in_map_snd {A B} (l : list (A * B)) i : In i (map snd l) -> exists k, In (k, i) l.
Proof. intros H. apply in_map_iff in H. destruct H as [[k i'] [E H]]. cbn in E. subst. exists k. exact H. Qed.

Lemma v_set_keys_nodup v k id : NoDup (map fst v) -> NoDup (map fst (v_set v k id)).
Proof.
  induction v as [|[k0 i0] r IH]; intros ND; cbn [v_set].
  - cbn. constructor; [intros []|constructor].
  - cbn [map fst] in ND. inversion ND as [|? ? Hn ND']; subst.
    destruct (str_eqb k0 k) eqn:E; cbn [map fst]; [constructor; assumption|].
    constructor; [|apply IH; exact ND'].
    intros Hin. apply in_map_fst in Hin. destruct Hin as [i Hin].
    apply v_set_In in Hin. destruct Hin as [[Hk _]|Hin].
    + subst. rewrite str_eqb_refl in E. discriminate.
    + apply Hn. apply in_map_iff. exists (k0, i). auto.
Qed.

Lemma v_set_ids_nodup v k id :
  NoDup (map snd v) -> ~ In id (map snd v) -> NoDup (map snd (v_set v k id)).
Proof.
  induction v as [|[k0 i0] r IH]; intros ND Hid; cbn [v_set].
  - cbn. constructor; [intros []|constructor].
  - cbn [map snd] in ND, Hid. inversion ND as [|? ? Hn ND']; subst.
    destruct (str_eqb k0 k) eqn:E; cbn [map snd].
    + constructor; [intros H; apply Hid; right; exact H|exact ND'].
    + constructor; [|apply IH; [exact ND'|intros H; apply Hid; right; exact H]].
      intros Hin. apply in_map_snd in Hin. destruct Hin as [k' Hin].
      apply v_set_In in Hin. destruct Hin as [[_ Hi]|Hin].
      * apply Hid. left. exact Hi.
      * apply Hn. apply in_map_iff. exists (k', i0). auto.
Qed.

Lemma v_set_ids_bound v k id bnd :
  Forall (fun i => i < bnd) (map snd v) -> id < bnd -> Forall (fun i => i < bnd) (map snd (v_set v k id)).
Proof.
  intros HF Hid. apply Forall_forall. intros i Hin. apply in_map_snd in Hin. destruct Hin as [k' Hin].
  apply v_set_In in Hin. destruct Hin as [[_ ->]|Hin]; [exact Hid|].
  rewrite Forall_forall in HF. apply HF. apply in_map_iff. exists (k', i). auto.
Qed.

Lemma wf_inj v : wf v -> vocab_inj v.
Proof.
  intros [_ NDi] s1 s2 i H1 H2. apply v_get_In in H1, H2.
  clear -NDi H1 H2. induction v as [|[k0 i0] r IH]; [destruct H1|].
  cbn [map snd] in NDi. inversion NDi as [|? ? Hn ND']; subst.
  destruct H1 as [H1|H1], H2 as [H2|H2].
  - congruence.
  - inversion H1; subst. exfalso. apply Hn. apply in_map_iff. exists (s2, i). auto.
  - inversion H2; subst. exfalso. apply Hn. apply in_map_iff. exists (s1, i). auto.
  - apply IH; assumption.
Qed.

(* boolean duplicate check, to establish the facts about the 256-entry constant by computation *)
Fixpoint nodupb {A} (e : A -> A -> bool) (l : list A) : bool :=
  match l with [] => true | x :: r => negb (existsb (e x) r) && nodupb e r end.
Lemma nodupb_NoDup {A} (e : A -> A -> bool) :
  (forall x y, e x y = true <-> x = y) -> forall l, nodupb e l = true -> NoDup l.
Proof.
  intros He. induction l as [|x r IH]; intros H; [constructor|].
  cbn [nodupb] in H. apply andb_true_iff in H. destruct H as [H1 H2]. constructor; [|apply IH; exact H2].
  intros Hin. apply negb_true_iff in H1. assert (HH : existsb (e x) r = true).
  { apply existsb_exists. exists x. split; [exact Hin|]. apply He. reflexivity. }
  congruence.
Qed.

Lemma byte_vocab_wf : wf byte_vocab /\ Forall (fun i => i < 256) (map snd byte_vocab) /\ length byte_vocab = 256%nat.
Proof.
  split; [split|split].
  - apply (nodupb_NoDup str_eqb str_eqb_spec). vm_compute. reflexivity.
  - apply (nodupb_NoDup N.eqb N.eqb_eq). vm_compute. reflexivity.
  - apply Forall_forall. intros i Hin.
    assert (HA : forallb (fun i => i <? 256) (map snd byte_vocab) = true) by (vm_compute; reflexivity).
    rewrite forallb_forall in HA. apply N.ltb_lt. apply HA. exact Hin.
  - reflexivity.
Qed.

(* the merge part of build_vocab: every new id start + n is above all ids so far *)
Lemma merge_fold_wf start : forall merges v n,
  wf v -> Forall (fun i => i < start + n) (map snd v) ->
  start + n + N.of_nat (length merges) <= 4294967296 -> start < 4294967296 ->
  wf (fst (fold_left (fun (acc : vocab * N) (ab : str * str) =>
                        (v_set (fst acc) (fst ab ++ snd ab) (wrap32 (start + wrap32 (snd acc))), snd acc + 1))
                     merges (v, n))).
Proof.
  induction merges as [|[a b] r IH]; intros v n Hwf Hb Hlen Hs; [exact Hwf|].
  cbn [fold_left fst snd]. cbn [length] in Hlen.
  assert (Hid : wrap32 (start + wrap32 n) = start + n).
  { rewrite (wrap32_small n) by lia. apply wrap32_small. lia. }
  rewrite Hid. apply IH.
  - destruct Hwf as [Hk Hi]. split; [apply v_set_keys_nodup; exact Hk|].
    apply v_set_ids_nodup; [exact Hi|]. intros Hin. rewrite Forall_forall in Hb. specialize (Hb _ Hin). lia.
  - apply v_set_ids_bound; [|lia]. eapply Forall_impl; [|exact Hb]. intros i Hi. cbn in Hi. lia.
  - lia.
  - exact Hs.
Qed.

Theorem default_vocab_wellformed merges :
  N.of_nat (length merges) + 256 <= 4294967296 ->
  NoDup (map fst (build_vocab merges None)) /\ vocab_inj (build_vocab merges None).
Proof.
  intros Hlen. destruct byte_vocab_wf as [Hwf [Hb Hl]].
  assert (W : wf (build_vocab merges None)).
  { unfold build_vocab, v_len. rewrite Hl. change (wrap32 (N.of_nat 256)) with 256.
    apply merge_fold_wf; [exact Hwf| |lia|lia].
    eapply Forall_impl; [|exact Hb]. intros i Hi. cbn in Hi. lia. }
  split; [exact (proj1 W)|apply wf_inj; exact W].
Qed.

(* round trip for the default vocabulary: no hypothesis on the vocabulary is left *)
Theorem decode_encode_default_vocab merges added ig b :
  let o := {| o_merges := merges; o_vocab := None; o_added := added; o_eow := None; o_ignore := ig |} in
  N.of_nat (length merges) + 256 <= 4294967296 ->
  added_ok (build_vocab merges None) added ->
  bpe_new o = inl b ->
  forall pretok : list N -> list piece,
    (forall text, utf8_valid text = true -> pieces_cover text (pretok text) = true) ->
    forall text, utf8_valid text = true ->
    exists ids offs, tk_encode b text None (pretok text) = Ok (ids, offs) /\ decode b ids = DecOk text.
Proof.
  intros o Hlen Hadd Hnew. destruct (default_vocab_wellformed merges Hlen) as [Hk Hi].
  apply (decode_encode_pretok o b Hnew); try assumption; try reflexivity. cbn. lia.
Qed.
