(* C27 correspondence cases.
   CTable: the implementation's char_to_byte() map, to pin the 256-entry tables.
   CTok:   one tokenizer (Bpe options) with several texts run through Tokenizer::encode and
           Tokenizer::decode, plus decode probes on arbitrary id sequences.  The normalizer's
           and the pre-tokenizer's answers for each text are inputs (oracles). *)
From RV Require Import Prelude.
From Bpe Require Import ModelBpe.
Open Scope N_scope.

Inductive enc_out :=
| EncOk (ids offs : list N) (slices : list (option (list N)))   (* slices: text_for_token_range(i..i+1) *)
| EncErr
| EncPanic.

Record run := {
  r_text : list N;                 (* UTF-8 bytes of the input *)
  r_norm : norm;                   (* normalizer output, if a normalizer is configured *)
  r_pieces : list piece;           (* pre-tokenizer output on the normalized text *)
  r_enc : enc_out;                 (* Tokenizer::encode(text, None) *)
  r_dec : dec_res                  (* Tokenizer::decode of the ids encode returned *)
}.

Inductive case :=
| CTable (c2b : list (N * N))                           (* (char, byte), sorted by byte *)
| CTok (o : opts) (new : new_out)
       (split_expected : bool)    (* the configured pre-tokenizer is one that must not drop text *)
       (runs : list run) (decs : list (list N * dec_res)).

Definition opt_eqb {A} (e : A -> A -> bool) (a b : option A) : bool :=
  match a, b with
  | Some x, Some y => e x y
  | None, None => true
  | _, _ => false
  end.
Definition ids_eqb : list N -> list N -> bool := list_eqb N.eqb.

Definition dec_eqb (a b : dec_res) : bool :=
  match a, b with
  | DecOk x, DecOk y => ids_eqb x y
  | DecInvalidUtf8, DecInvalidUtf8 => true
  | DecInvalidId x, DecInvalidId y => x =? y
  | DecPanic, DecPanic => true
  | _, _ => false
  end.

Definition model_slices (text : list N) (ids offs : list N) : list (option (list N)) :=
  map (text_for_token text offs) (seq 0 (length ids)).

Definition run_agree (b : bpe) (r : run) : bool :=
  match tk_encode b (r_text r) (r_norm r) (r_pieces r), r_enc r with
  | Ok (ids, offs), EncOk ids' offs' sl' =>
      ids_eqb ids ids' && ids_eqb offs offs'
      && list_eqb (opt_eqb ids_eqb) (model_slices (r_text r) ids offs) sl'
      && dec_eqb (decode b ids') (r_dec r)
  | Panic, EncPanic => true
  | _, _ => false
  end.

Definition model_c2b : list (N * N) := map (fun b => (byte_to_char b, b)) bytes256.

Definition agree (c : case) : bool :=
  match c with
  | CTable t => list_eqb (fun p q => (fst p =? fst q) && (snd p =? snd q)) model_c2b t
  | CTok o new _ runs decs =>
      match bpe_new o, new with
      | inl b, NewOk =>
          forallb (run_agree b) runs
          && forallb (fun d => dec_eqb (decode b (fst d)) (snd d)) decs
      | inr e, NewErr e' => new_err_eqb e e' && match runs, decs with [], [] => true | _, _ => false end
      | _, _ => false
      end
  end.

(* ---- the property oracle, on the implementation's own output ---- *)
Fixpoint all_some_l {A} (l : list (option A)) : option (list A) :=
  match l with
  | [] => Some []
  | Some x :: r => match all_some_l r with Some r' => Some (x :: r') | None => None end
  | None :: _ => None
  end.

(* offsets: non-decreasing, on char boundaries within the input, slices concatenate to it *)
Definition offsets_ok (text : list N) (ids offs : list N) (sl : list (option (list N))) : bool :=
  sorted_le offs
  && forallb (fun o => (o <=? N.of_nat (length text)) && is_char_boundary text o) offs
  && match all_some_l sl with
     | Some ss => Nat.eqb (length ss) (length ids) && ids_eqb (concat ss) text
     | None => false
     end.

(* the hypotheses under which the property is claimed for a run *)
Definition splitting (r : run) : bool :=
  utf8_valid (r_text r) && pieces_cover (normalized_text (r_text r) (r_norm r)) (r_pieces r).
Definition lossless (r : run) : bool :=
  match r_norm r with None => true | Some (t, _) => ids_eqb t (r_text r) end.

(* the property on the implementation's own output: offsets (when the normalizer's map is
   usable) and round trip (when the normalizer left the text unchanged) *)
Definition run_body (r : run) : bool :=
  match r_enc r with
  | EncOk ids offs sl =>
      (if norm_ok (r_text r) (r_norm r) then offsets_ok (r_text r) ids offs sl else true)
      && (if lossless r then dec_eqb (r_dec r) (DecOk (r_text r)) else true)
  | _ => false
  end.
(* With a pre-tokenizer that is meant to split (GPT-2, Llama-3, BERT, digits, isolating splits,
   none) the property is evaluated unconditionally: if the real pre-tokenizer dropped text, the
   implementation's decode(encode(s)) <> s is the failure.  Only for the deliberately lossy
   configurations (delimiter removal) is the check conditional on the chunks covering the text. *)
Definition run_ok (split_expected : bool) (r : run) : bool :=
  if split_expected then run_body r
  else if splitting r then run_body r else true.

(* byte <-> char: the implementation's map is a bijection between 0..255 and 256 distinct chars *)
Fixpoint nodup_n (l : list N) : bool :=
  match l with [] => true | x :: r => negb (existsb (N.eqb x) r) && nodup_n r end.
Definition table_ok (t : list (N * N)) : bool :=
  ids_eqb (map snd t) bytes256 && nodup_n (map fst t).

(* tokenizers under the theorem's hypotheses: no end-of-word suffix, distinct ids, and an
   added token whose id is also a vocabulary id has that entry's text as its content *)
Definition ids_distinct (v : vocab) : bool := nodup_n (map snd v).
Definition added_consistent (v : vocab) (added : list (tok * list N)) : bool :=
  forallb (fun a =>
             forallb (fun e => if snd e =? fst a
                               then opt_eqb ids_eqb (all_some (map char_to_byte (fst e))) (Some (snd a))
                               else true) v) added.
Definition in_scope (o : opts) : bool :=
  match norm_eow (o_eow o) with Some _ => false | None => true end
  && ids_distinct (spec_vocab o) && added_consistent (spec_vocab o) (o_added o).

Definition prop_ok (c : case) : bool :=
  match c with
  | CTable t => table_ok t
  | CTok o new se runs _ =>
      match new with
      | NewOk => if in_scope o then forallb (run_ok se) runs else true
      | NewErr _ => true
      | _ => false
      end
  end.

(* replay aid *)
Definition show_run (se : bool) (b : bpe) (r : run) :=
  (r_text r, tk_encode b (r_text r) (r_norm r) (r_pieces r), r_enc r, r_dec r,
   (splitting r, norm_ok (r_text r) (r_norm r), lossless r, run_ok se r)).
Definition show (c : case) :=
  match c with
  | CTable t => (None, [], [])
  | CTok o new se runs decs =>
      match bpe_new o with
      | inl b =>
          (Some (NewOk, in_scope o),
           map (show_run se b) (filter (fun r => negb (run_agree b r && run_ok se r)) runs),
           filter (fun d => negb (dec_eqb (decode b (fst d)) (snd d))) decs)
      | inr e => (Some (NewErr e, false), [], [])
      end
  end.
