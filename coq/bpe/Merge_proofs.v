(* bpe_merge (the loop the code runs) = the reference procedure, on token ids. *)
From RV Require Import Prelude.
From Bpe Require Import ModelBpe Ref_proofs.
Open Scope N_scope.

(* ---------------- vector operations ---------------- *)
Lemma nth_error_app_len {A} (pre : list A) x r : nth_error (pre ++ x :: r) (length pre) = Some x.
Proof. induction pre; cbn; auto. Qed.

Lemma nth_error_app_len_S {A} (pre : list A) x y r :
  nth_error (pre ++ x :: y :: r) (S (length pre)) = Some y.
Proof. induction pre; cbn; auto. Qed.

Lemma set_nth_app_len {A} (pre : list A) x z r : set_nth (length pre) z (pre ++ x :: r) = pre ++ z :: r.
Proof. induction pre as [|p pre IH]; cbn; [reflexivity|]. rewrite IH. reflexivity. Qed.

Lemma remove_at_app_len_S {A} (pre : list A) x y r :
  remove_at (S (length pre)) (pre ++ x :: y :: r) = pre ++ x :: r.
Proof. induction pre as [|p pre IH]; cbn; [reflexivity|]. cbn in IH. rewrite IH. reflexivity. Qed.

(* ---------------- one pass of the index loop ---------------- *)
Lemma merge_loop_spec a b m : forall fuel pre rest,
  (length rest < fuel)%nat -> pre ++ rest <> [] ->
  merge_loop fuel a b m (pre ++ rest) (length pre) = Ok (pre ++ merge_all N.eqb a b m rest).
Proof.
  induction fuel as [|fuel IH]; intros pre rest Hf Hne; [lia|].
  cbn [merge_loop].
  destruct (length (pre ++ rest)) as [|lm1] eqn:Hl.
  { destruct pre, rest; cbn in Hl; try discriminate. cbn in Hne. congruence. }
  rewrite app_length in Hl.
  destruct rest as [|x [|y r]].
  - cbn [length] in Hl. replace (Nat.ltb (length pre) lm1) with false
      by (symmetry; apply Nat.ltb_ge; lia). reflexivity.
  - cbn [length] in Hl. replace (Nat.ltb (length pre) lm1) with false
      by (symmetry; apply Nat.ltb_ge; lia). reflexivity.
  - cbn [length] in Hl, Hf. replace (Nat.ltb (length pre) lm1) with true
      by (symmetry; apply Nat.ltb_lt; lia).
    rewrite nth_error_app_len, nth_error_app_len_S, merge_all_eq.
    destruct ((x =? a) && (y =? b)).
    + rewrite set_nth_app_len, remove_at_app_len_S.
      replace (pre ++ m :: r) with ((pre ++ [m]) ++ r) by (rewrite <- app_assoc; reflexivity).
      replace (S (length pre)) with (length (pre ++ [m])) by (rewrite app_length; cbn; lia).
      rewrite IH; [rewrite <- app_assoc; reflexivity|lia|].
      destruct pre; cbn; discriminate.
    + replace (pre ++ x :: y :: r) with ((pre ++ [x]) ++ y :: r) by (rewrite <- app_assoc; reflexivity).
      replace (S (length pre)) with (length (pre ++ [x])) by (rewrite app_length; cbn; lia).
      rewrite IH; [rewrite <- app_assoc; reflexivity|cbn [length]; lia|].
      destruct pre; cbn; discriminate.
Qed.

Lemma merge_pass_eq a b m ts : ts <> [] ->
  merge_loop (S (length ts)) a b m ts 0 = Ok (merge_all N.eqb a b m ts).
Proof.
  intros Hne. exact (merge_loop_spec a b m (S (length ts)) [] ts ltac:(lia) Hne).
Qed.

(* ---------------- min_by_key over the windows ---------------- *)
Definition cand := ((tok * tok) * (N * tok))%type.
Definition c_rank (c : cand) : N := fst (snd c).

Lemma min_pair_eq mm a b r best :
  min_pair mm (a :: b :: r) best =
  min_pair mm (b :: r)
    match mm_get mm a b with
    | None => best
    | Some (rk, mg) =>
        match best with
        | None => Some ((a, b), (rk, mg))
        | Some (_, (rk0, _)) => if rk <? rk0 then Some ((a, b), (rk, mg)) else best
        end
    end.
Proof. reflexivity. Qed.

Lemma min_pair_short mm ts best : (length ts < 2)%nat -> min_pair mm ts best = best.
Proof. destruct ts as [|x [|y r]]; cbn [length]; intros; try lia; reflexivity. Qed.

(* the result is the accumulator or comes from a window of ts that the map knows *)
Lemma min_pair_from mm : forall ts best p v,
  min_pair mm ts best = Some (p, v) ->
  best = Some (p, v) \/ (has_pair N.eqb (fst p) (snd p) ts = true /\ mm_get mm (fst p) (snd p) = Some v).
Proof.
  intros ts. remember (length ts) as n eqn:Hn. revert ts Hn.
  induction n as [n IH] using lt_wf_ind. intros ts Hn best p v H.
  destruct ts as [|x [|y r]]; [left; exact H|left; exact H|].
  rewrite min_pair_eq in H. rewrite has_pair_eq.
  apply (IH (length (y :: r))) in H; [|subst n; cbn [length]; lia|reflexivity].
  destruct H as [H|[H1 H2]].
  - destruct (mm_get mm x y) as [[rk mg]|] eqn:G; [|left; exact H].
    assert (Hnew : Some ((x, y), (rk, mg)) = Some (p, v) ->
                   ((x =? fst p) && (y =? snd p) || has_pair N.eqb (fst p) (snd p) (y :: r)) = true /\
                   mm_get mm (fst p) (snd p) = Some v).
    { intros E. inversion E; subst. cbn [fst snd]. rewrite !N.eqb_refl. split; [reflexivity|exact G]. }
    destruct best as [[p0 [rk0 m0]]|].
    + destruct (rk <? rk0); [right; apply Hnew; exact H|left; exact H].
    + right; apply Hnew; exact H.
  - right. split; [apply orb_true_iff; right; exact H1|exact H2].
Qed.

(* the result's rank is <= the accumulator's and <= that of every known window *)
Lemma min_pair_le mm : forall ts best p v,
  min_pair mm ts best = Some (p, v) ->
  (forall p0 v0, best = Some (p0, v0) -> fst v <= fst v0) /\
  (forall a b v', has_pair N.eqb a b ts = true -> mm_get mm a b = Some v' -> fst v <= fst v').
Proof.
  intros ts. remember (length ts) as n eqn:Hn. revert ts Hn.
  induction n as [n IH] using lt_wf_ind. intros ts Hn best p v H.
  destruct ts as [|x [|y r]].
  - cbn in H. subst best. split; [intros ? ? E; inversion E; lia|intros ? ? ? Hp; discriminate].
  - cbn in H. subst best. split; [intros ? ? E; inversion E; lia|intros ? ? ? Hp; discriminate].
  - rewrite min_pair_eq in H.
    apply (IH (length (y :: r))) in H; [|subst n; cbn [length]; lia|reflexivity].
    destruct H as [Hb Hw]. split.
    + intros p0 v0 E. subst best.
      destruct (mm_get mm x y) as [[rk mg]|]; [|eapply Hb; reflexivity].
      destruct v0 as [rk0 m0]. destruct (rk <? rk0) eqn:L.
      * specialize (Hb _ _ eq_refl). cbn [fst] in *. apply N.ltb_lt in L. lia.
      * eapply Hb; reflexivity.
    + intros a b v' Hp G. rewrite has_pair_eq in Hp. apply orb_true_iff in Hp.
      destruct Hp as [Hp|Hp]; [|eapply Hw; eassumption].
      apply andb_true_iff in Hp. destruct Hp as [E1 E2].
      apply N.eqb_eq in E1, E2. subst x y. rewrite G in Hb. destruct v' as [rk mg].
      destruct best as [[p0 [rk0 m0]]|].
      * destruct (rk <? rk0) eqn:L.
        -- specialize (Hb _ _ eq_refl). exact Hb.
        -- specialize (Hb _ _ eq_refl). cbn [fst] in *. apply N.ltb_ge in L. lia.
      * specialize (Hb _ _ eq_refl). exact Hb.
Qed.

Lemma min_pair_none mm : forall ts best,
  min_pair mm ts best = None ->
  best = None /\ (forall a b, has_pair N.eqb a b ts = true -> mm_get mm a b = None).
Proof.
  intros ts. remember (length ts) as n eqn:Hn. revert ts Hn.
  induction n as [n IH] using lt_wf_ind. intros ts Hn best H.
  destruct ts as [|x [|y r]]; [split; [exact H|intros; discriminate]|split; [exact H|intros; discriminate]|].
  rewrite min_pair_eq in H.
  apply (IH (length (y :: r))) in H; [|subst n; cbn [length]; lia|reflexivity].
  destruct H as [Hb Hw].
  destruct (mm_get mm x y) as [[rk mg]|] eqn:G.
  - destruct best as [[p0 [rk0 m0]]|]; [destruct (rk <? rk0)|]; discriminate.
  - split; [exact Hb|]. intros a b Hp. rewrite has_pair_eq in Hp. apply orb_true_iff in Hp.
    destruct Hp as [Hp|Hp]; [|apply Hw; exact Hp].
    apply andb_true_iff in Hp. destruct Hp as [E1 E2]. apply N.eqb_eq in E1, E2. subst. exact G.
Qed.

(* ---------------- rank semantics ---------------- *)
Lemma eff_none_in_keys tbl a b : eff tbl a b = None <-> in_keys N.eqb a b tbl = false.
Proof.
  induction tbl as [|[[a0 b0] m0] r IH]; cbn [eff in_keys]; [tauto|].
  destruct (eff r a b) as [[i m]|].
  - split; [discriminate|]. intros H. apply orb_false_iff in H. destruct H as [_ H].
    apply IH in H. discriminate.
  - destruct ((a0 =? a) && (b0 =? b)); cbn [orb]; [split; discriminate|]. tauto.
Qed.

Lemma eff_lt tbl a b i m : eff tbl a b = Some (i, m) -> (i < length tbl)%nat.
Proof.
  revert i m. induction tbl as [|[[a0 b0] m0] r IH]; cbn [eff length]; intros i m; [discriminate|].
  destruct (eff r a b) as [[i' m']|].
  - intros H; inversion H; subst. specialize (IH _ _ eq_refl). lia.
  - destruct ((a0 =? a) && (b0 =? b)); [|discriminate]. intros H; inversion H; lia.
Qed.

Lemma eff_inj tbl : forall a b a' b' i m m',
  eff tbl a b = Some (i, m) -> eff tbl a' b' = Some (i, m') -> a = a' /\ b = b' /\ m = m'.
Proof.
  induction tbl as [|[[a0 b0] m0] r IH]; cbn [eff]; intros a b a' b' i m m'; [discriminate|].
  destruct (eff r a b) as [[i1 m1]|] eqn:E1; destruct (eff r a' b') as [[i2 m2]|] eqn:E2.
  - intros H1 H2; inversion H1; inversion H2; subst. inversion H2; subst. eapply IH; eassumption.
  - intros H1. inversion H1; subst. destruct ((a0 =? a') && (b0 =? b')); discriminate.
  - destruct ((a0 =? a) && (b0 =? b)); [|discriminate]. intros H1 H2. inversion H1; subst. discriminate.
  - destruct ((a0 =? a) && (b0 =? b)) eqn:F1; [|discriminate].
    destruct ((a0 =? a') && (b0 =? b')) eqn:F2; [|discriminate].
    intros H1 H2; inversion H1; inversion H2; subst.
    apply andb_true_iff in F1, F2. destruct F1 as [F1 F1'], F2 as [F2 F2'].
    apply N.eqb_eq in F1, F1', F2, F2'. subst. auto.
Qed.

(* eff = "the LAST index at which the pair is listed" *)
Lemma eff_spec tbl a b i m :
  eff tbl a b = Some (i, m) <->
  (nth_error tbl i = Some (a, b, m) /\
   forall j m', (i < j)%nat -> nth_error tbl j <> Some (a, b, m')).
Proof.
  revert i m. induction tbl as [|[[a0 b0] m0] r IH]; intros i m.
  - cbn [eff]. split; [discriminate|]. intros [H _]. destruct i; discriminate.
  - cbn [eff]. destruct (eff r a b) as [[i1 m1]|] eqn:E.
    + pose proof (proj1 (IH i1 m1) eq_refl) as [Hn Hl]. split.
      * intros H; inversion H; subst. split; [exact Hn|].
        intros j m' Hj. destruct j as [|j]; [lia|]. cbn [nth_error]. apply Hl. lia.
      * intros [H1 H2]. destruct i as [|i].
        -- exfalso. apply (H2 (S i1) m1); [lia|exact Hn].
        -- cbn [nth_error] in H1.
           assert (Hi : Some (i1, m1) = Some (i, m)).
           { apply IH. split; [exact H1|]. intros j m' Hj. apply (H2 (S j) m'). lia. }
           inversion Hi; subst. reflexivity.
    + assert (Hnone : forall j m', nth_error r j <> Some (a, b, m')).
      { intros j m' Hj. assert (HH : in_keys N.eqb a b r = true).
        { clear -Hj. revert j Hj. induction r as [|[[a1 b1] m1] r IHr]; intros j Hj; [destruct j; discriminate|].
          destruct j as [|j]; cbn [nth_error] in Hj.
          - inversion Hj; subst. cbn [in_keys]. rewrite !N.eqb_refl. reflexivity.
          - cbn [in_keys]. rewrite (IHr _ Hj). apply orb_true_r. }
        apply eff_none_in_keys in E. congruence. }
      destruct ((a0 =? a) && (b0 =? b)) eqn:F.
      * apply andb_true_iff in F. destruct F as [F1 F2]. apply N.eqb_eq in F1, F2. subst a0 b0. split.
        -- intros H; inversion H; subst. split; [reflexivity|].
           intros j m' Hj. destruct j as [|j]; [lia|]. cbn [nth_error]. apply Hnone.
        -- intros [H1 H2]. destruct i as [|i]; cbn [nth_error] in H1; [inversion H1; reflexivity|].
           exfalso. eapply Hnone; eassumption.
      * split; [discriminate|]. intros [H1 _]. destruct i as [|i]; cbn [nth_error] in H1.
        -- inversion H1; subst. rewrite !N.eqb_refl in F. discriminate.
        -- exfalso. eapply Hnone; eassumption.
Qed.

(* what the reference picks: the present pair of least effective rank *)
Lemma ref_choose_some tbl ts : forall a b m,
  ref_choose N.eqb tbl ts = Some (a, b, m) ->
  exists i, eff tbl a b = Some (i, m) /\ has_pair N.eqb a b ts = true /\
            forall a' b' j m', has_pair N.eqb a' b' ts = true -> eff tbl a' b' = Some (j, m') -> (i <= j)%nat.
Proof.
  induction tbl as [|[[a0 b0] m0] r IH]; intros a b m; cbn [ref_choose]; [discriminate|].
  destruct (negb (in_keys N.eqb a0 b0 r) && has_pair N.eqb a0 b0 ts) eqn:C.
  - intros H; inversion H; subst. apply andb_true_iff in C. destruct C as [C1 C2].
    apply negb_true_iff in C1. apply eff_none_in_keys in C1.
    exists O. cbn [eff]. rewrite C1, !N.eqb_refl. cbn [andb]. split; [reflexivity|]. split; [exact C2|]. intros; lia.
  - intros H. destruct (IH _ _ _ H) as [i [E [Hp Hmin]]].
    exists (S i). cbn [eff]. rewrite E. split; [reflexivity|]. split; [exact Hp|].
    intros a' b' j m' Hp' E'. destruct (eff r a' b') as [[j1 m1]|] eqn:E1.
    + inversion E'; subst. specialize (Hmin _ _ _ _ Hp' E1). lia.
    + destruct ((a0 =? a') && (b0 =? b')) eqn:F; [|discriminate].
      apply andb_true_iff in F. destruct F as [F1 F2]. apply N.eqb_eq in F1, F2. subst a0 b0.
      apply eff_none_in_keys in E1. rewrite E1, Hp' in C. discriminate.
Qed.

Lemma ref_choose_none tbl ts :
  ref_choose N.eqb tbl ts = None ->
  forall a b, has_pair N.eqb a b ts = true -> eff tbl a b = None.
Proof.
  induction tbl as [|[[a0 b0] m0] r IH]; cbn [ref_choose]; intros H a b Hp; [reflexivity|].
  destruct (negb (in_keys N.eqb a0 b0 r) && has_pair N.eqb a0 b0 ts) eqn:C; [discriminate|].
  cbn [eff]. rewrite (IH H a b Hp).
  destruct ((a0 =? a) && (b0 =? b)) eqn:F; [|reflexivity].
  apply andb_true_iff in F. destruct F as [F1 F2]. apply N.eqb_eq in F1, F2. subst a0 b0.
  pose proof (IH H a b Hp) as E. apply eff_none_in_keys in E. rewrite E, Hp in C. discriminate.
Qed.

(* the hash map built by build_merge_map represents the table's rank semantics *)
Definition mm_models (mm : mmap) (tbl : list (tok * tok * tok)) : Prop :=
  forall a b, mm_get mm a b =
              match eff tbl a b with Some (i, m) => Some (N.of_nat i, m) | None => None end.

Lemma min_pair_ref_choose mm tbl ts : mm_models mm tbl ->
  match min_pair mm ts None with
  | Some ((a, b), (_, m)) => ref_choose N.eqb tbl ts = Some (a, b, m)
  | None => ref_choose N.eqb tbl ts = None
  end.
Proof.
  intros HM. destruct (min_pair mm ts None) as [[[a b] [rk m]]|] eqn:E.
  - destruct (min_pair_from _ _ _ _ _ E) as [H|[Hp G]]; [discriminate|]. cbn [fst snd] in Hp, G.
    destruct (min_pair_le _ _ _ _ _ E) as [_ Hle].
    rewrite HM in G. destruct (eff tbl a b) as [[i mi]|] eqn:Ei; [|discriminate]. inversion G; subst rk mi.
    destruct (ref_choose N.eqb tbl ts) as [[[a' b'] m']|] eqn:R.
    + destruct (ref_choose_some _ _ _ _ _ R) as [i' [Ei' [Hp' Hmin]]].
      specialize (Hmin _ _ _ _ Hp Ei).
      assert (G' : mm_get mm a' b' = Some (N.of_nat i', m')) by (rewrite HM, Ei'; reflexivity).
      specialize (Hle _ _ _ Hp' G'). cbn [fst] in Hle.
      assert (i = i') by lia. subst i'.
      destruct (eff_inj _ _ _ _ _ _ _ _ Ei Ei') as [? [? ?]]. subst. reflexivity.
    + pose proof (ref_choose_none _ _ R _ _ Hp) as Hn. congruence.
  - destruct (min_pair_none _ _ _ E) as [_ Hn].
    destruct (ref_choose N.eqb tbl ts) as [[[a' b'] m']|] eqn:R; [|reflexivity].
    destruct (ref_choose_some _ _ _ _ _ R) as [i' [Ei' [Hp' _]]].
    specialize (Hn _ _ Hp'). rewrite HM, Ei' in Hn. discriminate.
Qed.

(* ---------------- the outer loop ---------------- *)
Lemma bpe_merge_loop_eq mm tbl : mm_models mm tbl -> forall fuel ts,
  (length ts < fuel)%nat -> bpe_merge_loop fuel mm ts = Ok (reference N.eqb tbl ts).
Proof.
  intros HM. induction fuel as [|fuel IH]; intros ts Hf; [lia|].
  cbn [bpe_merge_loop]. pose proof (min_pair_ref_choose mm tbl ts HM) as HC.
  rewrite (reference_unfold N.eqb tbl ts).
  destruct (min_pair mm ts None) as [[[a b] [rk m]]|].
  - rewrite HC. pose proof (ref_choose_has_pair _ _ _ _ _ _ HC) as Hp.
    rewrite merge_pass_eq by (intros ->; discriminate).
    apply IH. pose proof (merge_all_length_lt N.eqb a b m ts Hp). unfold tok in *. lia.
  - rewrite HC. reflexivity.
Qed.

Theorem bpe_merge_eq_reference mm tbl ts :
  mm_models mm tbl -> bpe_merge mm ts = Ok (reference N.eqb tbl ts).
Proof. intros HM. apply bpe_merge_loop_eq; [exact HM|lia]. Qed.

(* termination and panic-freedom need nothing about the map *)
Lemma bpe_merge_loop_total mm : forall fuel ts,
  (length ts < fuel)%nat -> exists r, bpe_merge_loop fuel mm ts = Ok r /\ (length r <= length ts)%nat
                                    /\ (ts <> [] -> r <> []).
Proof.
  induction fuel as [|fuel IH]; intros ts Hf; [lia|].
  cbn [bpe_merge_loop]. destruct (min_pair mm ts None) as [[[a b] [rk m]]|] eqn:E.
  - destruct (min_pair_from _ _ _ _ _ E) as [H|[Hp _]]; [discriminate|]. cbn [fst snd] in Hp.
    rewrite merge_pass_eq by (intros ->; discriminate).
    pose proof (merge_all_length_lt N.eqb a b m ts Hp) as Hlt.
    unfold tok in *.
    destruct (IH (merge_all N.eqb a b m ts) ltac:(lia)) as [r [Hr [Hl Hne]]].
    exists r. split; [exact Hr|]. split; [lia|]. intros Hts. apply Hne. apply merge_all_nonempty. exact Hts.
  - exists ts. split; [reflexivity|]. split; [lia|auto].
Qed.

Theorem bpe_merge_terminates mm ts :
  (forall a b m ts', has_pair N.eqb a b ts' = true ->
                     (length (merge_all N.eqb a b m ts') < length ts')%nat) /\
  exists r, bpe_merge mm ts = Ok r /\ (length r <= length ts)%nat /\ (ts <> [] -> r <> []).
Proof.
  split; [intros; apply merge_all_length_lt; assumption|].
  apply bpe_merge_loop_total. lia.
Qed.

(* ---------------- build_merge_map ---------------- *)
Lemma build_merge_map_get v : forall merges i acc mm tbl,
  build_merge_map v merges i acc = Some mm -> id_table v merges = Some tbl ->
  forall a b, mm_get mm a b =
              match eff tbl a b with
              | Some (k, m) => Some (wrap32 (i + N.of_nat k), m)
              | None => mm_get acc a b
              end.
Proof.
  induction merges as [|[sa sb] r IH]; intros i acc mm tbl HB HT a b.
  - cbn in HB, HT. inversion HB; inversion HT; subst. reflexivity.
  - cbn [build_merge_map] in HB. unfold id_table in HT. cbn [map all_some] in HT.
    unfold id_entry in HT at 1. cbn [fst snd] in HT.
    destruct (v_get v sa) as [ia|]; [|discriminate].
    destruct (v_get v sb) as [ib|]; [|discriminate].
    destruct (v_get v (sa ++ sb)) as [im|]; [|discriminate].
    destruct (all_some (map (id_entry v) r)) as [tbl'|] eqn:HT'; [|discriminate].
    inversion HT; subst tbl. rewrite (IH _ _ _ _ HB HT' a b). cbn [eff].
    destruct (eff tbl' a b) as [[k m]|].
    + f_equal. f_equal. f_equal. lia.
    + cbn [mm_get]. destruct ((ia =? a) && (ib =? b)); [|reflexivity].
      f_equal. f_equal. f_equal. lia.
Qed.

Lemma build_merge_map_table v : forall merges i acc mm,
  build_merge_map v merges i acc = Some mm -> exists tbl, id_table v merges = Some tbl.
Proof.
  induction merges as [|[sa sb] r IH]; intros i acc mm HB; [exists []; reflexivity|].
  cbn [build_merge_map] in HB. unfold id_table. cbn [map all_some]. unfold id_entry at 1. cbn [fst snd].
  destruct (v_get v sa) as [ia|]; [|discriminate].
  destruct (v_get v sb) as [ib|]; [|discriminate].
  destruct (v_get v (sa ++ sb)) as [im|]; [|discriminate].
  destruct (IH _ _ _ HB) as [tbl' HT']. unfold id_table in HT'. rewrite HT'. eexists; reflexivity.
Qed.

Lemma all_some_length {A} (l : list (option A)) r : all_some l = Some r -> length r = length l.
Proof.
  revert r. induction l as [|[x|] l IH]; intros r; cbn [all_some]; try discriminate.
  - intros H; inversion H; reflexivity.
  - destruct (all_some l); [|discriminate]. intros H; inversion H; subst. cbn [length]. f_equal. apply IH. reflexivity.
Qed.

Lemma wrap32_small x : x < 4294967296 -> wrap32 x = x.
Proof. intros. unfold wrap32. apply N.mod_small. assumption. Qed.

Theorem build_merge_map_models v merges mm :
  (N.of_nat (length merges) <= 4294967296) ->
  build_merge_map v merges 0 [] = Some mm ->
  exists tbl, id_table v merges = Some tbl /\ mm_models mm tbl.
Proof.
  intros Hlen HB. destruct (build_merge_map_table _ _ _ _ _ HB) as [tbl HT].
  exists tbl. split; [exact HT|]. intros a b.
  rewrite (build_merge_map_get _ _ _ _ _ _ HB HT a b).
  destruct (eff tbl a b) as [[k m]|] eqn:E; [|reflexivity].
  apply eff_lt in E. unfold id_table in HT. apply all_some_length in HT. rewrite map_length in HT.
  rewrite N.add_0_l, wrap32_small by lia. reflexivity.
Qed.

(* "rank = index of the last listing", spelled out with nth_error *)
Theorem build_merge_map_rank v merges mm tbl :
  (N.of_nat (length merges) <= 4294967296) ->
  build_merge_map v merges 0 [] = Some mm -> id_table v merges = Some tbl ->
  forall a b r m,
    mm_get mm a b = Some (r, m) <->
    exists i, r = N.of_nat i /\ nth_error tbl i = Some (a, b, m) /\
              forall j m', (i < j)%nat -> nth_error tbl j <> Some (a, b, m').
Proof.
  intros Hlen HB HT a b r m.
  destruct (build_merge_map_models _ _ _ Hlen HB) as [tbl' [HT' HM]].
  rewrite HT in HT'. inversion HT'; subst tbl'. rewrite HM. split.
  - destruct (eff tbl a b) as [[i mi]|] eqn:E; [|discriminate].
    intros H; inversion H; subst. exists i. split; [reflexivity|]. apply eff_spec. exact E.
  - intros [i [Hr Hs]]. apply eff_spec in Hs. rewrite Hs. subst r. reflexivity.
Qed.

Theorem bpe_merge_eq_reference_built v merges mm ts :
  N.of_nat (length merges) <= 4294967296 ->
  build_merge_map v merges 0 [] = Some mm ->
  exists tbl, id_table v merges = Some tbl /\ bpe_merge mm ts = Ok (reference N.eqb tbl ts).
Proof.
  intros Hl HB. destruct (build_merge_map_models v merges mm Hl HB) as [tbl [HT HM]].
  exists tbl. split; [exact HT|]. exact (bpe_merge_eq_reference mm tbl ts HM).
Qed.
