(* Facts about the reference BPE procedure, generic in the symbol type: it shortens the word
   in every round, |word| rounds suffice, its result admits no further merge, and it commutes
   with any map that is injective on the symbols involved. *)
From RV Require Import Prelude.
From Bpe Require Import ModelBpe.

Section Generic.
  Context {A : Type} (eqb : A -> A -> bool).

  Lemma merge_all_eq a b m x y r :
    merge_all eqb a b m (x :: y :: r) =
    if eqb x a && eqb y b then m :: merge_all eqb a b m r else x :: merge_all eqb a b m (y :: r).
  Proof. reflexivity. Qed.
  Lemma has_pair_eq a b x y r :
    has_pair eqb a b (x :: y :: r) = (eqb x a && eqb y b) || has_pair eqb a b (y :: r).
  Proof. reflexivity. Qed.

  Lemma has_pair_length a b ts : has_pair eqb a b ts = true -> (2 <= length ts)%nat.
  Proof.
    destruct ts as [|x [|y r]]; [discriminate|discriminate|]. intros _. cbn [length]. lia.
  Qed.

  Lemma merge_all_length_le a b m ts : (length (merge_all eqb a b m ts) <= length ts)%nat.
  Proof.
    remember (length ts) as n eqn:Hn. revert ts Hn.
    induction n as [n IH] using lt_wf_ind. intros ts Hn.
    destruct ts as [|x [|y r]]; [subst n; cbn; lia|subst n; cbn; lia|].
    rewrite merge_all_eq. cbn [length] in Hn. destruct (eqb x a && eqb y b).
    - cbn [length]. assert (H : (length (merge_all eqb a b m r) <= length r)%nat)
        by (apply (IH (length r)); [lia|reflexivity]). lia.
    - cbn [length]. assert (H : (length (merge_all eqb a b m (y :: r)) <= length (y :: r))%nat)
        by (apply (IH (length (y :: r))); [cbn [length]; lia|reflexivity]).
      cbn [length] in H. lia.
  Qed.

  Lemma merge_all_length_lt a b m ts :
    has_pair eqb a b ts = true -> (length (merge_all eqb a b m ts) < length ts)%nat.
  Proof.
    remember (length ts) as n eqn:Hn. revert ts Hn.
    induction n as [n IH] using lt_wf_ind. intros ts Hn Hp.
    destruct ts as [|x [|y r]]; [discriminate|discriminate|].
    rewrite has_pair_eq in Hp. rewrite merge_all_eq. cbn [length] in Hn.
    destruct (eqb x a && eqb y b) eqn:E.
    - cbn [length]. pose proof (merge_all_length_le a b m r). lia.
    - cbn [orb] in Hp. cbn [length].
      assert (H : (length (merge_all eqb a b m (y :: r)) < length (y :: r))%nat)
        by (apply (IH (length (y :: r))); [cbn [length]; lia|reflexivity|exact Hp]).
      cbn [length] in H. lia.
  Qed.

  Lemma ref_choose_has_pair tbl ts a b m :
    ref_choose eqb tbl ts = Some (a, b, m) -> has_pair eqb a b ts = true.
  Proof.
    induction tbl as [|[[a0 b0] m0] rest IH]; cbn [ref_choose]; try discriminate.
    destruct (negb (in_keys eqb a0 b0 rest) && has_pair eqb a0 b0 ts) eqn:E.
    - intros H; inversion H; subst. apply andb_true_iff in E. tauto.
    - exact IH.
  Qed.

  Lemma ref_choose_short tbl ts : (length ts < 2)%nat -> ref_choose eqb tbl ts = None.
  Proof.
    intros Hl. destruct (ref_choose eqb tbl ts) as [[[a b] m]|] eqn:E; [|reflexivity].
    apply ref_choose_has_pair in E. apply has_pair_length in E. lia.
  Qed.

  (* any amount of fuel >= |ts| gives the same answer *)
  Lemma ref_bpe_enough tbl : forall f1 f2 ts,
    (length ts <= f1)%nat -> (length ts <= f2)%nat -> ref_bpe eqb f1 tbl ts = ref_bpe eqb f2 tbl ts.
  Proof.
    induction f1 as [|f1 IH]; intros f2 ts H1 H2.
    - destruct ts; [|cbn [length] in H1; lia]. cbn [ref_bpe].
      destruct f2; cbn [ref_bpe]; [reflexivity|]. rewrite ref_choose_short by (cbn; lia). reflexivity.
    - cbn [ref_bpe]. destruct (ref_choose eqb tbl ts) as [[[a b] m]|] eqn:E.
      + pose proof (merge_all_length_lt a b m ts (ref_choose_has_pair _ _ _ _ _ E)) as Hlt.
        destruct f2 as [|f2]; [lia|]. cbn [ref_bpe]. rewrite E. apply IH; lia.
      + destruct f2; cbn [ref_bpe]; [reflexivity|]. rewrite E. reflexivity.
  Qed.

  Lemma reference_unfold tbl ts :
    reference eqb tbl ts =
    match ref_choose eqb tbl ts with
    | None => ts
    | Some (a, b, m) => reference eqb tbl (merge_all eqb a b m ts)
    end.
  Proof.
    unfold reference. destruct (ref_choose eqb tbl ts) as [[[a b] m]|] eqn:E.
    - pose proof (merge_all_length_lt a b m ts (ref_choose_has_pair _ _ _ _ _ E)) as Hlt.
      destruct (length ts) as [|n] eqn:Hl; [lia|]. cbn [ref_bpe]. rewrite E.
      apply ref_bpe_enough; lia.
    - destruct (length ts); cbn [ref_bpe]; [reflexivity|]. rewrite E. reflexivity.
  Qed.

  (* "until no merge applies" *)
  Lemma ref_bpe_fixpoint tbl : forall f ts,
    (length ts <= f)%nat -> ref_choose eqb tbl (ref_bpe eqb f tbl ts) = None.
  Proof.
    induction f as [|f IH]; intros ts Hl.
    - cbn [ref_bpe]. apply ref_choose_short. lia.
    - cbn [ref_bpe]. destruct (ref_choose eqb tbl ts) as [[[a b] m]|] eqn:E; [|exact E].
      apply IH. pose proof (merge_all_length_lt a b m ts (ref_choose_has_pair _ _ _ _ _ E)). lia.
  Qed.

  Lemma reference_fixpoint tbl ts : ref_choose eqb tbl (reference eqb tbl ts) = None.
  Proof. apply ref_bpe_fixpoint. lia. Qed.

  Lemma reference_length tbl ts : (length (reference eqb tbl ts) <= length ts)%nat.
  Proof.
    unfold reference. generalize (length ts) at 1 as f. intros f. revert ts.
    induction f as [|f IH]; intros ts; cbn [ref_bpe]; [lia|].
    destruct (ref_choose eqb tbl ts) as [[[a b] m]|]; [|lia].
    specialize (IH (merge_all eqb a b m ts)). pose proof (merge_all_length_le a b m ts). lia.
  Qed.

  Lemma merge_all_nonempty a b m ts : ts <> [] -> merge_all eqb a b m ts <> [].
  Proof.
    destruct ts as [|x [|y r]]; [congruence|cbn; congruence|]. intros _.
    rewrite merge_all_eq. destruct (eqb x a && eqb y b); discriminate.
  Qed.
End Generic.

(* ---- transport along a map that is injective on the symbols involved ---- *)
Section Transport.
  Context {A B : Type} (eqA : A -> A -> bool) (eqB : B -> B -> bool) (f : A -> B) (P : A -> Prop).
  Hypothesis eqA_spec : forall x y, eqA x y = true <-> x = y.
  Hypothesis eqB_spec : forall x y, eqB x y = true <-> x = y.
  Hypothesis f_inj : forall x y, P x -> P y -> f x = f y -> x = y.

  Definition f3 (e : A * A * A) : B * B * B := (f (fst (fst e)), f (snd (fst e)), f (snd e)).
  Definition P3 (e : A * A * A) : Prop := P (fst (fst e)) /\ P (snd (fst e)) /\ P (snd e).

  Lemma eq_transport x y : P x -> P y -> eqB (f x) (f y) = eqA x y.
  Proof.
    intros Px Py. destruct (eqA x y) eqn:E.
    - apply eqA_spec in E. subst. apply eqB_spec. reflexivity.
    - destruct (eqB (f x) (f y)) eqn:E2; [|reflexivity].
      apply eqB_spec in E2. apply f_inj in E2; auto. apply eqA_spec in E2. congruence.
  Qed.

  Lemma has_pair_transport a b ts : P a -> P b -> Forall P ts ->
    has_pair eqB (f a) (f b) (map f ts) = has_pair eqA a b ts.
  Proof.
    intros Pa Pb. induction ts as [|x r IH]; intros HF; [reflexivity|].
    destruct r as [|y r']; [reflexivity|].
    inversion HF as [|? ? Px HF']; subst. inversion HF' as [|? ? Py _]; subst.
    change (map f (x :: y :: r')) with (f x :: f y :: map f r').
    rewrite !has_pair_eq. change (f y :: map f r') with (map f (y :: r')).
    rewrite IH by assumption. rewrite !eq_transport by assumption. reflexivity.
  Qed.

  Lemma merge_all_transport a b m ts : P a -> P b -> Forall P ts ->
    merge_all eqB (f a) (f b) (f m) (map f ts) = map f (merge_all eqA a b m ts).
  Proof.
    intros Pa Pb. remember (length ts) as n eqn:Hn. revert ts Hn.
    induction n as [n IH] using lt_wf_ind. intros ts Hn HF.
    destruct ts as [|x [|y r]]; [reflexivity|reflexivity|].
    inversion HF as [|? ? Px HF']; subst. inversion HF' as [|? ? Py HF'']; subst.
    change (map f (x :: y :: r)) with (f x :: f y :: map f r).
    rewrite !merge_all_eq. rewrite !eq_transport by assumption.
    destruct (eqA x a && eqA y b).
    - cbn [map]. f_equal. apply (IH (length r)); [cbn [length]; lia|reflexivity|assumption].
    - cbn [map]. f_equal. change (f y :: map f r) with (map f (y :: r)).
      apply (IH (length (y :: r))); [cbn [length]; lia|reflexivity|assumption].
  Qed.

  Lemma merge_all_Forall a b m ts : P m -> Forall P ts -> Forall P (merge_all eqA a b m ts).
  Proof.
    intros Pm. remember (length ts) as n eqn:Hn. revert ts Hn.
    induction n as [n IH] using lt_wf_ind. intros ts Hn HF.
    destruct ts as [|x [|y r]]; [assumption|assumption|].
    inversion HF as [|? ? Px HF']; subst. inversion HF' as [|? ? Py HF'']; subst.
    rewrite merge_all_eq. destruct (eqA x a && eqA y b).
    - constructor; [assumption|]. apply (IH (length r)); [cbn [length]; lia|reflexivity|assumption].
    - constructor; [assumption|]. apply (IH (length (y :: r))); [cbn [length]; lia|reflexivity|assumption].
  Qed.

  Lemma in_keys_transport a b tbl : P a -> P b -> Forall P3 tbl ->
    in_keys eqB (f a) (f b) (map f3 tbl) = in_keys eqA a b tbl.
  Proof.
    intros Pa Pb. induction tbl as [|[[a0 b0] m0] r IH]; intros HF; [reflexivity|].
    inversion HF as [|? ? [Pa0 [Pb0 _]] HF']; subst. cbn in Pa0, Pb0.
    cbn [map f3 fst snd in_keys]. rewrite IH by assumption.
    rewrite !eq_transport by assumption. reflexivity.
  Qed.

  Lemma ref_choose_transport tbl ts : Forall P3 tbl -> Forall P ts ->
    ref_choose eqB (map f3 tbl) (map f ts) = option_map f3 (ref_choose eqA tbl ts).
  Proof.
    intros HT HF. induction tbl as [|[[a0 b0] m0] r IH]; [reflexivity|].
    inversion HT as [|? ? [Pa0 [Pb0 Pm0]] HT']; subst. cbn in Pa0, Pb0, Pm0.
    cbn [map f3 fst snd ref_choose].
    rewrite in_keys_transport, has_pair_transport by assumption.
    destruct (negb (in_keys eqA a0 b0 r) && has_pair eqA a0 b0 ts); [reflexivity|].
    apply IH. assumption.
  Qed.

  Lemma ref_choose_P3 tbl ts e : Forall P3 tbl -> ref_choose eqA tbl ts = Some e -> P3 e.
  Proof.
    intros HT. induction tbl as [|[[a0 b0] m0] r IH]; cbn [ref_choose]; [discriminate|].
    inversion HT as [|? ? H0 HT']; subst.
    destruct (negb (in_keys eqA a0 b0 r) && has_pair eqA a0 b0 ts).
    - intros H; inversion H; subst. exact H0.
    - apply IH. assumption.
  Qed.

  Lemma ref_bpe_transport tbl : Forall P3 tbl -> forall fuel ts, Forall P ts ->
    ref_bpe eqB fuel (map f3 tbl) (map f ts) = map f (ref_bpe eqA fuel tbl ts)
    /\ Forall P (ref_bpe eqA fuel tbl ts).
  Proof.
    intros HT. induction fuel as [|fuel IH]; intros ts HF; [split; [reflexivity|assumption]|].
    cbn [ref_bpe]. rewrite ref_choose_transport by assumption.
    destruct (ref_choose eqA tbl ts) as [[[a b] m]|] eqn:E; cbn [option_map f3 fst snd].
    - pose proof (ref_choose_P3 _ _ _ HT E) as [Pa [Pb Pm]]. cbn in Pa, Pb, Pm.
      rewrite merge_all_transport by assumption.
      apply IH. apply merge_all_Forall; assumption.
    - split; [reflexivity|assumption].
  Qed.

  Lemma reference_transport tbl ts : Forall P3 tbl -> Forall P ts ->
    reference eqB (map f3 tbl) (map f ts) = map f (reference eqA tbl ts)
    /\ Forall P (reference eqA tbl ts).
  Proof.
    intros HT HF. unfold reference. rewrite map_length. apply ref_bpe_transport; assumption.
  Qed.
End Transport.
