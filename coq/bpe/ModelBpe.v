(* Model of rten-text/src/models/bpe.rs (Bpe::new, build_vocab, build_merge_map, bpe_merge,
   encode_piece, decode, byte_to_char / char_to_byte) and of the part of
   rten-text/src/tokenizer.rs that Tokenizer::{encode,decode} runs when there is no
   normalizer, no [CLS]/[SEP] token and no chunking option.

   Conventions: bytes, code points, token ids, ranks, offsets are all [N].  A Rust
   `String` is the list of its code points ([str]); text handed to the tokenizer is the list
   of its UTF-8 bytes.  Hash maps are association lists looked up first-match; `insert`
   is cons (shadowing) or in-place replacement, which is observationally a finite map.
   Executable definitions only; proofs are in *_proofs.v. *)
From RV Require Import Prelude.
Open Scope N_scope.

Definition str := list N.
Definition tok := N.

(* outcome of a loop that the code runs without a bound / that can index out of range *)
Inductive res (A : Type) : Type :=
| Ok (a : A)
| Panic           (* index out of bounds / usize underflow / unwrap on None *)
| OutOfFuel.      (* the model's fuel ran out: the real loop would still be running *)
Arguments Ok {A} a.
Arguments Panic {A}.
Arguments OutOfFuel {A}.

Fixpoint list_eqb {A} (e : A -> A -> bool) (a b : list A) : bool :=
  match a, b with
  | [], [] => true
  | x :: a', y :: b' => e x y && list_eqb e a' b'
  | _, _ => false
  end.
Definition str_eqb : str -> str -> bool := list_eqb N.eqb.

(* ------------------------------------------------------------------------------------ *)
(* 1. The reference procedure (GPT-2 `bpe`), generic in the symbol type.                  *)
(*    table entry i = (first, second, merged), rank = i; a pair listed several times      *)
(*    takes its LAST index (Python: dict(zip(merges, range(n))))                          *)
(* ------------------------------------------------------------------------------------ *)
Section Reference.
  Context {A : Type} (eqb : A -> A -> bool).

  (* replace every occurrence of the adjacent pair (a,b) by m, scanning left to right,
     occurrences do not overlap *)
  Fixpoint merge_all (a b m : A) (ts : list A) : list A :=
    match ts with
    | x :: ((y :: r') as r) =>
        if eqb x a && eqb y b then m :: merge_all a b m r' else x :: merge_all a b m r
    | _ => ts
    end.

  Fixpoint has_pair (a b : A) (ts : list A) : bool :=
    match ts with
    | x :: ((y :: _) as r) => (eqb x a && eqb y b) || has_pair a b r
    | _ => false
    end.

  Fixpoint in_keys (a b : A) (tbl : list (A * A * A)) : bool :=
    match tbl with
    | [] => false
    | (a', b', _) :: r => (eqb a' a && eqb b' b) || in_keys a b r
    end.

  (* lowest-ranked pair that occurs in ts: scan the TABLE in rank order, skipping entries
     whose pair is listed again later (their rank is superseded) *)
  Fixpoint ref_choose (tbl : list (A * A * A)) (ts : list A) : option (A * A * A) :=
    match tbl with
    | [] => None
    | (a, b, m) :: rest =>
        if negb (in_keys a b rest) && has_pair a b ts then Some (a, b, m)
        else ref_choose rest ts
    end.

  Fixpoint ref_bpe (fuel : nat) (tbl : list (A * A * A)) (ts : list A) : list A :=
    match fuel with
    | O => ts
    | S f =>
        match ref_choose tbl ts with
        | None => ts
        | Some (a, b, m) => ref_bpe f tbl (merge_all a b m ts)
        end
    end.

  (* every round shortens the word, so |ts| rounds are enough (C28_reference_is_fixpoint) *)
  Definition reference (tbl : list (A * A * A)) (ts : list A) : list A :=
    ref_bpe (length ts) tbl ts.
End Reference.

(* string level: symbols are strings, the merged symbol is the concatenation *)
Definition str_table (merges : list (str * str)) : list (str * str * str) :=
  map (fun p => (fst p, snd p, fst p ++ snd p)) merges.
Definition reference_str (merges : list (str * str)) (word : list str) : list str :=
  reference str_eqb (str_table merges) word.

(* ------------------------------------------------------------------------------------ *)
(* 2. bpe_merge as written: windows(2).filter_map(get).min_by_key(rank) + index loop      *)
(* ------------------------------------------------------------------------------------ *)
Definition mmap := list ((tok * tok) * (N * tok)).      (* (first,second) -> (rank, merged) *)

Fixpoint mm_get (m : mmap) (a b : tok) : option (N * tok) :=
  match m with
  | [] => None
  | ((a', b'), v) :: r => if (a' =? a) && (b' =? b) then Some v else mm_get r a b
  end.

(* Iterator::min_by_key keeps the FIRST of several equal minima *)
Fixpoint min_pair (m : mmap) (ts : list tok) (best : option ((tok * tok) * (N * tok)))
  : option ((tok * tok) * (N * tok)) :=
  match ts with
  | a :: ((b :: _) as r) =>
      let best' :=
        match mm_get m a b with
        | None => best
        | Some (rk, mg) =>
            match best with
            | None => Some ((a, b), (rk, mg))
            | Some (_, (rk0, _)) => if rk <? rk0 then Some ((a, b), (rk, mg)) else best
            end
        end in
      min_pair m r best'
  | _ => best
  end.

Fixpoint set_nth {A} (i : nat) (x : A) (l : list A) : list A :=
  match l, i with
  | [], _ => []
  | _ :: r, O => x :: r
  | y :: r, S i' => y :: set_nth i' x r
  end.
Fixpoint remove_at {A} (i : nat) (l : list A) : list A :=
  match l, i with
  | [], _ => []
  | _ :: r, O => r
  | y :: r, S i' => y :: remove_at i' r
  end.

(* let mut i = 0;
   while i < tokens.len() - 1 {
     if tokens[i] == first && tokens[i+1] == second { tokens[i] = merged_id; tokens.remove(i+1); }
     i += 1 } *)
Fixpoint merge_loop (fuel : nat) (a b m : tok) (ts : list tok) (i : nat) : res (list tok) :=
  match fuel with
  | O => OutOfFuel
  | S f =>
      match length ts with
      | O => Panic                       (* tokens.len() - 1 underflows *)
      | S lm1 =>
          if Nat.ltb i lm1 then
            match nth_error ts i, nth_error ts (S i) with
            | Some x, Some y =>
                if (x =? a) && (y =? b)
                then merge_loop f a b m (remove_at (S i) (set_nth i m ts)) (S i)
                else merge_loop f a b m ts (S i)
            | _, _ => Panic
            end
          else Ok ts
      end
  end.

Fixpoint bpe_merge_loop (fuel : nat) (mm : mmap) (ts : list tok) : res (list tok) :=
  match fuel with
  | O => OutOfFuel
  | S f =>
      match min_pair mm ts None with
      | None => Ok ts
      | Some ((a, b), (_, m)) =>
          match merge_loop (S (length ts)) a b m ts 0 with
          | Ok ts' => bpe_merge_loop f mm ts'
          | e => e
          end
      end
  end.
Definition bpe_merge (mm : mmap) (ts : list tok) : res (list tok) :=
  bpe_merge_loop (S (length ts)) mm ts.

(* ------------------------------------------------------------------------------------ *)
(* 3. byte <-> printable char tables                                                      *)
(* ------------------------------------------------------------------------------------ *)
(* char::is_control (general category Cc) and char::is_whitespace (White_Space), for
   code points below 256 -- the only ones is_printable is applied to *)
Definition is_control (c : N) : bool := (c <=? 31) || ((127 <=? c) && (c <=? 159)).
Definition is_whitespace (c : N) : bool :=
  ((9 <=? c) && (c <=? 13)) || (c =? 32) || (c =? 133) || (c =? 160).
Definition is_printable (c : N) : bool :=
  negb (is_control c) && negb (is_whitespace c) && negb (c =? 173).

Definition bytes256 : list N := map N.of_nat (seq 0 256).

(* both passes of byte_to_char() fused: printable bytes map to themselves, the k-th
   non-printable byte (in increasing order) to U+0100 + k *)
Fixpoint b2c_pass (bs : list N) (count : N) : list N :=
  match bs with
  | [] => []
  | b :: r => if is_printable b then b :: b2c_pass r count
              else (256 + count) :: b2c_pass r (count + 1)
  end.
Definition byte_to_char_tbl_spec : list N := b2c_pass bytes256 0.
Definition byte_to_char_tbl : list N := Eval vm_compute in byte_to_char_tbl_spec.
Definition byte_to_char (b : N) : N := nth (N.to_nat b) byte_to_char_tbl 0.

(* char_to_byte(): HashMap collected from (char, byte) pairs in byte order: a later byte
   overwrites an earlier one with the same char (there is none: C27_byte_char_bijection) *)
Fixpoint c2b_scan (tbl : list N) (b : N) (c : N) (found : option N) : option N :=
  match tbl with
  | [] => found
  | ch :: r => c2b_scan r (b + 1) c (if ch =? c then Some b else found)
  end.
Definition char_to_byte (c : N) : option N := c2b_scan byte_to_char_tbl 0 c None.

(* byte_to_rank() inside build_vocab: printable bytes first, then the others *)
Definition count_printable (bs : list N) : N := N.of_nat (length (filter is_printable bs)).
Fixpoint b2r_pass (bs : list N) (pr np : N) : list N :=
  match bs with
  | [] => []
  | b :: r => if is_printable b then pr :: b2r_pass r (pr + 1) np
              else np :: b2r_pass r pr (np + 1)
  end.
Definition byte_to_rank_tbl : list N :=
  Eval vm_compute in b2r_pass bytes256 0 (count_printable bytes256).

(* ------------------------------------------------------------------------------------ *)
(* 4. vocabulary, Bpe::new                                                                *)
(* ------------------------------------------------------------------------------------ *)
Definition vocab := list (str * tok).
Fixpoint v_get (v : vocab) (k : str) : option tok :=
  match v with
  | [] => None
  | (k', id) :: r => if str_eqb k' k then Some id else v_get r k
  end.
(* HashMap::insert: replace the value of an existing key, else add the key *)
Fixpoint v_set (v : vocab) (k : str) (id : tok) : vocab :=
  match v with
  | [] => [(k, id)]
  | (k', id') :: r => if str_eqb k' k then (k', id) :: r else (k', id') :: v_set r k id
  end.
Definition v_len (v : vocab) : N := N.of_nat (length v).

(* compact notations for the harness's case terms (Coq parses flat numeral lists several
   times faster than lists of tuples): the entries  c :: sfx |-> id  for parallel lists of
   first chars and ids, and a list of optional id lists written as [n+1; x1..xn] / [0] groups *)
Definition keyed_vocab (sfx : str) (cs ids : list N) : vocab :=
  combine (map (fun c => c :: sfx) cs) ids.
Fixpoint unflat_aux (fuel : nat) (l : list N) : list (option (list N)) :=
  match fuel, l with
  | S f, n :: r =>
      if n =? 0 then None :: unflat_aux f r
      else Some (firstn (N.to_nat (n - 1)) r) :: unflat_aux f (skipn (N.to_nat (n - 1)) r)
  | _, _ => []
  end.
Definition unflat (l : list N) : list (option (list N)) := unflat_aux (length l) l.

Definition wrap32 (x : N) : N := x mod 4294967296.

Record opts := {
  o_merges : list (str * str);
  o_vocab : option vocab;                 (* keys pairwise distinct (it is a HashMap) *)
  o_added : list (tok * list N);          (* id -> UTF-8 bytes of the content; ids distinct *)
  o_eow : option str;                     (* end_of_word_suffix *)
  o_ignore : bool                         (* ignore_merges *)
}.

Definition norm_eow (e : option str) : option str :=
  match e with Some [] => None | _ => e end.

(* the 256 single-byte entries, ids = byte_to_rank *)
Definition byte_vocab_spec (suffix : str) (start : N) (v0 : vocab) : vocab :=
  fold_left (fun v cr => v_set v (fst cr :: suffix) (wrap32 (start + snd cr)))
            (combine byte_to_char_tbl byte_to_rank_tbl) v0.
Definition byte_vocab : vocab := Eval vm_compute in byte_vocab_spec [] 0 [].

Definition build_vocab (merges : list (str * str)) (eow : option str) : vocab :=
  let v1 := byte_vocab in
  let v2 := match eow with
            | None => v1
            | Some sfx => byte_vocab_spec sfx (wrap32 (v_len v1)) v1
            end in
  let start := wrap32 (v_len v2) in
  fst (fold_left (fun (acc : vocab * N) ab =>
                    (v_set (fst acc) (fst ab ++ snd ab) (wrap32 (start + wrap32 (snd acc))), snd acc + 1))
                 merges (v2, 0)).

Inductive new_err := InvalidMergeEntry | MissingVocabEntry.
(* what the harness observed from Bpe::new *)
Inductive new_out := NewOk | NewErr (e : new_err) | NewOther | NewPanic.
Definition new_err_eqb (a b : new_err) : bool :=
  match a, b with
  | InvalidMergeEntry, InvalidMergeEntry => true
  | MissingVocabEntry, MissingVocabEntry => true
  | _, _ => false
  end.

(* build_merge_map: rank = (i as u32); insert overwrites an earlier entry of the same pair *)
Fixpoint build_merge_map (v : vocab) (merges : list (str * str)) (i : N) (mm : mmap)
  : option mmap :=
  match merges with
  | [] => Some mm
  | (a, b) :: r =>
      match v_get v a, v_get v b, v_get v (a ++ b) with
      | Some ia, Some ib, Some im => build_merge_map v r (i + 1) (((ia, ib), (wrap32 i, im)) :: mm)
      | _, _, _ => None
      end
  end.

Fixpoint all_some {A} (l : list (option A)) : option (list A) :=
  match l with
  | [] => Some []
  | Some x :: r => match all_some r with Some r' => Some (x :: r') | None => None end
  | None :: _ => None
  end.

Record bpe := {
  b_merges : mmap;
  b_b2t : list tok;                        (* byte_to_token_id, 256 entries *)
  b_vocab_all : vocab;                     (* the vocabulary (token_id_to_encoded_bytes is its inverse) *)
  b_vocab : option vocab;                  (* kept only when ignore_merges *)
  b_added : list (tok * list N);
  b_eow : option (list tok);              (* byte_to_eow_token_id, when a suffix is set *)
  b_ignore : bool
}.

Definition bpe_new (o : opts) : bpe + new_err :=
  let eow := norm_eow (o_eow o) in
  let v := match o_vocab o with Some v => v | None => build_vocab (o_merges o) eow end in
  match build_merge_map v (o_merges o) 0 [] with
  | None => inr InvalidMergeEntry
  | Some mm =>
      match all_some (map (fun c => v_get v [c]) byte_to_char_tbl) with
      | None => inr MissingVocabEntry
      | Some b2t =>
          let mk et := inl {| b_merges := mm; b_b2t := b2t; b_vocab_all := v;
                              b_vocab := if o_ignore o then Some v else None;
                              b_added := o_added o; b_eow := et; b_ignore := o_ignore o |} in
          match eow with
          | None => mk None
          | Some sfx =>
              match all_some (map (fun c => v_get v (c :: sfx)) byte_to_char_tbl) with
              | None => inr MissingVocabEntry
              | Some et => mk (Some et)
              end
          end
      end
  end.

(* token_id_to_encoded_bytes.get(id).  The real map is collected from the vocabulary in
   hash order, so when two strings share an id the survivor is unspecified; the model takes
   the first in list order and the theorems assume ids are not shared. *)
Fixpoint id_to_str (v : vocab) (id : tok) : option str :=
  match v with
  | [] => None
  | (k, id') :: r => if id' =? id then Some k else id_to_str r id
  end.

Fixpoint a_get (a : list (tok * list N)) (id : tok) : option (list N) :=
  match a with
  | [] => None
  | (id', s) :: r => if id' =? id then Some s else a_get r id
  end.

(* ---- specification-side notions used by the C28 theorems ---- *)
(* rank semantics of a table of (first, second, merged) ids: index of the LAST entry for
   the pair, and that entry's merged id *)
Fixpoint eff (tbl : list (tok * tok * tok)) (a b : tok) : option (nat * tok) :=
  match tbl with
  | [] => None
  | (a', b', m) :: r =>
      match eff r a b with
      | Some (i, m') => Some (S i, m')
      | None => if (a' =? a) && (b' =? b) then Some (O, m) else None
      end
  end.
(* the merge list read through the vocabulary *)
Definition id_entry (v : vocab) (ab : str * str) : option (tok * tok * tok) :=
  match v_get v (fst ab), v_get v (snd ab), v_get v (fst ab ++ snd ab) with
  | Some ia, Some ib, Some im => Some (ia, ib, im)
  | _, _, _ => None
  end.
Definition id_table (v : vocab) (merges : list (str * str)) : option (list (tok * tok * tok)) :=
  all_some (map (id_entry v) merges).
(* the vocabulary in force: the supplied one, else the documented default *)
Definition spec_vocab (o : opts) : vocab :=
  match o_vocab o with
  | Some v => v
  | None => build_vocab (o_merges o) (norm_eow (o_eow o))
  end.
(* the reference's initial word: one symbol per byte, the last one carrying the suffix *)
Definition init_word (eow : option str) (w : list N) : list str :=
  let cs := map (fun b => [byte_to_char b]) w in
  match eow with
  | None => cs
  | Some sfx => match rev cs with [] => [] | l :: r => rev r ++ [l ++ sfx] end
  end.
(* the bytes a vocabulary string stands for (None: some char is not in the table) *)
Definition dec_str (s : str) : option (list N) := all_some (map char_to_byte s).
(* an added token whose id is also a vocabulary id has that entry's bytes as content *)
Definition added_ok (v : vocab) (added : list (tok * list N)) : Prop :=
  forall id content, a_get added id = Some content ->
  forall s, In (s, id) v -> dec_str s = Some content.
(* no two strings share an id *)
Definition vocab_inj (v : vocab) : Prop :=
  forall s1 s2 i, v_get v s1 = Some i -> v_get v s2 = Some i -> s1 = s2.

(* ------------------------------------------------------------------------------------ *)
(* 5. encode_piece, decode                                                                *)
(* ------------------------------------------------------------------------------------ *)
(* replace the last token by the end-of-word token of the piece's last byte *)
Definition set_last_eow (et : list tok) (piece : list N) (ts : list tok) : list tok :=
  match rev ts, rev piece with
  | _ :: r, lastb :: _ => rev r ++ [nth (N.to_nat lastb) et 0]
  | _, _ => ts
  end.

(* the part of encode_piece after the ignore_merges shortcut *)
Definition encode_piece_merges (b : bpe) (piece : list N) (end_of_word : bool) : res (list tok) :=
  let t0 := map (fun x => nth (N.to_nat x) (b_b2t b) 0) piece in
  let t1 := match b_eow b with
            | Some et => if end_of_word then set_last_eow et piece t0 else t0
            | None => t0
            end in
  bpe_merge (b_merges b) t1.

Definition whole_piece (b : bpe) (piece : list N) : option tok :=
  if b_ignore b then
    match b_vocab b with
    | Some v => v_get v (map byte_to_char piece)
    | None => None
    end
  else None.

Definition encode_piece (b : bpe) (piece : list N) (end_of_word : bool) : res (list tok) :=
  match whole_piece b piece with
  | Some id => Ok [id]
  | None => encode_piece_merges b piece end_of_word
  end.

(* Rust's str::from_utf8 *)
Definition cont (b : N) : bool := (128 <=? b) && (b <=? 191).
Definition in_rng (lo hi b : N) : bool := (lo <=? b) && (b <=? hi).
Fixpoint utf8_valid (bs : list N) : bool :=
  match bs with
  | [] => true
  | b0 :: r =>
      if b0 <? 128 then utf8_valid r
      else if in_rng 194 223 b0 then
        match r with b1 :: r1 => cont b1 && utf8_valid r1 | _ => false end
      else if in_rng 224 239 b0 then
        match r with
        | b1 :: b2 :: r2 =>
            (if b0 =? 224 then in_rng 160 191 b1
             else if b0 =? 237 then in_rng 128 159 b1 else cont b1)
            && cont b2 && utf8_valid r2
        | _ => false
        end
      else if in_rng 240 244 b0 then
        match r with
        | b1 :: b2 :: b3 :: r3 =>
            (if b0 =? 240 then in_rng 144 191 b1
             else if b0 =? 244 then in_rng 128 143 b1 else cont b1)
            && cont b2 && cont b3 && utf8_valid r3
        | _ => false
        end
      else false
  end.

Inductive dec_res := DecOk (bytes : list N) | DecInvalidUtf8 | DecInvalidId (id : N) | DecPanic.

(* the byte vector Bpe::decode accumulates; stops at the first unknown id / failed unwrap *)
Fixpoint decode_bytes (b : bpe) (ids : list tok) : dec_res :=
  match ids with
  | [] => DecOk []
  | id :: r =>
      let here :=
        match a_get (b_added b) id with
        | Some s => DecOk s
        | None =>
            match id_to_str (b_vocab_all b) id with
            | Some enc =>
                match dec_str enc with
                | Some bs => DecOk bs
                | None => DecPanic
                end
            | None => DecInvalidId id
            end
        end in
      match here with
      | DecOk bs =>
          match decode_bytes b r with
          | DecOk rest => DecOk (bs ++ rest)
          | e => e
          end
      | e => e
      end
  end.
Definition decode (b : bpe) (ids : list tok) : dec_res :=
  match decode_bytes b ids with
  | DecOk bs => if utf8_valid bs then DecOk bs else DecInvalidUtf8
  | e => e
  end.

(* ------------------------------------------------------------------------------------ *)
(* 6. Tokenizer::encode (Item input, no normalizer, no cls/sep, options = None)           *)
(*    The pre-tokenizer's answer is an input: (byte offset, bytes) of every chunk.        *)
(* ------------------------------------------------------------------------------------ *)
Definition piece := (N * list N)%type.

(* the normalizer's answer, when there is one: normalized bytes and, per normalized byte,
   the offset in the source text (`offset_map`) *)
Definition norm := option (list N * list N).
Definition normalized_text (text : list N) (nm : norm) : list N :=
  match nm with Some (t, _) => t | None => text end.

(* map_offset: `mappings.get(offset).copied().expect("invalid normalized offset")` *)
Definition map_offset (nm : norm) (off : N) : res N :=
  match nm with
  | None => Ok off
  | Some (_, m) => match nth_error m (N.to_nat off) with Some x => Ok x | None => Panic end
  end.

(* encode_str: every token of a chunk is reported by Bpe::encode_with_offsets at offset 0 of
   the chunk, so it gets the source offset of the chunk's start *)
Fixpoint encode_str (b : bpe) (nm : norm) (pieces : list piece) : res (list tok * list N) :=
  match pieces with
  | [] => Ok ([], [])
  | (base, bytes) :: r =>
      let here := match bytes with
                  | [] => Ok []
                  | _ => encode_piece b bytes true
                  end in
      match here with
      | Ok ts =>
          let off := match ts with [] => Ok 0 | _ => map_offset nm (base + 0) end in
          match off with
          | Ok off =>
              match encode_str b nm r with
              | Ok (ts', offs') => Ok (ts ++ ts', repeat off (length ts) ++ offs')
              | e => e
              end
          | Panic => Panic
          | OutOfFuel => OutOfFuel
          end
      | Panic => Panic
      | OutOfFuel => OutOfFuel
      end
  end.

(* encode_chunks with max_chunk_len = None, no special tokens: zero tokens -> no chunk ->
   `encode` builds an empty Encoded; otherwise one chunk holding all tokens whose offsets
   get one extra final entry, the input length *)
Definition tk_encode (b : bpe) (text : list N) (nm : norm) (pieces : list piece)
  : res (list tok * list N) :=
  match encode_str b nm pieces with
  | Ok (ts, offs) =>
      match ts with
      | [] => Ok ([], [])
      | _ => Ok (ts, offs ++ [N.of_nat (length text)])
      end
  | e => e
  end.

(* str::is_char_boundary / str::get(start..end) on the UTF-8 bytes *)
Definition is_char_boundary (text : list N) (i : N) : bool :=
  if i =? 0 then true
  else match nth_error text (N.to_nat i) with
       | Some b => negb (cont b)
       | None => i =? N.of_nat (length text)
       end.
Definition sub (text : list N) (s e : N) : list N :=
  firstn (N.to_nat (e - s)) (skipn (N.to_nat s) text).
Definition str_get (text : list N) (s e : N) : option (list N) :=
  if (s <=? e) && (e <=? N.of_nat (length text)) && is_char_boundary text s && is_char_boundary text e
  then Some (sub text s e) else None.

(* Encoded::text_for_token_range(i..i+1) *)
Definition text_for_token (text : list N) (offs : list N) (i : nat) : option (list N) :=
  match nth_error offs i with
  | None => None
  | Some s =>
      let e := if Nat.eqb (S i) (length offs) then Some (N.of_nat (length text))
               else nth_error offs (S i) in
      match e with
      | Some e => str_get text s e
      | None => None
      end
  end.

(* ---- the property side of C27 ---- *)
Fixpoint sorted_le (l : list N) : bool :=
  match l with
  | a :: ((b :: _) as r) => (a <=? b) && sorted_le r
  | _ => true
  end.
(* the text slices delimited by consecutive offsets *)
Fixpoint slices (text : list N) (offs : list N) : list (list N) :=
  match offs with
  | s :: ((e :: _) as r) => sub text s e :: slices text r
  | _ => []
  end.
(* what a splitting pre-tokenizer guarantees: chunks are consecutive, start at 0, are each
   valid UTF-8 (so they start and end on char boundaries) and concatenate to the input *)
Fixpoint pieces_from (ps : list piece) (at_ : N) : bool :=
  match ps with
  | [] => true
  | (off, bytes) :: r => (off =? at_) && utf8_valid bytes && pieces_from r (at_ + N.of_nat (length bytes))
  end.
Definition pieces_cover (text : list N) (ps : list piece) : bool :=
  pieces_from ps 0 && list_eqb N.eqb (concat (map snd ps)) text.

(* what the offset theorem needs from a normalizer's offset map: one entry per normalized
   byte, non-decreasing, starting at 0, sending char boundaries of the normalized text to
   char boundaries of the source text *)
Fixpoint map_boundaries (text normalized : list N) (m : list N) (i : N) (len : nat) : bool :=
  match len with
  | O => true
  | S k =>
      (if is_char_boundary normalized i
       then match nth_error m (N.to_nat i) with
            | Some x => (x <=? N.of_nat (length text)) && is_char_boundary text x
            | None => false
            end
       else true) && map_boundaries text normalized m (i + 1) k
  end.
Definition norm_ok (text : list N) (nm : norm) : bool :=
  match nm with
  | None => true
  | Some (t, m) =>
      Nat.eqb (length m) (length t) && sorted_le m
      && match m with [] => true | x :: _ => x =? 0 end
      && map_boundaries text t m 0 (length t)
  end.
