(* Soundness of the executable property oracles used by the correspondence checks: when
   [prop_ok] accepts the implementation's answer, that answer satisfies the stated property. *)
From RV Require Import Prelude.
From Bpe Require Import ModelBpe Ref_proofs Merge_proofs Encode_proofs Roundtrip_proofs Offsets_proofs.
From Bpe Require ModelC27 ModelC28.
Open Scope N_scope.

Lemma forallb_combine_get sv : forall ids strs,
  length ids = length strs ->
  forallb (fun p : N * str => ModelC28.opt_eqb N.eqb (v_get sv (snd p)) (Some (fst p))) (combine ids strs) = true ->
  map (v_get sv) strs = map Some ids.
Proof.
  induction ids as [|i ids IH]; intros [|s strs] Hl H; try discriminate; [reflexivity|].
  cbn [combine forallb fst snd] in H. apply andb_true_iff in H. destruct H as [H1 H2].
  cbn [map]. rewrite (IH strs ltac:(cbn in Hl; lia) H2).
  destruct (v_get sv s) as [i'|]; [|discriminate]. cbn in H1. apply N.eqb_eq in H1. subst. reflexivity.
Qed.

(* C28: ids accepted by the oracle are the vocabulary ids of the reference's pieces *)
Theorem c28_word_ok_sound sv c w ids :
  ModelC28.word_ok_v sv c w (Some ids) = true ->
  map (v_get sv) (ModelC28.ref_pieces_v sv (ModelC28.m_opts c) w) = map Some ids.
Proof.
  unfold ModelC28.word_ok_v.
  destruct (all_some (map (ModelC28.obs_get (ModelC28.m_obs c)) ids)) as [strs|] eqn:E; [|discriminate].
  intros H. apply andb_true_iff in H. destruct H as [H1 H2].
  apply (list_eqb_spec str_eqb str_eqb_spec) in H1. rewrite <- H1.
  apply forallb_combine_get; [|exact H2].
  apply all_some_length in E. rewrite map_length in E. symmetry. exact E.
Qed.

Lemma all_some_l_spec {A} : forall (l : list (option A)) r, ModelC27.all_some_l l = Some r -> l = map Some r.
Proof.
  induction l as [|[x|] l IH]; intros r H; cbn [ModelC27.all_some_l] in H.
  - inversion H. reflexivity.
  - destruct (ModelC27.all_some_l l) as [r'|]; [|discriminate]. inversion H; subst. cbn [map].
    rewrite (IH r' eq_refl). reflexivity.
  - discriminate.
Qed.

(* C27: offsets accepted by the oracle are non-decreasing, within the input and on char
   boundaries, and the slices text_for_token_range returned are all present, one per token,
   and concatenate to the input *)
Theorem c27_offsets_ok_sound text ids offs sl :
  ModelC27.offsets_ok text ids offs sl = true ->
  sorted_le offs = true /\
  Forall (fun o => o <= N.of_nat (length text) /\ is_char_boundary text o = true) offs /\
  exists ss, sl = map Some ss /\ length ss = length ids /\ concat ss = text.
Proof.
  unfold ModelC27.offsets_ok. intros H. apply andb_true_iff in H. destruct H as [H H3].
  apply andb_true_iff in H. destruct H as [H1 H2]. split; [exact H1|]. split.
  - apply Forall_forall. intros o Hin. rewrite forallb_forall in H2. specialize (H2 o Hin).
    apply andb_true_iff in H2. destruct H2 as [Ha Hb]. apply N.leb_le in Ha. auto.
  - destruct (ModelC27.all_some_l sl) as [ss|] eqn:E; [|discriminate].
    apply andb_true_iff in H3. destruct H3 as [Hl Hc]. exists ss.
    split; [apply all_some_l_spec; exact E|]. split; [apply Nat.eqb_eq; exact Hl|].
    apply (list_eqb_spec N.eqb N.eqb_eq). exact Hc.
Qed.
