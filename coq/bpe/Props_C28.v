(* C28 -- BPE merging matches the reference merge algorithm.
   Only statements; every proof is `exact <lemma>`. *)
From RV Require Import Prelude.
From Bpe Require Import ModelBpe Ref_proofs Merge_proofs Encode_proofs Vocab_proofs Oracle_proofs.
From Bpe Require ModelC28.
Open Scope N_scope.

(* (1) one pass of the index loop with in-place removal (`while i < tokens.len() - 1 { .. }`)
       = replacing all non-overlapping occurrences of the pair, left to right; it neither
       panics nor runs out of the fuel |tokens| + 1 *)
Theorem C28_merge_pass_eq : forall a b m ts,
  ts <> [] -> merge_loop (S (length ts)) a b m ts 0 = Ok (merge_all N.eqb a b m ts).
Proof. exact merge_pass_eq. Qed.

(* (2) for ANY merge list (read through any vocabulary that build_merge_map accepts) and ANY
       token sequence, bpe_merge returns the reference procedure's result on the id table *)
Theorem C28_bpe_merge_eq_reference : forall v merges mm ts,
  N.of_nat (length merges) <= 4294967296 ->
  build_merge_map v merges 0 [] = Some mm ->
  exists tbl, id_table v merges = Some tbl /\ bpe_merge mm ts = Ok (reference N.eqb tbl ts).
Proof. exact bpe_merge_eq_reference_built. Qed.

(* (3) termination: every applied merge strictly shortens the sequence, and |tokens| + 1
       rounds of the outer `loop` always suffice -- for an arbitrary hash map; no panic, a
       non-empty piece keeps at least one token *)
Theorem C28_bpe_merge_terminates : forall mm ts,
  (forall a b m ts', has_pair N.eqb a b ts' = true ->
                     (length (merge_all N.eqb a b m ts') < length ts')%nat) /\
  exists r, bpe_merge mm ts = Ok r /\ (length r <= length ts)%nat /\ (ts <> [] -> r <> []).
Proof. exact bpe_merge_terminates. Qed.

(* (4) the reference really runs "until no merge applies": |word| rounds reach a word on
       which no listed pair occurs (any symbol type) *)
Theorem C28_reference_is_fixpoint : forall (A : Type) (eqb : A -> A -> bool) tbl ts,
  ref_choose eqb tbl (reference eqb tbl ts) = None.
Proof. exact @reference_fixpoint. Qed.

(* (5) build_merge_map: the rank of a pair is the index of its LAST listing, the merged id
       is that entry's *)
Theorem C28_build_merge_map_rank : forall v merges mm tbl,
  N.of_nat (length merges) <= 4294967296 ->
  build_merge_map v merges 0 [] = Some mm -> id_table v merges = Some tbl ->
  forall a b r m,
    mm_get mm a b = Some (r, m) <->
    exists i, r = N.of_nat i /\ nth_error tbl i = Some (a, b, m) /\
              forall j m', (i < j)%nat -> nth_error tbl j <> Some (a, b, m').
Proof. exact build_merge_map_rank. Qed.

(* (6) the property as stated: the ids Bpe::encode_piece returns are the vocabulary ids of the
       pieces that the string-level GPT-2 (with a suffix: CLIP) procedure produces from the
       piece's byte characters, for every merge list, piece and vocabulary in which no two
       strings share an id; in particular encode_piece does not panic or loop *)
Theorem C28_encode_piece_eq_reference_str : forall o b,
  bpe_new o = inl b -> vocab_inj (spec_vocab o) ->
  N.of_nat (length (o_merges o)) <= 4294967296 -> o_ignore o = false ->
  forall piece (e : bool), Forall (fun x => x < 256) piece ->
  let word := init_word (if e then norm_eow (o_eow o) else None) piece in
  exists ids, encode_piece b piece e = Ok ids /\
              map (v_get (spec_vocab o)) (reference_str (o_merges o) word) = map Some ids.
Proof. exact encode_piece_eq_reference_str. Qed.

(* (7) the vocabulary build_vocab generates when none is supplied (no end-of-word suffix) has
       pairwise distinct keys and ids for EVERY merge list, so (6) needs no vocabulary
       hypothesis in that case *)
Theorem C28_default_vocab_wellformed : forall merges,
  N.of_nat (length merges) + 256 <= 4294967296 ->
  NoDup (map fst (build_vocab merges None)) /\ vocab_inj (build_vocab merges None).
Proof. exact default_vocab_wellformed. Qed.

(* (8) the executable oracle of the correspondence check is sound: ids it accepts for a word
       are the vocabulary ids of the reference's pieces for that word *)
Theorem C28_oracle_sound : forall sv c w ids,
  ModelC28.word_ok_v sv c w (Some ids) = true ->
  map (v_get sv) (ModelC28.ref_pieces_v sv (ModelC28.m_opts c) w) = map Some ids.
Proof. exact c28_word_ok_sound. Qed.

(* non-vacuity: "aaab" with merges (a,a),(a,b): overlapping occurrences of (a,a) compete, the
   left one wins, then (a,b) applies; default vocabulary ids 256, 257 *)
Example C28_nonvacuous :
  let o := {| o_merges := [([97], [97]); ([97], [98])]; o_vocab := None; o_added := [];
              o_eow := None; o_ignore := false |} in
  (exists b, bpe_new o = inl b /\ encode_piece b [97; 97; 97; 98] true = Ok [256; 257]) /\
  reference_str (o_merges o) (init_word None [97; 97; 97; 98]) = [[97; 97]; [97; 98]] /\
  merge_all N.eqb 1 1 9 [1; 1; 1] = [9; 1].
Proof.
  cbv zeta. split; [|split; vm_compute; reflexivity].
  destruct (bpe_new _) as [b|e] eqn:E; [|vm_compute in E; discriminate].
  exists b. split; [reflexivity|]. vm_compute in E. inversion E. vm_compute. reflexivity.
Qed.
