(* Soundness of the modelled shape-inference rules (C10): infer_sound_<op>. *)
From Coq Require Import String.
From RV Require Import Prelude.
From SymExpr Require Import SymExprModel SymExpr_base SymExpr_sem SymExpr_range.
From ShapeInfer Require Import ShapeInferModel ShapeInfer_base.
Open Scope Z_scope.

(* The statement proved for every modelled operator [o] (for the code version [v]):
   for every assignment, symbolic inputs and concrete inputs consistent with them, if inference
   succeeds with [outs] and the reference execution succeeds with [couts] (and the side condition
   [extra] holds), every claim of [outs] holds of [couts]. *)
Definition sound_for (v : ver) (o : op)
           (extra : list (option ctensor) -> list ctensor -> Prop) : Prop :=
  forall s ins cins outs couts,
    all2 (consistent_in s) ins cins = true ->
    infer_with v o ins = IOk outs ->
    exec_ref o cins = Some couts ->
    extra cins couts ->
    claims_all s outs couts = true.
Definition no_extra : list (option ctensor) -> list ctensor -> Prop := fun _ _ => True.

Ltac inv H := inversion H; subst; clear H.

Lemma claims_all_one s t c : claims s t c = true -> claims_all s [t] [c] = true.
Proof. intros H. cbn [claims_all]. rewrite H. reflexivity. Qed.

(* ------------------------------------------------------------ unary-like *)
Theorem infer_sound_Unary v : sound_for v OUnary no_extra.
Proof.
  intros s ins cins outs couts A I E _. cbn [infer_with] in I. unfold infer_unary in I.
  destruct (input ins 0) as [t|] eqn:Ei; [|discriminate]. inv I.
  destruct (cons_input _ _ _ _ _ A Ei) as (c & Ec & C). cbn [exec_ref] in E. rewrite Ec in E. inv E.
  apply claims_all_one. eapply unary_claims; eauto.
Qed.

Theorem infer_sound_Identity v : sound_for v OIdentity no_extra.
Proof.
  intros s ins cins outs couts A I E _. cbn [infer_with] in I. unfold infer_identity in I.
  destruct (input ins 0) as [t|] eqn:Ei; [|discriminate]. inv I.
  destruct (cons_input _ _ _ _ _ A Ei) as (c & Ec & C). cbn [exec_ref] in E. rewrite Ec in E. inv E.
  apply claims_all_one, consistent_claims, C.
Qed.

Theorem infer_sound_Cast v b : sound_for v (OCast b) no_extra.
Proof.
  intros s ins cins outs couts A I E _. cbn [infer_with] in I. unfold infer_cast in I.
  destruct (input ins 0) as [t|] eqn:Ei; [|discriminate].
  destruct (cons_input _ _ _ _ _ A Ei) as (c & Ec & C). cbn [exec_ref] in E.
  destruct b; rewrite Ec in E; inv E.
  - destruct (t_values t); inv I; apply claims_all_one; auto using consistent_claims.
    eapply unary_claims; eauto.
  - destruct (t_values t); inv I; apply claims_all_one; eapply unary_claims; eauto.
Qed.

Lemma neg_cons s e x : expr_cons s e x = true -> claim s (Neg e) (wrap32 (- x)) = true.
Proof.
  intros H. apply claim_of_evalw. apply expr_cons_evalw in H. unfold evalw in *. cbn [evalm].
  rewrite H. reflexivity.
Qed.

Lemma all2_neg s l vs :
  all2 (expr_cons s) l vs = true -> all2 (claim s) (map Neg l) (map (fun x => wrap32 (- x)) vs) = true.
Proof.
  revert vs; induction l as [|e l IH]; intros [|x vs] H; cbn [all2 map] in *; try discriminate; auto.
  apply andb_prop in H as [H1 H2]. rewrite (neg_cons _ _ _ H1). cbn [andb]. auto.
Qed.

Theorem infer_sound_Neg v : sound_for v ONeg no_extra.
Proof.
  intros s ins cins outs couts A I E _. cbn [infer_with] in I. unfold infer_neg in I.
  destruct (input ins 0) as [t|] eqn:Ei; [|discriminate].
  destruct (cons_input _ _ _ _ _ A Ei) as (c & Ec & C). cbn [exec_ref] in E. rewrite Ec in E. inv E.
  destruct t; inv I; apply claims_all_one.
  - cbn [consistent] in C. destruct (c_shape c) eqn:Es; [|discriminate].
    destruct (c_data c) as [[|x [|? ?]]|] eqn:Ed; try discriminate.
    cbn [claims c_shape c_data map]. apply neg_cons, C.
  - cbn [consistent] in C. destruct (c_shape c) as [|n [|? ?]] eqn:Es; try discriminate.
    destruct (c_data c) as [vs|] eqn:Ed; [|discriminate].
    apply andb_prop in C as [C C3]. apply andb_prop in C as [C1 C2].
    cbn [claims c_shape c_data]. unfold zlen in *. rewrite map_length.
    rewrite C1. cbn [andb]. apply all2_neg, C3.
  - eapply unary_claims; eauto.
  - reflexivity.
Qed.

(* ------------------------------------------------------------ BinaryOp *)
(* known finding F70: Broadcast(x, y) evaluates to max(x, y), which is wrong for a 0-sized dimension
   against a 1-sized one.  The BinaryOp theorems exclude exactly these pairs of aligned dims. *)
Definition zero_one (x y : Z) : bool := ((x =? 0) && (y =? 1)) || ((x =? 1) && (y =? 0)).

Lemma bcast_z_cases x y z : bcast_z x y = Some z -> (x = y /\ z = x) \/ (x = 1 /\ z = y) \/ (y = 1 /\ z = x).
Proof.
  unfold bcast_z. destruct (x =? y) eqn:E1; [apply Z.eqb_eq in E1; intros H; inv H; auto|].
  destruct (x =? 1) eqn:E2; [apply Z.eqb_eq in E2; intros H; inv H; auto|].
  destruct (y =? 1) eqn:E3; [apply Z.eqb_eq in E3; intros H; inv H; auto|]. discriminate.
Qed.

Lemma bcast_dim_cases a b e :
  bcast_dim a b = Some e ->
  (expr_eqb a b = true /\ e = a) \/
  (expr_eqb a b = false /\
   ((a = Value 1 /\ e = b) \/ (b = Value 1 /\ e = a) \/
    (exists y, b = Value y /\ y <> 1 /\ (exists i p, a = Var i p) /\ e = Value y) \/
    (exists x, a = Value x /\ x <> 1 /\ (exists i p, b = Var i p) /\ e = Value x) \/
    e = Broadcast a b)).
Proof.
  unfold bcast_dim. destruct (expr_eqb a b); [intros H; inv H; auto|]. intros H. right. split; [reflexivity|].
  Ltac fin :=
    first [ solve [left; split; reflexivity]
          | solve [right; left; split; reflexivity]
          | solve [right; right; left; eexists; split; [reflexivity|split; [discriminate|split; [do 2 eexists; reflexivity|reflexivity]]]]
          | solve [right; right; right; left; eexists; split; [reflexivity|split; [discriminate|split; [do 2 eexists; reflexivity|reflexivity]]]]
          | solve [right; right; right; right; reflexivity] ].
  destruct a as [za| | | | | | | | | |]; destruct b as [zb| | | | | | | | | |];
    try (destruct za as [|[?|?|]|?]); try (destruct zb as [|[?|?|]|?]); inv H; fin.
Qed.

Lemma bcast_dim_sound s a b x y e z :
  expr_cons s a x = true -> expr_cons s b y = true -> 0 <= x -> 0 <= y ->
  bcast_dim a b = Some e -> bcast_z x y = Some z -> zero_one x y = false ->
  claim s e z = true.
Proof.
  intros Ha Hb Hx Hy D Z0 ZO.
  assert (Ca : claim s a x = true) by (apply claim_of_cons, Ha).
  assert (Cb : claim s b y = true) by (apply claim_of_cons, Hb).
  apply bcast_z_cases in Z0.
  apply bcast_dim_cases in D as [[Eq ->]|[Eq D]].
  - assert (x = y) by (eapply expr_eqb_cons; eauto). subst y.
    destruct Z0 as [[_ ->]|[[-> ->]|[-> ->]]]; exact Ca.
  - destruct D as [[-> ->]|[[-> ->]|[(v & -> & Hv & _ & ->)|[(v & -> & Hv & _ & ->)| -> ]]]].
    + apply expr_cons_value in Ha as [<- _]. destruct Z0 as [[<- ->]|[[_ ->]|[-> ->]]]; exact Cb.
    + apply expr_cons_value in Hb as [<- _]. destruct Z0 as [[-> ->]|[[-> ->]|[_ ->]]]; exact Ca.
    + apply expr_cons_value in Hb as [<- Hi]. destruct Z0 as [[-> ->]|[[-> ->]|[-> ->]]];
        try (apply claim_value, Hi); congruence.
    + apply expr_cons_value in Ha as [<- Hi]. destruct Z0 as [[<- ->]|[[-> ->]|[-> ->]]];
        try (apply claim_value, Hi); congruence.
    + apply claim_of_evalw. apply expr_cons_evalw in Ha, Hb. unfold evalw in *. cbn [evalm].
      rewrite Ha, Hb. cbn [bind2]. f_equal. unfold zero_one in ZO.
      destruct Z0 as [[-> ->]|[[-> ->]|[-> ->]]]; [lia| |].
      * destruct (y =? 0) eqn:E; [cbn in ZO; discriminate|]. apply Z.eqb_neq in E. lia.
      * destruct (x =? 0) eqn:E; [cbn in ZO; discriminate|]. apply Z.eqb_neq in E. lia.
Qed.

Fixpoint zero_one_free (a b : list Z) : bool :=
  match a, b with
  | x :: ra, y :: rb => negb (zero_one x y) && zero_one_free ra rb
  | _, _ => true
  end.
Definition zero_one_free_shapes (a b : list Z) : bool :=
  let n := Nat.max (length a) (length b) in zero_one_free (pad_z n a) (pad_z n b).

Lemma bcast_dims_sound s : forall a b sa sb l sz,
  all2 (expr_cons s) a sa = true -> all2 (expr_cons s) b sb = true ->
  forallb (fun d => 0 <=? d) sa = true -> forallb (fun d => 0 <=? d) sb = true ->
  bcast_dims a b = Some l -> bcast_zs sa sb = Some sz -> zero_one_free sa sb = true ->
  all2 (claim s) l sz = true.
Proof.
  induction a as [|ea a IH]; intros b sa sb l sz A B Pa Pb D Z0 F.
  - destruct sa; [|discriminate]. cbn [bcast_dims bcast_zs] in *. inv D. inv Z0. reflexivity.
  - destruct sa as [|x sa]; [discriminate|]. cbn [all2] in A. apply andb_prop in A as [A1 A2].
    destruct b as [|eb b].
    + destruct sb; [|discriminate]. cbn [bcast_dims bcast_zs] in *. inv D. inv Z0. reflexivity.
    + destruct sb as [|y sb]; [discriminate|]. cbn [all2] in B. apply andb_prop in B as [B1 B2].
      cbn [bcast_dims bcast_zs zero_one_free forallb] in *.
      apply andb_prop in Pa as [Pa1 Pa2]. apply andb_prop in Pb as [Pb1 Pb2]. apply andb_prop in F as [F1 F2].
      destruct (bcast_dim ea eb) as [d|] eqn:Ed; [|discriminate].
      destruct (bcast_dims a b) as [r|] eqn:Er; [|discriminate]. inv D.
      destruct (bcast_z x y) as [z|] eqn:Ez; [|discriminate].
      destruct (bcast_zs sa sb) as [rz|] eqn:Erz; [|discriminate]. inv Z0.
      cbn [all2]. apply negb_true_iff in F1. apply Z.leb_le in Pa1, Pb1.
      rewrite (bcast_dim_sound _ _ _ _ _ _ _ A1 B1 Pa1 Pb1 Ed Ez F1). cbn [andb]. eauto.
Qed.

Lemma pad_cons s n l sl :
  all2 (expr_cons s) l sl = true -> forallb (fun d => 0 <=? d) sl = true ->
  all2 (expr_cons s) (pad_to n l) (pad_z n sl) = true /\ forallb (fun d => 0 <=? d) (pad_z n sl) = true.
Proof.
  intros A P. unfold pad_to, pad_z. rewrite <- (all2_length _ _ _ A). split.
  - apply all2_app; auto. apply all2_repeat. apply expr_cons_value_intro. reflexivity.
  - rewrite forallb_app, P, andb_true_r. apply forallb_forall. intros z Hz. apply repeat_spec in Hz. subst. reflexivity.
Qed.

Lemma binary_shapes_sound s a b sa sb l sz :
  all2 (expr_cons s) a sa = true -> all2 (expr_cons s) b sb = true ->
  forallb (fun d => 0 <=? d) sa = true -> forallb (fun d => 0 <=? d) sb = true ->
  binary_shapes a b = Some l -> bcast_shapes sa sb = Some sz -> zero_one_free_shapes sa sb = true ->
  all2 (claim s) l sz = true.
Proof.
  intros A B Pa Pb D Z0 F. unfold binary_shapes, bcast_shapes, zero_one_free_shapes in *.
  rewrite (all2_length _ _ _ A), (all2_length _ _ _ B) in D.
  destruct (pad_cons s (Nat.max (length sa) (length sb)) _ _ A Pa) as [A' Pa'].
  destruct (pad_cons s (Nat.max (length sa) (length sb)) _ _ B Pb) as [B' Pb'].
  eapply (bcast_dims_sound s _ _ _ _ _ _ A' B' Pa' Pb'); eauto.
Qed.

(* side condition of the BinaryOp theorem: known finding F70 *)
Definition f70_free2 (cins : list (option ctensor)) : Prop :=
  forall a b, cin cins 0 = Some a -> cin cins 1 = Some b -> zero_one_free_shapes (c_shape a) (c_shape b) = true.

Lemma binary_op_sound s ta tb a b outs sz :
  consistent s ta a = true -> consistent s tb b = true ->
  binary_op ta tb = IOk outs -> bcast_shapes (c_shape a) (c_shape b) = Some sz ->
  zero_one_free_shapes (c_shape a) (c_shape b) = true ->
  forall c, c_shape c = sz -> claims_all s outs [c] = true.
Proof.
  intros Ca Cb I Z0 F c Hc. unfold binary_op in I.
  destruct (t_shape ta) as [da|] eqn:Ea; [|inv I; reflexivity].
  destruct (t_shape tb) as [db|] eqn:Eb; [|inv I; reflexivity].
  destruct (binary_shapes da db) as [l|] eqn:El; [|discriminate]. inv I.
  destruct (t_shape_cons _ _ _ _ Ca Ea) as [A Pa]. destruct (t_shape_cons _ _ _ _ Cb Eb) as [B Pb].
  apply claims_all_one. cbn [claims]. eapply (binary_shapes_sound s _ _ _ _ _ _ A B Pa Pb); eauto.
Qed.

Theorem infer_sound_Binary v : sound_for v OBinary (fun cins _ => f70_free2 cins).
Proof.
  intros s ins cins outs couts A I E F. cbn [infer_with] in I. unfold infer_binary in I.
  destruct (input ins 0) as [ta|] eqn:E0; [|discriminate].
  destruct (input ins 1) as [tb|] eqn:E1; [|discriminate].
  destruct (cons_input _ _ _ _ _ A E0) as (a & Ea & Ca). destruct (cons_input _ _ _ _ _ A E1) as (b & Eb & Cb).
  cbn [exec_ref] in E. rewrite Ea, Eb in E.
  destruct (bcast_shapes (c_shape a) (c_shape b)) as [sz|] eqn:Ez; [|discriminate]. inv E.
  apply (binary_op_sound s ta tb a b outs sz Ca Cb I Ez (F _ _ Ea Eb)). reflexivity.
Qed.

(* ---------------------------------------------------------------- generated symbols *)
Lemma claim_gen s k v : claim s (gen_pos k) v = true.
Proof.
  unfold claim, gen_pos. cbn [has_synth]. unfold synth_base.
  replace (100 <=? 100 + k)%N with true; [reflexivity|]. symmetry. apply N.leb_le. lia.
Qed.
Lemma all2_claim_gen s k : forall vs, all2 (claim s) (gen_shape_from k (length vs)) vs = true.
Proof.
  intros vs. revert k. induction vs as [|x vs IH]; intros k; cbn [gen_shape_from length all2]; auto.
  rewrite claim_gen. cbn [andb]. apply IH.
Qed.

(* ---------------------------------------------------------------------------- Shape *)
Lemma all2_slice_list {A B} (f : A -> B -> bool) a b x y :
  all2 f a b = true -> all2 f (slice_list a x y) (slice_list b x y) = true.
Proof. intros H. unfold slice_list. apply all2_firstn, all2_skipn, H. Qed.

Lemma zlen_i32_of_all2 s (l : list expr) (vs : list Z) :
  all2 (expr_cons s) l vs = true -> zlen vs = zlen l.
Proof. intros H. unfold zlen. rewrite (all2_length _ _ _ H). reflexivity. Qed.

(* the result of Shape is a vector: its length must fit an i32 *)
Definition shape_len_ok (cins : list (option ctensor)) (couts : list ctensor) : Prop :=
  forall c, In c couts -> forallb (fun d => in_i32 d) (c_shape c) = true.

Theorem infer_sound_Shape v st en : sound_for v (OShape st en) shape_len_ok.
Proof.
  intros s ins cins outs couts A I E X. cbn [infer_with] in I. unfold infer_shape in I.
  destruct (input ins 0) as [t|] eqn:Ei; [|discriminate].
  destruct (cons_input _ _ _ _ _ A Ei) as (c & Ec & C). cbn [exec_ref] in E. rewrite Ec in E.
  destruct (t_shape t) as [dims|] eqn:Et; [|inv I; destruct (shape_range st en (zlen (c_shape c))); inv E; reflexivity].
  destruct (t_shape_cons _ _ _ _ C Et) as [H _].
  rewrite (zlen_i32_of_all2 _ _ _ H) in E.
  destruct (shape_range st en (zlen dims)) as [x y]. inv I. inv E.
  apply claims_all_one. cbn [claims cvector c_shape c_data].
  assert (H2 := all2_slice_list _ _ _ x y H).
  rewrite (zlen_i32_of_all2 _ _ _ H2), Z.eqb_refl. cbn [andb]. apply all2_claim_of_cons, H2.
Qed.

(* ------------------------------------------------------------------------ Transpose *)
Lemma permute_sound s dims sh : all2 (expr_cons s) dims sh = true ->
  forall perm l sz, permute dims perm = Some l -> zpermute sh perm = Some sz -> all2 (claim s) l sz = true.
Proof.
  intros H. induction perm as [|p perm IH]; intros l sz P Z0; cbn [permute zpermute] in *.
  - inv P. inv Z0. reflexivity.
  - destruct (nth_error dims p) as [d|] eqn:Ed; [|discriminate].
    destruct (permute dims perm) as [r|] eqn:Er; [|discriminate]. inv P.
    destruct (nth_error sh p) as [x|] eqn:Ex; [|discriminate].
    destruct (zpermute sh perm) as [rz|] eqn:Erz; [|discriminate]. inv Z0.
    destruct (all2_nth _ _ _ _ _ H Ed) as (x' & Ex' & Hc). rewrite Ex in Ex'. inv Ex'.
    cbn [all2]. rewrite (claim_of_cons _ _ _ Hc). cbn [andb]. eauto.
Qed.

Lemma zpermute_length sh perm sz : zpermute sh perm = Some sz -> length sz = length perm.
Proof.
  revert sz; induction perm as [|p perm IH]; intros sz H; cbn [zpermute] in H.
  - inv H. reflexivity.
  - destruct (nth_error sh p); [|discriminate]. destruct (zpermute sh perm); [|discriminate]. inv H.
    cbn [length]. f_equal. auto.
Qed.

Theorem infer_sound_Transpose v perm : sound_for v (OTranspose perm) no_extra.
Proof.
  intros s ins cins outs couts A I E _. cbn [infer_with] in I. unfold infer_transpose in I.
  destruct (input ins 0) as [t|] eqn:Ei; [|discriminate].
  destruct (cons_input _ _ _ _ _ A Ei) as (c & Ec & C). cbn [exec_ref] in E. rewrite Ec in E.
  destruct (t_shape t) as [dims|] eqn:Et.
  - destruct (t_shape_cons _ _ _ _ C Et) as [H _]. destruct perm as [p|].
    + destruct (permute dims p) as [l|] eqn:Ep; [|discriminate]. inv I.
      destruct (Nat.eqb (length p) (length (c_shape c))); [|discriminate].
      destruct (zpermute (c_shape c) p) as [sz|] eqn:Ez; [|discriminate]. inv E.
      apply claims_all_one. cbn [claims cshape c_shape]. eapply permute_sound; eauto.
    + inv I. inv E. apply claims_all_one. cbn [claims cshape c_shape]. apply all2_claim_of_cons, all2_rev, H.
  - destruct perm as [p|]; inv I.
    + destruct (Nat.eqb (length p) (length (c_shape c))); [|discriminate].
      destruct (zpermute (c_shape c) p) as [sz|] eqn:Ez; [|discriminate]. inv E.
      apply claims_all_one. cbn [claims cshape c_shape].
      rewrite <- (zpermute_length _ _ _ Ez). apply all2_claim_gen.
    + inv E. reflexivity.
Qed.

(* ----------------------------------------------------------------------------- Gemm *)
Theorem infer_sound_Gemm v ta tb : sound_for v (OGemm ta tb) no_extra.
Proof.
  intros s ins cins outs couts A I E _. cbn [infer_with] in I. unfold infer_gemm in I.
  destruct (input ins 0) as [t1|] eqn:E0; [|discriminate].
  destruct (input ins 1) as [t2|] eqn:E1; [|discriminate].
  destruct (cons_input _ _ _ _ _ A E0) as (a & Ea & Ca). destruct (cons_input _ _ _ _ _ A E1) as (b & Eb & Cb).
  cbn [exec_ref] in E. rewrite Ea, Eb in E.
  destruct (c_shape a) as [|x0 [|x1 [|? ?]]] eqn:Sa; try discriminate.
  destruct (c_shape b) as [|y0 [|y1 [|? ?]]] eqn:Sb; try discriminate.
  destruct ((if ta then x0 else x1) =? (if tb then y1 else y0)); [|discriminate]. inv E.
  destruct (t_shape t1) as [d1|] eqn:T1.
  - destruct (t_shape_cons _ _ _ _ Ca T1) as [H1 _]. rewrite Sa in H1.
    destruct d1 as [|a0 [|a1 [|? ?]]]; try (apply all2_length in H1; discriminate).
    cbn [all2] in H1. apply andb_prop in H1 as [H10 H11]. apply andb_prop in H11 as [H11 _].
    destruct (t_shape t2) as [d2|] eqn:T2.
    + destruct (t_shape_cons _ _ _ _ Cb T2) as [H2 _]. rewrite Sb in H2.
      destruct d2 as [|b0 [|b1 [|? ?]]]; try (apply all2_length in H2; discriminate).
      cbn [all2] in H2. apply andb_prop in H2 as [H20 H21]. apply andb_prop in H21 as [H21 _].
      inv I. apply claims_all_one. cbn [claims cshape c_shape all2].
      destruct ta, tb; rewrite ?(claim_of_cons _ _ _ H10), ?(claim_of_cons _ _ _ H11),
        ?(claim_of_cons _ _ _ H20), ?(claim_of_cons _ _ _ H21); reflexivity.
    + inv I. apply claims_all_one. cbn [claims cshape c_shape all2]. rewrite !claim_gen. reflexivity.
  - destruct (t_shape t2) as [d2|]; inv I; apply claims_all_one; cbn [claims cshape c_shape all2];
      rewrite !claim_gen; reflexivity.
Qed.

(* --------------------------------------------------------------------------- MatMul *)
Definition f70_free_matmul (cins : list (option ctensor)) (_ : list ctensor) : Prop :=
  forall a b, cin cins 0 = Some a -> cin cins 1 = Some b ->
    zero_one_free_shapes (firstn (length (c_shape a) - 2) (c_shape a))
                         (firstn (length (c_shape b) - 2) (c_shape b)) = true.

Lemma forallb_firstn {A} (f : A -> bool) n l : forallb f l = true -> forallb f (firstn n l) = true.
Proof.
  revert l; induction n as [|n IH]; intros [|x l] H; cbn [firstn forallb] in *; auto.
  apply andb_prop in H as [H1 H2]. rewrite H1. cbn [andb]. auto.
Qed.

Theorem infer_sound_MatMul v : sound_for v OMatMul f70_free_matmul.
Proof.
  intros s ins cins outs couts A I E F. cbn [infer_with] in I. unfold infer_matmul in I.
  destruct (input ins 0) as [t1|] eqn:E0; [|discriminate].
  destruct (input ins 1) as [t2|] eqn:E1; [|discriminate].
  destruct (cons_input _ _ _ _ _ A E0) as (a & Ea & Ca). destruct (cons_input _ _ _ _ _ A E1) as (b & Eb & Cb).
  specialize (F a b Ea Eb).
  cbn [exec_ref] in E. rewrite Ea, Eb in E.
  destruct (t_shape t1) as [da|] eqn:T1;
    [|inv I; destruct ((length (c_shape a) <? 2)%nat || (length (c_shape b) <? 2)%nat); [discriminate|];
      repeat match type of E with match ?x with _ => _ end = _ => destruct x; try discriminate end; inv E; reflexivity].
  destruct (t_shape t2) as [db|] eqn:T2;
    [|inv I; destruct ((length (c_shape a) <? 2)%nat || (length (c_shape b) <? 2)%nat); [discriminate|];
      repeat match type of E with match ?x with _ => _ end = _ => destruct x; try discriminate end; inv E; reflexivity].
  destruct (t_shape_cons _ _ _ _ Ca T1) as [H1 P1]. destruct (t_shape_cons _ _ _ _ Cb T2) as [H2 P2].
  rewrite <- (all2_length _ _ _ H1), <- (all2_length _ _ _ H2) in E, F.
  destruct ((length da <? 2)%nat || (length db <? 2)%nat); [discriminate|].
  destruct (binary_shapes (firstn (length da - 2) da) (firstn (length db - 2) db)) as [batch|] eqn:Eb1; [|discriminate].
  destruct (nth_error da (length da - 2)) as [m|] eqn:Em; [|discriminate].
  destruct (nth_error db (length db - 1)) as [n|] eqn:En; [|discriminate]. inv I.
  destruct (bcast_shapes (firstn (length da - 2) (c_shape a)) (firstn (length db - 2) (c_shape b))) as [zb|] eqn:Ezb; [|discriminate].
  destruct (nth_error (c_shape a) (length da - 2)) as [zm|] eqn:Ezm; [|discriminate].
  destruct (nth_error (c_shape a) (length da - 1)) as [k1|]; [|discriminate].
  destruct (nth_error (c_shape b) (length db - 2)) as [k2|]; [|discriminate].
  destruct (nth_error (c_shape b) (length db - 1)) as [zn|] eqn:Ezn; [|discriminate].
  destruct (k1 =? k2); [|discriminate]. inv E.
  apply claims_all_one. cbn [claims cshape c_shape].
  apply all2_app.
  - eapply (binary_shapes_sound s _ _ _ _ _ _ (all2_firstn _ _ _ _ H1) (all2_firstn _ _ _ _ H2)); eauto using forallb_firstn.
  - destruct (all2_nth _ _ _ _ _ H1 Em) as (x & Ex & Cx). rewrite Ezm in Ex. inv Ex.
    destruct (all2_nth _ _ _ _ _ H2 En) as (y & Ey & Cy). rewrite Ezn in Ey. inv Ey.
    cbn [all2]. rewrite (claim_of_cons _ _ _ Cx), (claim_of_cons _ _ _ Cy). reflexivity.
Qed.

(* ------------------------------------------------------------------------ reductions *)
Lemma reduce_dims_sound s ax keep : forall dims sh i,
  all2 (expr_cons s) dims sh = true ->
  all2 (claim s) (reduce_dims dims ax keep i) (zreduce_dims sh ax keep i) = true.
Proof.
  induction dims as [|d dims IH]; intros [|x sh] i H; cbn [all2 reduce_dims zreduce_dims] in *; try discriminate; auto.
  apply andb_prop in H as [H1 H2].
  destruct (existsb (Nat.eqb i) ax).
  - destruct keep; cbn [all2]; auto. rewrite (claim_value s 1 eq_refl). cbn [andb]. auto.
  - cbn [all2]. rewrite (claim_of_cons _ _ _ H1). cbn [andb]. auto.
Qed.

Lemma zreduce_keep_length sh ax : forall i, length (zreduce_dims sh ax true i) = length sh.
Proof. induction sh as [|x sh IH]; intros i; cbn [zreduce_dims length]; auto. destruct (existsb (Nat.eqb i) ax); cbn [length]; auto. Qed.

Lemma zreduce_nil sh keep : forall i, zreduce_dims sh [] keep i = sh.
Proof. induction sh as [|x sh IH]; intros i; cbn [zreduce_dims existsb]; auto. f_equal. auto. Qed.

Lemma to_constant_vec s t c l :
  consistent s t c = true -> to_constant t = Some (true, l) -> c_data c = Some l.
Proof.
  intros C H. destruct t; cbn [to_constant] in H; try discriminate.
  - destruct e; discriminate.
  - destruct (all_values l0) as [zs|] eqn:E; [|discriminate]. inv H. cbn [consistent] in C.
    destruct (c_shape c) as [|n [|? ?]]; try discriminate. destruct (c_data c) as [vs|]; [|discriminate].
    apply andb_prop in C as [_ C]. f_equal. symmetry. eapply all_values_cons; eauto.
Qed.

Lemma to_constant_nil s t c b :
  consistent s t c = true -> to_constant t = Some (b, []) -> c_data c = Some [].
Proof.
  intros C H. destruct b; [eapply to_constant_vec; eauto|].
  destruct t; cbn [to_constant] in H; try discriminate.
  - destruct e; discriminate.
  - destruct (all_values l); discriminate.
Qed.

Lemma cin_nth cins i c : cin cins i = Some c -> nth_error cins i = Some (Some c).
Proof. unfold cin. destruct (nth_error cins i) as [[x|]|]; intros H; inv H; reflexivity. Qed.
Lemma cin_none_nth cins i : cin cins i = None ->
  match nth_error cins i with Some (Some a) => False | _ => True end.
Proof. unfold cin. destruct (nth_error cins i) as [[x|]|]; intros H; try discriminate; exact I. Qed.

Theorem infer_sound_Reduce v axes keep noop : v_fixed v = true -> sound_for v (OReduce axes keep noop) no_extra.
Proof.
  intros FX s ins cins outs couts A I E _. cbn [infer_with] in I. rewrite FX in I. unfold infer_reduce in I.
  cbn [exec_ref] in E.
  destruct (cin cins 0) as [c|] eqn:Ec; [|discriminate].
  assert (T0 : forall t, input ins 0 = Some t -> consistent s t c = true).
  { intros t Ht. destruct (cons_input _ _ _ _ _ A Ht) as (c' & Ec' & C). rewrite Ec in Ec'. inv Ec'. exact C. }
  (* what execution reduces *)
  set (nd := length (c_shape c)) in *.
  (* case analysis on the axes input *)
  destruct (input ins 1) as [ta|] eqn:E1.
  - destruct (cons_input _ _ _ _ _ A E1) as (ca & Eca & Cca). rewrite (cin_nth _ _ _ Eca) in E.
    destruct (c_data ca) as [la|] eqn:Eda; [|discriminate].
    cbn [andb] in I.
    destruct (to_constant ta) as [[isv l]|] eqn:Tc.
    + (* constant axes *)
      destruct (is_nil l) eqn:Nl.
      * destruct l; [|discriminate]. rewrite (to_constant_nil _ _ _ _ Cca Tc) in Eda. inv Eda.
        destruct noop; cbn [andb] in I.
        -- destruct (input ins 0) as [t|] eqn:E0; [|discriminate]. inv I. inv E.
           apply claims_all_one. eapply unary_claims; eauto. cbn [cshape c_shape]. apply zreduce_nil.
        -- inv E. unfold reduction_op in I. destruct (length ins) as [|[|[|?]]]; try discriminate.
           all: destruct (input ins 0) as [t|] eqn:E0; [|discriminate].
           all: destruct (t_shape t) as [dims|] eqn:Et; [|inv I; reflexivity].
           all: destruct (t_shape_cons _ _ _ _ (T0 _ eq_refl) Et) as [H _].
           all: rewrite E1, Tc in I; try (destruct isv; cbn [andb is_nil] in I).
           all: try (inv I; apply claims_all_one; cbn [claims cshape c_shape];
                     unfold nd; rewrite <- (all2_length _ _ _ H); apply reduce_dims_sound, H).
           all: try (destruct keep; inv I; [|reflexivity]; apply claims_all_one; cbn [claims cshape c_shape];
                     rewrite (all2_length _ _ _ H), <- (zreduce_keep_length (c_shape c) (seq 0 nd) 0); apply all2_claim_gen).
      * replace (noop && false) with false in I by (destruct noop; reflexivity).
        unfold reduction_op in I. destruct (length ins) as [|[|[|?]]]; try discriminate.
        all: destruct (input ins 0) as [t|] eqn:E0; [|discriminate].
        all: destruct (t_shape t) as [dims|] eqn:Et; [|inv I;
               repeat match type of E with match ?x with _ => _ end = _ => destruct x; try discriminate end; inv E; reflexivity].
        all: destruct (t_shape_cons _ _ _ _ (T0 _ eq_refl) Et) as [H _].
        all: rewrite E1, Tc in I.
        all: destruct isv.
        all: try (rewrite Nl in I; cbn [andb] in I; rewrite (to_constant_vec _ _ _ _ Cca Tc) in Eda; inv Eda;
                  destruct la as [|z0 la]; [discriminate|];
                  unfold nd in E; rewrite <- (all2_length _ _ _ H) in E;
                  destruct (resolve_axes (length dims) (z0 :: la)) as [ax|]; [|discriminate]; inv I; inv E;
                  apply claims_all_one; cbn [claims cshape c_shape]; apply reduce_dims_sound, H).
        all: destruct keep; inv I;
             repeat match type of E with match ?x with _ => _ end = _ => destruct x; try discriminate end; inv E;
             try reflexivity; apply claims_all_one; cbn [claims cshape c_shape].
        all: rewrite (all2_length _ _ _ H).
        all: match goal with |- all2 _ _ (zreduce_dims ?sh ?ax true 0) = true =>
               rewrite <- (zreduce_keep_length sh ax 0); apply all2_claim_gen end.
    + (* unknown axes values *)
      replace (noop && false) with false in I by (destruct noop; reflexivity).
      unfold reduction_op in I. destruct (length ins) as [|[|[|?]]]; try discriminate.
      all: destruct (input ins 0) as [t|] eqn:E0; [|discriminate].
      all: destruct (t_shape t) as [dims|] eqn:Et; [|inv I;
             repeat match type of E with match ?x with _ => _ end = _ => destruct x; try discriminate end; inv E; reflexivity].
      all: destruct (t_shape_cons _ _ _ _ (T0 _ eq_refl) Et) as [H _].
      all: rewrite E1, Tc in I.
      all: destruct keep; inv I;
           repeat match type of E with match ?x with _ => _ end = _ => destruct x; try discriminate end; inv E;
           try reflexivity; apply claims_all_one; cbn [claims cshape c_shape].
      all: rewrite (all2_length _ _ _ H).
      all: match goal with |- all2 _ _ (zreduce_dims ?sh ?ax true 0) = true =>
             rewrite <- (zreduce_keep_length sh ax 0); apply all2_claim_gen end.
  - (* no axes input *)
    assert (Hn := cin_none_nth _ _ (cons_input_none _ _ _ _ A E1)).
    assert (E' : exists ax, match axes with
                 | Some ((_ :: _) as l) => resolve_axes nd l
                 | _ => if noop then Some [] else Some (seq 0 nd)
                 end = Some ax /\ couts = [cshape (zreduce_dims (c_shape c) ax keep 0)]).
    { destruct (nth_error cins 1) as [[?|]|]; try contradiction;
      match type of E with match ?x with _ => _ end = _ => destruct x eqn:Ex end; try discriminate; inv E; eauto. }
    clear E. destruct E' as (ax & E' & ->).
    try rewrite E1 in I.
    destruct axes as [[|z0 la]|]; cbn [is_nil andb] in I.
    + (* empty attribute *)
        cbn [is_nil andb] in I. destruct noop; cbn [andb] in I.
      * inv E'. destruct (input ins 0) as [t|] eqn:E0; [|discriminate]. inv I.
           apply claims_all_one. eapply unary_claims; eauto. cbn [cshape c_shape]. apply zreduce_nil.
      * inv E'. unfold reduction_op in I. destruct (length ins) as [|[|[|?]]]; try discriminate.
           all: destruct (input ins 0) as [t|] eqn:E0; [|discriminate].
           all: destruct (t_shape t) as [dims|] eqn:Et; [|inv I; reflexivity].
           all: destruct (t_shape_cons _ _ _ _ (T0 _ eq_refl) Et) as [H _].
           all: rewrite E1 in I; cbn [andb is_nil] in I; inv I; apply claims_all_one; cbn [claims cshape c_shape].
           all: unfold nd; rewrite <- (all2_length _ _ _ H); apply reduce_dims_sound, H.
    + try replace (noop && false) with false in I by (destruct noop; reflexivity).
        unfold reduction_op in I. destruct (length ins) as [|[|[|?]]]; try discriminate.
        all: destruct (input ins 0) as [t|] eqn:E0; [|discriminate].
        all: destruct (t_shape t) as [dims|] eqn:Et; [|inv I; reflexivity].
        all: destruct (t_shape_cons _ _ _ _ (T0 _ eq_refl) Et) as [H _].
        all: rewrite E1 in I; cbn [andb is_nil] in I.
        all: unfold nd in E'; rewrite <- (all2_length _ _ _ H) in E'; rewrite E' in I; inv I.
        all: apply claims_all_one; cbn [claims cshape c_shape]; apply reduce_dims_sound, H.
    + cbn [andb] in I. destruct noop; cbn [andb] in I.
      * inv E'. destruct (input ins 0) as [t|] eqn:E0; [|discriminate]. inv I.
           apply claims_all_one. eapply unary_claims; eauto. cbn [cshape c_shape]. apply zreduce_nil.
      * inv E'. unfold reduction_op in I. destruct (length ins) as [|[|[|?]]]; try discriminate.
           all: destruct (input ins 0) as [t|] eqn:E0; [|discriminate].
           all: destruct (t_shape t) as [dims|] eqn:Et; [|inv I; reflexivity].
           all: destruct (t_shape_cons _ _ _ _ (T0 _ eq_refl) Et) as [H _].
           all: rewrite E1 in I; inv I; apply claims_all_one; cbn [claims cshape c_shape].
           all: unfold nd; rewrite <- (all2_length _ _ _ H); apply reduce_dims_sound, H.
Qed.

(* ------------------------------------------- element rules of Add/Sub/Mul/Div/Equal *)
(* [elem_sound f fz]: whenever the symbolic element rule [f] answers and the concrete kernel
   [fz] succeeds on consistent operands, the answer's claim holds of the kernel's result *)
Definition elem_sound (f : expr -> expr -> option expr) (fz : Z -> Z -> option Z) : Prop :=
  forall s x y vx vy e r,
    expr_cons s x vx = true -> expr_cons s y vy = true ->
    f x y = Some e -> fz vx vy = Some r -> claim s e r = true.

Lemma arith_cons s x y vx vy (mk : expr -> expr -> expr) (op : Z -> Z -> Z) :
  (forall a b, evalw s (mk a b) = bind2 (evalw s a) (evalw s b) (fun p q => chk true (op p q))) ->
  expr_cons s x vx = true -> expr_cons s y vy = true ->
  claim s (mk x y) (wrap32 (op vx vy)) = true.
Proof.
  intros Hm Hx Hy. apply claim_of_evalw. rewrite Hm.
  rewrite (expr_cons_evalw _ _ _ Hx), (expr_cons_evalw _ _ _ Hy). reflexivity.
Qed.

Lemma wrap32_i32 z : in_i32 (wrap32 z) = true.
Proof. apply in_i32_iff, wrap32_range. Qed.

Ltac value_case Hx Hy :=
  apply expr_cons_value in Hx as [<- _]; apply expr_cons_value in Hy as [<- _];
  apply claim_value, wrap32_i32.

Lemma f_add_sound : elem_sound f_add z_add.
Proof.
  intros s x y vx vy e r Hx Hy F Z0. unfold f_add in F. unfold z_add in Z0. inv Z0.
  assert (G : claim s (Add x y) (wrap32 (vx + vy)) = true) by (apply (arith_cons s x y vx vy Add Z.add); auto).
  destruct x; destruct y; inv F; try exact G. value_case Hx Hy.
Qed.
Lemma f_sub_sound : elem_sound f_sub z_sub.
Proof.
  intros s x y vx vy e r Hx Hy F Z0. unfold f_sub in F. unfold z_sub in Z0. inv Z0.
  assert (G : claim s (Sub x y) (wrap32 (vx - vy)) = true) by (apply (arith_cons s x y vx vy Sub Z.sub); auto).
  destruct x; destruct y; inv F; try exact G. value_case Hx Hy.
Qed.
Lemma f_mul_sound : elem_sound f_mul z_mul.
Proof.
  intros s x y vx vy e r Hx Hy F Z0. unfold f_mul in F. unfold z_mul in Z0. inv Z0.
  assert (G : claim s (Mul x y) (wrap32 (vx * vy)) = true) by (apply (arith_cons s x y vx vy Mul Z.mul); auto).
  destruct x; destruct y; inv F; try exact G. value_case Hx Hy.
Qed.

Lemma f_div_sound : elem_sound f_div z_div.
Proof.
  intros s x y vx vy e r Hx Hy F Z0. unfold f_div in F. unfold z_div in Z0.
  destruct (vy =? 0) eqn:E0; [discriminate|]. destruct (div_ovf vx vy) eqn:Eo; [discriminate|]. cbn [orb] in Z0. inv Z0.
  assert (G : claim s (Div x y) (Z.quot vx vy) = true).
  { apply claim_of_evalw. pose proof (expr_cons_evalw _ _ _ Hx) as Wx. pose proof (expr_cons_evalw _ _ _ Hy) as Wy.
    unfold evalw in *. cbn [evalm]. rewrite Wx, Wy. cbn [bind2]. rewrite E0, Eo. reflexivity. }
  destruct x; destruct y; inv F; try exact G.
  pose proof Hx as Hx'. pose proof Hy as Hy'.
  apply expr_cons_value in Hx' as [-> Ix]; apply expr_cons_value in Hy' as [-> _].
  rewrite E0. apply claim_value. apply in_i32_iff, quot_range.
  - apply in_i32_iff, Ix.
  - apply Z.eqb_neq, E0.
  - exact Eo.
Qed.

Lemma f_div_x_sound : elem_sound f_div_x z_div.
Proof.
  intros s x y vx vy e r Hx Hy F Z0. apply (f_div_sound s x y vx vy e r Hx Hy); auto.
  unfold f_div_x in F. unfold f_div.
  destruct x; destruct y; try exact F.
  destruct ((z0 =? 0) || div_ovf z z0) eqn:E; [discriminate|]. apply orb_false_iff in E as [E1 E2].
  rewrite E1. destruct (Z.rem z z0 =? 0); [exact F|discriminate].
Qed.

(* Equal, for the code WITH the F5 fix of SymExpr::range *)
Lemma f_equal_sound : elem_sound (f_equal range) z_eq.
Proof.
  intros s x y vx vy e r Hx Hy F Z0. unfold z_eq in Z0. inv Z0. unfold f_equal in F.
  destruct (range x) as [xmin xmax] eqn:Rx. destruct (range y) as [ymin ymax] eqn:Ry.
  destruct (expr_eqb x y) eqn:Eq.
  - inv F. rewrite (expr_eqb_cons _ _ _ _ _ Eq Hx Hy), Z.eqb_refl. apply claim_value. reflexivity.
  - destruct ((xmax <? ymin) || (ymax <? xmin)) eqn:D; [|discriminate]. inv F.
    apply expr_cons_spec in Hx as (Ex & Px & Bx). apply expr_cons_spec in Hy as (Ey & Py & By).
    pose proof (range_sound _ _ _ Ex Px Bx) as R1. pose proof (range_sound _ _ _ Ey Py By) as R2.
    rewrite Rx in R1. rewrite Ry in R2. cbn [fst snd] in R1, R2.
    replace (vx =? vy) with false; [apply claim_value; reflexivity|].
    symmetry. apply Z.eqb_neq. apply orb_prop in D as [D|D]; apply Z.ltb_lt in D; lia.
Qed.

(* ... and the witness that it fails for the code before that fix (finding F5):
   Equal(-n, 0) with n declared >= 0 folds to 0 although it is 1 for n = 0 *)
Lemma f_equal_old_refuted :
  exists s x y vx vy e r,
    expr_cons s x vx = true /\ expr_cons s y vy = true /\
    f_equal range_old x y = Some e /\ z_eq vx vy = Some r /\ claim s e r = false.
Proof.
  exists (env_of_list [(0%N, 0)]), (Neg (Var 0%N true)), (Value 0), 0, 0, (Value 0), 1.
  vm_compute. repeat split; reflexivity.
Qed.

(* --------------------------------------------- witnesses for the repaired findings *)
Definition refuted (v : ver) (o : op) : Prop :=
  exists s ins cins outs couts,
    all2 (consistent_in s) ins cins = true /\ infer_with v o ins = IOk outs /\
    exec_ref o cins = Some couts /\ claims_all s outs couts = false.

(* F5: Equal on the unfixed range *)
Lemma Equal_old_refuted : refuted ver_nof5 OEqual.
Proof.
  exists (env_of_list [(0%N, 0)]), [Some (TScalar (Neg (Var 0%N true))); Some (TScalar (Value 0))],
         [Some (cscalar 0); Some (cscalar 0)], [TScalar (Value 0)], [cscalar 1].
  vm_compute. repeat split; reflexivity.
Qed.
(* F71: Where on scalars claimed rank 1 *)
Lemma Where_old_refuted : refuted ver_old OWhere.
Proof.
  exists (env_of_list []), [Some (TScalar (Value 1)); Some (TScalar (Value 5)); Some (TScalar (Value 7))],
         [Some (cscalar 1); Some (cscalar 5); Some (cscalar 7)], [TVector [Value 5]], [cscalar 5].
  vm_compute. repeat split; reflexivity.
Qed.
(* F72: reductions with empty axes / noop_with_empty_axes *)
Lemma Reduce_old_refuted_empty_axes : refuted ver_old (OReduce None false false).
Proof.
  exists (env_of_list []), [Some (TShape [Value 2; Value 3]); Some (TVector [])],
         [Some (cshape [2; 3]); Some (cvector [])], [TShape [Value 2; Value 3]], [cshape []].
  vm_compute. repeat split; reflexivity.
Qed.
Lemma Reduce_old_refuted_noop : refuted ver_old (OReduce None true true).
Proof.
  exists (env_of_list []), [Some (TShape [Value 2; Value 3])],
         [Some (cshape [2; 3])], [TShape [Value 1; Value 1]], [cshape [2; 3]].
  vm_compute. repeat split; reflexivity.
Qed.
(* F77: Squeeze with axes of unknown value (here: an empty axes tensor known only by its shape) *)
Lemma Squeeze_old_refuted : refuted ver_old OSqueeze.
Proof.
  exists (env_of_list []), [Some (TVector [Value 4]); Some (TShape [Value 0])],
         [Some (cvector [4]); Some (cvector [])], [TScalar (Value 4)], [cvector [4]].
  vm_compute. repeat split; reflexivity.
Qed.
(* F70 (known, not repaired): BinaryOp on a 0-sized against a 1-sized symbolic dimension *)
Lemma Binary_F70_refuted : forall v, refuted v OBinary.
Proof.
  intros v.
  exists (env_of_list [(0%N, 0); (1%N, 1)]), [Some (TShape [Var 0%N true]); Some (TShape [Var 1%N true])],
         [Some (cshape [0]); Some (cshape [1])], [TShape [Broadcast (Var 0%N true) (Var 1%N true)]], [cshape [0]].
  repeat split; reflexivity.
Qed.

(* ------------------------------------------- symbolic_binary_op on tensors *)
Lemma omap_sound s (g : expr -> option expr) (gz : Z -> option Z) :
  (forall y vy e r, expr_cons s y vy = true -> g y = Some e -> gz vy = Some r -> claim s e r = true) ->
  forall lb vb l d, all2 (expr_cons s) lb vb = true -> omap g lb = Some l -> omapz gz vb = Some d ->
    all2 (claim s) l d = true /\ length l = length lb.
Proof.
  intros H. induction lb as [|y lb IH]; intros [|vy vb] l d A O Z0; cbn [all2 omap omapz] in *; try discriminate.
  - inv O. inv Z0. split; reflexivity.
  - apply andb_prop in A as [A1 A2].
    destruct (g y) as [e|] eqn:Eg; [|discriminate]. destruct (omap g lb) as [rl|] eqn:Er; [|discriminate]. inv O.
    destruct (gz vy) as [r|] eqn:Ez; [|discriminate]. destruct (omapz gz vb) as [rd|] eqn:Ed; [|discriminate]. inv Z0.
    destruct (IH vb rl rd A2 eq_refl Ed) as [I1 I2]. cbn [all2 length]. rewrite (H _ _ _ _ A1 Eg Ez), I1, I2. split; reflexivity.
Qed.

Lemma omap2_sound s f fz : elem_sound f fz ->
  forall la va lb vb l d, all2 (expr_cons s) la va = true -> all2 (expr_cons s) lb vb = true ->
    omap2 f la lb = Some l -> zip_with fz va vb = Some d ->
    all2 (claim s) l d = true /\ length l = Nat.min (length la) (length lb).
Proof.
  intros ES. induction la as [|x la IH]; intros va lb vb l d A B O Z0.
  - destruct va; [|discriminate]. cbn [omap2 zip_with] in *. inv O. inv Z0. split; reflexivity.
  - destruct va as [|vx va]; [discriminate|]. cbn [all2] in A. apply andb_prop in A as [A1 A2].
    destruct lb as [|y lb].
    + destruct vb; [|discriminate]. cbn [omap2 zip_with] in *. inv O. inv Z0. split; reflexivity.
    + destruct vb as [|vy vb]; [discriminate|]. cbn [all2] in B. apply andb_prop in B as [B1 B2].
      cbn [omap2 zip_with] in *.
      destruct (f x y) as [e|] eqn:Ef; [|discriminate]. destruct (omap2 f la lb) as [rl|] eqn:Er; [|discriminate]. inv O.
      destruct (fz vx vy) as [r|] eqn:Ez; [|discriminate]. destruct (zip_with fz va vb) as [rd|] eqn:Ed; [|discriminate]. inv Z0.
      destruct (IH va lb vb rl rd A2 B2 Er Ed) as [I1 I2].
      cbn [all2 length Nat.min]. rewrite (ES s x y vx vy e r A1 B1 Ef Ez), I1, I2. split; reflexivity.
Qed.

(* a consistent value-carrying tensor: its data and the two possible shapes *)
Lemma values_cons s t c vals :
  consistent s t c = true -> t_values t = Some vals ->
  exists d, c_data c = Some d /\ all2 (expr_cons s) vals d = true /\
            ((c_shape c = [] /\ exists e, t = TScalar e /\ vals = [e]) \/
             (c_shape c = [zlen vals] /\ t = TVector vals)).
Proof.
  intros C V. destruct t; cbn [t_values] in V; inv V; cbn [consistent] in C.
  - destruct (c_shape c); [|discriminate]. destruct (c_data c) as [[|v [|? ?]]|]; try discriminate.
    exists [v]. cbn [all2]. rewrite C. repeat split; eauto.
  - destruct (c_shape c) as [|n [|? ?]]; try discriminate. destruct (c_data c) as [d|]; [|discriminate].
    apply andb_prop in C as [C C3]. apply andb_prop in C as [C1 C2]. apply Z.eqb_eq in C1. subst n.
    exists d. repeat split; auto.
Qed.

Lemma bcast_shapes_nil_r n : bcast_shapes [n] [] = Some [n].
Proof.
  unfold bcast_shapes, pad_z. cbn [length Nat.max Nat.sub repeat app bcast_zs]. unfold bcast_z.
  destruct (n =? 1) eqn:E; [reflexivity|]. reflexivity.
Qed.
Lemma bcast_shapes_nil_l n : bcast_shapes [] [n] = Some [n].
Proof.
  unfold bcast_shapes, pad_z. cbn [length Nat.max Nat.sub repeat app bcast_zs]. unfold bcast_z.
  destruct (1 =? n) eqn:E; [apply Z.eqb_eq in E; subst; reflexivity|]. reflexivity.
Qed.

Lemma zlen_eq {A B} (f : A -> B -> bool) a b : all2 f a b = true -> zlen a = zlen b.
Proof. intros H. unfold zlen. rewrite (all2_length _ _ _ H). reflexivity. Qed.

Lemma sel_omap f la lb :
  match la, lb with
  | [x], _ => omap (fun y => f x y) lb
  | _, [y] => omap (fun x => f x y) la
  | _, _ => omap2 f la lb
  end =
  match la with
  | [x] => omap (fun y => f x y) lb
  | _ => match lb with [y] => omap (fun x => f x y) la | _ => omap2 f la lb end
  end.
Proof. destruct la as [|? [|? ?]]; destruct lb as [|? [|? ?]]; reflexivity. Qed.
Lemma sel_omapz (fz : Z -> Z -> option Z) va vb :
  match va, vb with
  | [x], _ => omapz (fun y => fz x y) vb
  | _, [y] => omapz (fun x => fz x y) va
  | _, _ => zip_with fz va vb
  end =
  match va with
  | [x] => omapz (fun y => fz x y) vb
  | _ => match vb with [y] => omapz (fun x => fz x y) va | _ => zip_with fz va vb end
  end.
Proof. destruct va as [|? [|? ?]]; destruct vb as [|? [|? ?]]; reflexivity. Qed.
Lemma bcast_shapes_11 m n :
  bcast_shapes [m] [n] = match bcast_z m n with Some k => Some [k] | None => None end.
Proof. unfold bcast_shapes, pad_z. cbn [length Nat.max Nat.sub repeat app bcast_zs]. destruct (bcast_z m n); reflexivity. Qed.

Ltac kill_eqb H :=
  repeat match type of H with context [?a =? ?b] =>
    let E := fresh "E" in destruct (a =? b) eqn:E; [apply Z.eqb_eq in E; lia|] end.

Lemma sym_binop_sound s f fz (ES : elem_sound f fz) ta tb ca cb t c :
  consistent s ta ca = true -> consistent s tb cb = true ->
  sym_binop f ta tb = Some t -> exec_elementwise fz ca cb = Some [c] -> claims s t c = true.
Proof.
  intros Ca Cb SB EX. unfold exec_elementwise in EX.
  assert (EL : forall x vx, expr_cons s x vx = true ->
            forall y vy e r, expr_cons s y vy = true -> f x y = Some e -> fz vx vy = Some r -> claim s e r = true)
    by (intros x vx Hx y vy e r Hy Hf Hz; exact (ES s x y vx vy e r Hx Hy Hf Hz)).
  assert (ER : forall y vy, expr_cons s y vy = true ->
            forall x vx e r, expr_cons s x vx = true -> f x y = Some e -> fz vx vy = Some r -> claim s e r = true)
    by (intros y vy Hy x vx e r Hx Hf Hz; exact (ES s x y vx vy e r Hx Hy Hf Hz)).
  destruct ta as [x|la| |]; destruct tb as [y|lb| |]; cbn [sym_binop t_values] in SB; try discriminate.
  - (* scalar, scalar *)
    destruct (f x y) as [e|] eqn:Ef; [|discriminate]. inv SB. cbn [consistent] in Ca, Cb.
    destruct (c_shape ca); [|discriminate]. destruct (c_data ca) as [[|vx [|? ?]]|]; try discriminate.
    destruct (c_shape cb); [|discriminate]. destruct (c_data cb) as [[|vy [|? ?]]|]; try discriminate.
    change (bcast_shapes [] []) with (Some (@nil Z)) in EX. cbn [length Nat.leb bcast_data omapz] in EX.
    destruct (fz vx vy) as [r|] eqn:Ez; [|discriminate]. inv EX. cbn [claims c_shape c_data]. exact (ES s x y vx vy e r Ca Cb Ef Ez).
  - (* scalar, vector *)
    cbn [consistent] in Ca, Cb.
    destruct (c_shape ca); [|discriminate]. destruct (c_data ca) as [[|vx [|? ?]]|]; try discriminate.
    destruct (c_shape cb) as [|n [|? ?]]; try discriminate. destruct (c_data cb) as [vb|]; [|discriminate].
    apply andb_prop in Cb as [Cb Cb3]. apply andb_prop in Cb as [Cb1 Cb2]. apply Z.eqb_eq in Cb1. subst n.
    rewrite bcast_shapes_nil_l in EX. cbn [length Nat.leb bcast_data] in EX.
    destruct (omap (fun y => f x y) lb) as [l|] eqn:Eo; [|discriminate]. inv SB.
    destruct (omapz (fun y => fz vx y) vb) as [d|] eqn:Ed; [|discriminate]. inv EX.
    destruct (omap_sound s (fun y => f x y) (fun y => fz vx y) (EL x vx Ca) lb vb l d Cb3 Eo Ed) as [H1 H2].
    cbn [claims c_shape c_data]. unfold zlen. rewrite H2, Z.eqb_refl. exact H1.
  - (* vector, scalar *)
    cbn [consistent] in Ca, Cb.
    destruct (c_shape cb); [|discriminate]. destruct (c_data cb) as [[|vy [|? ?]]|]; try discriminate.
    destruct (c_shape ca) as [|n [|? ?]]; try discriminate. destruct (c_data ca) as [va|]; [|discriminate].
    apply andb_prop in Ca as [Ca Ca3]. apply andb_prop in Ca as [Ca1 Ca2]. apply Z.eqb_eq in Ca1. subst n.
    rewrite bcast_shapes_nil_r in EX. cbn [length Nat.leb bcast_data] in EX.
    assert (G : exists l, t = TVector l /\ omap (fun x => f x y) la = Some l).
    { destruct la as [|x0 [|x1 la']].
      - cbn [omap] in SB |- *. inv SB. eauto.
      - cbn [omap] in SB |- *. destruct (f x0 y); [|discriminate]. inv SB. eauto.
      - destruct (omap (fun x => f x y) (x0 :: x1 :: la')) as [l0|] eqn:E; [|discriminate]. inv SB. eauto. }
    destruct G as (l & -> & Eo).
    destruct (omapz (fun x => fz x vy) va) as [d|] eqn:Ed; [|discriminate]. inv EX.
    destruct (omap_sound s (fun x => f x y) (fun x => fz x vy) (fun x0 vx0 e r Hc => ER y vy Cb x0 vx0 e r Hc) la va l d Ca3 Eo Ed) as [H1 H2].
    cbn [claims c_shape c_data]. unfold zlen. rewrite H2, Z.eqb_refl. exact H1.
  - (* vector, vector *)
    cbn [consistent] in Ca, Cb.
    destruct (c_shape ca) as [|m [|? ?]]; try discriminate. destruct (c_data ca) as [va|]; [|discriminate].
    apply andb_prop in Ca as [Ca Ca3]. apply andb_prop in Ca as [Ca1 Ca2]. apply Z.eqb_eq in Ca1. subst m.
    destruct (c_shape cb) as [|n [|? ?]]; try discriminate. destruct (c_data cb) as [vb|]; [|discriminate].
    apply andb_prop in Cb as [Cb Cb3]. apply andb_prop in Cb as [Cb1 Cb2]. apply Z.eqb_eq in Cb1. subst n.
    rewrite bcast_shapes_11 in EX.
    destruct (bcast_z (zlen la) (zlen lb)) as [k|] eqn:Ek; [|discriminate].
    cbn [length Nat.leb bcast_data] in EX.
    assert (La := all2_length _ _ _ Ca3). assert (Lb := all2_length _ _ _ Cb3).
    unfold bcast_z in Ek. unfold zlen in *.
    destruct la as [|x0 [|x1 la']]; destruct va as [|vx0 [|vx1 va']]; try discriminate; cbv beta iota in SB, EX.
    + (* la = [] *)
      destruct lb as [|y0 [|y1 lb']]; destruct vb as [|vy0 [|vy1 vb']]; try discriminate; cbv beta iota in SB, EX.
      * cbn in SB, EX. inv SB. inv EX. cbn in Ek. inv Ek. reflexivity.
      * cbn in SB, EX. inv SB. inv EX. cbn in Ek. inv Ek. reflexivity.
      * cbn [omap2 zip_with] in SB, EX. inv SB. inv EX. cbn [length] in Ek.
        exfalso. kill_eqb Ek. discriminate.
    + (* la = [x0] *)
      cbn [all2] in Ca3. apply andb_prop in Ca3 as [Cx _].
      destruct (omap (fun y => f x0 y) lb) as [l|] eqn:Eo; [|discriminate]. inv SB.
      destruct (omapz (fun y => fz vx0 y) vb) as [d|] eqn:Ed; [|discriminate]. inv EX.
      destruct (omap_sound s (fun y => f x0 y) (fun y => fz vx0 y) (EL x0 vx0 Cx) lb vb l d Cb3 Eo Ed) as [H1 H2].
      cbn [claims c_shape c_data]. unfold zlen. rewrite H2.
      assert (k = Z.of_nat (length lb)).
      { cbn [length] in Ek. destruct (Z.of_nat 1 =? Z.of_nat (length lb)) eqn:E1; [apply Z.eqb_eq in E1; inv Ek; lia|]. cbn in Ek. inv Ek. reflexivity. }
      subst k. rewrite Z.eqb_refl. exact H1.
    + (* la has >= 2 elements *)
      destruct lb as [|y0 [|y1 lb']]; destruct vb as [|vy0 [|vy1 vb']]; try discriminate; cbv beta iota in SB, EX.
      * cbn [omap2 zip_with] in SB, EX. inv SB. inv EX. cbn [length] in Ek.
        exfalso. kill_eqb Ek. discriminate.
      * (* lb = [y0] *)
        cbn [all2] in Cb3. apply andb_prop in Cb3 as [Cy _].
        destruct (omap (fun x => f x y0) (x0 :: x1 :: la')) as [l|] eqn:Eo; [|discriminate]. inv SB.
        destruct (omapz (fun x => fz x vy0) (vx0 :: vx1 :: va')) as [d|] eqn:Ed; [|discriminate]. inv EX.
        destruct (omap_sound s (fun x => f x y0) (fun x => fz x vy0) (fun a va0 e r Hc => ER y0 vy0 Cy a va0 e r Hc) _ _ l d Ca3 Eo Ed) as [H1 H2].
        cbn [claims c_shape c_data]. unfold zlen. rewrite H2.
        assert (k = Z.of_nat (length (x0 :: x1 :: la'))).
        { cbn [length] in Ek |- *. destruct (Z.of_nat (S (S (length la'))) =? Z.of_nat 1) eqn:E1; [apply Z.eqb_eq in E1; lia|].
          destruct (Z.of_nat (S (S (length la'))) =? 1) eqn:E2; [apply Z.eqb_eq in E2; lia|]. cbn in Ek. inv Ek. reflexivity. }
        subst k. rewrite Z.eqb_refl. exact H1.
      * (* both have >= 2 elements *)
        destruct (omap2 f (x0 :: x1 :: la') (y0 :: y1 :: lb')) as [l|] eqn:Eo; [|discriminate]. inv SB.
        destruct (zip_with fz (vx0 :: vx1 :: va') (vy0 :: vy1 :: vb')) as [d|] eqn:Ed; [|discriminate]. inv EX.
        destruct (omap2_sound s f fz ES _ _ _ _ l d Ca3 Cb3 Eo Ed) as [H1 H2].
        cbn [claims c_shape c_data]. unfold zlen. rewrite H2.
        assert (k = Z.of_nat (Nat.min (length (x0 :: x1 :: la')) (length (y0 :: y1 :: lb')))).
        { cbn [length] in Ek |- *.
          destruct (Z.of_nat (S (S (length la'))) =? Z.of_nat (S (S (length lb')))) eqn:E1.
          - apply Z.eqb_eq in E1. inv Ek. lia.
          - destruct (Z.of_nat (S (S (length la'))) =? 1) eqn:E2; [apply Z.eqb_eq in E2; lia|].
            destruct (Z.of_nat (S (S (length lb'))) =? 1) eqn:E3; [apply Z.eqb_eq in E3; lia|]. discriminate. }
        subst k. rewrite Z.eqb_refl. exact H1.
Qed.

Lemma exec_elementwise_shape fz a b couts :
  exec_elementwise fz a b = Some couts ->
  exists c, couts = [c] /\ bcast_shapes (c_shape a) (c_shape b) = Some (c_shape c).
Proof.
  unfold exec_elementwise. destruct (bcast_shapes (c_shape a) (c_shape b)) as [sz|]; [|discriminate].
  destruct (c_data a); destruct (c_data b); try (intros H; inv H; eexists; split; reflexivity).
  destruct (Nat.leb (length sz) 1); [|intros H; inv H; eexists; split; reflexivity].
  destruct (bcast_data fz (c_shape a) (c_shape b) l l0); intros H; inv H. eexists; split; reflexivity.
Qed.

Lemma infer_arith_sound s f fz (ES : elem_sound f fz) ins cins outs couts a b :
  all2 (consistent_in s) ins cins = true ->
  infer_arith f ins = IOk outs ->
  cin cins 0 = Some a -> cin cins 1 = Some b -> exec_elementwise fz a b = Some couts ->
  f70_free2 cins ->
  claims_all s outs couts = true.
Proof.
  intros A I Ea Eb EX F. unfold infer_arith in I.
  destruct (input ins 0) as [ta|] eqn:E0; [|discriminate].
  destruct (input ins 1) as [tb|] eqn:E1; [|discriminate].
  destruct (cons_input _ _ _ _ _ A E0) as (a' & Ea' & Ca). destruct (cons_input _ _ _ _ _ A E1) as (b' & Eb' & Cb).
  rewrite Ea in Ea'. inv Ea'. rewrite Eb in Eb'. inv Eb'.
  destruct (exec_elementwise_shape _ _ _ _ EX) as (c & -> & Hs).
  destruct (sym_binop f ta tb) as [t|] eqn:SB.
  - inv I. apply claims_all_one. exact (sym_binop_sound s f fz ES ta tb a' b' t c Ca Cb SB EX).
  - eapply (binary_op_sound s ta tb a' b' outs (c_shape c) Ca Cb I Hs (F _ _ Ea Eb)). reflexivity.
Qed.

Theorem infer_sound_Add v : sound_for v OAdd (fun cins _ => f70_free2 cins).
Proof.
  intros s ins cins outs couts A I E F. cbn [infer_with] in I. cbn [exec_ref] in E.
  destruct (cin cins 0) as [a|] eqn:Ea; [|discriminate]. destruct (cin cins 1) as [b|] eqn:Eb; [|discriminate].
  eapply (infer_arith_sound s f_add z_add f_add_sound); eauto.
Qed.
Theorem infer_sound_Sub v : sound_for v OSub (fun cins _ => f70_free2 cins).
Proof.
  intros s ins cins outs couts A I E F. cbn [infer_with] in I. cbn [exec_ref] in E.
  destruct (cin cins 0) as [a|] eqn:Ea; [|discriminate]. destruct (cin cins 1) as [b|] eqn:Eb; [|discriminate].
  eapply (infer_arith_sound s f_sub z_sub f_sub_sound); eauto.
Qed.
Theorem infer_sound_Mul v : sound_for v OMul (fun cins _ => f70_free2 cins).
Proof.
  intros s ins cins outs couts A I E F. cbn [infer_with] in I. cbn [exec_ref] in E.
  destruct (cin cins 0) as [a|] eqn:Ea; [|discriminate]. destruct (cin cins 1) as [b|] eqn:Eb; [|discriminate].
  eapply (infer_arith_sound s f_mul z_mul f_mul_sound); eauto.
Qed.
Theorem infer_sound_Div v : sound_for v ODiv (fun cins _ => f70_free2 cins).
Proof.
  intros s ins cins outs couts A I E F. cbn [infer_with] in I. cbn [exec_ref] in E.
  destruct (cin cins 0) as [a|] eqn:Ea; [|discriminate]. destruct (cin cins 1) as [b|] eqn:Eb; [|discriminate].
  destruct (v_divx v).
  - eapply (infer_arith_sound s f_div_x z_div f_div_x_sound); eauto.
  - eapply (infer_arith_sound s f_div z_div f_div_sound); eauto.
Qed.
(* Equal: for every code version whose SymExpr::range is the fixed one *)
Theorem infer_sound_Equal v : v_range v = range -> sound_for v OEqual (fun cins _ => f70_free2 cins).
Proof.
  intros R s ins cins outs couts A I E F. cbn [infer_with] in I. rewrite R in I. cbn [exec_ref] in E.
  destruct (cin cins 0) as [a|] eqn:Ea; [|discriminate]. destruct (cin cins 1) as [b|] eqn:Eb; [|discriminate].
  eapply (infer_arith_sound s (f_equal range) z_eq f_equal_sound); eauto.
Qed.

(* --------------------------------------------------------------------------- Gather *)
Lemma gather_vals_sound s vals vd :
  all2 (expr_cons s) vals vd = true ->
  forall idxs l d,
    gather_vals vals idxs = Some l ->
    omapz (fun i => match resolve_index (zlen vals) i with
                    | Some k => nth_error vd (Z.to_nat k)
                    | None => None
                    end) idxs = Some d ->
    all2 (claim s) l d = true /\ length l = length idxs.
Proof.
  intros A. induction idxs as [|i idxs IH]; intros l d G O; cbn [gather_vals omapz] in *.
  - inv G. inv O. split; reflexivity.
  - destruct (resolve_index (zlen vals) i) as [k|]; [|discriminate].
    destruct (nth_error vals (Z.to_nat k)) as [e|] eqn:Ee; [|discriminate].
    destruct (gather_vals vals idxs) as [rl|] eqn:Er; [|discriminate]. inv G.
    destruct (nth_error vd (Z.to_nat k)) as [v|] eqn:Ev; [|discriminate].
    destruct (omapz _ idxs) as [rd|] eqn:Ed; [|discriminate]. inv O.
    destruct (all2_nth _ _ _ _ _ A Ee) as (v' & Ev' & Hc). rewrite Ev in Ev'. inv Ev'.
    destruct (IH rl rd eq_refl eq_refl) as [I1 I2].
    cbn [all2 length]. rewrite (claim_of_cons _ _ _ Hc), I1, I2. split; reflexivity.
Qed.

Lemma to_constant_cons s t c isvec idxs :
  consistent s t c = true -> to_constant t = Some (isvec, idxs) ->
  c_data c = Some idxs /\ (if isvec then c_shape c = [zlen idxs] else (c_shape c = [] /\ exists z, idxs = [z])).
Proof.
  intros C H. destruct t; cbn [to_constant] in H; try discriminate.
  - destruct e; try discriminate. inv H. cbn [consistent] in C.
    destruct (c_shape c); [|discriminate]. destruct (c_data c) as [[|v [|? ?]]|]; try discriminate.
    apply expr_cons_value in C as [-> _]. split; [reflexivity|]. split; eauto.
  - destruct (all_values l) as [zs|] eqn:E; [|discriminate]. inv H. cbn [consistent] in C.
    destruct (c_shape c) as [|n [|? ?]]; try discriminate. destruct (c_data c) as [vs|]; [|discriminate].
    apply andb_prop in C as [C C3]. apply andb_prop in C as [C1 _]. apply Z.eqb_eq in C1. subst n.
    rewrite (all_values_cons _ _ _ _ E C3). split; [reflexivity|]. f_equal. eapply zlen_eq; eauto.
Qed.

Theorem infer_sound_Gather v axis : sound_for v (OGather axis) no_extra.
Proof.
  intros s ins cins outs couts A I E _. cbn [infer_with] in I. unfold infer_gather in I.
  destruct (input ins 0) as [td|] eqn:E0; [|discriminate].
  destruct (input ins 1) as [ti|] eqn:E1; [|discriminate].
  destruct (cons_input _ _ _ _ _ A E0) as (cd & Ecd & Cd). destruct (cons_input _ _ _ _ _ A E1) as (ci & Eci & Ci).
  cbn [exec_ref] in E. rewrite Ecd, Eci in E. unfold exec_gather in E.
  destruct (t_shape td) as [ddims|] eqn:Td; [|inv I;
    repeat match type of E with match ?x with _ => _ end = _ => destruct x; try discriminate end; inv E; reflexivity].
  destruct (t_shape_cons _ _ _ _ Cd Td) as [Hd _].
  rewrite <- (all2_length _ _ _ Hd) in E.
  destruct (resolve_axis (length ddims) axis) as [ax|] eqn:Eax; [|discriminate].
  (* the shape path, used by both branches *)
  assert (SH : forall idims c, t_shape ti = Some idims ->
             c_shape c = firstn ax (c_shape cd) ++ c_shape ci ++ skipn (S ax) (c_shape cd) ->
             claims s (TShape (firstn ax ddims ++ idims ++ skipn (S ax) ddims)) c = true).
  { intros idims c Ti Hc. destruct (t_shape_cons _ _ _ _ Ci Ti) as [Hi _]. cbn [claims]. rewrite Hc.
    apply all2_claim_of_cons. apply all2_app; [apply all2_firstn, Hd|]. apply all2_app; [exact Hi|apply all2_skipn, Hd]. }
  assert (OUT : exists c, couts = [c] /\ c_shape c = firstn ax (c_shape cd) ++ c_shape ci ++ skipn (S ax) (c_shape cd)).
  { repeat match type of E with match ?x with _ => _ end = _ => destruct x; try discriminate end; inv E; eexists; split; reflexivity. }
  destruct (t_values td) as [vals|] eqn:Tv.
  - destruct (to_constant ti) as [[isvec idxs]|] eqn:Tc.
    + (* values of a vector gathered by constant indices *)
      destruct (values_cons _ _ _ _ Cd Tv) as (vd & Dd & Hv & [[Sd (e & -> & ->)]|[Sd ->]]).
      { (* scalar data: the axis cannot be resolved *) cbn [t_shape] in Td. inv Td. cbn in Eax. unfold resolve_axis, resolve_index in Eax. cbn in Eax.
        destruct ((axis <? 0) || (0 <=? axis)) eqn:X; [discriminate|]. apply orb_false_iff in X as [X1 X2].
        apply Z.ltb_ge in X1. apply Z.leb_gt in X2. lia. }
      cbn [t_shape] in Td. inv Td. cbn [length] in Eax.
      assert (ax = 0%nat).
      { unfold resolve_axis, resolve_index in Eax. change (Z.min (Z.of_nat 1) i32_max) with 1 in Eax.
        destruct ((axis <? - (1)) || (1 <=? axis)) eqn:Y; [discriminate|]. apply orb_false_iff in Y as [Y1 Y2].
        apply Z.ltb_ge in Y1. apply Z.leb_gt in Y2.
        destruct (0 <=? axis) eqn:X; inv Eax; [apply Z.leb_le in X|apply Z.leb_gt in X]; lia. }
      subst ax. destruct (to_constant_cons _ _ _ _ _ Ci Tc) as [Di Si].
      rewrite Dd, Di, Sd in E. cbn [firstn skipn app] in E.
      destruct (gather_vals vals idxs) as [l|] eqn:G; [|discriminate].
      destruct (omapz _ idxs) as [d|] eqn:O; [|discriminate]. inv E.
      destruct (gather_vals_sound s vals vd Hv idxs l d G O) as [H1 H2].
      destruct isvec.
      * inv I. apply claims_all_one. cbn [claims c_shape c_data]. rewrite app_nil_r, Si. unfold zlen. rewrite H2, Z.eqb_refl. exact H1.
      * destruct Si as [Si (z & ->)]. destruct l as [|e [|? ?]]; try discriminate. inv I.
        pose proof (all2_length _ _ _ H1) as L. destruct d as [|dv [|? ?]]; try discriminate. cbn [all2] in H1.
        apply claims_all_one. cbn [claims c_shape c_data]. rewrite app_nil_r, Si. apply andb_prop in H1 as [H1 _]. exact H1.
    + destruct OUT as (c & -> & Hc). destruct (t_shape ti) as [idims|] eqn:Ti; inv I; [|reflexivity].
      apply claims_all_one. eapply SH; eauto.
  - destruct OUT as (c & -> & Hc). destruct (t_shape ti) as [idims|] eqn:Ti; inv I; [|reflexivity].
    apply claims_all_one. eapply SH; eauto.
Qed.

(* ------------------------------------------------------------------ pooling output size *)
Lemma div_ceil_nonneg w s : 0 <= w -> 0 < s -> div_ceil_z w s = (w + s - 1) / s.
Proof.
  intros Hw Hs. rewrite div_ceil_spec by lia.
  pose proof (Z.div_mod (- w) s ltac:(lia)) as D1. pose proof (Z.mod_pos_bound (- w) s Hs) as B1.
  pose proof (Z.div_mod (w + s - 1) s ltac:(lia)) as D2. pose proof (Z.mod_pos_bound (w + s - 1) s Hs) as B2.
  nia.
Qed.

(* The inferred size counts window positions: output position j (j >= 0) exists iff
   floor mode: the window starting at j*s fits into the padded input;
   ceil mode:  the previous window did not already reach the end of the padded input (partial last
               window allowed) and the window starts inside the input or its start padding. *)
Theorem pool_out_counts_windows n k s d ps pe :
  0 < s -> 0 <= n + ps + pe - d * (k - 1) - 1 -> 1 <= n + ps ->
  let w := n + ps + pe - d * (k - 1) - 1 in
  forall j, 0 <= j ->
    (j < pool_out_z n k s d ps pe false <-> j * s <= w) /\
    (j < pool_out_z n k s d ps pe true <-> (j * s < w + s /\ j * s <= n + ps - 1)).
Proof.
  intros Hs Hw Hl w j Hj. unfold pool_out_z. fold w. cbv zeta.
  rewrite !Z.quot_div_nonneg by lia. rewrite div_ceil_nonneg by lia.
  pose proof (Z.div_mod w s ltac:(lia)) as D1. pose proof (Z.mod_pos_bound w s Hs) as B1.
  pose proof (Z.div_mod (w + s - 1) s ltac:(lia)) as D2. pose proof (Z.mod_pos_bound (w + s - 1) s Hs) as B2.
  pose proof (Z.div_mod (n + ps - 1) s ltac:(lia)) as D3. pose proof (Z.mod_pos_bound (n + ps - 1) s Hs) as B3.
  split; split; intros H; nia.
Qed.

(* evaluation of the expression built by output_size, for parameters in a range that excludes i32
   overflow of every intermediate *)
Definition small (z : Z) : Prop := 0 <= z <= 1048576.

Lemma evalw_value s z : small z -> evalw s (Value z) = Ok z.
Proof. intros [H1 H2]. unfold evalw. cbn [evalm]. replace (in_i32 z) with true; [reflexivity|]. symmetry. apply in_i32_iff. unfold I32, i32_min, i32_max. lia. Qed.

Lemma wrap32_small z : - 2147483648 <= z <= 2147483647 -> wrap32 z = z.
Proof. intros H. apply wrap32_id. unfold I32, i32_min, i32_max. lia. Qed.

Definition fits (z : Z) : Prop := - 2147483648 <= z <= 2147483647.
Lemma ev_add s a b x y : evalw s a = Ok x -> evalw s b = Ok y -> fits (x + y) -> evalw s (Add a b) = Ok (x + y).
Proof. intros A B F. unfold evalw in *. cbn [evalm]. rewrite A, B. cbn [bind2 chk]. rewrite wrap32_small by exact F. reflexivity. Qed.
Lemma ev_sub s a b x y : evalw s a = Ok x -> evalw s b = Ok y -> fits (x - y) -> evalw s (Sub a b) = Ok (x - y).
Proof. intros A B F. unfold evalw in *. cbn [evalm]. rewrite A, B. cbn [bind2 chk]. rewrite wrap32_small by exact F. reflexivity. Qed.
Lemma ev_mul s a b x y : evalw s a = Ok x -> evalw s b = Ok y -> fits (x * y) -> evalw s (Mul a b) = Ok (x * y).
Proof. intros A B F. unfold evalw in *. cbn [evalm]. rewrite A, B. cbn [bind2 chk]. rewrite wrap32_small by exact F. reflexivity. Qed.
Lemma ev_div s a b x y : evalw s a = Ok x -> evalw s b = Ok y -> 0 < y -> evalw s (Div a b) = Ok (Z.quot x y).
Proof.
  intros A B F. unfold evalw in *. cbn [evalm]. rewrite A, B. cbn [bind2].
  replace (y =? 0) with false by (symmetry; apply Z.eqb_neq; lia).
  replace (div_ovf x y) with false by (symmetry; apply div_ovf_false; lia). reflexivity.
Qed.
Lemma ev_divceil s a b x y : evalw s a = Ok x -> evalw s b = Ok y -> 0 < y -> evalw s (DivCeil a b) = Ok (div_ceil_z x y).
Proof.
  intros A B F. unfold evalw in *. cbn [evalm]. rewrite A, B. cbn [bind2].
  replace (y =? 0) with false by (symmetry; apply Z.eqb_neq; lia).
  replace (div_ovf x y) with false by (symmetry; apply div_ovf_false; lia). reflexivity.
Qed.
Lemma ev_min s a b x y : evalw s a = Ok x -> evalw s b = Ok y -> evalw s (Min a b) = Ok (Z.min x y).
Proof. intros A B. unfold evalw in *. cbn [evalm]. rewrite A, B. reflexivity. Qed.

Lemma out_size_expr_eval s e n k st d ps pe ceil :
  evalw s e = Ok n -> small n -> small k -> small st -> small d -> small ps -> small pe ->
  1 <= st -> 1 <= k -> d * (k - 1) <= 1048576 ->
  0 <= n + ps + pe - d * (k - 1) - 1 ->
  evalw s (out_size_expr e k st d (Some (ps, pe)) ceil) = Ok (pool_out_z n k st d ps pe ceil).
Proof.
  intros He Hn Hk Hs Hd Hps Hpe Hs1 Hk1 Hdk Hw.
  pose proof (evalw_value s 1 ltac:(unfold small; lia)) as V1.
  pose proof (evalw_value s k Hk) as Vk. pose proof (evalw_value s st Hs) as Vs. pose proof (evalw_value s d Hd) as Vd.
  pose proof (evalw_value s ps Hps) as Vps. pose proof (evalw_value s pe Hpe) as Vpe.
  unfold small in *.
  assert (E1 : evalw s (Add e (Value ps)) = Ok (n + ps)) by (apply ev_add; auto; unfold fits; lia).
  assert (E2 : evalw s (Add (Add e (Value ps)) (Value pe)) = Ok (n + ps + pe)) by (apply ev_add; auto; unfold fits; lia).
  assert (E3 : evalw s (Sub (Value k) (Value 1)) = Ok (k - 1)) by (apply ev_sub; auto; unfold fits; lia).
  assert (E4 : evalw s (Mul (Value d) (Sub (Value k) (Value 1))) = Ok (d * (k - 1))) by (apply ev_mul; auto; unfold fits; nia).
  assert (E5 : evalw s (Sub (Add (Add e (Value ps)) (Value pe)) (Mul (Value d) (Sub (Value k) (Value 1)))) = Ok (n + ps + pe - d * (k - 1)))
    by (apply ev_sub; auto; unfold fits; nia).
  assert (E6 : evalw s (Sub (Sub (Add (Add e (Value ps)) (Value pe)) (Mul (Value d) (Sub (Value k) (Value 1)))) (Value 1))
               = Ok (n + ps + pe - d * (k - 1) - 1)) by (apply ev_sub; auto; unfold fits; nia).
  set (w := n + ps + pe - d * (k - 1) - 1) in *.
  unfold out_size_expr, pool_out_z. fold w. destruct ceil.
  - assert (B : 0 <= div_ceil_z w st <= w) by (apply div_ceil_pos; lia).
    assert (E7 : evalw s (Add (DivCeil (Sub (Sub (Add (Add e (Value ps)) (Value pe)) (Mul (Value d) (Sub (Value k) (Value 1)))) (Value 1)) (Value st)) (Value 1))
                 = Ok (div_ceil_z w st + 1)).
    { apply ev_add; auto; [apply ev_divceil; auto; lia|unfold fits; subst w; nia]. }
    assert (E8 : evalw s (Sub (Add e (Value ps)) (Value 1)) = Ok (n + ps - 1)) by (apply ev_sub; auto; unfold fits; lia).
    assert (Q : - 1048576 <= Z.quot (n + ps - 1) st <= 4194304).
    { destruct (Z.eq_dec (n + ps) 0) as [E0|E0].
      - replace (n + ps - 1) with (- (1)) by lia. rewrite Z.quot_opp_l by lia. rewrite Z.quot_div_nonneg by lia.
        pose proof (Z.div_pos 1 st ltac:(lia) ltac:(lia)). pose proof (Z.div_le_upper_bound 1 st 1 ltac:(lia) ltac:(lia)). lia.
      - rewrite Z.quot_div_nonneg by lia.
        pose proof (Z.div_le_upper_bound (n + ps - 1) st 4194304 ltac:(lia) ltac:(nia)).
        pose proof (Z.div_pos (n + ps - 1) st ltac:(lia) ltac:(lia)). lia. }
    apply ev_min; auto. apply ev_add; auto; [apply ev_div; auto; lia|unfold fits; lia].
  - pose proof (Z.quot_div_nonneg w st ltac:(lia) ltac:(lia)) as QD.
    pose proof (Z.div_le_upper_bound w st 4194304 ltac:(lia) ltac:(subst w; nia)).
    pose proof (Z.div_pos w st ltac:(lia) ltac:(lia)).
    apply ev_add; auto; [apply ev_div; auto; lia|unfold fits; lia].
Qed.

(* the (repaired) execution computes the same number *)
Lemma drop_trailing_spec s lim : 0 < s -> 1 <= lim ->
  forall fuel out, 0 <= out -> (Z.to_nat out <= fuel)%nat ->
    drop_trailing fuel out s lim = Z.min out ((lim - 1) / s + 1).
Proof.
  intros Hs Hl. pose proof (Z.div_mod (lim - 1) s ltac:(lia)) as D. pose proof (Z.mod_pos_bound (lim - 1) s Hs) as B.
  induction fuel as [|f IH]; intros out Ho Hf; cbn [drop_trailing].
  - assert (out = 0) by lia. subst. nia.
  - destruct (0 <? out) eqn:E1; cbn [andb].
    + apply Z.ltb_lt in E1. destruct (lim <=? (out - 1) * s) eqn:E2.
      * apply Z.leb_le in E2. rewrite IH by lia. nia.
      * apply Z.leb_gt in E2. nia.
    + apply Z.ltb_ge in E1. assert (out = 0) by lia. subst. nia.
Qed.

Lemma pool_exec_spec n k s ps pe ceil o :
  pool_exec_z true n k s 1 ps pe ceil = Some o -> 0 <= n -> 0 <= ps -> 0 <= pe -> 1 <= n + ps ->
  o = pool_out_z n k s 1 ps pe ceil /\ 1 <= k /\ 1 <= s /\ 0 <= n + ps + pe - 1 * (k - 1) - 1.
Proof.
  unfold pool_exec_z. intros H Hn Hps Hpe Hl.
  destruct ((1 <? 1) || (k <? 1) || (s <? 1)) eqn:E1; [discriminate|].
  apply orb_false_iff in E1 as [E1 E3]. apply orb_false_iff in E1 as [_ E2].
  apply Z.ltb_ge in E2, E3.
  destruct (n + ps + pe <? k + (k - 1) * (1 - 1)) eqn:E4; [discriminate|]. apply Z.ltb_ge in E4.
  assert (W : 0 <= n + ps + pe - 1 * (k - 1) - 1) by lia.
  unfold pool_out_z. destruct ceil; inv H; repeat split; try lia.
  pose proof (div_ceil_pos (n + ps + pe - 1 * (k - 1) - 1) s W ltac:(lia)) as B.
  rewrite drop_trailing_spec by lia. rewrite Z.quot_div_nonneg by lia. reflexivity.
Qed.

(* side condition of the pooling theorem: sizes and attributes are small enough for i32 arithmetic
   and, in ceil mode, the input plus start padding is not empty *)
Definition pool_small (ks pads st : list Z) (cins : list (option ctensor)) (_ : list ctensor) : Prop :=
  Forall small ks /\ Forall small pads /\ Forall small st /\
  forall t, cin cins 0 = Some t -> Forall small (c_shape t) /\
    forall ph0 pw0 ph1 pw1 n c h w, pads = [ph0; pw0; ph1; pw1] -> c_shape t = [n; c; h; w] -> 1 <= h + ph0 /\ 1 <= w + pw0.

Theorem infer_sound_Pool v ks pads st ceil : sound_for v (OPool ks (Some pads) st ceil) (pool_small ks pads st).
Proof.
  intros s ins cins outs couts A I E (Sk & Sp & Ss & St). cbn [infer_with] in I. unfold infer_pool in I.
  destruct (input ins 0) as [t|] eqn:E0; [|discriminate].
  destruct (cons_input _ _ _ _ _ A E0) as (c & Ec & C). cbn [exec_ref] in E. rewrite Ec in E.
  destruct (St c Ec) as [Sd Sl].
  destruct pads as [|ph0 [|pw0 [|ph1 [|pw1 [|? ?]]]]]; try discriminate.
  destruct (c_shape c) as [|n [|ch [|h [|w [|? ?]]]]] eqn:Sc; try discriminate.
  destruct ks as [|kh [|kw [|? ?]]]; try discriminate. destruct st as [|sh [|sw [|? ?]]]; try discriminate.
  destruct (pool_exec_z true h kh sh 1 ph0 ph1 ceil) as [oh|] eqn:Xh; [|discriminate].
  destruct (pool_exec_z true w kw sw 1 pw0 pw1 ceil) as [ow|] eqn:Xw; [|discriminate]. inv E.
  destruct (Sl ph0 pw0 ph1 pw1 n ch h w eq_refl eq_refl) as [Lh Lw].
  inversion Sd as [|? ? Sn Sd1]; subst. inversion Sd1 as [|? ? Sch Sd2]; subst. inversion Sd2 as [|? ? Sh Sd3]; subst.
  inversion Sd3 as [|? ? Sw _]; subst.
  inversion Sk as [|? ? Skh Sk1]; subst. inversion Sk1 as [|? ? Skw _]; subst.
  inversion Ss as [|? ? Ssh Ss1]; subst. inversion Ss1 as [|? ? Ssw _]; subst.
  inversion Sp as [|? ? P0 Sp1]; subst. inversion Sp1 as [|? ? P1 Sp2]; subst. inversion Sp2 as [|? ? P2 Sp3]; subst.
  inversion Sp3 as [|? ? P3 _]; subst.
  destruct (t_shape t) as [dims|] eqn:Td; [|inv I; reflexivity].
  destruct (t_shape_cons _ _ _ _ C Td) as [H _]. rewrite Sc in H.
  destruct dims as [|en [|ec [|eh [|ew [|? ?]]]]]; try (apply all2_length in H; discriminate).
  cbn [all2] in H. apply andb_prop in H as [Hn H]. apply andb_prop in H as [Hc H]. apply andb_prop in H as [Hh H].
  apply andb_prop in H as [Hw _].
  cbn [nth_error length Nat.ltb Nat.leb Nat.sub Nat.add pad_dim] in I. inv I.
  unfold small in *.
  destruct (pool_exec_spec _ _ _ _ _ _ _ Xh ltac:(lia) ltac:(lia) ltac:(lia) Lh) as (-> & K1 & S1 & W1).
  destruct (pool_exec_spec _ _ _ _ _ _ _ Xw ltac:(lia) ltac:(lia) ltac:(lia) Lw) as (-> & K2 & S2 & W2).
  apply claims_all_one. cbn [claims cshape c_shape all2].
  rewrite (claim_of_cons _ _ _ Hn), (claim_of_cons _ _ _ Hc). cbn [andb].
  assert (C1 : claim s (out_size_expr eh kh sh 1 (Some (ph0, ph1)) ceil) (pool_out_z h kh sh 1 ph0 ph1 ceil) = true).
  { apply claim_of_evalw. apply out_size_expr_eval; auto using expr_cons_evalw; unfold small; lia. }
  assert (C2 : claim s (out_size_expr ew kw sw 1 (Some (pw0, pw1)) ceil) (pool_out_z w kw sw 1 pw0 pw1 ceil) = true).
  { apply claim_of_evalw. apply out_size_expr_eval; auto using expr_cons_evalw; unfold small; lia. }
  unfold out_size_expr in C1, C2. rewrite C1, C2. reflexivity.
Qed.

(* ------------------------------------------------------------ the check's oracle *)
Lemma prop_ok_reject c :
  prop_ok c = false ->
  exists outs i couts,
    c_res c = IOk outs /\ In i (c_insts c) /\ i_out i = Some couts /\
    inst_consistent c i = true /\ claims_all (env_of_list (i_env i)) outs couts = false.
Proof.
  unfold prop_ok. destruct (c_res c) as [outs| |]; try discriminate. intros H.
  assert (E : existsb (fun i => negb (prop_inst c outs i)) (c_insts c) = true).
  { induction (c_insts c) as [|i l IH]; cbn [forallb existsb] in *; [discriminate|].
    destruct (prop_inst c outs i); cbn [negb andb orb] in *; auto. }
  apply existsb_exists in E as (i & Hi & Hp). apply negb_true_iff in Hp. unfold prop_inst in Hp.
  destruct (i_out i) as [couts|] eqn:Eo; [|discriminate].
  apply orb_false_iff in Hp as [H1 H2]. apply negb_false_iff in H1.
  exists outs, i, couts. auto.
Qed.
