(* Soundness of the modelled shape-inference rules (C10): infer_sound_<op>. *)
From Coq Require Import String.
From RV Require Import Prelude.
From SymExpr Require Import SymExprModel SymExpr_base SymExpr_sem SymExpr_range.
From ShapeInfer Require Import ShapeInferModel ShapeInfer_base.
Open Scope Z_scope.

(* The statement proved for every modelled operator [o] (for the code version [v]):
   for every assignment, symbolic inputs and concrete inputs consistent with them, if inference
   succeeds with [outs] and the reference execution succeeds with [couts] (and the side condition
   [extra] holds), every claim of [outs] holds of [couts]. *)
Definition sound_for (v : ver) (o : op)
           (extra : list (option ctensor) -> list ctensor -> Prop) : Prop :=
  forall s ins cins outs couts,
    all2 (consistent_in s) ins cins = true ->
    infer_with v o ins = IOk outs ->
    exec_ref o cins = Some couts ->
    extra cins couts ->
    claims_all s outs couts = true.
Definition no_extra : list (option ctensor) -> list ctensor -> Prop := fun _ _ => True.

Ltac inv H := inversion H; subst; clear H.

Lemma claims_all_one s t c : claims s t c = true -> claims_all s [t] [c] = true.
Proof. intros H. cbn [claims_all]. rewrite H. reflexivity. Qed.

(* ------------------------------------------------------------ unary-like *)
Theorem infer_sound_Unary v : sound_for v OUnary no_extra.
Proof.
  intros s ins cins outs couts A I E _. cbn [infer_with] in I. unfold infer_unary in I.
  destruct (input ins 0) as [t|] eqn:Ei; [|discriminate]. inv I.
  destruct (cons_input _ _ _ _ _ A Ei) as (c & Ec & C). cbn [exec_ref] in E. rewrite Ec in E. inv E.
  apply claims_all_one. eapply unary_claims; eauto.
Qed.

Theorem infer_sound_Identity v : sound_for v OIdentity no_extra.
Proof.
  intros s ins cins outs couts A I E _. cbn [infer_with] in I. unfold infer_identity in I.
  destruct (input ins 0) as [t|] eqn:Ei; [|discriminate]. inv I.
  destruct (cons_input _ _ _ _ _ A Ei) as (c & Ec & C). cbn [exec_ref] in E. rewrite Ec in E. inv E.
  apply claims_all_one, consistent_claims, C.
Qed.

Theorem infer_sound_Cast v b : sound_for v (OCast b) no_extra.
Proof.
  intros s ins cins outs couts A I E _. cbn [infer_with] in I. unfold infer_cast in I.
  destruct (input ins 0) as [t|] eqn:Ei; [|discriminate].
  destruct (cons_input _ _ _ _ _ A Ei) as (c & Ec & C). cbn [exec_ref] in E.
  destruct b; rewrite Ec in E; inv E.
  - destruct (t_values t); inv I; apply claims_all_one; auto using consistent_claims.
    eapply unary_claims; eauto.
  - destruct (t_values t); inv I; apply claims_all_one; eapply unary_claims; eauto.
Qed.

Lemma neg_cons s e x : expr_cons s e x = true -> claim s (Neg e) (wrap32 (- x)) = true.
Proof.
  intros H. apply claim_of_evalw. apply expr_cons_evalw in H. unfold evalw in *. cbn [evalm].
  rewrite H. reflexivity.
Qed.

Lemma all2_neg s l vs :
  all2 (expr_cons s) l vs = true -> all2 (claim s) (map Neg l) (map (fun x => wrap32 (- x)) vs) = true.
Proof.
  revert vs; induction l as [|e l IH]; intros [|x vs] H; cbn [all2 map] in *; try discriminate; auto.
  apply andb_prop in H as [H1 H2]. rewrite (neg_cons _ _ _ H1). cbn [andb]. auto.
Qed.

Theorem infer_sound_Neg v : sound_for v ONeg no_extra.
Proof.
  intros s ins cins outs couts A I E _. cbn [infer_with] in I. unfold infer_neg in I.
  destruct (input ins 0) as [t|] eqn:Ei; [|discriminate].
  destruct (cons_input _ _ _ _ _ A Ei) as (c & Ec & C). cbn [exec_ref] in E. rewrite Ec in E. inv E.
  destruct t; inv I; apply claims_all_one.
  - cbn [consistent] in C. destruct (c_shape c) eqn:Es; [|discriminate].
    destruct (c_data c) as [[|x [|? ?]]|] eqn:Ed; try discriminate.
    cbn [claims c_shape c_data map]. apply neg_cons, C.
  - cbn [consistent] in C. destruct (c_shape c) as [|n [|? ?]] eqn:Es; try discriminate.
    destruct (c_data c) as [vs|] eqn:Ed; [|discriminate].
    apply andb_prop in C as [C C3]. apply andb_prop in C as [C1 C2].
    cbn [claims c_shape c_data]. unfold zlen in *. rewrite map_length.
    rewrite C1. cbn [andb]. apply all2_neg, C3.
  - eapply unary_claims; eauto.
  - reflexivity.
Qed.

(* ------------------------------------------------------------ BinaryOp *)
(* known finding F70: Broadcast(x, y) evaluates to max(x, y), which is wrong for a 0-sized dimension
   against a 1-sized one.  The BinaryOp theorems exclude exactly these pairs of aligned dims. *)
Definition zero_one (x y : Z) : bool := ((x =? 0) && (y =? 1)) || ((x =? 1) && (y =? 0)).

Lemma bcast_z_cases x y z : bcast_z x y = Some z -> (x = y /\ z = x) \/ (x = 1 /\ z = y) \/ (y = 1 /\ z = x).
Proof.
  unfold bcast_z. destruct (x =? y) eqn:E1; [apply Z.eqb_eq in E1; intros H; inv H; auto|].
  destruct (x =? 1) eqn:E2; [apply Z.eqb_eq in E2; intros H; inv H; auto|].
  destruct (y =? 1) eqn:E3; [apply Z.eqb_eq in E3; intros H; inv H; auto|]. discriminate.
Qed.

Lemma bcast_dim_cases a b e :
  bcast_dim a b = Some e ->
  (expr_eqb a b = true /\ e = a) \/
  (expr_eqb a b = false /\
   ((a = Value 1 /\ e = b) \/ (b = Value 1 /\ e = a) \/
    (exists y, b = Value y /\ y <> 1 /\ (exists i p, a = Var i p) /\ e = Value y) \/
    (exists x, a = Value x /\ x <> 1 /\ (exists i p, b = Var i p) /\ e = Value x) \/
    e = Broadcast a b)).
Proof.
  unfold bcast_dim. destruct (expr_eqb a b); [intros H; inv H; auto|]. intros H. right. split; [reflexivity|].
  Ltac fin :=
    first [ solve [left; split; reflexivity]
          | solve [right; left; split; reflexivity]
          | solve [right; right; left; eexists; split; [reflexivity|split; [discriminate|split; [do 2 eexists; reflexivity|reflexivity]]]]
          | solve [right; right; right; left; eexists; split; [reflexivity|split; [discriminate|split; [do 2 eexists; reflexivity|reflexivity]]]]
          | solve [right; right; right; right; reflexivity] ].
  destruct a as [za| | | | | | | | | |]; destruct b as [zb| | | | | | | | | |];
    try (destruct za as [|[?|?|]|?]); try (destruct zb as [|[?|?|]|?]); inv H; fin.
Qed.

Lemma bcast_dim_sound s a b x y e z :
  expr_cons s a x = true -> expr_cons s b y = true -> 0 <= x -> 0 <= y ->
  bcast_dim a b = Some e -> bcast_z x y = Some z -> zero_one x y = false ->
  claim s e z = true.
Proof.
  intros Ha Hb Hx Hy D Z0 ZO.
  assert (Ca : claim s a x = true) by (apply claim_of_cons, Ha).
  assert (Cb : claim s b y = true) by (apply claim_of_cons, Hb).
  apply bcast_z_cases in Z0.
  apply bcast_dim_cases in D as [[Eq ->]|[Eq D]].
  - assert (x = y) by (eapply expr_eqb_cons; eauto). subst y.
    destruct Z0 as [[_ ->]|[[-> ->]|[-> ->]]]; exact Ca.
  - destruct D as [[-> ->]|[[-> ->]|[(v & -> & Hv & _ & ->)|[(v & -> & Hv & _ & ->)| -> ]]]].
    + apply expr_cons_value in Ha as [<- _]. destruct Z0 as [[<- ->]|[[_ ->]|[-> ->]]]; exact Cb.
    + apply expr_cons_value in Hb as [<- _]. destruct Z0 as [[-> ->]|[[-> ->]|[_ ->]]]; exact Ca.
    + apply expr_cons_value in Hb as [<- Hi]. destruct Z0 as [[-> ->]|[[-> ->]|[-> ->]]];
        try (apply claim_value, Hi); congruence.
    + apply expr_cons_value in Ha as [<- Hi]. destruct Z0 as [[<- ->]|[[-> ->]|[-> ->]]];
        try (apply claim_value, Hi); congruence.
    + apply claim_of_evalw. apply expr_cons_evalw in Ha, Hb. unfold evalw in *. cbn [evalm].
      rewrite Ha, Hb. cbn [bind2]. f_equal. unfold zero_one in ZO.
      destruct Z0 as [[-> ->]|[[-> ->]|[-> ->]]]; [lia| |].
      * destruct (y =? 0) eqn:E; [cbn in ZO; discriminate|]. apply Z.eqb_neq in E. lia.
      * destruct (x =? 0) eqn:E; [cbn in ZO; discriminate|]. apply Z.eqb_neq in E. lia.
Qed.

Fixpoint zero_one_free (a b : list Z) : bool :=
  match a, b with
  | x :: ra, y :: rb => negb (zero_one x y) && zero_one_free ra rb
  | _, _ => true
  end.
Definition zero_one_free_shapes (a b : list Z) : bool :=
  let n := Nat.max (length a) (length b) in zero_one_free (pad_z n a) (pad_z n b).

Lemma bcast_dims_sound s : forall a b sa sb l sz,
  all2 (expr_cons s) a sa = true -> all2 (expr_cons s) b sb = true ->
  forallb (fun d => 0 <=? d) sa = true -> forallb (fun d => 0 <=? d) sb = true ->
  bcast_dims a b = Some l -> bcast_zs sa sb = Some sz -> zero_one_free sa sb = true ->
  all2 (claim s) l sz = true.
Proof.
  induction a as [|ea a IH]; intros b sa sb l sz A B Pa Pb D Z0 F.
  - destruct sa; [|discriminate]. cbn [bcast_dims bcast_zs] in *. inv D. inv Z0. reflexivity.
  - destruct sa as [|x sa]; [discriminate|]. cbn [all2] in A. apply andb_prop in A as [A1 A2].
    destruct b as [|eb b].
    + destruct sb; [|discriminate]. cbn [bcast_dims bcast_zs] in *. inv D. inv Z0. reflexivity.
    + destruct sb as [|y sb]; [discriminate|]. cbn [all2] in B. apply andb_prop in B as [B1 B2].
      cbn [bcast_dims bcast_zs zero_one_free forallb] in *.
      apply andb_prop in Pa as [Pa1 Pa2]. apply andb_prop in Pb as [Pb1 Pb2]. apply andb_prop in F as [F1 F2].
      destruct (bcast_dim ea eb) as [d|] eqn:Ed; [|discriminate].
      destruct (bcast_dims a b) as [r|] eqn:Er; [|discriminate]. inv D.
      destruct (bcast_z x y) as [z|] eqn:Ez; [|discriminate].
      destruct (bcast_zs sa sb) as [rz|] eqn:Erz; [|discriminate]. inv Z0.
      cbn [all2]. apply negb_true_iff in F1. apply Z.leb_le in Pa1, Pb1.
      rewrite (bcast_dim_sound _ _ _ _ _ _ _ A1 B1 Pa1 Pb1 Ed Ez F1). cbn [andb]. eauto.
Qed.

Lemma pad_cons s n l sl :
  all2 (expr_cons s) l sl = true -> forallb (fun d => 0 <=? d) sl = true ->
  all2 (expr_cons s) (pad_to n l) (pad_z n sl) = true /\ forallb (fun d => 0 <=? d) (pad_z n sl) = true.
Proof.
  intros A P. unfold pad_to, pad_z. rewrite <- (all2_length _ _ _ A). split.
  - apply all2_app; auto. apply all2_repeat. apply expr_cons_value_intro. reflexivity.
  - rewrite forallb_app, P, andb_true_r. apply forallb_forall. intros z Hz. apply repeat_spec in Hz. subst. reflexivity.
Qed.

Lemma binary_shapes_sound s a b sa sb l sz :
  all2 (expr_cons s) a sa = true -> all2 (expr_cons s) b sb = true ->
  forallb (fun d => 0 <=? d) sa = true -> forallb (fun d => 0 <=? d) sb = true ->
  binary_shapes a b = Some l -> bcast_shapes sa sb = Some sz -> zero_one_free_shapes sa sb = true ->
  all2 (claim s) l sz = true.
Proof.
  intros A B Pa Pb D Z0 F. unfold binary_shapes, bcast_shapes, zero_one_free_shapes in *.
  rewrite (all2_length _ _ _ A), (all2_length _ _ _ B) in D.
  destruct (pad_cons s (Nat.max (length sa) (length sb)) _ _ A Pa) as [A' Pa'].
  destruct (pad_cons s (Nat.max (length sa) (length sb)) _ _ B Pb) as [B' Pb'].
  eapply (bcast_dims_sound s _ _ _ _ _ _ A' B' Pa' Pb'); eauto.
Qed.

(* side condition of the BinaryOp theorem: known finding F70 *)
Definition f70_free2 (cins : list (option ctensor)) : Prop :=
  forall a b, cin cins 0 = Some a -> cin cins 1 = Some b -> zero_one_free_shapes (c_shape a) (c_shape b) = true.

Lemma binary_op_sound s ta tb a b outs sz :
  consistent s ta a = true -> consistent s tb b = true ->
  binary_op ta tb = IOk outs -> bcast_shapes (c_shape a) (c_shape b) = Some sz ->
  zero_one_free_shapes (c_shape a) (c_shape b) = true ->
  forall c, c_shape c = sz -> claims_all s outs [c] = true.
Proof.
  intros Ca Cb I Z0 F c Hc. unfold binary_op in I.
  destruct (t_shape ta) as [da|] eqn:Ea; [|inv I; reflexivity].
  destruct (t_shape tb) as [db|] eqn:Eb; [|inv I; reflexivity].
  destruct (binary_shapes da db) as [l|] eqn:El; [|discriminate]. inv I.
  destruct (t_shape_cons _ _ _ _ Ca Ea) as [A Pa]. destruct (t_shape_cons _ _ _ _ Cb Eb) as [B Pb].
  apply claims_all_one. cbn [claims]. eapply (binary_shapes_sound s _ _ _ _ _ _ A B Pa Pb); eauto.
Qed.

Theorem infer_sound_Binary v : sound_for v OBinary (fun cins _ => f70_free2 cins).
Proof.
  intros s ins cins outs couts A I E F. cbn [infer_with] in I. unfold infer_binary in I.
  destruct (input ins 0) as [ta|] eqn:E0; [|discriminate].
  destruct (input ins 1) as [tb|] eqn:E1; [|discriminate].
  destruct (cons_input _ _ _ _ _ A E0) as (a & Ea & Ca). destruct (cons_input _ _ _ _ _ A E1) as (b & Eb & Cb).
  cbn [exec_ref] in E. rewrite Ea, Eb in E.
  destruct (bcast_shapes (c_shape a) (c_shape b)) as [sz|] eqn:Ez; [|discriminate]. inv E.
  apply (binary_op_sound s ta tb a b outs sz Ca Cb I Ez (F _ _ Ea Eb)). reflexivity.
Qed.
