(* C10 -- Shape inference never contradicts execution.  Statements only.

   For an operator [o] of the model, [sound_for v o extra] says: for EVERY assignment s, symbolic
   inputs ins and concrete inputs cins consistent with them under s (every input expression
   evaluates, without i32 overflow, to the concrete dimension / element; symbols declared positive
   are >= 0; Broadcast operands compatible), if the inference rule of code version v answers
   [IOk outs] and the reference execution of o on cins yields couts (and the side condition
   [extra] holds), then every claim of outs holds of couts: every dimension / element expression
   without generated symbols evaluates (release-build i32 arithmetic) to the executed number --
   in particular every [Value n] equals it -- and every rank claim is exact.
   The inference rules (ShapeInferModel.infer_with) and the reference executions (exec_ref) are
   tied to rten-shape-inference and to the real operators by the correspondence check. *)
From Coq Require Import String.
From RV Require Import Prelude.
From SymExpr Require Import SymExprModel.
From ShapeInfer Require Import ShapeInferModel ShapeInfer_base ShapeInfer_proofs.
Open Scope Z_scope.

(* ---- operators proved for all inputs, every code version ---- *)
Theorem C10_infer_sound_Unary : forall v, sound_for v OUnary no_extra.
Proof. exact infer_sound_Unary. Qed.
Theorem C10_infer_sound_Identity : forall v, sound_for v OIdentity no_extra.
Proof. exact infer_sound_Identity. Qed.
Theorem C10_infer_sound_Cast : forall v to_int32, sound_for v (OCast to_int32) no_extra.
Proof. exact infer_sound_Cast. Qed.
Theorem C10_infer_sound_Neg : forall v, sound_for v ONeg no_extra.
Proof. exact infer_sound_Neg. Qed.
Theorem C10_infer_sound_Shape : forall v st en, sound_for v (OShape st en) shape_len_ok.
Proof. exact infer_sound_Shape. Qed.
Theorem C10_infer_sound_Transpose : forall v perm, sound_for v (OTranspose perm) no_extra.
Proof. exact infer_sound_Transpose. Qed.
Theorem C10_infer_sound_Gemm : forall v ta tb, sound_for v (OGemm ta tb) no_extra.
Proof. exact infer_sound_Gemm. Qed.

(* ---- the broadcasting rule (BinaryOp; also And/Or/Xor/Less/Greater/.../Pow/Mod) and MatMul:
        under the hypothesis that excludes exactly the known finding F70 (a 0-sized dimension
        aligned with a 1-sized one), refuted without it ---- *)
Theorem C10_infer_sound_Binary : forall v, sound_for v OBinary (fun cins _ => f70_free2 cins).
Proof. exact infer_sound_Binary. Qed.
Theorem C10_infer_sound_MatMul : forall v, sound_for v OMatMul f70_free_matmul.
Proof. exact infer_sound_MatMul. Qed.
Theorem C10_F70_Binary_refuted : forall v, refuted v OBinary.
Proof. exact Binary_F70_refuted. Qed.

(* ---- reductions (Reduce*, ArgMax, ArgMin): sound for the code with fix F72, refuted before ---- *)
Theorem C10_infer_sound_Reduce : forall v axes keep noop,
  v_fixed v = true -> sound_for v (OReduce axes keep noop) no_extra.
Proof. exact infer_sound_Reduce. Qed.
Theorem C10_F72_Reduce_empty_axes_refuted : refuted ver_old (OReduce None false false).
Proof. exact Reduce_old_refuted_empty_axes. Qed.
Theorem C10_F72_Reduce_noop_refuted : refuted ver_old (OReduce None true true).
Proof. exact Reduce_old_refuted_noop. Qed.

(* ---- element rules of Add/Sub/Mul/Div/Equal on shape-carrying values (symbolic_binary_op):
        whenever the rule answers and the i32 kernel succeeds on consistent operands, the answer
        evaluates to the kernel's result.  Equal: for SymExpr::range with the F5 fix; refuted for
        the range before the fix (Equal(-n, 0) folds to 0, true for n = 0). ---- *)
Theorem C10_elem_sound_Add : elem_sound f_add z_add.
Proof. exact f_add_sound. Qed.
Theorem C10_elem_sound_Sub : elem_sound f_sub z_sub.
Proof. exact f_sub_sound. Qed.
Theorem C10_elem_sound_Mul : elem_sound f_mul z_mul.
Proof. exact f_mul_sound. Qed.
Theorem C10_elem_sound_Div : elem_sound f_div z_div.
Proof. exact f_div_sound. Qed.
Theorem C10_elem_sound_Div_exact : elem_sound f_div_x z_div.
Proof. exact f_div_x_sound. Qed.
Theorem C10_elem_sound_Equal : elem_sound (f_equal range) z_eq.
Proof. exact f_equal_sound. Qed.
(* ---- the operators Add/Sub/Mul/Div/Equal on tensors (scalar / vector values with the
        broadcasting of symbolic_binary_op, falling back to the BinaryOp shape rule): every code
        version; Equal for every version with the fixed SymExpr::range ---- *)
Theorem C10_infer_sound_Add : forall v, sound_for v OAdd (fun cins _ => f70_free2 cins).
Proof. exact infer_sound_Add. Qed.
Theorem C10_infer_sound_Sub : forall v, sound_for v OSub (fun cins _ => f70_free2 cins).
Proof. exact infer_sound_Sub. Qed.
Theorem C10_infer_sound_Mul : forall v, sound_for v OMul (fun cins _ => f70_free2 cins).
Proof. exact infer_sound_Mul. Qed.
Theorem C10_infer_sound_Div : forall v, sound_for v ODiv (fun cins _ => f70_free2 cins).
Proof. exact infer_sound_Div. Qed.
Theorem C10_infer_sound_Equal : forall v, v_range v = range -> sound_for v OEqual (fun cins _ => f70_free2 cins).
Proof. exact infer_sound_Equal. Qed.
(* ---- Gather: elements of a symbolic vector selected by constant (possibly negative) indices, and
        the shape rule data[..axis] ++ indices ++ data[axis+1..] ---- *)
Theorem C10_infer_sound_Gather : forall v axis, sound_for v (OGather axis) no_extra.
Proof. exact infer_sound_Gather. Qed.
(* ---- pooling (MaxPool / AveragePool, fn output_size of ops/conv_pool.rs):
        (1) the inferred size counts window positions (floor and ceil mode, incl. the ceil-mode cap);
        (2) the expression tree built by output_size evaluates to that number (no i32 overflow for
            sizes and attributes <= 2^20);
        (3) operator level, NCHW input with explicit pads, against the (repaired) execution's
            own arithmetic: sizes and ranks claimed by inference are the executed ones ---- *)
Theorem C10_pool_out_counts_windows : forall n k s d ps pe,
  0 < s -> 0 <= n + ps + pe - d * (k - 1) - 1 -> 1 <= n + ps ->
  let w := n + ps + pe - d * (k - 1) - 1 in
  forall j, 0 <= j ->
    (j < pool_out_z n k s d ps pe false <-> j * s <= w) /\
    (j < pool_out_z n k s d ps pe true <-> (j * s < w + s /\ j * s <= n + ps - 1)).
Proof. exact pool_out_counts_windows. Qed.
Theorem C10_out_size_expr_eval : forall s e n k st d ps pe ceil,
  evalw s e = Ok n -> small n -> small k -> small st -> small d -> small ps -> small pe ->
  1 <= st -> 1 <= k -> d * (k - 1) <= 1048576 ->
  0 <= n + ps + pe - d * (k - 1) - 1 ->
  evalw s (out_size_expr e k st d (Some (ps, pe)) ceil) = Ok (pool_out_z n k st d ps pe ceil).
Proof. exact out_size_expr_eval. Qed.
Theorem C10_infer_sound_Pool : forall v ks pads st ceil,
  sound_for v (OPool ks (Some pads) st ceil) (pool_small ks pads st).
Proof. exact infer_sound_Pool. Qed.
Theorem C10_F5_equal_fold_refuted :
  exists s x y vx vy e r,
    expr_cons s x vx = true /\ expr_cons s y vy = true /\
    f_equal range_old x y = Some e /\ z_eq vx vy = Some r /\ claim s e r = false.
Proof. exact f_equal_old_refuted. Qed.
Theorem C10_F5_Equal_refuted : refuted ver_nof5 OEqual.
Proof. exact Equal_old_refuted. Qed.

(* ---- witnesses for the other repaired findings ---- *)
Theorem C10_F71_Where_refuted : refuted ver_old OWhere.
Proof. exact Where_old_refuted. Qed.
Theorem C10_F77_Squeeze_refuted : refuted ver_old OSqueeze.
Proof. exact Squeeze_old_refuted. Qed.

(* ---- the executable oracle of the check: a rejected case contains a genuine counterexample:
        an instantiation consistent with the symbolic inputs, on which the operator ran, and whose
        executed outputs falsify a claim of the implementation's own inference result ---- *)
Theorem C10_oracle_reject_is_counterexample : forall c,
  prop_ok c = false ->
  exists outs i couts,
    c_res c = IOk outs /\ In i (c_insts c) /\ i_out i = Some couts /\
    inst_consistent c i = true /\ claims_all (env_of_list (i_env i)) outs couts = false.
Proof. exact prop_ok_reject. Qed.

(* ---- statements NOT proved (the remaining value-carrying operators; they are modelled and tied by
        the correspondence check) ---- *)
Definition C10_infer_sound_values_statement : Prop :=
  forall v, v_fixed v = true ->
    sound_for v OWhere (fun cins _ => True) /\
    (forall a, sound_for v (OConcat a) no_extra) /\ sound_for v OSqueeze no_extra /\
    sound_for v OUnsqueeze no_extra /\ (forall x, sound_for v (OConstantOfShape x) no_extra).

(* ---- non-vacuity: the hypotheses of the theorems are met by non-trivial instances ---- *)
Example C10_nonvacuous :
  let s := env_of_list [(0%N, 5); (1%N, 3)] in
  let ins := [Some (TShape [Var 0%N true; Value 4; Var 1%N true]); Some (TVector [Value (-1); Value 0])] in
  let cins := [Some (cshape [5; 4; 3]); Some (cvector [-1; 0])] in
  all2 (consistent_in s) ins cins = true /\
  infer (OReduce None false false) ins = IOk [TShape [Value 4]] /\
  exec_ref (OReduce None false false) cins = Some [cshape [4]] /\
  claims_all s [TShape [Value 4]] [cshape [4]] = true /\
  infer OMatMul [Some (TShape [Var 0%N true; Value 2; Var 1%N true]); Some (TShape [Var 1%N true; Value 7])]
    = IOk [TShape [Var 0%N true; Value 2; Value 7]].
Proof. vm_compute. repeat split; reflexivity. Qed.
