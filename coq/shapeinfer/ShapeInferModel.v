(* Model of rten-shape-inference: SymTensor (sym_tensor.rs), the generic rules of
   infer_shapes.rs (UnaryOp, BinaryOp, VariadicOp, ReductionOp, resolve_index/resolve_axis) and the
   per-operator rules of ops/{binary,layout,gather,concat,generate,matmul,identity,unary}.rs,
   src/ops/convert.rs (Cast).  Executable definitions only (no proofs).

   Expressions, eval, range, simplify come from the SymExpr group (C11).

   Symbols: the harness maps the names a..e to ids 0..4 and the names "unknown_<k>" produced by
   SymbolGen (fresh generator per inference call, counter starting at 1) to ids 100+k. *)
From Coq Require Import String.
From RV Require Import Prelude.
From SymExpr Require Import SymExprModel.
Open Scope Z_scope.

(* ------------------------------------------------------------------ SymTensor *)
Inductive symt :=
| TScalar (e : expr)
| TVector (l : list expr)
| TShape (l : list expr)
| TUnknown.

Inductive ierr := EInputCount | EIncompatible | ERank | EInvalid | EUnknownOutputs.
(* outcome of InferShapes::infer_shapes; IPanic = the Rust code panics *)
Inductive ires := IOk (l : list symt) | IErr (e : ierr) | IPanic.

Definition zlen {A} (l : list A) : Z := Z.of_nat (length l).

Definition t_shape (t : symt) : option (list expr) :=
  match t with
  | TScalar _ => Some []
  | TVector l => Some [Value (zlen l)]
  | TShape l => Some l
  | TUnknown => None
  end.
Definition t_values (t : symt) : option (list expr) :=
  match t with
  | TScalar e => Some [e]
  | TVector l => Some l
  | _ => None
  end.
Definition t_ndim (t : symt) : option nat :=
  match t_shape t with Some l => Some (length l) | None => None end.
Definition t_size (t : symt) (i : nat) : option expr :=
  match t with
  | TVector l => match i with O => Some (Value (zlen l)) | _ => None end
  | TShape l => nth_error l i
  | _ => None
  end.

Fixpoint all_values (l : list expr) : option (list Z) :=
  match l with
  | [] => Some []
  | Value z :: r => match all_values r with Some zs => Some (z :: zs) | None => None end
  | _ :: _ => None
  end.
(* SymTensor::to_constant: (is_vector, values) *)
Definition to_constant (t : symt) : option (bool * list Z) :=
  match t with
  | TScalar (Value z) => Some (false, [z])
  | TVector l => match all_values l with Some zs => Some (true, zs) | None => None end
  | _ => None
  end.

(* SymbolGen: gen_positive with counter k (first generated symbol has k = 1) *)
Definition synth_base : N := 100%N.
Definition gen_pos (k : N) : expr := Var (synth_base + k)%N true.
Fixpoint gen_shape_from (k : N) (n : nat) : list expr :=
  match n with O => [] | S m => gen_pos k :: gen_shape_from (N.succ k) m end.

(* resolve_index(len, index): len is first clamped to i32::MAX *)
Definition resolve_index (len : Z) (i : Z) : option Z :=
  let len := Z.min len i32_max in
  if (i <? - len) || (len <=? i) then None
  else if 0 <=? i then Some i else Some (len + i).
Definition resolve_axis (ndim : nat) (a : Z) : option nat :=
  match resolve_index (Z.of_nat ndim) a with Some z => Some (Z.to_nat z) | None => None end.
Fixpoint resolve_axes (ndim : nat) (l : list Z) : option (list nat) :=
  match l with
  | [] => Some []
  | a :: r => match resolve_axis ndim a with
              | Some x => match resolve_axes ndim r with Some xs => Some (x :: xs) | None => None end
              | None => None
              end
  end.

Definition input (ins : list (option symt)) (i : nat) : option symt :=
  match nth_error ins i with Some (Some t) => Some t | _ => None end.

(* ---------------------------------------------------------------- generic rules *)
Definition unary_shape (t : symt) : symt :=
  match t_shape t with Some l => TShape l | None => TUnknown end.

Definition bcast_dim (a b : expr) : option expr :=
  if expr_eqb a b then Some a
  else match a, b with
       | Value 1, _ => Some b
       | _, Value 1 => Some a
       | Value _, Value _ => None
       | Var _ _, Value y => Some (Value y)
       | Value x, Var _ _ => Some (Value x)
       | _, _ => Some (Broadcast a b)
       end.
Definition pad_to (n : nat) (l : list expr) : list expr := repeat (Value 1) (n - length l) ++ l.
Fixpoint bcast_dims (a b : list expr) : option (list expr) :=
  match a, b with
  | x :: ra, y :: rb =>
      match bcast_dim x y with
      | Some d => match bcast_dims ra rb with Some r => Some (d :: r) | None => None end
      | None => None
      end
  | _, _ => Some []
  end.
Definition binary_shapes (a b : list expr) : option (list expr) :=
  let n := Nat.max (length a) (length b) in bcast_dims (pad_to n a) (pad_to n b).
(* BinaryOp on two present inputs *)
Definition binary_op (a b : symt) : ires :=
  match t_shape a, t_shape b with
  | Some da, Some db =>
      match binary_shapes da db with
      | Some l => IOk [TShape l]
      | None => IErr EIncompatible
      end
  | _, _ => IOk [TUnknown]
  end.
Definition infer_binary (ins : list (option symt)) : ires :=
  match input ins 0, input ins 1 with
  | Some a, Some b => binary_op a b
  | _, _ => IErr EInputCount
  end.

(* ------------------------------------------------- symbolic_binary_op (ops/binary.rs) *)
Fixpoint omap2 (f : expr -> expr -> option expr) (a b : list expr) : option (list expr) :=
  match a, b with
  | x :: ra, y :: rb =>
      match f x y with
      | Some e => match omap2 f ra rb with Some r => Some (e :: r) | None => None end
      | None => None
      end
  | _, _ => Some []
  end.
Fixpoint omap (f : expr -> option expr) (l : list expr) : option (list expr) :=
  match l with
  | [] => Some []
  | x :: r => match f x with
              | Some e => match omap f r with Some rr => Some (e :: rr) | None => None end
              | None => None
              end
  end.
Definition sym_binop (f : expr -> expr -> option expr) (a b : symt) : option symt :=
  match a, b with
  | TScalar x, TScalar y => match f x y with Some e => Some (TScalar e) | None => None end
  | _, _ =>
      match t_values a, t_values b with
      | Some la, Some lb =>
          let r := match la, lb with
                   | [x], _ => omap (fun y => f x y) lb
                   | _, [y] => omap (fun x => f x y) la
                   | _, _ => omap2 f la lb
                   end in
          match r with Some l => Some (TVector l) | None => None end
      | _, _ => None
      end
  end.
Definition infer_arith (f : expr -> expr -> option expr) (ins : list (option symt)) : ires :=
  match input ins 0, input ins 1 with
  | Some a, Some b =>
      match sym_binop f a b with
      | Some t => IOk [t]
      | None => binary_op a b
      end
  | _, _ => IErr EInputCount
  end.

(* the closures of Add/Sub/Mul/Div: constants are folded with i32 arithmetic.  [w] = release
   build (wrapping); in an overflow-checked build the fold panics: modelled by None-as-panic is
   not needed by the theorems (they assume the fold is representable) -- the model follows the
   release build, which is what the harness runs. *)
Definition f_add (x y : expr) : option expr :=
  Some match x, y with Value a, Value b => Value (wrap32 (a + b)) | _, _ => Add x y end.
Definition f_sub (x y : expr) : option expr :=
  Some match x, y with Value a, Value b => Value (wrap32 (a - b)) | _, _ => Sub x y end.
Definition f_mul (x y : expr) : option expr :=
  Some match x, y with Value a, Value b => Value (wrap32 (a * b)) | _, _ => Mul x y end.
(* `Value(x / y) if y != 0`: i32::MIN / -1 panics in every build; that input is excluded by the
   harness and by the theorem (execution panics too) *)
Definition f_div (x y : expr) : option expr :=
  Some match x, y with
       | Value a, Value b => if b =? 0 then Div x y else Value (Z.quot a b)
       | _, _ => Div x y
       end.
(* Div after the fix "Div shape inference only folds exact quotients of constant values" (found
   by C01): constants may stand for float tensors, so a non-exact quotient (and a zero divisor)
   is left unknown; `checked_rem` is None for i32::MIN % -1 *)
Definition f_div_x (x y : expr) : option expr :=
  match x, y with
  | Value a, Value b =>
      if (b =? 0) || div_ovf a b then None
      else if Z.rem a b =? 0 then Some (Value (Z.quot a b)) else None
  | _, _ => Some (Div x y)
  end.
(* Equal: [rg] is SymExpr::range of the code version under check *)
Definition f_equal (rg : expr -> Z * Z) (x y : expr) : option expr :=
  let (xmin, xmax) := rg x in
  let (ymin, ymax) := rg y in
  if expr_eqb x y then Some (Value 1)
  else if (xmax <? ymin) || (ymax <? xmin) then Some (Value 0)
  else None.

(* Where *)
Fixpoint cycle_take {A} (d : A) (l : list A) (n : nat) (i : nat) : list A :=
  match n with
  | O => []
  | S m => nth (Nat.modulo i (length l)) l d :: cycle_take d l m (S i)
  end.
Definition cyc (l : list expr) (n : nat) : list expr :=
  match l with [] => [] | _ => cycle_take (Value 0) l n 0 end.
Fixpoint where_vals (cs xs ys : list expr) : option (list expr) :=
  match cs, xs, ys with
  | c :: rc, x :: rx, y :: ry =>
      match c with
      | Value v => match where_vals rc rx ry with
                   | Some r => Some ((if v =? 1 then x else y) :: r)
                   | None => None
                   end
      | _ => None
      end
  | _, _, _ => Some []
  end.
Definition is_tscalar (t : symt) : bool := match t with TScalar _ => true | _ => false end.
(* [fx] = code with the fix "Where returned a vector when all inputs are scalars" *)
Definition infer_where (fx : bool) (ins : list (option symt)) : ires :=
  match input ins 0, input ins 1, input ins 2 with
  | Some c, Some x, Some y =>
      let generic :=
        match binary_op c x with
        | IOk [cx] => binary_op cx y
        | r => r
        end in
      match t_values c, t_values x, t_values y with
      | Some cs, Some xs, Some ys =>
          let n := Nat.max (Nat.max (length cs) (length xs)) (length ys) in
          match where_vals (cyc cs n) (cyc xs n) (cyc ys n) with
          | Some l =>
              match l with
              | [v] => if fx && is_tscalar c && is_tscalar x && is_tscalar y
                       then IOk [TScalar v] else IOk [TVector l]
              | _ => IOk [TVector l]
              end
          | None => generic
          end
      | _, _, _ => generic
      end
  | _, _, _ => IErr EInputCount
  end.

(* ------------------------------------------------------------ unary-like operators *)
Definition infer_unary (ins : list (option symt)) : ires :=
  match input ins 0 with Some t => IOk [unary_shape t] | None => IErr EInputCount end.
Definition infer_identity (ins : list (option symt)) : ires :=
  match input ins 0 with Some t => IOk [t] | None => IErr EInputCount end.
Definition infer_cast (to_int32 : bool) (ins : list (option symt)) : ires :=
  match input ins 0 with
  | Some t =>
      match t_values t with
      | Some _ => if to_int32 then IOk [t] else IOk [unary_shape t]
      | None => IOk [unary_shape t]
      end
  | None => IErr EInputCount
  end.
Definition infer_neg (ins : list (option symt)) : ires :=
  match input ins 0 with
  | Some (TScalar e) => IOk [TScalar (Neg e)]
  | Some (TVector l) => IOk [TVector (map Neg l)]
  | Some t => IOk [unary_shape t]
  | None => IErr EInputCount
  end.

(* -------------------------------------------------------------------- Shape, Size *)
Definition clampz (lo hi z : Z) : Z := Z.max lo (Z.min hi z).
Definition shape_range (st en : option Z) (ndim : Z) : Z * Z :=
  let s := match st with Some s => clampz 0 ndim (if s <? 0 then s + ndim else s) | None => 0 end in
  let e := match en with Some e => clampz 0 ndim (if e <? 0 then e + ndim else e) | None => ndim end in
  (s, Z.max e s).
Definition slice_list {A} (l : list A) (s e : Z) : list A :=
  firstn (Z.to_nat (e - s)) (skipn (Z.to_nat s) l).
Definition infer_shape (st en : option Z) (ins : list (option symt)) : ires :=
  match input ins 0 with
  | Some t =>
      match t_shape t with
      | Some dims => let (s, e) := shape_range st en (zlen dims) in IOk [TVector (slice_list dims s e)]
      | None => IOk [TUnknown]
      end
  | None => IErr EInputCount
  end.
Definition prod_expr (l : list expr) : expr := fold_left (fun p d => Mul p d) l (Value 1).
Definition infer_size (ins : list (option symt)) : ires :=
  match input ins 0 with
  | Some t =>
      match t_shape t with
      | Some dims => IOk [TScalar (simplify (prod_expr dims))]
      | None => IOk [TShape []]
      end
  | None => IErr EInputCount
  end.

(* ------------------------------------------------------------------------- Gather *)
Fixpoint gather_vals (vals : list expr) (idxs : list Z) : option (list expr) :=
  match idxs with
  | [] => Some []
  | i :: r =>
      match resolve_index (zlen vals) i with
      | Some k => match nth_error vals (Z.to_nat k), gather_vals vals r with
                  | Some e, Some rr => Some (e :: rr)
                  | _, _ => None
                  end
      | None => None
      end
  end.
Definition infer_gather (axis : Z) (ins : list (option symt)) : ires :=
  match input ins 0, input ins 1 with
  | Some data, Some indices =>
      match t_shape data with
      | None => IOk [TUnknown]
      | Some ddims =>
          match resolve_axis (length ddims) axis with
          | None => IErr ERank
          | Some ax =>
              match t_values data, to_constant indices with
              | Some vals, Some (isvec, idxs) =>
                  match gather_vals vals idxs with
                  | Some l => if isvec then IOk [TVector l]
                              else match l with [e] => IOk [TScalar e] | _ => IErr EInvalid end
                  | None => IErr EInvalid
                  end
              | _, _ =>
                  match t_shape indices with
                  | Some idims => IOk [TShape (firstn ax ddims ++ idims ++ skipn (S ax) ddims)]
                  | None => IOk [TUnknown]
                  end
              end
          end
      end
  | _, _ => IErr EInputCount
  end.

(* ------------------------------------------------------------------------- Concat *)
Fixpoint all_present (ins : list (option symt)) : option (list symt) :=
  match ins with
  | [] => Some []
  | Some t :: r => match all_present r with Some l => Some (t :: l) | None => None end
  | None :: _ => None
  end.
Fixpoint concat_values (ts : list symt) : option (list expr) :=
  match ts with
  | [] => Some []
  | t :: r => match t_values t, concat_values r with
              | Some v, Some vs => Some (v ++ vs)
              | _, _ => None
              end
  end.
Fixpoint set_nth {A} (l : list A) (i : nat) (x : A) : list A :=
  match l, i with
  | [], _ => []
  | _ :: r, O => x :: r
  | y :: r, S j => y :: set_nth r j x
  end.
(* the loop `for i in 1..inputs.len()`: returns None when a required input is missing *)
Fixpoint concat_axis (acc : expr) (ax : nat) (k : N) (rest : list (option symt)) : option expr :=
  match rest with
  | [] => Some acc
  | None :: _ => None
  | Some t :: r =>
      match t_shape t with
      | Some dims =>
          match nth_error dims ax with
          | Some d => concat_axis (Add acc d) ax k r
          | None => concat_axis (Add acc (gen_pos k)) ax (N.succ k) r
          end
      | None => concat_axis (Add acc (gen_pos k)) ax (N.succ k) r
      end
  end.
Definition infer_concat (axis : Z) (ins : list (option symt)) : ires :=
  match input ins 0 with
  | None => IErr EInputCount
  | Some first =>
      match t_shape first with
      | None => IOk [TUnknown]
      | Some fdims =>
          match resolve_axis (length fdims) axis with
          | None => IErr ERank
          | Some ax =>
              let vals := match all_present ins with
                          | Some ts => if Nat.eqb ax 0 then concat_values ts else None
                          | None => None
                          end in
              match vals with
              | Some l => IOk [TVector l]
              | None =>
                  match nth_error fdims ax with
                  | None => IPanic
                  | Some d0 =>
                      match concat_axis d0 ax 1%N (tl ins) with
                      | Some d => IOk [TShape (set_nth fdims ax d)]
                      | None => IErr EInputCount
                      end
                  end
              end
          end
      end
  end.

(* -------------------------------------------------------------- Squeeze, Unsqueeze *)
Fixpoint remove_axes {A} (l : list A) (axes : list nat) (i : nat) : list A :=
  match l with
  | [] => []
  | x :: r => if existsb (Nat.eqb i) axes then remove_axes r axes (S i) else x :: remove_axes r axes (S i)
  end.
Definition is_value1 (e : expr) : bool := match e with Value 1 => true | _ => false end.
(* [fx] = code with the fix "unknown axes values do not squeeze a length-1 vector" *)
Definition infer_squeeze (fx : bool) (ins : list (option symt)) : ires :=
  match input ins 0 with
  | None => IErr EInputCount
  | Some data =>
      match t_shape data with
      | None => IOk [TUnknown]
      | Some dims =>
          let axes := input ins 1 in
          let const_axes := match axes with
                            | Some a => match to_constant a with
                                        | Some (true, l) => Some l
                                        | _ => None
                                        end
                            | None => None
                            end in
          let resolved := match const_axes with
                          | Some l => match resolve_axes (length dims) l with
                                      | Some r => Some (Some r)
                                      | None => None           (* error *)
                                      end
                          | None => Some None
                          end in
          match resolved with
          | None => IErr ERank
          | Some cax =>
              let to_scalar := match data with
                               | TVector [v] => match cax with
                                                | None => match axes with
                                                          | None => Some v
                                                          | Some _ => if fx then None else Some v
                                                          end
                                                | Some [O] => Some v
                                                | _ => None
                                                end
                               | _ => None
                               end in
              match to_scalar with
              | Some v => IOk [TScalar v]
              | None =>
                  match cax with
                  | Some ax => IOk [TShape (remove_axes dims ax 0)]
                  | None =>
                      match axes with
                      | None => if forallb is_value dims
                                then IOk [TShape (filter (fun d => negb (is_value1 d)) dims)]
                                else IOk [TUnknown]
                      | Some _ => IOk [TUnknown]
                      end
                  end
              end
          end
      end
  end.

Fixpoint insert_sorted (x : nat) (l : list nat) : list nat :=
  match l with
  | [] => [x]
  | y :: r => if Nat.leb x y then x :: l else y :: insert_sorted x r
  end.
Fixpoint sort_nat (l : list nat) : list nat :=
  match l with [] => [] | x :: r => insert_sorted x (sort_nat r) end.
Definition insert_at {A} (l : list A) (i : nat) (x : A) : option (list A) :=
  if Nat.leb i (length l) then Some (firstn i l ++ x :: skipn i l) else None.
(* Vec::insert for each resolved axis in ascending order; None = panic (index > len) *)
Fixpoint insert_ones (dims : list expr) (axes : list nat) : option (list expr) :=
  match axes with
  | [] => Some dims
  | a :: r => match insert_at dims a (Value 1) with
              | Some d => insert_ones d r
              | None => None
              end
  end.
Definition infer_unsqueeze (ins : list (option symt)) : ires :=
  match input ins 0, input ins 1 with
  | Some data, Some axes =>
      let axes_vec := match to_constant axes with Some (_, l) => Some l | None => None end in
      let scalar_case := match data, axes_vec with
                         | TScalar v, Some [0] => Some v
                         | _, _ => None
                         end in
      match scalar_case with
      | Some v => IOk [TVector [v]]
      | None =>
          match t_shape data, axes_vec with
          | Some dims, Some ax =>
              match resolve_axes (length dims + length ax) ax with
              | None => IErr ERank
              | Some r => match insert_ones dims (sort_nat r) with
                          | Some d => IOk [TShape d]
                          | None => IPanic
                          end
              end
          | _, _ => IOk [TUnknown]
          end
      end
  | _, _ => IErr EInputCount
  end.

(* ---------------------------------------------------------------------- Transpose *)
Fixpoint permute (dims : list expr) (perm : list nat) : option (list expr) :=
  match perm with
  | [] => Some []
  | p :: r => match nth_error dims p, permute dims r with
              | Some d, Some rr => Some (d :: rr)
              | _, _ => None
              end
  end.
Definition infer_transpose (perm : option (list nat)) (ins : list (option symt)) : ires :=
  match input ins 0 with
  | None => IErr EInputCount
  | Some t =>
      match t_shape t, perm with
      | Some dims, Some p => match permute dims p with
                             | Some d => IOk [TShape d]
                             | None => IErr ERank
                             end
      | Some dims, None => IOk [TShape (rev dims)]
      | None, Some p => IOk [TShape (gen_shape_from 1%N (length p))]
      | None, None => IOk [TUnknown]
      end
  end.

(* --------------------------------------------------------------------- ReductionOp *)
Fixpoint reduce_dims (dims : list expr) (axes : list nat) (keep : bool) (i : nat) : list expr :=
  match dims with
  | [] => []
  | d :: r =>
      if existsb (Nat.eqb i) axes
      then (if keep then Value 1 :: reduce_dims r axes keep (S i) else reduce_dims r axes keep (S i))
      else d :: reduce_dims r axes keep (S i)
  end.
Definition is_nil {A} (l : list A) : bool := match l with [] => true | _ => false end.
(* ReductionOp.  [fx] = code with the fix "empty axes reduce all dims" *)
Definition reduction_op (fx : bool) (axes_attr : option (list Z)) (keep : bool) (ins : list (option symt)) : ires :=
  match length ins with
  | 1%nat | 2%nat =>
      match input ins 0 with
      | None => IErr EInputCount
      | Some data =>
          match t_shape data with
          | None => IOk [TUnknown]
          | Some dims =>
              let nd := length dims in
              match input ins 1 with
              | Some ax_in =>
                  match to_constant ax_in with
                  | Some (true, l) =>
                      if fx && is_nil l then IOk [TShape (reduce_dims dims (seq 0 nd) keep 0)]
                      else
                      match resolve_axes nd l with
                      | Some ax => IOk [TShape (reduce_dims dims ax keep 0)]
                      | None => IErr ERank
                      end
                  | _ => if keep then IOk [TShape (gen_shape_from 1%N nd)] else IOk [TUnknown]
                  end
              | None =>
                  match axes_attr with
                  | Some l => if fx && is_nil l then IOk [TShape (reduce_dims dims (seq 0 nd) keep 0)]
                              else
                              match resolve_axes nd l with
                              | Some ax => IOk [TShape (reduce_dims dims ax keep 0)]
                              | None => IErr ERank
                              end
                  | None => IOk [TShape (reduce_dims dims (seq 0 nd) keep 0)]
                  end
              end
          end
      end
  | _ => IErr EInputCount
  end.
(* the Reduce* operators of src/ops/reduce.rs: with the fix, noop_with_empty_axes and missing or
   (known) empty axes leave the shape unchanged *)
Definition infer_reduce (fx : bool) (axes_attr : option (list Z)) (keep noop : bool)
                        (ins : list (option symt)) : ires :=
  let axes_empty :=
    match input ins 1 with
    | Some a => match to_constant a with Some (_, l) => is_nil l | None => false end
    | None => match axes_attr with Some l => is_nil l | None => true end
    end in
  if fx && noop && axes_empty then
    match input ins 0 with Some t => IOk [unary_shape t] | None => IErr EInputCount end
  else reduction_op fx axes_attr keep ins.

(* ------------------------------------------------------------------- MatMul, Gemm *)
Definition infer_matmul (ins : list (option symt)) : ires :=
  match input ins 0, input ins 1 with
  | Some a, Some b =>
      match t_shape a, t_shape b with
      | Some da, Some db =>
          let na := length da in let nb := length db in
          if (Nat.ltb na 2) || (Nat.ltb nb 2) then IOk [TUnknown]
          else
            match binary_shapes (firstn (na - 2) da) (firstn (nb - 2) db) with
            | None => IErr EIncompatible
            | Some batch =>
                match nth_error da (na - 2), nth_error db (nb - 1) with
                | Some m, Some n => IOk [TShape (batch ++ [m; n])]
                | _, _ => IPanic
                end
            end
      | _, _ => IOk [TUnknown]
      end
  | _, _ => IErr EInputCount
  end.
Definition infer_gemm (ta tb : bool) (ins : list (option symt)) : ires :=
  match input ins 0, input ins 1 with
  | Some a, Some b =>
      match t_shape a, t_shape b with
      | Some [a0; a1], Some [b0; b1] =>
          IOk [TShape [if ta then a1 else a0; if tb then b0 else b1]]
      | Some _, Some _ => IErr ERank
      | _, _ => IOk [TShape [gen_pos 1%N; gen_pos 2%N]]
      end
  | _, _ => IErr EInputCount
  end.

(* --------------------------------------------------------- ConstantOfShape, Range *)
Definition infer_constant_of_shape (v : option Z) (ins : list (option symt)) : ires :=
  match input ins 0 with
  | None => IErr EInputCount
  | Some shape =>
      match t_values shape with
      | Some values =>
          match v, values with
          | Some val, [] => IOk [TScalar (Value val)]
          | Some val, [Value n] =>
              if 0 <=? n then IOk [TVector (repeat (Value val) (Z.to_nat n))] else IErr EInvalid
          | Some val, [e] => IOk [TShape [e]]
          | _, _ => IOk [TShape values]
          end
      | None =>
          match t_shape shape with
          | Some [Value n] => if 0 <=? n then IOk [TShape (gen_shape_from 1%N (Z.to_nat n))]
                              else IOk [TUnknown]
          | _ => IOk [TUnknown]
          end
      end
  end.

Definition max_range_values : Z := 1024.
Fixpoint range_vals (start delta : Z) (n : nat) (i : Z) : list expr :=
  match n with O => [] | S m => Value (start + i * delta) :: range_vals start delta m (i + 1) end.
Definition first_value (t : symt) : option (option expr) :=
  (* Some None = values unknown; None = panic (`v[0]` on an empty vector) *)
  match t_values t with
  | Some (e :: _) => Some (Some e)
  | Some [] => None
  | None => Some None
  end.
Definition infer_range (ins : list (option symt)) : ires :=
  match input ins 0, input ins 1, input ins 2 with
  | Some s, Some l, Some d =>
      match first_value s, first_value l, first_value d with
      | Some s, Some l, Some d =>
          match s, l, d with
          | Some (Value st), Some (Value li), Some (Value de) =>
              if de =? 0 then IErr EInvalid
              else
                let span := if 0 <? de then li - st else st - li in
                let step := Z.abs de in
                let len := Z.max (Z.quot (span + step - 1) step) 0 in
                if len <=? max_range_values then IOk [TVector (range_vals st de (Z.to_nat len) 0)]
                else if len <=? i32_max then IOk [TShape [Value len]]
                else IOk [TShape [gen_pos 1%N]]
          | Some (Value 0), Some li, Some (Value 1) => IOk [TShape [li]]
          | Some st, Some (Add ll lr), Some (Value 1) =>
              if expr_eqb st ll then IOk [TShape [lr]] else IOk [TShape [Sub (Add ll lr) st]]
          | Some st, Some li, Some (Value 1) => IOk [TShape [Sub li st]]
          | _, _, _ => IOk [TShape [gen_pos 1%N]]
          end
      | _, _, _ => IPanic
      end
  | _, _, _ => IErr EInputCount
  end.

(* ------------------------------------------------ pooling (ops/conv_pool.rs) *)
(* fn output_size for one spatial dim: [pad] = Some (start, end) for DimPadding::Fixed, None for
   DimPadding::Same.  The expression tree is built exactly as the Rust code builds it (it is not
   simplified). *)
Definition out_size_expr (in_size : expr) (k s d : Z) (pad : option (Z * Z)) (ceil : bool) : expr :=
  match pad with
  | Some (ps, pe) =>
      let one := Value 1 in
      let padded := Add (Add in_size (Value ps)) (Value pe) in
      let windowed := Sub (Sub padded (Mul (Value d) (Sub (Value k) one))) one in
      if ceil then
        Min (Add (DivCeil windowed (Value s)) one)
            (Add (Div (Sub (Add in_size (Value ps)) one) (Value s)) one)
      else Add (Div windowed (Value s)) one
  | None => DivCeil in_size (Value s)
  end.
(* Padding::dim: pads = [starts.., ends..] *)
Definition pad_dim (pads : option (list Z)) (dim nspatial : nat) : option (option (Z * Z)) :=
  match pads with
  | None => Some None
  | Some l => match nth_error l dim, nth_error l (nspatial + dim) with
              | Some a, Some b => Some (Some (a, b))
              | _, _ => None
              end
  end.
(* Pool::infer_shapes; MaxPool / AveragePool pass dilations = [1, 1] *)
Definition infer_pool (ks : list Z) (pads : option (list Z)) (strides : list Z) (ceil : bool)
                      (ins : list (option symt)) : ires :=
  match input ins 0 with
  | None => IErr EInputCount
  | Some t =>
      match t_shape t with
      | None => IOk [TUnknown]
      | Some dims =>
          if Nat.ltb (length dims) 3 then IErr ERank
          else
            let nsp := (length dims - 2)%nat in
            match nth_error dims 0, nth_error dims 1, nth_error dims 2 with
            | Some n, Some c, Some h =>
                match pad_dim pads 0 nsp, nth_error ks 0, nth_error strides 0 with
                | Some ph, Some kh, Some sh =>
                    let oh := out_size_expr h kh sh 1 ph ceil in
                    match nth_error dims 3 with
                    | None => IOk [TShape [n; c; oh]]
                    | Some w =>
                        match pad_dim pads 1 nsp, nth_error ks 1, nth_error strides 1 with
                        | Some pw, Some kw, Some sw => IOk [TShape [n; c; oh; out_size_expr w kw sw 1 pw ceil]]
                        | _, _, _ => IErr EInvalid
                        end
                    end
                | _, _, _ => IErr EInvalid
                end
            | _, _, _ => IPanic
            end
      end
  end.

(* the same arithmetic over Z, and the execution's version of it (src/ops/pooling.rs
   output_size_and_padding_for_axis, explicit padding): [None] = the operator fails *)
Definition pool_out_z (n k s d ps pe : Z) (ceil : bool) : Z :=
  let w := n + ps + pe - d * (k - 1) - 1 in
  if ceil then Z.min (div_ceil_z w s + 1) (Z.quot (n + ps - 1) s + 1) else Z.quot w s + 1.
(* trailing positions that start at or beyond in_size + pad_start are removed: [fx] = all of them
   (code with the fix of finding F82), otherwise only one *)
Fixpoint drop_trailing (fuel : nat) (out s lim : Z) : Z :=
  match fuel with
  | O => out
  | S f => if (0 <? out) && (lim <=? (out - 1) * s) then drop_trailing f (out - 1) s lim else out
  end.
Definition pool_exec_z (fx : bool) (n k s d ps pe : Z) (ceil : bool) : option Z :=
  if (d <? 1) || (k <? 1) || (s <? 1) then None
  else if n + ps + pe <? k + (k - 1) * (d - 1) then None
  else
    let w := n + ps + pe - d * (k - 1) - 1 in
    if ceil then
      let out0 := div_ceil_z w s + 1 in
      Some (if fx then drop_trailing (Z.to_nat out0) out0 s (n + ps) else drop_trailing 1 out0 s (n + ps))
    else Some (Z.quot w s + 1).

(* ------------------------------------------------------------------- operators *)
Inductive op :=
| OUnary | OIdentity | OCast (to_int32 : bool) | ONeg
| OBinary | OAdd | OSub | OMul | ODiv | OEqual | OWhere
| OShape (st en : option Z) | OSize
| OGather (axis : Z) | OConcat (axis : Z)
| OSqueeze | OUnsqueeze
| OTranspose (perm : option (list nat))
| OReduce (axes : option (list Z)) (keep noop : bool)   (* noop_with_empty_axes: ignored by inference *)
| OMatMul | OGemm (ta tb : bool)
| OConstantOfShape (v : option Z) | ORange
| OPool (ks : list Z) (pads : option (list Z)) (strides : list Z) (ceil : bool)   (* MaxPool, AveragePool *)
| OOther.                                  (* operator without a model *)

(* code version: which SymExpr::range, and whether this group's fix commits are applied *)
Record ver := { v_range : expr -> Z * Z; v_fixed : bool; v_divx : bool }.
Definition infer_with (v : ver) (o : op) (ins : list (option symt)) : ires :=
  let rg := v_range v in let fx := v_fixed v in
  match o with
  | OUnary => infer_unary ins
  | OIdentity => infer_identity ins
  | OCast b => infer_cast b ins
  | ONeg => infer_neg ins
  | OBinary => infer_binary ins
  | OAdd => infer_arith f_add ins
  | OSub => infer_arith f_sub ins
  | OMul => infer_arith f_mul ins
  | ODiv => infer_arith (if v_divx v then f_div_x else f_div) ins
  | OEqual => infer_arith (f_equal rg) ins
  | OWhere => infer_where fx ins
  | OShape s e => infer_shape s e ins
  | OSize => infer_size ins
  | OGather a => infer_gather a ins
  | OConcat a => infer_concat a ins
  | OSqueeze => infer_squeeze fx ins
  | OUnsqueeze => infer_unsqueeze ins
  | OTranspose p => infer_transpose p ins
  | OReduce a k n => infer_reduce fx a k n ins
  | OMatMul => infer_matmul ins
  | OGemm a b => infer_gemm a b ins
  | OConstantOfShape v => infer_constant_of_shape v ins
  | ORange => infer_range ins
  | OPool ks p st c => infer_pool ks p st c ins
  | OOther => IOk []
  end.
Definition ver_fixed : ver := {| v_range := range; v_fixed := true; v_divx := false |}.     (* this group's and C11's fixes *)
Definition ver_fixed_dx : ver := {| v_range := range; v_fixed := true; v_divx := true |}.   (* ... and C01's Div fix *)
Definition ver_nof5 : ver := {| v_range := range_old; v_fixed := true; v_divx := false |}.  (* without the F5 fix of SymExpr::range *)
Definition ver_nof5_dx : ver := {| v_range := range_old; v_fixed := true; v_divx := true |}.
Definition ver_old : ver := {| v_range := range_old; v_fixed := false; v_divx := false |}.  (* unchanged tree *)
Definition infer := infer_with ver_fixed.
Definition infer_old := infer_with ver_old.

(* ================================================================ concrete side *)
(* A concrete tensor: its shape and, for integer tensors of rank <= 1 (the only tensors that
   symbolic VALUES describe), its elements. *)
Record ctensor := { c_shape : list Z; c_data : option (list Z) }.
Definition cscalar (v : Z) : ctensor := {| c_shape := []; c_data := Some [v] |}.
Definition cvector (l : list Z) : ctensor := {| c_shape := [zlen l]; c_data := Some l |}.
Definition cshape (s : list Z) : ctensor := {| c_shape := s; c_data := None |}.

(* --- reference semantics of the modelled operators (Z-valued, minimal) --- *)
Definition bcast_z (x y : Z) : option Z :=
  if x =? y then Some x else if x =? 1 then Some y else if y =? 1 then Some x else None.
Definition pad_z (n : nat) (l : list Z) : list Z := repeat 1 (n - length l) ++ l.
Fixpoint bcast_zs (a b : list Z) : option (list Z) :=
  match a, b with
  | x :: ra, y :: rb => match bcast_z x y, bcast_zs ra rb with
                        | Some d, Some r => Some (d :: r)
                        | _, _ => None
                        end
  | _, _ => Some []
  end.
Definition bcast_shapes (a b : list Z) : option (list Z) :=
  let n := Nat.max (length a) (length b) in bcast_zs (pad_z n a) (pad_z n b).

(* elementwise binary function on rank<=1 integer data with broadcasting; None = the kernel
   fails (panic/error) *)
Fixpoint zip_with (f : Z -> Z -> option Z) (a b : list Z) : option (list Z) :=
  match a, b with
  | x :: ra, y :: rb => match f x y, zip_with f ra rb with
                        | Some v, Some r => Some (v :: r)
                        | _, _ => None
                        end
  | _, _ => Some []
  end.
Fixpoint omapz (f : Z -> option Z) (l : list Z) : option (list Z) :=
  match l with
  | [] => Some []
  | x :: r => match f x, omapz f r with Some v, Some rr => Some (v :: rr) | _, _ => None end
  end.
Definition bcast_data (f : Z -> Z -> option Z) (sa sb : list Z) (a b : list Z) : option (list Z) :=
  match sa, sb with
  | [], _ => match a with [x] => omapz (fun y => f x y) b | _ => None end
  | _, [] => match b with [y] => omapz (fun x => f x y) a | _ => None end
  | _, _ => match a, b with
            | [x], _ => omapz (fun y => f x y) b
            | _, [y] => omapz (fun x => f x y) a
            | _, _ => zip_with f a b
            end
  end.
Definition exec_elementwise (f : Z -> Z -> option Z) (a b : ctensor) : option (list ctensor) :=
  match bcast_shapes (c_shape a) (c_shape b) with
  | None => None
  | Some s =>
      match c_data a, c_data b with
      | Some da, Some db =>
          if Nat.leb (length s) 1 then
            match bcast_data f (c_shape a) (c_shape b) da db with
            | Some d => Some [{| c_shape := s; c_data := Some d |}]
            | None => None
            end
          else Some [cshape s]
      | _, _ => Some [cshape s]
      end
  end.
Definition z_add (x y : Z) := Some (wrap32 (x + y)).
Definition z_sub (x y : Z) := Some (wrap32 (x - y)).
Definition z_mul (x y : Z) := Some (wrap32 (x * y)).
Definition z_div (x y : Z) := if (y =? 0) || div_ovf x y then None else Some (Z.quot x y).
Definition z_eq (x y : Z) := Some (if x =? y then 1 else 0).

Definition cin (ins : list (option ctensor)) (i : nat) : option ctensor :=
  match nth_error ins i with Some (Some t) => Some t | _ => None end.

Definition exec_where (c x y : ctensor) : option (list ctensor) :=
  match bcast_shapes (c_shape c) (c_shape x) with
  | None => None
  | Some s1 =>
      match bcast_shapes s1 (c_shape y) with
      | None => None
      | Some s =>
          match c_data c, c_data x, c_data y with
          | Some dc, Some dx, Some dy =>
              if Nat.leb (length s) 1 then
                let n := match s with [k] => Z.to_nat k | _ => 1%nat end in
                let pick l := match l with [] => [] | _ => cycle_take 0 l n 0 end in
                let cs := pick dc in let xs := pick dx in let ys := pick dy in
                Some [{| c_shape := s;
                         c_data := Some (map (fun t => match t with (cv, (xv, yv)) =>
                                                if cv =? 0 then yv else xv end)
                                             (combine cs (combine xs ys))) |}]
              else Some [cshape s]
          | _, _, _ => Some [cshape s]
          end
      end
  end.

Fixpoint zprod (l : list Z) : Z := match l with [] => 1 | x :: r => x * zprod r end.

Definition exec_gather (axis : Z) (data idx : ctensor) : option (list ctensor) :=
  match resolve_axis (length (c_shape data)) axis with
  | None => None
  | Some ax =>
      let s := firstn ax (c_shape data) ++ c_shape idx ++ skipn (S ax) (c_shape data) in
      match c_data data, c_data idx, c_shape data with
      | Some vals, Some is_, [n] =>
          (* rank-1 integer data: elements are gathered; indices must be in [-n, n) *)
          match omapz (fun i => match resolve_index n i with
                                | Some k => nth_error vals (Z.to_nat k)
                                | None => None
                                end) is_ with
          | Some d => Some [{| c_shape := s; c_data := Some d |}]
          | None => None
          end
      | _, _, _ => Some [cshape s]
      end
  end.

Fixpoint concat_shapes (ax : nat) (first : list Z) (rest : list ctensor) : option (list Z) :=
  match rest with
  | [] => Some first
  | t :: r =>
      let s := c_shape t in
      if Nat.eqb (length s) (length first) then
        match nth_error first ax, nth_error s ax with
        | Some d0, Some d =>
            if forallb (fun p => match p with (i, (x, y)) => Nat.eqb i ax || (x =? y) end)
                       (combine (seq 0 (length first)) (combine first s))
            then concat_shapes ax (set_nth first ax (d0 + d)) r
            else None
        | _, _ => None
        end
      else None
  end.
Fixpoint concat_data (ts : list ctensor) : option (list Z) :=
  match ts with
  | [] => Some []
  | t :: r => match c_data t, concat_data r with Some d, Some ds => Some (d ++ ds) | _, _ => None end
  end.
Fixpoint call_present (ins : list (option ctensor)) : option (list ctensor) :=
  match ins with
  | [] => Some []
  | Some t :: r => match call_present r with Some l => Some (t :: l) | None => None end
  | None :: _ => None
  end.
Definition exec_concat (axis : Z) (ins : list (option ctensor)) : option (list ctensor) :=
  match call_present ins with
  | Some (first :: rest) =>
      match resolve_axis (length (c_shape first)) axis with
      | None => None
      | Some ax =>
          match concat_shapes ax (c_shape first) rest with
          | None => None
          | Some s =>
              match s, concat_data (first :: rest) with
              | [_], Some d => Some [{| c_shape := s; c_data := Some d |}]
              | _, _ => Some [cshape s]
              end
          end
      end
  | _ => None
  end.

Definition keep_data (s : list Z) (d : option (list Z)) : ctensor :=
  if Nat.leb (length s) 1 then {| c_shape := s; c_data := d |} else cshape s.

Fixpoint zremove_axes (l : list Z) (axes : list nat) (i : nat) : option (list Z) :=
  match l with
  | [] => Some []
  | x :: r =>
      if existsb (Nat.eqb i) axes
      then (if x =? 1 then zremove_axes r axes (S i) else None)
      else match zremove_axes r axes (S i) with Some rr => Some (x :: rr) | None => None end
  end.
Definition exec_squeeze (data : ctensor) (axes : option ctensor) : option (list ctensor) :=
  match axes with
  | None => Some [keep_data (filter (fun d => negb (d =? 1)) (c_shape data)) (c_data data)]
  | Some a =>
      match c_data a with
      | Some l =>
          match resolve_axes (length (c_shape data)) l with
          | Some ax => match zremove_axes (c_shape data) ax 0 with
                       | Some s => Some [keep_data s (c_data data)]
                       | None => None
                       end
          | None => None
          end
      | None => None
      end
  end.
Fixpoint zinsert_ones (dims : list Z) (axes : list nat) : option (list Z) :=
  match axes with
  | [] => Some dims
  | a :: r => if Nat.leb a (length dims)
              then zinsert_ones (firstn a dims ++ 1 :: skipn a dims) r else None
  end.
Fixpoint nodup_sorted (l : list nat) : bool :=
  match l with
  | x :: ((y :: _) as r) => negb (Nat.eqb x y) && nodup_sorted r
  | _ => true
  end.
Definition exec_unsqueeze (data axes : ctensor) : option (list ctensor) :=
  match c_data axes with
  | Some l =>
      match resolve_axes (length (c_shape data) + length l) l with
      | Some ax =>
          let sa := sort_nat ax in
          if nodup_sorted sa then
            match zinsert_ones (c_shape data) sa with
            | Some s => Some [keep_data s (c_data data)]
            | None => None
            end
          else None
      | None => None
      end
  | None => None
  end.

Fixpoint zpermute (dims : list Z) (perm : list nat) : option (list Z) :=
  match perm with
  | [] => Some []
  | p :: r => match nth_error dims p, zpermute dims r with
              | Some d, Some rr => Some (d :: rr)
              | _, _ => None
              end
  end.
Fixpoint zreduce_dims (dims : list Z) (axes : list nat) (keep : bool) (i : nat) : list Z :=
  match dims with
  | [] => []
  | d :: r =>
      if existsb (Nat.eqb i) axes
      then (if keep then 1 :: zreduce_dims r axes keep (S i) else zreduce_dims r axes keep (S i))
      else d :: zreduce_dims r axes keep (S i)
  end.

Definition exec_ref (o : op) (ins : list (option ctensor)) : option (list ctensor) :=
  match o with
  | OUnary => match cin ins 0 with Some t => Some [cshape (c_shape t)] | None => None end
  | OIdentity => match cin ins 0 with Some t => Some [t] | None => None end
  | OCast true => match cin ins 0 with Some t => Some [t] | None => None end
  | OCast false => match cin ins 0 with Some t => Some [cshape (c_shape t)] | None => None end
  | ONeg => match cin ins 0 with
            | Some t => Some [{| c_shape := c_shape t;
                                 c_data := match c_data t with
                                           | Some d => Some (map (fun x => wrap32 (- x)) d)
                                           | None => None
                                           end |}]
            | None => None
            end
  | OBinary => match cin ins 0, cin ins 1 with
               | Some a, Some b => match bcast_shapes (c_shape a) (c_shape b) with
                                   | Some s => Some [cshape s]
                                   | None => None
                                   end
               | _, _ => None
               end
  | OAdd => match cin ins 0, cin ins 1 with Some a, Some b => exec_elementwise z_add a b | _, _ => None end
  | OSub => match cin ins 0, cin ins 1 with Some a, Some b => exec_elementwise z_sub a b | _, _ => None end
  | OMul => match cin ins 0, cin ins 1 with Some a, Some b => exec_elementwise z_mul a b | _, _ => None end
  | ODiv => match cin ins 0, cin ins 1 with Some a, Some b => exec_elementwise z_div a b | _, _ => None end
  | OEqual => match cin ins 0, cin ins 1 with Some a, Some b => exec_elementwise z_eq a b | _, _ => None end
  | OWhere => match cin ins 0, cin ins 1, cin ins 2 with
              | Some c, Some x, Some y => exec_where c x y
              | _, _, _ => None
              end
  | OShape st en =>
      match cin ins 0 with
      | Some t => let (s, e) := shape_range st en (zlen (c_shape t)) in
                  Some [cvector (slice_list (c_shape t) s e)]
      | None => None
      end
  | OSize => match cin ins 0 with Some t => Some [cscalar (zprod (c_shape t))] | None => None end
  | OGather a => match cin ins 0, cin ins 1 with
                 | Some d, Some i => exec_gather a d i
                 | _, _ => None
                 end
  | OConcat a => exec_concat a ins
  | OSqueeze => match cin ins 0 with
                | Some d => match nth_error ins 1 with
                            | Some (Some a) => exec_squeeze d (Some a)
                            | _ => exec_squeeze d None
                            end
                | None => None
                end
  | OUnsqueeze => match cin ins 0, cin ins 1 with
                  | Some d, Some a => exec_unsqueeze d a
                  | _, _ => None
                  end
  | OTranspose p =>
      match cin ins 0 with
      | Some t =>
          match p with
          | Some perm =>
              if Nat.eqb (length perm) (length (c_shape t)) then
                match zpermute (c_shape t) perm with
                | Some s => Some [cshape s]
                | None => None
                end
              else None
          | None => Some [cshape (rev (c_shape t))]
          end
      | None => None
      end
  | OReduce axes keep noop =>
      match cin ins 0 with
      | Some t =>
          let nd := length (c_shape t) in
          (* the axes input overrides the attribute; an absent or EMPTY list means "all axes",
             unless noop_with_empty_axes is set, in which case nothing is reduced *)
          let given := match nth_error ins 1 with
                       | Some (Some a) => match c_data a with Some l => Some (Some l) | None => None end
                       | _ => Some axes
                       end in
          match given with
          | None => None
          | Some g =>
              let ax := match g with
                        | Some ((_ :: _) as l) => resolve_axes nd l
                        | _ => if noop then Some [] else Some (seq 0 nd)
                        end in
              match ax with
              | Some ax => Some [cshape (zreduce_dims (c_shape t) ax keep 0)]
              | None => None
              end
          end
      | None => None
      end
  | OMatMul =>
      match cin ins 0, cin ins 1 with
      | Some a, Some b =>
          let sa := c_shape a in let sb := c_shape b in
          let na := length sa in let nb := length sb in
          if (Nat.ltb na 2) || (Nat.ltb nb 2) then None   (* vector operands: not modelled *)
          else
            match bcast_shapes (firstn (na - 2) sa) (firstn (nb - 2) sb),
                  nth_error sa (na - 2), nth_error sa (na - 1),
                  nth_error sb (nb - 2), nth_error sb (nb - 1) with
            | Some batch, Some m, Some k1, Some k2, Some n =>
                if k1 =? k2 then Some [cshape (batch ++ [m; n])] else None
            | _, _, _, _, _ => None
            end
      | _, _ => None
      end
  | OGemm ta tb =>
      match cin ins 0, cin ins 1 with
      | Some a, Some b =>
          match c_shape a, c_shape b with
          | [a0; a1], [b0; b1] =>
              let m := if ta then a1 else a0 in let ka := if ta then a0 else a1 in
              let kb := if tb then b1 else b0 in let n := if tb then b0 else b1 in
              if ka =? kb then Some [cshape [m; n]] else None
          | _, _ => None
          end
      | _, _ => None
      end
  | OConstantOfShape v =>
      match cin ins 0 with
      | Some s =>
          match c_data s, c_shape s with
          | Some dims, [_] =>
              if forallb (fun d => 0 <=? d) dims then
                match v, dims with
                | Some val, [] => Some [cscalar val]
                | Some val, [n] => Some [cvector (repeat val (Z.to_nat n))]
                | _, _ => Some [cshape dims]
                end
              else None
          | _, _ => None
          end
      | None => None
      end
  | ORange =>
      match cin ins 0, cin ins 1, cin ins 2 with
      | Some s, Some l, Some d =>
          match c_data s, c_data l, c_data d with
          | Some [st], Some [li], Some [de] =>
              if de =? 0 then None
              else
                let span := if 0 <? de then li - st else st - li in
                let step := Z.abs de in
                let len := Z.max (Z.quot (span + step - 1) step) 0 in
                if len <=? max_range_values
                then Some [cvector (map (fun i => st + Z.of_nat i * de) (seq 0 (Z.to_nat len)))]
                else Some [cshape [len]]
          | _, _, _ => None
          end
      | _, _, _ => None
      end
  | OPool ks pads st ceil =>
      (* reference: NCHW input with explicit pads (auto_pad is outside the reference's domain, see
         ref_total); follows the execution with the fix of finding F82 *)
      match cin ins 0, pads with
      | Some t, Some [ph0; pw0; ph1; pw1] =>
          match c_shape t, ks, st with
          | [n; c; h; w], [kh; kw], [sh; sw] =>
              match pool_exec_z true h kh sh 1 ph0 ph1 ceil, pool_exec_z true w kw sw 1 pw0 pw1 ceil with
              | Some oh, Some ow => Some [cshape [n; c; oh; ow]]
              | _, _ => None
              end
          | _, _, _ => None
          end
      | _, _ => None
      end
  | OOther => None
  end.

(* ================================================== consistency and the claims *)
Fixpoint has_synth (e : expr) : bool :=
  match e with
  | Value _ => false
  | Var id _ => (synth_base <=? id)%N
  | Neg a => has_synth a
  | Add a b | Sub a b | Mul a b | Div a b | DivCeil a b | Max a b | Min a b | Broadcast a b =>
      has_synth a || has_synth b
  end.

Definition res_is (r : res) (v : Z) : bool := match r with Ok z => z =? v | _ => false end.

(* one input expression is consistent with the concrete value v under s: it evaluates to v
   (overflow-checked evaluation) and the documented preconditions of the expression language
   hold (positive symbols are >= 0, Broadcast operands are compatible) *)
Definition expr_cons (s : env) (e : expr) (v : Z) : bool :=
  res_is (eval s e) v && pos_ok s e && bcast_ok s e.
Fixpoint all2 {A B} (f : A -> B -> bool) (a : list A) (b : list B) : bool :=
  match a, b with
  | [], [] => true
  | x :: ra, y :: rb => f x y && all2 f ra rb
  | _, _ => false
  end.
Definition zlist_eqb (a b : list Z) : bool := all2 Z.eqb a b.

Definition consistent (s : env) (t : symt) (c : ctensor) : bool :=
  match t with
  | TScalar e => match c_shape c, c_data c with
                 | [], Some [v] => expr_cons s e v
                 | _, _ => false
                 end
  | TVector l => match c_shape c, c_data c with
                 | [n], Some vs => (n =? zlen l) && in_i32 n && all2 (expr_cons s) l vs
                 | _, _ => false
                 end
  | TShape l => all2 (expr_cons s) l (c_shape c) && forallb (fun d => 0 <=? d) (c_shape c)
  | TUnknown => true
  end.
Definition consistent_in (s : env) (t : option symt) (c : option ctensor) : bool :=
  match t, c with
  | Some t, Some c => consistent s t c
  | None, None => true
  | _, _ => false
  end.

(* a claim made by inference about one output number: an expression without generated
   symbols must evaluate (i32 arithmetic of a release build) to the executed number *)
Definition claim (s : env) (e : expr) (v : Z) : bool :=
  has_synth e || res_is (evalw s e) v.
Definition claims (s : env) (t : symt) (c : ctensor) : bool :=
  match t with
  | TScalar e => match c_shape c, c_data c with
                 | [], Some [v] => claim s e v
                 | _, _ => false
                 end
  | TVector l => match c_shape c, c_data c with
                 | [n], Some vs => (n =? zlen l) && all2 (claim s) l vs
                 | _, _ => false
                 end
  | TShape l => all2 (claim s) l (c_shape c)          (* includes: rank is exact *)
  | TUnknown => true
  end.
(* outputs are matched positionally, as the graph driver does (`output_ids.zip(out_shapes)`);
   inference may describe more or fewer outputs than were requested from the operator *)
Fixpoint claims_all (s : env) (ts : list symt) (cs : list ctensor) : bool :=
  match ts, cs with
  | t :: rt, c :: rc => claims s t c && claims_all s rt rc
  | _, _ => true
  end.

(* ================================================== correspondence cases *)
(* One instantiation: assignment, concrete inputs, executed outputs (None = execution failed) *)
Record inst := { i_env : list (N * Z); i_in : list (option ctensor); i_out : option (list ctensor) }.
(* One case: operator, symbolic inputs, the IMPLEMENTATION's inference result, instantiations.
   c_modelled = the operator has a model (c_op <> OOther). *)
Record case := { c_name : string; c_op : op; c_in : list (option symt); c_res : ires; c_insts : list inst }.
Definition named (c : case) (n : string) : bool := String.eqb (c_name c) n.

Definition symt_same (a b : symt) : bool :=
  match a, b with
  | TScalar x, TScalar y => expr_same x y
  | TVector x, TVector y | TShape x, TShape y => all2 expr_same x y
  | TUnknown, TUnknown => true
  | _, _ => false
  end.
Definition ierr_eqb (a b : ierr) : bool :=
  match a, b with
  | EInputCount, EInputCount | EIncompatible, EIncompatible | ERank, ERank
  | EInvalid, EInvalid | EUnknownOutputs, EUnknownOutputs => true
  | _, _ => false
  end.
Definition ires_same (a b : ires) : bool :=
  match a, b with
  | IOk x, IOk y => all2 symt_same x y
  | IErr x, IErr y => ierr_eqb x y
  | IPanic, IPanic => true
  | _, _ => false
  end.

Definition odata_eqb (a b : option (list Z)) : bool :=
  match a, b with
  | Some x, Some y => zlist_eqb x y
  | None, _ => true            (* the reference does not track data of this tensor *)
  | Some _, None => false
  end.
Definition ctensor_agrees (ref impl : ctensor) : bool :=
  zlist_eqb (c_shape ref) (c_shape impl) && odata_eqb (c_data ref) (c_data impl).

Definition is_other (o : op) : bool := match o with OOther => true | _ => false end.

(* inputs on which the reference semantics is meant to be complete (outside: only the
   implication "reference says Some => implementation agrees" is checked) *)
Definition ref_total (o : op) (ins : list (option ctensor)) : bool :=
  match o with
  | OMatMul => match cin ins 0, cin ins 1 with
               | Some a, Some b => Nat.leb 2 (length (c_shape a)) && Nat.leb 2 (length (c_shape b))
               | _, _ => true
               end
  | OPool _ _ _ _ => false    (* the reference covers explicit pads on NCHW inputs only; and before the fix
                                of F82 the execution differs for end paddings larger than the kernel *)
  | _ => true
  end.

Definition inst_consistent (c : case) (i : inst) : bool :=
  all2 (consistent_in (env_of_list (i_env i))) (c_in c) (i_in i).

(* model = implementation: same inference result; every instantiation is consistent with the
   symbolic inputs (harness sanity); whenever the real operator ran successfully the reference
   semantics gives the same shape (and data where tracked) *)
Definition agree_with (v : ver) (c : case) : bool :=
  (is_other (c_op c) || ires_same (infer_with v (c_op c) (c_in c)) (c_res c)) &&
  forallb (fun i =>
     inst_consistent c i &&
     (is_other (c_op c) ||
      match i_out i with
      | Some outs => match exec_ref (c_op c) (i_in i) with
                     | Some r => all2 ctensor_agrees r outs
                     | None => negb (ref_total (c_op c) (i_in i))
                     end
      | None => true
      end)) (c_insts c).
Definition agree := agree_with ver_fixed.
Definition agree_dx := agree_with ver_fixed_dx.
Definition agree_nof5 := agree_with ver_nof5.
Definition agree_nof5_dx := agree_with ver_nof5_dx.
Definition agree_old := agree_with ver_old.

(* the property oracle, on the implementation's outputs only *)
Definition prop_inst (c : case) (outs : list symt) (i : inst) : bool :=
  match i_out i with
  | Some couts => negb (inst_consistent c i) || claims_all (env_of_list (i_env i)) outs couts
  | None => true
  end.
Definition prop_ok (c : case) : bool :=
  match c_res c with
  | IOk outs => forallb (prop_inst c outs) (c_insts c)
  | _ => true
  end.

Definition show (c : case) :=
  (infer (c_op c) (c_in c),
   map (fun i => (inst_consistent c i, exec_ref (c_op c) (i_in i),
                  match c_res c with IOk outs => Some (prop_inst c outs i) | _ => None end))
       (c_insts c)).

(* ================================================== recorded known findings
   Instantiation-level (or output-level) description of the classes recorded in
   known_findings.json.  prop_ok_excl skips exactly these; any other failure of the property
   oracle is still reported as a violation by the check.
     F70  Broadcast(x, y) evaluates to max(x, y): wrong for a 0-sized against a 1-sized dim
     F73  Range with symbolic start/limit: a negative element count is not clamped to 0
     F75  Slice with symbolic start/end: `min(end, size) - min(start, size)` assumes start <= end
     F76  SkipLayerNormalization: the unused outputs are inferred as shape [0], executed as scalars
     F82  MaxPool/AveragePool with ceil_mode and an end padding larger than the kernel: execution
          removed only ONE trailing position that starts beyond the input (inference removes all);
          the harness names such cases "Pool:pad_end>kernel"
     F78  Reshape: a symbolic element of the shape input that evaluates to 0 (copy) or -1 (infer)
          at run time is inferred as an ordinary size
     F5   Equal folds to a constant from SymExpr::range (only while the F5 fix is not applied)  *)
Fixpoint e_has (k : expr -> bool) (e : expr) : bool :=
  k e ||
  match e with
  | Neg a => e_has k a
  | Add a b | Sub a b | Mul a b | Div a b | DivCeil a b | Max a b | Min a b | Broadcast a b =>
      e_has k a || e_has k b
  | _ => false
  end.
Definition is_bc (e : expr) : bool := match e with Broadcast _ _ => true | _ => false end.
Definition is_min (e : expr) : bool := match e with Min _ _ => true | _ => false end.
Definition t_exprs (t : symt) : list expr :=
  match t with TScalar e => [e] | TVector l | TShape l => l | TUnknown => [] end.
Definition outs_have (k : expr -> bool) (outs : list symt) : bool :=
  existsb (fun t => existsb (e_has k) (t_exprs t)) outs.
Definition has_zero_dim (cs : list ctensor) : bool :=
  existsb (fun c => existsb (Z.eqb 0) (c_shape c)) cs.
Definition present {A} (l : list (option A)) : list A :=
  flat_map (fun o => match o with Some x => [x] | None => [] end) l.
Definition out_zero_dim (i : inst) : bool :=
  match i_out i with Some os => has_zero_dim os | None => false end.

Definition kn_F70 (c : case) (outs : list symt) (i : inst) : bool :=
  outs_have is_bc outs && has_zero_dim (present (i_in i)).
Definition kn_F73 (c : case) (outs : list symt) (i : inst) : bool :=
  match c_op c, outs with
  | ORange, [TShape [e]] => negb (is_value e) && out_zero_dim i
  | _, _ => false
  end.
Definition kn_F75 (c : case) (outs : list symt) (i : inst) : bool :=
  named c "Slice" && outs_have is_min outs && out_zero_dim i.
(* some symbolic (non-constant) element of a value-carrying input is 0 or -1 in this instantiation *)
Fixpoint sym_special (l : list expr) (vs : list Z) : bool :=
  match l, vs with
  | e :: rl, v :: rv => (negb (is_value e) && ((v =? 0) || (v =? -1))) || sym_special rl rv
  | _, _ => false
  end.
Definition kn_F78 (c : case) (outs : list symt) (i : inst) : bool :=
  named c "Reshape" &&
  existsb (fun p => match p with
                    | (Some (TVector l), Some ct) => match c_data ct with Some vs => sym_special l vs | None => false end
                    | _ => false
                    end) (combine (c_in c) (i_in i)).
Definition kn_F82 (c : case) (outs : list symt) (i : inst) : bool := named c "Pool:pad_end>kernel".
Definition kn_F5 (c : case) (outs : list symt) (i : inst) : bool :=
  match c_op c with OEqual => true | _ => false end.
(* F76 is per output *)
Definition kn_F76_out (t : symt) (o : ctensor) : bool :=
  match t, c_shape o with TShape [Value 0], [] => true | _, _ => false end.
Fixpoint claims_all_x (f76 : bool) (s : env) (ts : list symt) (cs : list ctensor) : bool :=
  match ts, cs with
  | t :: rt, c :: rc => ((f76 && kn_F76_out t c) || claims s t c) && claims_all_x f76 s rt rc
  | _, _ => true
  end.
Definition is_skipln (c : case) : bool :=
  named c "SkipLayerNormalization" || named c "SkipSimplifiedLayerNormalization".

(* does instantiation i violate the oracle (outputs of class F76 ignored when f76)? *)
Definition inst_fails (f76 : bool) (c : case) (outs : list symt) (i : inst) : bool :=
  match i_out i with
  | Some couts => inst_consistent c i &&
                  negb (claims_all_x (f76 && is_skipln c) (env_of_list (i_env i)) outs couts)
  | None => false
  end.
(* k..: which classes are recorded as KNOWN (status "known" in known_findings.json); a class
   that is not recorded is not excluded *)
Definition prop_ok_excl_k (k70 k73 k75 k76 k78 k5 k82 : bool) (c : case) : bool :=
  match c_res c with
  | IOk outs =>
      forallb (fun i => negb (inst_fails k76 c outs i) ||
                        (k70 && kn_F70 c outs i) || (k73 && kn_F73 c outs i) || (k75 && kn_F75 c outs i) ||
                        (k78 && kn_F78 c outs i) || (k5 && kn_F5 c outs i) || (k82 && kn_F82 c outs i)) (c_insts c)
  | _ => true
  end.
Definition prop_ok_excl := prop_ok_excl_k true true true true true false true.
Definition prop_ok_excl_f5 := prop_ok_excl_k true true true true true true true.
(* hit_X c = false  <->  some failing instantiation of c is in class X (for the report) *)
Definition nohit (k : case -> list symt -> inst -> bool) (c : case) : bool :=
  match c_res c with
  | IOk outs => negb (existsb (fun i => inst_fails true c outs i && k c outs i) (c_insts c))
  | _ => true
  end.
Definition nohit_F70 := nohit kn_F70.
Definition nohit_F73 := nohit kn_F73.
Definition nohit_F75 := nohit kn_F75.
Definition nohit_F78 := nohit kn_F78.
Definition nohit_F82 := nohit kn_F82.
Definition nohit_F5 := nohit kn_F5.
Definition nohit_F76 (c : case) : bool :=
  match c_res c with
  | IOk outs => negb (existsb (fun i => inst_fails false c outs i && negb (inst_fails true c outs i))
                              (c_insts c))
  | _ => true
  end.
