(* Basic lemmas for the soundness proofs of the shape-inference model (C10). *)
From Coq Require Import String.
From RV Require Import Prelude.
From SymExpr Require Import SymExprModel SymExpr_base SymExpr_sem SymExpr_range.
From ShapeInfer Require Import ShapeInferModel.
Open Scope Z_scope.

(* ------------------------------------------------------------------ all2 *)
Lemma all2_length {A B} (f : A -> B -> bool) a b : all2 f a b = true -> length a = length b.
Proof.
  revert b; induction a as [|x a IH]; intros [|y b] H; cbn [all2] in H; try discriminate; auto.
  apply andb_prop in H as [_ H]. cbn [length]. f_equal. auto.
Qed.

Lemma all2_imp {A B} (f g : A -> B -> bool) a b :
  (forall x y, In x a -> f x y = true -> g x y = true) -> all2 f a b = true -> all2 g a b = true.
Proof.
  revert b; induction a as [|x a IH]; intros [|y b] Hi H; cbn [all2] in *; try discriminate; auto.
  apply andb_prop in H as [H1 H2]. rewrite (Hi x y (or_introl eq_refl) H1). cbn [andb].
  apply IH; auto. intros. apply Hi; auto. right; auto.
Qed.

Lemma all2_app {A B} (f : A -> B -> bool) a1 a2 b1 b2 :
  all2 f a1 b1 = true -> all2 f a2 b2 = true -> all2 f (a1 ++ a2) (b1 ++ b2) = true.
Proof.
  revert b1; induction a1 as [|x a IH]; intros [|y b] H1 H2; cbn [all2 app] in *; try discriminate; auto.
  apply andb_prop in H1 as [H1 H3]. rewrite H1. cbn [andb]. auto.
Qed.

Lemma all2_firstn {A B} (f : A -> B -> bool) n a b :
  all2 f a b = true -> all2 f (firstn n a) (firstn n b) = true.
Proof.
  revert a b; induction n as [|n IH]; intros [|x a] [|y b] H; cbn [firstn all2] in *; try discriminate; auto.
  apply andb_prop in H as [H1 H2]. rewrite H1. cbn [andb]. auto.
Qed.

Lemma all2_skipn {A B} (f : A -> B -> bool) n a b :
  all2 f a b = true -> all2 f (skipn n a) (skipn n b) = true.
Proof.
  revert a b; induction n as [|n IH]; intros [|x a] [|y b] H; cbn [skipn all2] in *; try discriminate; auto.
  apply andb_prop in H as [H1 H2]. auto.
Qed.

Lemma all2_rev {A B} (f : A -> B -> bool) a b :
  all2 f a b = true -> all2 f (rev a) (rev b) = true.
Proof.
  revert b; induction a as [|x a IH]; intros [|y b] H; cbn [all2 rev] in *; try discriminate; auto.
  apply andb_prop in H as [H1 H2]. apply all2_app; auto. cbn [all2]. rewrite H1. reflexivity.
Qed.

Lemma all2_nth {A B} (f : A -> B -> bool) a b i x :
  all2 f a b = true -> nth_error a i = Some x -> exists y, nth_error b i = Some y /\ f x y = true.
Proof.
  revert b i; induction a as [|x0 a IH]; intros [|y b] i H Hn; cbn [all2] in H; try discriminate.
  - destruct i; discriminate.
  - apply andb_prop in H as [H1 H2]. destruct i as [|i]; cbn [nth_error] in *.
    + inversion Hn; subst. eauto.
    + eauto.
Qed.

Lemma all2_nth_r {A B} (f : A -> B -> bool) a b i y :
  all2 f a b = true -> nth_error b i = Some y -> exists x, nth_error a i = Some x /\ f x y = true.
Proof.
  revert b i; induction a as [|x0 a IH]; intros [|y0 b] i H Hn; cbn [all2] in H; try discriminate.
  - destruct i; discriminate.
  - apply andb_prop in H as [H1 H2]. destruct i as [|i]; cbn [nth_error] in *.
    + inversion Hn; subst. eauto.
    + eauto.
Qed.

Lemma all2_repeat {A B} (f : A -> B -> bool) x y n :
  f x y = true -> all2 f (repeat x n) (repeat y n) = true.
Proof. intros H. induction n; cbn [repeat all2]; auto. rewrite H. auto. Qed.

Lemma all2_set_nth {A B} (f : A -> B -> bool) a b i x y :
  all2 f a b = true -> f x y = true -> all2 f (set_nth a i x) (set_nth b i y) = true.
Proof.
  revert b i; induction a as [|x0 a IH]; intros [|y0 b] i H Hf; cbn [all2 set_nth] in *; try discriminate; auto.
  apply andb_prop in H as [H1 H2]. destruct i; cbn [all2]; [rewrite Hf|rewrite H1]; cbn [andb]; auto.
Qed.

(* ------------------------------------------------------------- evaluation *)
Lemma res_is_ok r v : res_is r v = true <-> r = Ok v.
Proof.
  destruct r; cbn [res_is]; split; intros H; try discriminate.
  - apply Z.eqb_eq in H. subst. reflexivity.
  - inversion H. apply Z.eqb_refl.
Qed.

Lemma expr_cons_spec s e v :
  expr_cons s e v = true <-> eval s e = Ok v /\ pos_ok s e = true /\ bcast_ok s e = true.
Proof.
  unfold expr_cons. rewrite !andb_true_iff, res_is_ok. tauto.
Qed.

Lemma expr_cons_evalw s e v : expr_cons s e v = true -> evalw s e = Ok v.
Proof. intros H. apply expr_cons_spec in H as (H & _ & _). apply eval_evalw. exact H. Qed.

Lemma claim_of_evalw s e v : evalw s e = Ok v -> claim s e v = true.
Proof. intros H. unfold claim. rewrite H. cbn [res_is]. rewrite Z.eqb_refl. apply orb_true_r. Qed.

Lemma claim_of_cons s e v : expr_cons s e v = true -> claim s e v = true.
Proof. intros H. apply claim_of_evalw, expr_cons_evalw, H. Qed.

Lemma all2_claim_of_cons s l vs : all2 (expr_cons s) l vs = true -> all2 (claim s) l vs = true.
Proof. apply all2_imp. intros. apply claim_of_cons; auto. Qed.

Lemma expr_cons_value s z v : expr_cons s (Value z) v = true -> z = v /\ in_i32 z = true.
Proof.
  intros H. apply expr_cons_spec in H as (H & _ & _). unfold eval in H. cbn [evalm] in H.
  destruct (in_i32 z) eqn:E; [|discriminate]. inversion H. auto.
Qed.

Lemma expr_cons_value_intro s z : in_i32 z = true -> expr_cons s (Value z) z = true.
Proof.
  intros H. apply expr_cons_spec. unfold eval. cbn [evalm pos_ok bcast_ok]. rewrite H. auto.
Qed.

Lemma claim_value s z : in_i32 z = true -> claim s (Value z) z = true.
Proof. intros H. apply claim_of_cons, expr_cons_value_intro, H. Qed.

(* constants among consistent values are the concrete values *)
Lemma all_values_cons s l zs vs :
  all_values l = Some zs -> all2 (expr_cons s) l vs = true -> zs = vs.
Proof.
  revert zs vs; induction l as [|e l IH]; intros zs [|v vs] H C; cbn [all_values all2] in *; try discriminate.
  - inversion H. reflexivity.
  - destruct e; try discriminate. destruct (all_values l) eqn:E; [|discriminate]. inversion H; subst.
    apply andb_prop in C as [C1 C2]. apply expr_cons_value in C1 as [-> _]. f_equal. eauto.
Qed.

(* equal expressions (PartialEq) have equal values *)
Lemma expr_eqb_cons s a b x y :
  expr_eqb a b = true -> expr_cons s a x = true -> expr_cons s b y = true -> x = y.
Proof.
  intros E Ha Hb. apply expr_cons_spec in Ha as (Ha & Pa & Ba). apply expr_cons_spec in Hb as (Hb & Pb & Bb).
  eapply expr_eqb_val; eauto using evalR_of_eval.
Qed.

(* ------------------------------------------------- shapes of consistent tensors *)
Lemma t_shape_cons s t c dims :
  consistent s t c = true -> t_shape t = Some dims ->
  all2 (expr_cons s) dims (c_shape c) = true /\ forallb (fun d => 0 <=? d) (c_shape c) = true.
Proof.
  intros C H. destruct t; cbn [t_shape] in H; inversion H; subst; clear H; cbn [consistent] in C.
  - destruct (c_shape c); [|discriminate]. split; reflexivity.
  - destruct (c_shape c) as [|n [|? ?]]; try discriminate. destruct (c_data c); [|discriminate].
    apply andb_prop in C as [C _]. apply andb_prop in C as [C1 C2]. apply Z.eqb_eq in C1. subst n.
    split.
    + cbn [all2]. rewrite (expr_cons_value_intro _ _ C2). reflexivity.
    + cbn [forallb]. unfold zlen. rewrite andb_true_r. apply Z.leb_le. lia.
  - apply andb_prop in C. exact C.
Qed.

Lemma consistent_in_some s t oc :
  consistent_in s (Some t) oc = true -> exists c, oc = Some c /\ consistent s t c = true.
Proof. destruct oc; cbn [consistent_in]; [eauto|discriminate]. Qed.

Lemma cons_input s ins cins i t :
  all2 (consistent_in s) ins cins = true -> input ins i = Some t ->
  exists c, cin cins i = Some c /\ consistent s t c = true.
Proof.
  intros A H. unfold input in H. destruct (nth_error ins i) as [[t'|]|] eqn:E; try discriminate.
  inversion H; subst. destruct (all2_nth _ _ _ _ _ A E) as (oc & En & Hc).
  apply consistent_in_some in Hc as (c & -> & Hc). exists c. unfold cin. rewrite En. auto.
Qed.

Lemma cons_input_none s ins cins i :
  all2 (consistent_in s) ins cins = true -> input ins i = None -> cin cins i = None.
Proof.
  intros A H. unfold input in H. unfold cin.
  destruct (nth_error cins i) as [[c|]|] eqn:E; auto.
  destruct (all2_nth_r _ _ _ _ _ A E) as (ot & En & Hc). rewrite En in H.
  destruct ot; [discriminate|]. cbn [consistent_in] in Hc. discriminate.
Qed.

Lemma unary_claims s t c c' :
  consistent s t c = true -> c_shape c' = c_shape c -> claims s (unary_shape t) c' = true.
Proof.
  intros C Hs. unfold unary_shape. destruct (t_shape t) as [dims|] eqn:E; [|reflexivity].
  destruct (t_shape_cons _ _ _ _ C E) as [H _]. cbn [claims]. rewrite Hs. apply all2_claim_of_cons, H.
Qed.

Lemma consistent_claims s t c : consistent s t c = true -> claims s t c = true.
Proof.
  intros C. destruct t; cbn [consistent claims] in *; auto.
  - destruct (c_shape c); [|discriminate]. destruct (c_data c) as [[|v [|? ?]]|]; try discriminate.
    apply claim_of_cons, C.
  - destruct (c_shape c) as [|n [|? ?]]; try discriminate. destruct (c_data c); [|discriminate].
    apply andb_prop in C as [C C3]. apply andb_prop in C as [C1 C2]. rewrite C1. cbn [andb].
    apply all2_claim_of_cons, C3.
  - apply andb_prop in C as [C _]. apply all2_claim_of_cons, C.
Qed.
